"""./check --setup : build every proof and every harness binary once, offline."""
import os, sys, time
import core

def main(props, load):
    t0 = time.time()
    ctx = core.Ctx('SETUP', 'quick', 1)
    core.translate(ctx)
    ok, out, dt = core.coq_make(ctx, ['-k', 'all'], timeout=7000)
    print('[setup] coq build: %s in %.0fs' % ('ok' if ok else 'FAILED (individual checks will report)', dt))
    if not ok:
        print(out[-3000:])
    by_profile = {}
    for p in props:
        m = load(p).META
        for b in ([m['bin']] if m.get('bin') else []) + list(m.get('extra_bins', [])):
            by_profile.setdefault(m.get('profile', 'dev'), set()).add(b)
        for prof, bins in m.get('more_builds', {}).items():
            by_profile.setdefault(prof, set()).update(bins)
    rc = 0
    for prof, bins in sorted(by_profile.items()):
        ok, out, dt, _ = core.cargo_build(ctx, sorted(bins), prof, True, timeout=7000)
        print('[setup] cargo build (%s) %s: %s in %.0fs' % (prof, ' '.join(sorted(bins)), 'ok' if ok else 'FAILED', dt))
        if not ok:
            print(out[-3000:]); rc = 1
    print('[setup] done in %.0fs' % (time.time() - t0))
    return rc
