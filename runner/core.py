"""Runner core: translator -> Coq build + gates -> harness build/run -> case
evaluation inside Coq -> verdict, replay, evidence.  Python stdlib only."""
import os, sys, re, json, time, subprocess, hashlib, shutil, glob, concurrent.futures

VERIF = os.path.dirname(os.path.dirname(os.path.abspath(__file__)))
COQ = os.path.join(VERIF, 'coq')
CACHE = os.environ.get('VERIF_CACHE', os.path.join(VERIF, '.cache'))
REPO = os.environ.get('VERIF_REPO', '/repo')
TARGET = os.environ.get('VERIF_TARGET_DIR', os.path.join(CACHE, 'target'))
NCPU = int(os.environ.get('VERIF_JOBS', '16'))

# axioms declared by Coq's standard library that may appear under Print Assumptions
STDLIB_AXIOMS = {
    'ClassicalDedekindReals.sig_forall_dec', 'ClassicalDedekindReals.sig_not_dec',
    'FunctionalExtensionality.functional_extensionality_dep', 'functional_extensionality_dep',
    'Classical_Prop.classic', 'classic', 'sig_forall_dec', 'sig_not_dec',
    'ProofIrrelevance.proof_irrelevance', 'proof_irrelevance', 'JMeq.JMeq_eq', 'JMeq_eq',
    'Eqdep.Eq_rect_eq.eq_rect_eq', 'eq_rect_eq', 'PropExtensionality.propositional_extensionality',
    'propositional_extensionality',
}
# primitive declarations (not axioms of ours): native ints/floats
PRIMITIVE_PREFIXES = ('PrimFloat.', 'Uint63.', 'PrimInt63.', 'FloatOps.', 'PrimArray.', 'Sint63.')

FORBIDDEN = re.compile(r'\b(Admitted|admit|Axiom|Axioms|Parameter|Parameters|Conjecture|Conjectures|Abort All)\b|Unset\s+Guard|bypass_check|type-in-type|impredicative-set|Unset\s+Universe\s+Checking|Unset\s+Positivity|Admit\s+Obligations')


def sh(cmd, cwd=None, timeout=None, env=None):
    t0 = time.time()
    try:
        p = subprocess.run(cmd, cwd=cwd, env=env, stdout=subprocess.PIPE, stderr=subprocess.STDOUT,
                           timeout=timeout, shell=isinstance(cmd, str))
        return p.returncode, p.stdout.decode('utf-8', 'replace'), time.time() - t0
    except subprocess.TimeoutExpired as e:
        out = (e.stdout or b'').decode('utf-8', 'replace')
        return 124, out + '\n[timeout after %ss]' % timeout, time.time() - t0


def strip_comments(src):
    out, depth, i = [], 0, 0
    while i < len(src):
        if src.startswith('(*', i):
            depth += 1; i += 2
        elif src.startswith('*)', i) and depth:
            depth -= 1; i += 2
        else:
            if depth == 0:
                out.append(src[i])
            i += 1
    return ''.join(out)


class Ctx:
    def __init__(self, prop, tier, seed):
        self.prop, self.tier, self.seed = prop, tier, seed
        self.t0 = time.time()
        self.work = os.path.join(CACHE, 'work', prop)
        shutil.rmtree(self.work, ignore_errors=True)
        os.makedirs(self.work, exist_ok=True)
        self.log = []
        self.problems = []        # list of dicts {kind, what, detail, found_input(bool), tags}
        self.cov = {}
        self.trusted = []
        self.assumptions = []

    def note(self, *a):
        msg = ' '.join(str(x) for x in a)
        self.log.append(msg)
        print('[%s] %s' % (self.prop, msg), flush=True)

    def problem(self, kind, what, detail=None, found_input=False, tags=()):
        self.problems.append({'kind': kind, 'what': what, 'detail': detail, 'found_input': found_input, 'tags': list(tags)})


# ---------------------------------------------------------------- translator
def translate(ctx):
    sys.path.insert(0, os.path.join(VERIF, 'translator'))
    import consts
    res = consts.run(REPO, os.path.join(COQ, 'Gen'))
    for extra in sorted(glob.glob(os.path.join(VERIF, 'translator', 'gen_*.py'))):
        rc, out, _ = sh([sys.executable, extra, REPO, os.path.join(COQ, 'Gen')], timeout=120)
        if rc != 0:
            ctx.note('translator %s failed: %s' % (os.path.basename(extra), out[-400:]))
    rc, out, _ = sh(['sh', os.path.join(COQ, 'mkproject.sh')], timeout=60)
    if rc != 0:
        ctx.note('mkproject failed', out[-400:])
    return res


# ---------------------------------------------------------------- Coq
def closure(vfile):
    """our .v files that vfile (relative to coq/) transitively requires"""
    seen, todo = [], [vfile]
    while todo:
        f = todo.pop()
        if f in seen:
            continue
        seen.append(f)
        try:
            src = strip_comments(open(os.path.join(COQ, f)).read())
        except OSError:
            continue
        for m in re.finditer(r'From\s+SV\s+Require\s+(?:Import\s+|Export\s+)?((?:[A-Za-z_]\w*(?:\.[A-Za-z_]\w*)*\s*)+)\.(?:\s|$)', src):
            for mod in m.group(1).split():
                todo.append(mod.replace('.', '/') + '.v')
    return seen


def count_obligations(files):
    n, names = 0, []
    for f in files:
        try:
            src = strip_comments(open(os.path.join(COQ, f)).read())
        except OSError:
            continue
        for m in re.finditer(r'(?m)^\s*(?:Local\s+|Global\s+|#\[[^\]]*\]\s*)?(Theorem|Lemma|Corollary|Example|Proposition|Fact|Remark)\s+([A-Za-z_][\w\']*)', src):
            n += 1; names.append(m.group(2))
    return n, names


def coq_make(ctx, targets, timeout=1500):
    rc, out, dt = sh(['make', '-j%d' % NCPU] + targets, cwd=COQ, timeout=timeout)
    return rc == 0, out, dt


def coq_gate(ctx, props_v, allowed_axioms=()):
    """build Props file, grep gate over its closure, Print Assumptions gate.
    returns dict(ok, obligations, discharged, axioms, theorems)"""
    files = closure(props_v)
    res = {'ok': True, 'files': files, 'axioms': [], 'theorems': []}
    # grep gate
    for f in files:
        if f.startswith('Gen/'):
            continue
        try:
            src = strip_comments(open(os.path.join(COQ, f)).read())
        except OSError:
            continue
        m = FORBIDDEN.search(src)
        if m:
            res['ok'] = False
            ctx.problem('proof', 'forbidden construct %r in coq/%s' % (m.group(0), f))
    ok, out, dt = coq_make(ctx, [props_v + 'o'])
    res['make_s'] = round(dt, 1)
    nobl, _ = count_obligations([f for f in files if not f.startswith('Gen/')])
    res['obligations'] = nobl
    if not ok:
        res['ok'] = False
        res['discharged'] = 0
        err = '\n'.join(out.splitlines()[-25:])
        # which file failed
        m = re.search(r'File "\./([^"]+)", line (\d+)', out)
        where = ('coq/%s:%s' % (m.group(1), m.group(2))) if m else 'coq build'
        ctx.problem('proof', 'proof obligation no longer checks at %s' % where, err)
        return res
    res['discharged'] = nobl
    # Print Assumptions gate
    src = strip_comments(open(os.path.join(COQ, props_v)).read())
    thms = re.findall(r'(?m)^\s*Theorem\s+([A-Za-z_][\w\']*)', src)
    res['theorems'] = thms
    mod = props_v[:-2].replace('/', '.')
    adir = os.path.join(ctx.work, 'assum'); os.makedirs(adir, exist_ok=True)
    af = os.path.join(adir, 'Assum_%s.v' % ctx.prop)
    with open(af, 'w') as fh:
        fh.write('From SV Require Import %s.\n' % mod)
        for t in thms:
            fh.write('Print Assumptions %s.\n' % t)
    rc, out, dt = sh(['coqc', '-noglob', '-Q', COQ, 'SV', af], timeout=600)
    if rc != 0:
        res['ok'] = False
        ctx.problem('proof', 'Print Assumptions run failed', out[-800:])
        return res
    axioms = set()
    for line in out.splitlines():
        # entries start in column 0 as `name : type` or, when the type is long, `name` alone on the line
        m = re.match(r'^([A-Za-z_][\w\.\']*)\s*(?::|$)', line)
        if m and m.group(1) not in ('Axioms', 'Closed', 'Fetching', 'Section', 'Variables'):
            axioms.add(m.group(1))
    res['axioms'] = sorted(axioms)
    closed = out.count('Closed under the global context')
    res['closed_theorems'] = closed
    for a in sorted(axioms):
        base = a.split('.')[-1]
        if a in STDLIB_AXIOMS or base in STDLIB_AXIOMS or a in allowed_axioms or a.startswith(PRIMITIVE_PREFIXES):
            continue
        res['ok'] = False
        ctx.problem('proof', 'theorem depends on an axiom outside the allow-list: %s' % a)
    return res


def coqchk(ctx, props_v, timeout=3000):
    mod = 'SV.' + props_v[:-2].replace('/', '.')
    rc, out, dt = sh(['coqchk', '-silent', '-o', '-Q', COQ, 'SV', mod], timeout=timeout)
    return rc == 0, out, dt


# ---------------------------------------------------------------- harness
def harness_dir():
    key = hashlib.sha1(os.path.abspath(REPO).encode()).hexdigest()[:10]
    d = os.path.join(CACHE, 'hbuild', key)
    os.makedirs(d, exist_ok=True)
    tmpl = open(os.path.join(VERIF, 'harness', 'Cargo.toml.in')).read().replace('@REPO@', os.path.abspath(REPO))
    cur = None
    try:
        cur = open(os.path.join(d, 'Cargo.toml')).read()
    except OSError:
        pass
    if cur != tmpl:
        open(os.path.join(d, 'Cargo.toml'), 'w').write(tmpl)
    link = os.path.join(d, 'src')
    want = os.path.join(VERIF, 'harness', 'src')
    if not (os.path.islink(link) and os.readlink(link) == want):
        if os.path.lexists(link):
            os.remove(link)
        os.symlink(want, link)
    # lock file: always the repository's own
    lock_src = os.path.join(REPO, 'Cargo.lock')
    lock_dst = os.path.join(d, 'Cargo.lock')
    if not os.path.exists(lock_dst):
        shutil.copy(lock_src, lock_dst)
    return d


def cargo_build(ctx, bins, profile='dev', hooks=True, timeout=3000):
    d = harness_dir()
    env = dict(os.environ)
    env.update({'CARGO_NET_OFFLINE': 'true', 'CARGO_TARGET_DIR': TARGET, 'CARGO_TERM_COLOR': 'never',
                'CARGO_BUILD_JOBS': str(NCPU)})
    cmd = ['cargo', 'build', '--offline', '-q']
    for b in bins:
        cmd += ['--bin', b]
    if profile == 'release':
        cmd += ['--release']
    if hooks:
        cmd += ['--features', 'hooks']
    rc, out, dt = sh(cmd, cwd=d, timeout=timeout, env=env)
    if rc != 0 and 'Cargo.lock' in out and ('needs to be updated' in out or 'lock file' in out):
        shutil.copy(os.path.join(REPO, 'Cargo.lock'), os.path.join(d, 'Cargo.lock'))
        rc, out, dt = sh(cmd, cwd=d, timeout=timeout, env=env)
    sub = 'release' if profile == 'release' else 'debug'
    exes = {b: os.path.join(TARGET, sub, b) for b in bins}
    return rc == 0, out, dt, exes


def run_harness(ctx, exe, extra=(), timeout=3000, env_extra=None):
    out_dir = os.path.join(ctx.work, 'cases')
    os.makedirs(out_dir, exist_ok=True)
    env = dict(os.environ)
    if env_extra:
        env.update(env_extra)
    cmd = [exe, '--tier', ctx.tier, '--seed', str(ctx.seed), '--out', out_dir] + list(extra)
    rc, out, dt = sh(cmd, timeout=timeout, env=env)
    summary = None
    try:
        summary = json.load(open(os.path.join(out_dir, 'summary.json')))
    except Exception:
        pass
    return rc, out, dt, summary, out_dir


def eval_case_file(path):
    rc, out, dt = sh(['coqc', '-noglob', '-Q', COQ, 'SV', path], timeout=3000)
    flat = re.sub(r'\s+', ' ', out)
    m = re.search(r'=\s*\(\s*(\[[^\]]*\]|nil)\s*,\s*(\[[^\]]*\]|nil)\s*\)\s*:', flat)
    # the verdict is the printed pair of id lists; whether coqc could also write a .vo next to the case file is irrelevant
    if not m or (rc != 0 and "Can't open" not in out):
        return path, None, None, out[-1500:], dt
    def ids(s):
        return [int(x) for x in re.findall(r'(\d+)', s)]
    return path, ids(m.group(1)), ids(m.group(2)), '', dt


def eval_cases(ctx, out_dir, pattern='cases_*.v'):
    files = sorted(glob.glob(os.path.join(out_dir, pattern)))
    mism, pfail, errors = [], [], []
    t0 = time.time()
    with concurrent.futures.ThreadPoolExecutor(max_workers=NCPU) as ex:
        for path, a, b, err, dt in ex.map(eval_case_file, files):
            if a is None:
                errors.append((os.path.basename(path), err))
            else:
                mism += a; pfail += b
    for f in glob.glob(os.path.join(out_dir, '*.vo')) + glob.glob(os.path.join(out_dir, '.*.aux')) + glob.glob(os.path.join(out_dir, '*.vok')) + glob.glob(os.path.join(out_dir, '*.vos')):
        try: os.remove(f)
        except OSError: pass
    return files, sorted(set(mism)), sorted(set(pfail)), errors, time.time() - t0


# ---------------------------------------------------------------- findings
def load_findings(prop):
    """known_findings.txt lines:
       finding: property=Cxx class=<tag> what=<text>
       fixed: property=Cxx <commit> <what failed>      (suppresses nothing)"""
    res = []
    try:
        for line in open(os.path.join(VERIF, 'known_findings.txt')):
            line = line.strip()
            m = re.match(r'finding:\s+property=(\S+)\s+class=(\S+)\s+what=(.*)$', line)
            if m and m.group(1) == prop:
                res.append({'class': m.group(2), 'what': m.group(3)})
    except OSError:
        pass
    return res


# ---------------------------------------------------------------- verdict / evidence
def write_replay(ctx, name, payload):
    d = os.path.join(VERIF, 'replays'); os.makedirs(d, exist_ok=True)
    h = hashlib.sha1(json.dumps(payload, sort_keys=True, default=str).encode()).hexdigest()[:10]
    path = os.path.join(d, '%s-%s-%s.json' % (ctx.prop, name, h))
    json.dump(payload, open(path, 'w'), indent=1, default=str)
    return path


def finish(ctx, level='proof', checker_cmd='', extra_cov=None):
    findings = load_findings(ctx.prop)
    known_classes = {f['class'] for f in findings}
    violations = []
    known_hits = {}
    for p in ctx.problems:
        hit = [t for t in p['tags'] if t in known_classes]
        if hit:
            known_hits.setdefault(hit[0], []).append(p)
        else:
            violations.append(p)
    for f in findings:
        n = len(known_hits.get(f['class'], []))
        print('KNOWN-FINDING: property=%s class=%s %s (reproduced on %d case(s) in this run)' % (ctx.prop, f['class'], f['what'], n), flush=True)
    cov = dict(ctx.cov)
    if extra_cov:
        cov.update(extra_cov)
    cov.setdefault('checker_cmd', checker_cmd)
    cov['trusted_base'] = ctx.trusted
    cov['known_findings_reproduced'] = {k: len(v) for k, v in known_hits.items()}
    ev = {'property_id': ctx.prop, 'tier': ctx.tier, 'seed': ctx.seed, 'level': level, 'coverage': cov,
          'assumptions': ctx.assumptions, 'wall_s': round(time.time() - ctx.t0, 1), 'violations': len(violations)}
    os.makedirs(os.path.join(VERIF, 'evidence'), exist_ok=True)
    json.dump(ev, open(os.path.join(VERIF, 'evidence', ctx.prop + '.json'), 'w'), indent=1, default=str)
    if not violations:
        print('[%s] OK (%s tier, %.0fs)' % (ctx.prop, ctx.tier, time.time() - ctx.t0), flush=True)
        return 0
    # one replay per violation, concrete failing inputs first
    violations.sort(key=lambda p: 0 if p['found_input'] else 1)
    for p in violations[:4]:
        print('[%s] problem (%s): %s | %s' % (ctx.prop, p['kind'], p['what'], json.dumps(p['detail'], default=str)[:700]), flush=True)
    concrete = [p for p in violations if p['found_input']]
    if concrete:
        for p in concrete[:1]:
            path = write_replay(ctx, 'input', {'property': ctx.prop, 'seed': ctx.seed, 'tier': ctx.tier, 'kind': p['kind'],
                                               'what': p['what'], 'failing_input': p['detail'],
                                               'other_problems': [q['what'] for q in violations if q is not p][:10]})
            print('VIOLATION property=%s replay=%s' % (ctx.prop, path), flush=True)
    else:
        path = write_replay(ctx, 'unproven', {'property': ctx.prop, 'seed': ctx.seed, 'tier': ctx.tier,
                                              'no_longer_checks': [{'kind': p['kind'], 'what': p['what'], 'detail': p['detail']} for p in violations[:10]]})
        print('VIOLATION property=%s replay=%s no-failing-input-found' % (ctx.prop, path), flush=True)
    return 1


# ---------------------------------------------------------------- the standard pipeline
def standard_check(ctx, meta):
    """meta: props_v, bin, profile ('dev'|'release'), hooks(bool), allowed_axioms, groups (translator groups),
       harness_timeout, assumptions(list), trusted(list)"""
    ctx.assumptions += meta.get('assumptions', [])
    ctx.trusted += ['Coq 8.16.1 kernel (coqc); vm_compute for evaluating cases' ,
                    'translator/consts.py (fail-closed regex extraction of constants from the Rust source)',
                    'harness/src/bin/%s.rs + runner (correspondence check; canonicalisation done there)' % meta['bin']] + meta.get('trusted', [])
    # 1 translator
    missing = translate(ctx)
    for g in meta.get('groups', []):
        if missing.get(g):
            ctx.note('translator: constants not found in source: %s' % ' '.join(missing[g]))
    # 2 proofs
    gate = coq_gate(ctx, meta['props_v'], meta.get('allowed_axioms', ()))
    ctx.cov.update({'obligations': gate.get('obligations', 0), 'discharged': gate.get('discharged', 0),
                    'property_theorems': gate.get('theorems', []), 'axioms_reported': gate.get('axioms', []),
                    'coq_files': gate.get('files', []), 'coq_make_s': gate.get('make_s')})
    checker = 'make -C coq %so && coqc Print-Assumptions gate' % meta['props_v']
    if ctx.tier == 'thorough' and gate['ok']:
        ok, out, dt = coqchk(ctx, meta['props_v'])
        ctx.cov['coqchk'] = {'ok': ok, 'wall_s': round(dt, 1), 'tail': out.strip().splitlines()[-12:]}
        checker += ' && coqchk -silent -o'
        if not ok:
            ctx.problem('proof', 'coqchk rejected the compiled closure', out[-800:])
    # 3 harness
    model_ok = True
    if not gate['ok']:
        # the model may still compile even though a proof broke: needed for the search
        mods = [f for f in gate.get('files', []) if f.startswith(('Model/', 'Lib/', 'Gen/'))]
        ok, out, _ = coq_make(ctx, [f + 'o' for f in mods])
        model_ok = ok
    extra_bins = list(meta.get('extra_bins', []))
    ok, out, dt, exes = cargo_build(ctx, [meta['bin']] + extra_bins, meta.get('profile', 'dev'), meta.get('hooks', True))
    ctx.cov['harness_build_s'] = round(dt, 1)
    if not ok:
        ctx.problem('correspondence', 'harness no longer builds against the repository tree (cargo build --bin %s)' % meta['bin'], out[-1500:])
        return finish(ctx, checker_cmd=checker)
    rc, out, dt, summary, out_dir = run_harness(ctx, exes[meta['bin']], meta.get('harness_args', ()), meta.get('harness_timeout', 1500), meta.get('harness_env'))
    ctx.cov['harness_run_s'] = round(dt, 1)
    if rc != 0 or summary is None:
        ctx.problem('correspondence', 'harness run failed (exit %s)' % rc, out[-1500:])
        return finish(ctx, checker_cmd=checker)
    cases = {}
    try:
        cases = json.load(open(os.path.join(out_dir, 'cases.json')))
    except Exception:
        pass
    # additional harness binaries of the same property (they write summary_extra.json / cases_extra.json
    # and their own cases_*.v shards with disjoint case ids into the same directory)
    for xb in extra_bins:
        for f in ('summary_extra.json', 'cases_extra.json'):
            try: os.remove(os.path.join(out_dir, f))
            except OSError: pass
        cmd = [exes[xb], '--tier', ctx.tier, '--seed', str(ctx.seed), '--out', out_dir]
        rcx, outx, dtx = sh(cmd, timeout=meta.get('harness_timeout', 1500))
        ctx.cov['harness_run_s'] = round(ctx.cov.get('harness_run_s', 0) + dtx, 1)
        try:
            sx = json.load(open(os.path.join(out_dir, 'summary_extra.json')))
            cx = json.load(open(os.path.join(out_dir, 'cases_extra.json')))
        except Exception:
            ctx.problem('correspondence', 'harness %s failed (exit %s)' % (xb, rcx), outx[-1500:])
            continue
        summary['evaluations'] = summary.get('evaluations', 0) + sx.get('evaluations', 0)
        summary['distinct_nontrivial'] = summary.get('distinct_nontrivial', 0) + sx.get('distinct_nontrivial', 0)
        summary['discarded_ambiguous'] = (summary.get('discarded_ambiguous') or 0) + (sx.get('discarded_ambiguous') or 0)
        summary.setdefault('distribution', {}).update(sx.get('distribution', {}))
        summary.setdefault('direct_violations', []).extend(sx.get('direct_violations', []))
        summary['rule'] = (summary.get('rule') or '') + ' || ' + xb + ': ' + (sx.get('rule') or '')
        summary.setdefault('samples', []).extend(sx.get('samples', [])[:2])
        cases.update(cx)
    for k in ('evaluations', 'distinct_nontrivial', 'rule', 'samples', 'discarded_ambiguous'):
        ctx.cov[k] = summary.get(k)
    ctx.cov['input_distribution'] = summary.get('distribution', {})
    ctx.cov['traces_validated_against_impl'] = summary.get('evaluations', 0)
    for v in summary.get('direct_violations', []):
        ctx.problem('property', v.get('what', 'property predicate failed on the implementation'),
                    {'case': cases.get(str(v.get('case'))), 'detail': v.get('detail')}, found_input=True, tags=v.get('tags', []))
    # 4 evaluate the model on the same cases inside Coq
    if model_ok:
        files, mism, pfail, errors, dt = eval_cases(ctx, out_dir)
        ctx.cov['coq_case_files'] = len(files)
        ctx.cov['coq_eval_s'] = round(dt, 1)
        ctx.cov['model_impl_disagreements'] = len(mism)
        ctx.cov['property_predicate_failures'] = len(pfail)
        for name, err in errors:
            ctx.problem('correspondence', 'case file %s could not be evaluated' % name, err)
        for i in pfail:
            c = cases.get(str(i), {})
            ctx.problem('property', 'property predicate (theorem conclusion evaluated on the implementation\'s outputs) fails on case %d' % i,
                        c, found_input=True, tags=c.get('tags', []) if isinstance(c, dict) else [])
        for i in mism:
            if i in pfail:
                continue
            c = cases.get(str(i), {})
            ctx.problem('correspondence', 'model and implementation disagree on case %d' % i, c,
                        found_input=False, tags=c.get('tags', []) if isinstance(c, dict) else [])
    else:
        ctx.problem('correspondence', 'model no longer compiles; cases not evaluated')
    return finish(ctx, checker_cmd=checker)
