#!/bin/sh
# Run the repository's own test suite (guard OFF) and compare with /root/.vp/BASELINE.json stable_pass.
# usage: runner/baseline.sh [repo dir]   -> prints missing stable tests; exit 0 if none
REPO=${1:-/repo}
OUT=/verif/.cache/baseline
mkdir -p $OUT
cd $REPO || exit 2
CARGO_NET_OFFLINE=true cargo nextest run --workspace --no-fail-fast --tool-config-file pb:/w/lib/nextest.toml --profile pb --test-threads 8 --offline > $OUT/nextest.log 2>&1
J=$(ls -t target/nextest/pb/junit.xml 2>/dev/null | head -1)
python3 - "$J" <<'PY'
import sys, json, xml.etree.ElementTree as ET
base = set(json.load(open('/root/.vp/BASELINE.json'))['stable_pass'])
t = ET.parse(sys.argv[1])
passed = set()
for ts in t.getroot().iter('testsuite'):
    for tc in ts.iter('testcase'):
        ok = not any(c.tag in ('failure', 'error') for c in tc)
        name = ts.get('name') + '::' + tc.get('name')
        cn = tc.get('classname')
        if ok:
            passed.add(name); passed.add((cn or '') + '::' + tc.get('name'))
missing = sorted(x for x in base if x not in passed)
print('stable baseline: %d, passing now: %d of them, missing: %d' % (len(base), len(base) - len(missing), len(missing)))
for m in missing[:50]:
    print('  MISSING', m)
sys.exit(1 if missing else 0)
PY
