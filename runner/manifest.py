"""./check --manifest : regenerate MANIFEST.json from the per-property drivers."""
import json, os
import core

NOT_APPLICABLE = []   # every property has an executable model; see DESIGN.md

def main(props, load):
    checks = []
    for p in props:
        m = load(p).META
        checks.append({
            'property_id': m['id'],
            'quick_cmd': './check %s --tier quick' % m['id'],
            'thorough_cmd': './check %s --tier thorough' % m['id'],
            'evidence_file': 'evidence/%s.json' % m['id'],
            'replay_cmd_template': './check %s --replay {path}' % m['id'],
            'engine': 'coq-proof+correspondence',
            'level_claimed': {'category': 'proof', 'text': m['level_text'], 'design_ref': m.get('design_ref', 'DESIGN.md section 5')},
            'level_note': m['level_note'],
            'technique': m['technique'],
        })
    claimed = {c['property_id'] for c in checks}
    na = [x for x in NOT_APPLICABLE if x['property_id'] not in claimed]
    allp = [json.loads(l)['id'] for l in open(os.path.join(core.VERIF, 'properties.jsonl'))]
    for pid in allp:
        if pid not in claimed and pid not in {x['property_id'] for x in na}:
            na.append({'property_id': pid, 'reason': 'not yet covered by the framework at this commit (work in progress; the design in DESIGN.md section 5 applies - no technique other than Coq proof is substituted)'})
    hooks_commits = []
    try:
        hooks_commits = [l.strip() for l in open(os.path.join(core.VERIF, 'hooks_commits.txt')) if l.strip()]
    except OSError:
        pass
    man = {
        'version': 1,
        'setup_cmd': './check --setup',
        'hooks': {
            'guard': 'cargo feature verif-hooks (saorsa-core/Cargo.toml [features]; module src/verif_hooks.rs and cfg(feature = "verif-hooks") blocks)',
            'enable': 'the harness crate is built with --features hooks, which enables saorsa-core/verif-hooks',
            'baseline_off_cmd': 'cd /repo && cargo nextest run --workspace --no-fail-fast --test-threads 8 --offline || cargo test --workspace --no-fail-fast --offline',
            'source_commits': hooks_commits,
            'add_only': True,
        },
        'engines': [{'name': 'coq-proof+correspondence', 'path': 'check', 'serves_properties': sorted(claimed),
                     'kind_free_text': 'Coq 8.16.1 theorems about hand-written executable models (coq/Model, coq/Proofs, coq/Props); constants/schemas regenerated from the Rust source by translator/ on every run; models evaluated with vm_compute inside coqc on the same inputs the real implementation ran (harness/), diff computed inside Coq'}],
        'checks': checks,
        'not_applicable': na,
        'notes': 'See DESIGN.md. known_findings.txt lists recorded findings and fixed defects. Seeded breaking changes used to test the checks are under seeded/.',
    }
    json.dump(man, open(os.path.join(core.VERIF, 'MANIFEST.json'), 'w'), indent=1)
    print('MANIFEST.json: %d checks, %d not_applicable' % (len(checks), len(na)))
    return 0
