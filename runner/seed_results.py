#!/usr/bin/env python3
"""Write seeded/RESULTS.md from seeded/*/meta.json"""
import json, glob, os
rows = []
for f in sorted(glob.glob('/verif/seeded/*/meta.json')):
    m = json.load(open(f)); d = os.path.dirname(f)
    notes = ''
    try:
        notes = open(os.path.join(d, 'notes.md')).read()
    except OSError:
        pass
    first_line = next((l.strip('# ').strip() for l in notes.splitlines() if l.strip()), '')
    ran = m.get('ran', [])
    demo_before = next((r.get('passed') for r in ran if 'unmodified' in r['cmd']), None)
    demo_after = next((r.get('fails_as_expected') for r in ran if 'vp_seed_demo (with' in r['cmd']), None)
    mods = '; '.join('%s %s' % (r['cmd'].split()[3], (r.get('result') or ['?'])[0:3]) for r in ran if '--lib' in r['cmd'])
    c = m.get('check', {})
    first = m.get('first_run') or (c if m.get('check_after_strengthening') else None)
    if m.get('check_after_strengthening'):
        c = dict(c); c['violation_reported'] = m['check_after_strengthening'].get('violation_reported')
        c['check_output'] = ['(re-run after strengthening) VIOLATION no-failing-input-found']
    firstcol = '' if first is None else ('missed' if not first.get('violation_reported') else 'caught')
    strengthening = m.get('strengthening', '')
    out = ' / '.join(c.get('check_output', [])[-1:])[:160]
    rows.append((m['name'], m['property'], ', '.join(m.get('touched') or []), demo_before, demo_after, mods, c.get('violation_reported'), firstcol, c.get('wall_s'), out, first_line[:140], strengthening))
with open('/verif/seeded/RESULTS.md', 'w') as fh:
    fh.write('# Seeded changes and what the checks reported\n\n')
    fh.write('Each change was produced by a fresh sub-agent that saw only the property text and a scratch worktree. It was then confirmed in a scratch worktree (`demo passes unmodified`, `module tests pass with the change`, `demo fails with the change`) and the property\'s quick check was run against /repo with the patch applied (and reverted straight afterwards).\n\n')
    fh.write('| seed | property | touches | demo passes unmodified | demo fails with change | module tests with change | check reports VIOLATION | first version of the check | check wall s | last line of the check | what it is | strengthening |\n|---|---|---|---|---|---|---|---|---|---|---|---|\n')
    for r in rows:
        fh.write('| ' + ' | '.join(str(x) for x in r) + ' |\n')
    det = sum(1 for r in rows if r[6]); fh.write('\n%d of %d seeded changes reported as VIOLATION.\n' % (det, len(rows)))
print('RESULTS.md: %d seeds' % len(rows))
