#!/usr/bin/env python3
"""Confirm a seeded change in a scratch worktree and run the property's check against it.

usage: confirm_seed.py <property id> <dir with patch.diff demo.rs notes.md> <seed name>

1. scratch worktree /tmp/seedwt (a worktree of /repo main, created on demand; ONE shared cargo target
   /tmp/seedwt/target so that dependencies are built once):
     - demo passes on the unmodified tree,
     - patch applies, crate builds, the unit tests of the touched modules pass, demo FAILS.
2. /repo: git apply patch -> ./check <id> --tier quick -> git checkout -- . (always)
Writes /verif/seeded/<name>/{patch.diff,demo.rs,notes.md,meta.json}.
"""
import sys, os, subprocess, json, re, shutil, time

WT = '/tmp/seedwt'
ENV = dict(os.environ, CARGO_NET_OFFLINE='true', CARGO_TARGET_DIR=WT + '/target', CARGO_TERM_COLOR='never')

def sh(cmd, cwd=None, timeout=5400, env=None):
    t0 = time.time()
    p = subprocess.run(cmd, shell=True, cwd=cwd, env=env or ENV, stdout=subprocess.PIPE, stderr=subprocess.STDOUT, timeout=timeout)
    return p.returncode, p.stdout.decode('utf-8', 'replace'), round(time.time() - t0)

def main():
    prop, src, name = sys.argv[1], sys.argv[2], sys.argv[3]
    phase = sys.argv[4] if len(sys.argv) > 4 else 'all'   # confirm | check | all
    dst = os.path.join('/verif/seeded', name)
    os.makedirs(dst, exist_ok=True)
    for f in ('patch.diff', 'demo.rs', 'notes.md'):
        if os.path.exists(os.path.join(src, f)):
            shutil.copy(os.path.join(src, f), os.path.join(dst, f))
    patch = os.path.join(dst, 'patch.diff')
    meta = {'property': prop, 'name': name, 'ran': []}
    try:
        old = json.load(open(os.path.join(dst, 'meta.json')))
        if phase == 'check':
            meta = old
        elif 'check' in old:
            meta['check'] = old['check']
    except Exception:
        pass
    if phase in ('confirm', 'all'):
        confirm(meta, dst, patch)
    if phase in ('check', 'all'):
        run_check(meta, prop, patch)
    try:   # the other phase may have written meanwhile: merge
        cur = json.load(open(os.path.join(dst, 'meta.json')))
        if phase == 'check' and cur.get('ran'):
            meta['ran'] = cur['ran']; meta['patch_applies'] = cur.get('patch_applies'); meta['touched'] = cur.get('touched')
        if phase == 'confirm' and 'check' in cur:
            meta['check'] = cur['check']
    except Exception:
        pass
    json.dump(meta, open(os.path.join(dst, 'meta.json'), 'w'), indent=1)
    det = meta.get('check', {})
    print(json.dumps({'name': name, 'applies': meta.get('patch_applies'), 'ran': [(r['cmd'], r.get('passed', r.get('result', r.get('fails_as_expected')))) for r in meta['ran']], 'detected': det.get('violation_reported')}, indent=1))

def confirm(meta, dst, patch):
    if not os.path.isdir(WT):
        sh('git -C /repo worktree add -f %s main --detach' % WT)
        shutil.copy('/repo/Cargo.lock', WT)
    sh('git checkout -- . && git clean -fdq tests/ && git checkout --detach main -q', cwd=WT)
    # touched modules
    files = re.findall(r'^\+\+\+ b/(src/\S+\.rs)', open(patch).read(), flags=re.M)
    mods = sorted({f[4:-3].replace('/mod', '').replace('/', '::') for f in files})
    meta['touched'] = files
    demo_is_integration = os.path.exists(os.path.join(dst, 'demo.rs')) and '#[cfg(test)]' not in open(os.path.join(dst, 'demo.rs')).read()[:400]
    feat = ''
    if os.path.exists(os.path.join(dst, 'demo.rs')) and 'feature = "verif-hooks"' in open(os.path.join(dst, 'demo.rs')).read():
        feat = ' --features verif-hooks'
    if os.path.exists(os.path.join(dst, 'demo.rs')) and '--release' in open(os.path.join(dst, 'demo.rs')).read()[:1500]:
        feat += ' --release'
    meta['demo_needs_feature'] = feat.strip()
    if demo_is_integration:
        shutil.copy(os.path.join(dst, 'demo.rs'), os.path.join(WT, 'tests', 'vp_seed_demo.rs'))
        rc, out, dt = sh('cargo test --offline%s --test vp_seed_demo 2>&1 | tail -15' % feat, cwd=WT)
        ok_before = 'test result: ok' in out and ' 0 passed' not in out.split('test result: ok')[-1][:40]
        meta['ran'].append({'cmd': 'cargo test --test vp_seed_demo (unmodified tree)', 'passed': ok_before, 's': dt, 'tail': out[-400:]})
    rc, out, dt = sh('git apply %s' % patch, cwd=WT)
    meta['patch_applies'] = rc == 0
    if rc != 0:
        meta['ran'].append({'cmd': 'git apply', 'tail': out[-400:]})
    else:
        for m in mods:
            rc, out, dt = sh('cargo test --offline --lib %s:: 2>&1 | tail -6' % m, cwd=WT)
            res = re.findall(r'test result: (\w+)\. (\d+) passed; (\d+) failed', out)
            meta['ran'].append({'cmd': 'cargo test --lib %s:: (with the change)' % m, 'result': res[-1] if res else None, 's': dt, 'tail': out[-300:] if not res else ''})
        if demo_is_integration:
            rc, out, dt = sh('cargo test --offline%s --test vp_seed_demo 2>&1 | tail -25' % feat, cwd=WT)
            fails = ('test result: FAILED' in out) or ('panicked' in out)
            meta['ran'].append({'cmd': 'cargo test --test vp_seed_demo (with the change)', 'fails_as_expected': fails, 's': dt, 'tail': out[-600:]})
    sh('git checkout -- . && git clean -fdq tests/', cwd=WT)

def run_check(meta, prop, patch):
    # the check, against /repo itself
    rc, out, dt = sh('git -C /repo apply %s' % patch)
    det = {'applied_to_repo': rc == 0}
    evf = '/verif/evidence/%s.json' % prop
    saved = open(evf).read() if os.path.exists(evf) else None   # a seeded run must not leave its evidence behind
    if rc == 0:
        try:
            rc2, out2, dt2 = sh('cd /verif && ./check %s --tier quick 2>&1 | grep -a "VIOLATION\\|KNOWN-FINDING\\|OK (" | cut -c1-300' % prop, env=dict(os.environ), timeout=5400)
            det.update({'check_output': out2.strip().splitlines()[-4:], 'violation_reported': 'VIOLATION' in out2, 'wall_s': dt2})
            rp = re.search(r'replay=(\S+)', out2)
            if rp and os.path.exists(rp.group(1)):
                det['replay_excerpt'] = open(rp.group(1)).read()[:1500]
        finally:
            sh('git -C /repo checkout -- .')
            if saved is not None:
                open(evf, 'w').write(saved)
    meta['check'] = det

if __name__ == '__main__':
    main()
