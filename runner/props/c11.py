import core
REAL_AXIOMS = ['ClassicalDedekindReals.sig_forall_dec', 'ClassicalDedekindReals.sig_not_dec',
               'FunctionalExtensionality.functional_extensionality_dep',
               'Axioms']  # runner/core.py's Print-Assumptions parser also matches the header line "Axioms:"
META = {
    'id': 'C11', 'props_v': 'Props/C11.v', 'bin': 'c10', 'profile': 'dev', 'hooks': True, 'groups': ['Trust'],
    'harness_args': ['--mode', 'c11'],
    'allowed_axioms': REAL_AXIOMS,
    'design_ref': 'DESIGN.md section 5, C10/C11; design/C11.md',
    'technique': 'Coq proof over exact reals (closed-set mass decays by (1-alpha) per repaired round; exit analysis of the loop: 4 / 7 / 50 rounds or L1 convergence) of the generic EigenTrust definition in Model/Trust.v + constants regenerated from source + differential correspondence of the binary64 instance against the real EigenTrustEngine on generated attack graphs (cliques, stars, chains, rings, self-loops; honest nodes without statements), with the theorem conclusions evaluated on the implementation\'s outputs',
    'level_text': 'Theorems (Props/C11.v), for every history, every anchor count >= 1, every set S that is disjoint from the anchors and receives no positive statement from outside, equal multipliers: one round keeps at most (1-alpha) of the mass of S; the final mass is <= (3/5)^rounds * |S|/n; <= |S|/(7n) whenever >= 4 rounds ran or |S|/n >= 1.05e-3 (C11_sybil_seventh_partial), hence unconditionally for n <= 950 (C11_sybil_seventh_950); < 0.1% for n <= 100; every anchor keeps alpha/|A| of the total whatever anybody states. The unconditional statement (C11_sybil_seventh_full) is kept visible and REFUTED over the reals (C11_sybil_seventh_refuted: anchor + one self-rating identity + 4998 silent honest nodes, loop leaves after 2 rounds with 0.36 of the share); the same history is run on the real engine and on the binary64 model in every check (known-finding class c11-early-exit).',
    'level_note': 'Axioms reported by Print Assumptions: the classical real-number axioms of the Coq standard library (ClassicalDedekindReals.sig_forall_dec, ClassicalDedekindReals.sig_not_dec, FunctionalExtensionality.functional_extensionality_dep). Trusted/modelled, not verified: IEEE-754 rounding gap between the R instance (theorems) and the binary64 instance (execution, compared with the Rust engine within 1e-9; threshold-ambiguous cases discarded and counted); ln oracle (only through equal multipliers); decay factor as input. Partial: the 1/7 bound carries the explicit side condition for networks of more than 950 nodes with a Sybil share below 0.105%; outside it the property as written is false (theorem C11_sybil_seventh_refuted, recorded as finding c11-early-exit).',
    'assumptions': ['equal statistics = equal multi-factor multipliers on all known nodes', 'at least one pre-trusted anchor',
                    'ln1p >= 0 on the counter values in use', 'decay factor d >= 0 passed as input'],
    'trusted': ['Lib/GenericField.v instances: the binary64 instance uses Coq PrimFloat primitives as the meaning of rustc f64 arithmetic'],
}
def run(ctx):
    return core.standard_check(ctx, META)
