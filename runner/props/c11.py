import core
REAL_AXIOMS = ['ClassicalDedekindReals.sig_forall_dec', 'ClassicalDedekindReals.sig_not_dec',
               'FunctionalExtensionality.functional_extensionality_dep']
META = {
    'id': 'C11', 'props_v': 'Props/C11.v', 'bin': 'c10', 'profile': 'dev', 'hooks': True, 'groups': ['Trust'],
    'harness_args': ['--mode', 'c11'],
    'allowed_axioms': REAL_AXIOMS,
    'design_ref': 'DESIGN.md section 5, C10/C11; design/C11.md',
    'technique': "Coq proof over exact reals (closed-set mass decays by (1-alpha) per repaired round; exit analysis of the loop: every exit - convergence from the 4th round on, the n>100 / n>500 cut-offs, 50 rounds - is taken after at least 4 rounds) of the generic EigenTrust definition in Model/Trust.v + constants regenerated from source (including MIN_ITERATIONS and its guard) + differential correspondence of the binary64 instance against the real EigenTrustEngine on generated attack graphs (cliques, stars, chains, rings, self-loops; honest nodes without statements), with the theorem conclusions evaluated on the implementation's outputs",
    'level_text': 'Theorems (Props/C11.v), for every history, every network size, every anchor count >= 1, every set S that is disjoint from the anchors and receives no positive statement from outside, equal multipliers: one round keeps at most (1-alpha) of the mass of S; at least 4 rounds always run (C11_at_least_four_rounds); the final mass is <= (3/5)^rounds * |S|/n and hence <= |S|/(7n) UNCONDITIONALLY (C11_sybil_seventh, the property as written); < 0.1% for n <= 100; every anchor keeps alpha/|A| of the total whatever anybody states. C11_old_exit_rule_refuted: for a faithful copy of the loop without the 4-round minimum the bound is false (5000-node star, 2 rounds, 0.36 of the share) - the reason for repair F11b.',
    'level_note': 'Axioms reported by Print Assumptions: the classical real-number axioms of the Coq standard library (ClassicalDedekindReals.sig_forall_dec, FunctionalExtensionality.functional_extensionality_dep; ClassicalDedekindReals.sig_not_dec allow-listed as well). Trusted/modelled, not verified: IEEE-754 rounding gap between the R instance (theorems) and the binary64 instance (execution, compared with the Rust engine within 1e-9; threshold-ambiguous cases discarded and counted); ln oracle (only through equal multipliers); decay factor as input. Nothing partial: the side condition of the earlier version is gone with repair F11b.',
    'assumptions': ['equal statistics = equal multi-factor multipliers on all known nodes', 'at least one pre-trusted anchor',
                    'ln1p >= 0 on the counter values in use', 'decay factor d >= 0 passed as input'],
    'trusted': ['Lib/GenericField.v instances: the binary64 instance uses Coq PrimFloat primitives as the meaning of rustc f64 arithmetic'],
}
def run(ctx):
    return core.standard_check(ctx, META)
