import core
META = {
    'id': 'C01', 'props_v': 'Props/C01.v', 'bin': 'c01', 'profile': 'dev', 'hooks': True, 'groups': ['Lookup'],
    'design_ref': 'DESIGN.md section 5, C01; design/C01.md',
    'technique': 'Coq proof (invariants over the iterative-lookup state machine of Model/Lookup.v, adversary = arbitrary reply function) + constants regenerated from source + differential correspondence (vm_compute) against the real DhtNetworkManager over an in-memory router',
    'level_text': 'Theorems (Props/C01.v) for every reply function (arbitrary unresponsive / lying peers), initial candidate set, target and K: request bound MAX_ITERATIONS*ALPHA, no request to any self identifier, no peer queried twice, result is sorted, duplicate-free, at most K, made of self and answering peers, is the K closest of them, and (unless a budget cut the run) no learned peer strictly closer than the farthest returned node is left unqueried. The model mirrors find_closest_nodes_network step by step and is compared on every run with the real manager (real framing, dispatcher, pending-table and handler code; only the QUIC socket is replaced) on generated topologies with silent, failing, slow and lying peers: same result list and same request set.',
    'level_note': 'Trusted: Coq kernel; translator regexes; harness + in-memory router (verif-hooks). Modelled, not verified: the ALPHA requests of one batch run concurrently in the code (join_all) and are processed in batch order - modelled as sequential processing in batch order; slow peers are reduced to answered/failed; blake3 key derivation is an opaque function keyof. Partial: timing and tokio scheduling are outside the model.',
    'assumptions': ['batch replies are processed in batch order (join_all result order)', 'peer key = blake3(peer id) is passed to the model as a table'],
    'harness_timeout': 900,
}
def run(ctx):
    return core.standard_check(ctx, META)
