import core
META = {
    'id': 'C20', 'props_v': 'Props/C20.v', 'bin': 'c20', 'profile': 'dev', 'hooks': True, 'groups': ['Lookup', 'Liveness'],
    'design_ref': 'DESIGN.md section 5, C20; design/C20.md',
    'technique': 'Coq proof (time bound of the instrumented lookup loop; generic lock-order deadlock-freedom theorem instantiated on lock sequences regenerated from the source; structural facts about the shutdown path regenerated from the source) + timed runs of real nodes over an in-memory router checked against the proved bounds',
    'level_text': 'Theorems (Props/C20.v): for every reply pattern a lookup is over within MAX_ITERATIONS x D (D = per-request bound, proportional to the request timeout), the clock being a ghost of the C01 model; tasks that acquire locks in a fixed rank order, never re-acquire and release everything can reach no deadlocked state under ANY schedule, and the lock sequences regenerated from DhtNetworkManager on every run satisfy that discipline (proved by computation); the request path checks the shutdown token before the transport and stop() orders leave / cancel / join (structural facts regenerated from the source). The real runtime is exercised on every run: concurrent lookups/puts/gets with seeded delays, peers going silent mid-operation and stop() at random instants; completion times are checked inside Coq against the bounds and the RPC trace after stop() returned must be free of requests.',
    'level_note': 'PARTIAL - weakest tie of the set. Trusted: Coq kernel; the lexical lock scanner (translator/gen_lockseqs.py, fail-closed but crude: guard lifetimes are approximated, RwLock modes as Rd/Wr, std Mutex as Wr, joins of tasks are not lock edges); harness. Not modelled: tokio fairness and cancellation points, the scheduler, DhtCoreEngine-internal locks (always taken under the manager\'s dht lock and never the other way round), timing of the real machine (slack 1500 ms). A deadlock that the lock-order abstraction misses can only be caught by the timed runs.',
    'assumptions': ['per-request bound D = dial + send + request timeout = 3 x request_timeout in the harness configuration', 'lock scanner approximates guard lifetimes lexically'],
    'harness_timeout': 1500,
}
def run(ctx):
    return core.standard_check(ctx, META)
