import core
META = {
    'id': 'C15', 'props_v': 'Props/C15.v', 'bin': 'c15', 'profile': 'dev', 'hooks': True, 'groups': ['CloseGroup'],
    'design_ref': 'DESIGN.md section 5, C15; design/C15.md',
    'technique': 'Coq proof (exact characterisation of the decision function of Model/CloseGroup.v over all response vectors and configurations, exact rational arithmetic) + constants regenerated from source + differential correspondence (vm_compute) against the real CloseGroupValidator and NodeValidationResult',
    'level_text': 'Theorems (Props/C15.v) for every configuration, response vector of any length and candidate trust: attack mode accepts iff enough trusted answers, confirming fraction >= threshold, regions, no collusion flag; 3f+1 trusted witnesses with at most f confirming are rejected for every f (from the regenerated 0.71 and for any threshold >= 1/3); normal mode accepts iff the confirming share of the non-negative witness weight reaches the threshold; turning confirmations into denials never turns reject into accept (both modes); unanimous confirmation is accepted under the stated side conditions; rejections carry a reason; enforcement wrappers; validator.rs counters (strict majority, 2f+1, 3f+1) over all record sequences. The model is tied to the source by regenerated constants and by running model and implementation on the same inputs.',
    'level_note': 'Trusted: Coq kernel; translator regexes; harness. Modelled, not verified: IEEE-754 binary64 arithmetic is modelled by exact rationals with decimal thresholds - the two agree on every comparison except weighted ratios within rounding distance of the threshold with non-dyadic weights (such inputs are discarded and counted; exact ties with dyadic weights are kept); non-finite trust scores are outside the model and only probed directly on the implementation; region strings are abstracted to ids; the validation cache TTL (60 s) is not modelled (cache read immediately after write).',
    'assumptions': ['f64 arithmetic of the decision is modelled by exact rationals; agreement is checked on decimal-grid inputs and at dyadic exact ties, near-ties with non-dyadic weights are discarded',
                    'trust scores are finite (NaN / infinities are probed on the implementation only)'],
}
def run(ctx):
    return core.standard_check(ctx, META)
