import core
META = {
    'id': 'C02', 'props_v': 'Props/C02.v', 'bin': 'c02', 'extra_bins': ['c02net'], 'profile': 'dev', 'hooks': True, 'groups': ['Routing'],
    'design_ref': 'DESIGN.md section 5, C02; design/C02.md',
    'technique': 'Coq proof (invariant by induction over arbitrary join/add/failure/evict histories; refinement of the bucket walk with its early exit to "the n nearest of the whole table" via the XOR ultrametric lemmas of Lib/Xor.v) + constants regenerated from source + differential correspondence (vm_compute) against the real DhtCoreEngine',
    'level_text': 'Theorems (Props/C02.v) for every history from the empty table (repeated ids, the local id, removal of absent ids included), every 256-bit key and every count: the table lists each id at most once, never the local id, every node in the bucket of its first differing bit, at most K=8 per bucket; find_nodes / FindNode / FindValue answers equal the first min(n, size) entries of the table sorted by XOR distance (unique: ascending without repeats, nothing nearer omitted), FindNode replies hold at most 20 and FindValue replies at most 8 nodes. The manager-level reply rule (merge of connected peers and table entries, one entry per DHT key, requester and self removed, nearest first, cap 8 <= 20) is proved about the model only. The model is tied to src/dht/core_engine.rs by regenerated constants and by running model and DhtCoreEngine on the same histories, comparing every Ok/Err and every answer (ids, addresses, order).',
    'level_note': 'Trusted: Coq kernel; translator regexes; harness (byte arrays -> N by big-endian value, Lib/Xor.v be_compare). Modelled, not verified: the admission gates of add_node are an input (their verdict is observed; property C13); tokio RwLock sections are atomic steps; the manager-level reply rule (DhtNetworkManager::find_closest_nodes_local / handle_lookup_request, defect F02d) has a model and theorem (C02_reply) but NO correspondence yet - it needs the in-memory transport hooks built by the integrator.',
    'assumptions': ['verdict of the admission gates (validator, IP/region diversity) is an input of the model',
                    'each engine call is one atomic step (the routing table sits behind one tokio RwLock)',
                    'C02_reply (manager-level reply rule) is a theorem about the model only; correspondence pending the network hooks'],
    'harness_timeout': 2400,
}
def run(ctx):
    return core.standard_check(ctx, META)
