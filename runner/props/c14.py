import core
META = {
    'id': 'C14', 'props_v': 'Props/C14.v', 'bin': 'c14', 'profile': 'dev', 'hooks': True, 'groups': ['RateLimit'],
    'design_ref': 'DESIGN.md section 5, C14; design/C14.md',
    'technique': 'Coq proof (induction over arbitrary call sequences with arbitrary clock readings of Model/RateLimit.v: token bucket in exact scaled-integer arithmetic, fixed-window counter, LRU-keyed engine, three-level join limiter, prefix extraction) + constants regenerated from source + differential correspondence (vm_compute) against the real Engine / JoinRateLimiter / validation::RateLimiter under the real clock',
    'level_text': 'Theorems (Props/C14.v) for all configurations and all sequences of (clock reading, key/address) calls: admitted <= burst + max*elapsed/window from any reachable state; <= max inside one fixed window; a denied attempt leaves exactly the time-refilled bucket (unchanged at zero elapsed time) and never touches another key; per-key behaviour is the run of that key alone (isolation) as long as no more than MAX_RATE_LIMIT_KEYS distinct keys are in play; join limiter: per /64, /48, /24 and global bounds for every arrival sequence, the default numbers 1/5/3 per hour and 10 + 100/min; prefix extraction as bit arithmetic; bursts too short to earn one token decide exactly as with a frozen clock (the rule the correspondence check relies on); cumulative admissions are monotone in time. PARTIAL: time is an input of the model; the implementation is run under the real clock and compared through measured brackets.',
    'level_note': 'partial. Trusted: Coq kernel; translator regexes; harness. Modelled, not verified: f64 token arithmetic is modelled by exact rational arithmetic (scaled integers) - decisions can differ only when the exact token count is within a few ulp of an integer; Instant::now() is an input; each try_consume_key is atomic (RwLock write guard held across the call), validated by 8-thread runs; LRU eviction beyond 100000 distinct keys resets a bucket (finding class lru-eviction: theorems assume the keys in play fit).',
    'assumptions': ['clock readings are inputs of the model; real runs are compared through measured time brackets, ambiguous ones discarded and counted',
                    'f64 arithmetic of Bucket::try_consume is represented by exact rational arithmetic',
                    'Engine::try_consume_key is atomic (one write lock); checked by concurrent runs',
                    'at most MAX_RATE_LIMIT_KEYS distinct keys per engine (no LRU eviction) for the per-key theorems'],
}
def run(ctx):
    return core.standard_check(ctx, META)
