import core
META = {
    'id': 'C07', 'props_v': 'Props/C07.v', 'bin': 'c0607', 'profile': 'dev', 'hooks': True, 'groups': ['Wal'],
    'harness_args': ['--mode', 'c07'], 'harness_timeout': 2400,
    'design_ref': 'DESIGN.md section 5, C06/C07; design/C07.md',
    'technique': 'Coq proof (invariant over byte-granular file-system actions of Model/Wal.v, every crash cut) + constants regenerated from source + differential correspondence against the real PersistentStateManager at every labelled crash point and byte truncation',
    'level_text': 'Theorems (Props/C07.v) over all operation histories and all crash cuts; model tied to src/persistent_state.rs by regenerated constants and by reopening copies of the real state directory taken at crash-point hooks.',
    'level_note': 'Trusted: Coq kernel; translator regexes; harness; crash-point hooks. Modelled, not verified: process-death semantics only (page cache/fsync and power loss are outside the model); OS rename/unlink/truncate atomic; postcard encoders are Section variables with a decode-after-encode hypothesis (the concrete codec is compared byte for byte with the real files in C07 cases and by file sizes here); HMAC is a Section variable; second-granular wall clock non-decreasing; operations serialised (one writer).',
    'assumptions': ['process-death crash semantics (no power loss / page-cache model)', 'rename, unlink, truncate are atomic', 'deser (ser e) = Some e and snapshot codec round trip', 'snapshot file-name clock is non-decreasing', 'single writer'],
}
def run(ctx):
    return core.standard_check(ctx, META)
