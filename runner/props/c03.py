import core
META = {
    'id': 'C03', 'props_v': 'Props/C03.v', 'bin': 'c03', 'profile': 'dev', 'hooks': True, 'groups': ['Lookup'],
    'design_ref': 'DESIGN.md section 5, C03; design/C03.md',
    'technique': 'Coq proof (put/get client algorithms and the remote handlers as functions over per-node stores, Model/Store.v on top of Model/Lookup.v; invariants over arbitrary operation histories) + constants regenerated from source + differential correspondence (vm_compute) against 2..10 real DhtNetworkManagers over an in-memory router',
    'level_text': 'Theorems (Props/C03.v) for every reply function, silent set and history: a refused (>512 byte) put changes no store; an accepted put leaves exactly the value under the key at the origin and at every target reported successful, the targets being exactly the non-self members of the closest-node lookup; no store path ever admits a value over 512 bytes; a get returns only bytes that a reached node (or the origin) held under that same key, and reports not-found only when no reached node held it and (unless a budget cut the run) every learned peer was queried or failed. The model is compared on every run with real nodes: same stores on every node for every key before/after each operation, same targets, outcomes and request sets.',
    'level_note': 'Trusted: Coq kernel; translator; harness + in-memory router hooks. Modelled, not verified: parallel PUT / FIND_VALUE RPCs of one batch are processed in batch order; values are abstracted to (identity, length); the replying peers\' node lists are inputs (their content is C02\'s subject). Partial: timing is outside the model (C20).',
    'assumptions': ['batch replies processed in batch order', 'distinct byte strings get distinct value ids (harness)'],
    'harness_timeout': 1500,
}
def run(ctx):
    return core.standard_check(ctx, META)
