import core
META = {
    'id': 'C17', 'props_v': 'Props/C17.v', 'bin': 'c17', 'profile': 'dev', 'hooks': False, 'groups': ['Placement'],
    'design_ref': 'DESIGN.md section 5, C17; design/C17.md',
    'technique': 'Coq proof (Model/Placement.v: the k-round select loop, Efraimidis-Spirakis sampler, diversity validation, over binary64 with all random draws and all powf results universally quantified as oracles; real-analysis lemma for the key) + constants regenerated from source + differential correspondence (vm_compute) against the real WeightedSampler / DiversityEnforcer / WeightedPlacementStrategy / PlacementEngine with fastrand seeded',
    'level_text': 'Theorems (Props/C17.v) for ALL candidate lists, metadata tables, distance tables, optimisation exponents (any binary64 incl. NaN/inf/0/negative) and ALL draw sequences: an Ok placement has exactly k distinct nodes, all candidates with metadata, at most 2 per region, 3 per ASN and no pair closer than 50 km (numbers proved from the constants regenerated from the source); every other outcome is an error value; no panic outcome is reachable (the sort never sees a NaN key); a node chosen in round i is not a candidate in any later round; the sampler returns k distinct listed entries; the key u^(1/w) is non-decreasing in w (Reals); swapping the draws of a heavier and a lighter candidate never leaves the lighter selected and the heavier not (coupling behind "favours heavier").',
    'level_note': 'Trusted: Coq kernel; translator regexes; harness. Axioms: the classical real-number axioms of the Coq standard library (ClassicalDedekindReals.sig_forall_dec, ClassicalDedekindReals.sig_not_dec, FunctionalExtensionality.functional_extensionality_dep, Classical_Prop.classic) are used ONLY by C17_key_monotone and C17_swap_dominance; all other theorems are closed under the global context except the primitive-float declarations. Modelled, not verified: libm powf and the haversine distance_km are oracles/tables whose values the harness takes from the real code on every case (assumed: u.powf(1/w) is not NaN for u in [0,1) and a weight that passed the guard - checked on every generated case); hashbrown iteration order of a cloned/shrunk HashSet equals that of the original (observed by the harness and handed to the model); fastrand reseeding reproduces the draws. Partial: "over many draws favours heavier candidates" is proved as swap dominance for tie-free keys over the reals and MEASURED (labelled so) as frequencies in the harness, not proved as a probability statement.',
    'allowed_axioms': ['ClassicalDedekindReals.sig_forall_dec', 'ClassicalDedekindReals.sig_not_dec', 'FunctionalExtensionality.functional_extensionality_dep', 'Classical_Prop.classic',
                       'Axioms'],  # runner/core.py parses the header line "Axioms:" of Print Assumptions as a name
   
    'assumptions': ['u.powf(1/w) is not NaN for 0 <= u < 1 and a non-NaN weight w > 0 (hypothesis Hkf of C17_total; sampled on every case)',
                    'fastrand::f64() returns values in [0,1) (hypothesis Hdraw; checked on every draw handed to the model)',
                    'iteration order of HashSet::clone() and after remove() equals the original order (hashbrown)'],
    'harness_timeout': 1500,
}
def run(ctx):
    return core.standard_check(ctx, META)
