import core
META = {
    'id': 'C04', 'props_v': 'Props/C04.v', 'bin': 'c04', 'profile': 'dev', 'hooks': True, 'groups': ['Pending'],
    'design_ref': 'DESIGN.md section 5, C04; design/C04.md',
    'technique': 'Coq proof (invariants over arbitrary event sequences of the two pending-table state machines, Model/Pending.v) + constants regenerated from source + differential correspondence (vm_compute) against the real tables through raw-frame injection',
    'level_text': 'Theorems (Props/C04.v) over ALL event sequences (= all interleavings, because every real step runs under one lock): a reply completes a request only with that request\'s id from the contacted peer; unknown, foreign, duplicated and late replies are discarded without touching any entry; no event about one request changes another; with fresh ids each request gets at most one reply; a finished request leaves nothing behind, dropped futures are swept after 2x timeout (DHT table) or removed by their guard (/rr/ table); the /rr/ table never exceeds 256. The model is compared on every run with the real DhtNetworkManager / TransportHandle: response frames are injected into the real receive loop with an arbitrary authenticated sender id.',
    'level_note': 'Trusted: Coq kernel; translator; harness + frame injection hook. Modelled, not verified: tokio oneshot/timeout semantics (send-after-drop fails, a timeout fires once), uuid v4 freshness (hypothesis NoDup send ids), the mutex/RwLock making each step atomic. Partial: real concurrency is exercised only through quiesced scripts; the core-engine query table (DhtCoreEngine::handle_response, not wired into the node) is outside the claim - see design/C04.md.',
    'assumptions': ['each table step is atomic (one lock)', 'uuid v4 request ids are fresh'],
    'harness_timeout': 1200,
}
def run(ctx):
    return core.standard_check(ctx, META)
