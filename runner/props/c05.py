import core
META = {
    'id': 'C05', 'props_v': 'Props/C05.v', 'bin': 'c05', 'extra_bins': ['c05net'], 'profile': 'dev', 'hooks': True, 'groups': ['Wire'],
    'design_ref': 'DESIGN.md section 5, C05; design/C05.md',
    'technique': 'Coq proof about a generic schema-directed model of the postcard wire format (round trip for every schema and value, allocation bound, window / source / size-gate / cap theorems) + schemas and limits regenerated from the Rust source + differential decoding (vm_compute) against the real decoders under catch_unwind',
    'level_text': 'PARTIAL. Proved (Props/C05.v) for the model: decode(encode v ++ rest) = (v, rest) for every generated schema and well-typed value; the number of dynamically sized items in a decoded value never exceeds the number of bytes consumed; a framed message is surfaced only with a timestamp in [now-300, now+30] and always carries the connection id, whatever the payload claims; DHT messages over 65536 bytes are refused without consulting the decoder; find-node replies hold at most 20 nodes; no value over 512 bytes is ever stored (all request histories); records over 512 bytes are refused by serialize and deserialize. Observed, not proved: panic-freedom and allocation of the REAL decoders (every call runs under catch_unwind on random and mutated inputs up to 128 KiB and must agree with the total model on accept/reject, canonical re-encoding and bytes consumed).',
    'level_note': 'partial: the Rust decoders (postcard 1.1.3 + serde derive) are modelled by Model/Postcard.v and tied by differential testing, not verified. Trusted: Coq kernel; translator/gen_schemas.py + consts.py (fail-closed); harness. The dispatcher-level statement (pending table and store unchanged on reject) is proved for the model; its correspondence needs a running node and is left to the network-level check. The DHT-manager model assumes a node that knows no peers (lookup replies are GetNotFound).',
    'assumptions': ['postcard/serde decoding is modelled (Model/Postcard.v) and differentially tested, not verified',
                    'wall clock is an input to the model (cases in which the second ticked during the call are discarded and counted)',
                    'handle_dht_message is exercised on a node without known peers'],
    'harness_timeout': 2400,
}
def run(ctx):
    return core.standard_check(ctx, META)
