import core
META = {
    'id': 'C12', 'props_v': 'Props/C12.v', 'bin': 'c12', 'profile': 'dev', 'hooks': True, 'groups': ['Counter'],
    'design_ref': 'DESIGN.md section 5, C12',
    'technique': 'Coq proof (induction over arbitrary operation histories of Model/Counter.v) + constants regenerated from source + differential correspondence (vm_compute) against the real MonotonicCounterSystem',
    'level_text': 'Theorems (Props/C12.v) over all histories of submissions/batches/cleanups with arbitrary clocks: accept iff in-window and seq = last+1; accepted numbers per peer are exactly 1..m; rejects change nothing; peers are isolated; a reloaded snapshot never re-accepts a persisted number; the counter cannot overflow. The model is tied to src/monotonic_counter.rs by constants regenerated from the source and by running model and implementation on the same histories (sequential, batch, reload-after-sync, concurrent).',
    'level_note': 'Trusted: Coq kernel; translator regexes; harness. Modelled, not verified: the std RwLock critical section is taken to be atomic (validated by 16-way concurrent submissions), wall clock passed to the model as an input (cases straddling a second tick are discarded and counted), postcard persistence of the counter map is exercised by real reloads but not proved. reset_peer_counter (documented "use with caution") is outside the operation set.',
    'assumptions': ['validate-and-apply runs under one write lock (atomic step); checked by concurrent runs, not proved about std::sync::RwLock',
                    'wall clock is an input to the model'],
}
def run(ctx):
    return core.standard_check(ctx, META)
