#!/usr/bin/env python3
"""Translator, part 3: lock-acquisition sequences of DhtNetworkManager (C20).

Scans src/dht_network_manager.rs function by function and emits, for every function
that touches a lock, the sequence of Acq/Rel actions it may perform while other guards
are held (crude lexical analysis of guard lifetimes; calls to sibling methods made while
a guard is held contribute the callee's transitive lock set).  Output: coq/Gen/LockSeqs.v
with `lock_progs : list prog`.  The Coq side proves `forallb (ordered []) lock_progs = true`
by computation; a nesting that violates the rank order (or re-acquires a held lock) makes
that proof fail.  Fail-closed: an unknown lock receiver gets rank 0, which no nesting
under another guard can satisfy.
"""
import re, sys, os

RANK = {'dht': 1, 'dht_peers': 2, 'maintenance_scheduler': 3, 'scheduler': 3, 'stats': 4,
        'active_operations': 5, 'maintenance_handle': 6, 'event_handler_handle': 7}

LOCK_RE = re.compile(r'((?:[A-Za-z_]\w*\.)*[A-Za-z_]\w*)\.(read|write)\(\)\.await|((?:[A-Za-z_]\w*\.)*[A-Za-z_]\w*)\.(lock)\(\)')
CALL_RE = re.compile(r'(?:self|Self|self_arc|manager_clone|manager)(?:\.|::)([a-z_]\w*)\(')

def functions(src):
    """yield (name, body) for every fn inside `impl DhtNetworkManager` blocks"""
    for m in re.finditer(r'\bfn\s+([a-z_]\w*)\s*(?:<[^>]*>)?\s*\(', src):
        i = src.find('{', m.end())
        # skip signatures of trait fns without body
        semi = src.find(';', m.end())
        if i < 0 or (0 <= semi < i and src[m.end():semi].count('(') == src[m.end():semi].count(')') and '{' not in src[m.end():semi]):
            continue
        depth, j = 0, i
        while j < len(src):
            if src[j] == '{': depth += 1
            elif src[j] == '}':
                depth -= 1
                if depth == 0: break
            j += 1
        yield m.group(1), src[i:j + 1]

def strip(src):
    src = re.sub(r'//[^\n]*', '', src)
    src = re.sub(r'"(?:\\.|[^"\\])*"', '""', src)
    return re.sub(r'\s+', '', src)   # rustfmt splits call chains over lines: remove all whitespace

def lock_name(recv):
    base = recv.split('.')[-1]
    return base

def scan(body, callee_locks):
    """returns list of actions [('A', lock, mode) | ('R', lock)] and the set of locks touched"""
    acts, touched = [], set()
    held = []   # (lock, mode, kind, depth, name)
    depth = 0
    i, n = 0, len(body)
    stmt_start = 0
    events = []
    for m in LOCK_RE.finditer(body): events.append((m.start(), 'lock', m))
    for m in CALL_RE.finditer(body): events.append((m.start(), 'call', m))
    for k, ch in enumerate(body):
        if ch in '{};': events.append((k, ch, None))
    for m in re.finditer(r'drop\((\w+)\)', body): events.append((m.start(), 'drop', m))
    events.sort(key=lambda e: (e[0], 0 if e[1] in '{};' else 1))
    def release(pred):
        nonlocal held
        for h in [h for h in held if pred(h)][::-1]:
            acts.append(('R', h[0])); held.remove(h)
    for pos, kind, m in events:
        if kind == '{':
            depth += 1; stmt_start = pos + 1
            # guards created in the header of this block (match / if let scrutinee) live through it
            for idx, h in enumerate(held):
                if h[2] == 'header' and h[3] == depth - 1:
                    held[idx] = (h[0], h[1], 'block', depth, h[4])
        elif kind == '}':
            release(lambda h: h[3] >= depth and h[2] in ('block', 'stmt', 'header'))
            depth -= 1; stmt_start = pos + 1
        elif kind == ';':
            release(lambda h: h[2] in ('stmt', 'header') and h[3] == depth)
            stmt_start = pos + 1
        elif kind == 'drop':
            release(lambda h: h[4] == m.group(1))
        elif kind == 'lock':
            recv = m.group(1) or m.group(3)
            mode = m.group(2) or m.group(4)
            lock = lock_name(recv)
            if lock in ('self', 'Self'): continue
            prefix = body[stmt_start:pos]
            after = body[m.end():m.end() + 1]
            name = None
            lm = re.match(r'^let(?:mut)?([A-Za-z_]\w*)(?::[^=]+)?=$', prefix)
            if lm and after == ';':
                gkind, name = 'block', lm.group(1)
                if name.startswith('mut'): name = name[3:]
            elif re.match(r'^(match|iflet|whilelet|if|while|for)', prefix) or re.match(r'^(letOk|letSome|let\w*=match)', prefix) or prefix.startswith('ifletOk') or prefix.startswith('letOk'):
                gkind = 'header'
            else:
                gkind = 'stmt'
            acts.append(('A', lock, 'Wr' if mode in ('write', 'lock') else 'Rd'))
            touched.add(lock)
            held.append((lock, mode, gkind, depth, name))
        elif kind == 'call':
            callee = m.group(1)
            if held and callee in callee_locks:
                for l in sorted(callee_locks[callee], key=lambda x: RANK.get(x, 0)):
                    acts.append(('A', l, 'Wr')); acts.append(('R', l))
    release(lambda h: True)
    return acts, touched

def main():
    repo = sys.argv[1] if len(sys.argv) > 1 else '/repo'
    gen = sys.argv[2] if len(sys.argv) > 2 else os.path.join(os.path.dirname(os.path.abspath(__file__)), '..', 'coq', 'Gen')
    path = os.path.join(repo, 'src/dht_network_manager.rs')
    out = ['(* GENERATED by translator/gen_lockseqs.py from %s -- do not edit *)' % path,
           'From SV Require Import Lib.Base Model.Liveness.', 'Local Open Scope N_scope.', '']
    try:
        src = open(path, encoding='utf-8').read()
    except OSError:
        out.append('(* MISSING: source not readable *)')
        open(os.path.join(gen, 'LockSeqs.v'), 'w').write('\n'.join(out) + '\n'); return
    cut = src.find('#[cfg(test)]\nmod tests')
    if cut > 0: src = src[:cut]
    fns = [(name, strip(body)) for name, body in functions(src)]
    # pass 1: direct lock sets; pass 2: transitive closure over sibling calls
    direct = {}
    calls = {}
    for name, body in fns:
        _, touched = scan(body, {})
        direct.setdefault(name, set()).update(touched)
        calls.setdefault(name, set()).update(m.group(1) for m in CALL_RE.finditer(body))
    closure = {k: set(v) for k, v in direct.items()}
    changed = True
    while changed:
        changed = False
        for f in closure:
            for c in calls.get(f, ()):
                if c in closure and c != f and not closure[c] <= closure[f]:
                    closure[f] |= closure[c]; changed = True
    progs = []
    for name, body in fns:
        acts, touched = scan(body, closure)
        if not acts: continue
        terms = []
        for a in acts:
            if a[0] == 'A': terms.append('Acq %d %s' % (RANK.get(a[1], 0), a[2]))
            else: terms.append('Rel %d' % RANK.get(a[1], 0))
        progs.append('  (* %s : %s *)\n  [%s]' % (name, ' '.join(sorted(touched)), '; '.join(terms)))
    out.append('Definition lock_progs : list prog := [\n' + ';\n'.join(progs) + '\n].')
    text = '\n'.join(out) + '\n'
    dst = os.path.join(gen, 'LockSeqs.v')
    try:
        if open(dst).read() == text: return
    except OSError:
        pass
    os.makedirs(gen, exist_ok=True)
    open(dst, 'w').write(text)

if __name__ == '__main__':
    main()
