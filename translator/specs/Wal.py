# C06/C07 write-ahead log and snapshots (src/persistent_state.rs)
F = 'src/persistent_state.rs'
SPECS = [
    ('WAL_VERSION', F, r'const\s+WAL_VERSION\s*:\s*u8\s*=\s*([0-9_]+)\s*;', 'N'),
    ('WAL_MAX_SIZE', F, r'const\s+MAX_WAL_SIZE\s*:\s*u64\s*=\s*([0-9_ \*]+)\s*;', 'N'),
    ('WAL_MAX_ENTRIES', F, r'const\s+MAX_WAL_ENTRIES\s*:\s*usize\s*=\s*([0-9_]+)\s*;', 'N'),
    ('WAL_SNAPSHOT_RETENTION', F, r'const\s+SNAPSHOT_RETENTION_COUNT\s*:\s*usize\s*=\s*([0-9_]+)\s*;', 'N'),
    ('WAL_HMAC_KEY_LEN', F, r'const\s+HMAC_KEY_LEN\s*:\s*usize\s*=\s*([0-9_]+)\s*;', 'N'),
]
