# C04 pending tables
SPECS = [
    ('RR_MAX_ACTIVE_REQUESTS', 'src/network.rs', r'pub\(crate\)\s+const\s+MAX_ACTIVE_REQUESTS\s*:\s*usize\s*=\s*([0-9_]+)\s*;', 'N'),
    ('PEND_SWEEP_MULT', 'src/dht_network_manager.rs', r'now\.duration_since\(ctx\.started_at\)\s*>\s*ctx\.timeout\s*\*\s*([0-9]+)', 'N'),
]
