# C18 encrypted key store (src/encrypted_key_storage.rs, src/key_derivation.rs):
# format version, widths of the fixed arrays of the store file header, Argon2 parameter sets
F = 'src/encrypted_key_storage.rs'
def lvl(name, field):
    return r'SecurityLevel::%s\s*=>\s*Argon2Config\s*\{[^}]*?\b%s\s*:\s*([0-9_]+)' % (name, field)
SPECS = [
    ('KS_FORMAT_VERSION', F, r'const\s+STORAGE_FORMAT_VERSION\s*:\s*u32\s*=\s*([0-9_]+)\s*;', 'N'),
    ('KS_SALT_SIZE', F, r'const\s+SALT_SIZE\s*:\s*usize\s*=\s*([0-9_]+)\s*;', 'N'),
    ('KS_NONCE_SIZE', F, r'const\s+AES_NONCE_SIZE\s*:\s*usize\s*=\s*([0-9_]+)\s*;', 'N'),
    ('KS_TAG_FIELD_SIZE', F, r'pub\s+auth_tag\s*:\s*\[u8;\s*([0-9_]+)\]', 'N'),
    ('KS_FAST_MEMORY_KIB', F, lvl('Fast', 'memory_cost'), 'N'),
    ('KS_FAST_TIME', F, lvl('Fast', 'time_cost'), 'N'),
    ('KS_FAST_LANES', F, lvl('Fast', 'parallelism'), 'N'),
    ('KS_FAST_HASH_LEN', F, lvl('Fast', 'hash_length'), 'N'),
    ('KS_DEFAULT_MEMORY_KIB', F, r'const\s+DEFAULT_MEMORY_COST\s*:\s*u32\s*=\s*([0-9_]+)\s*;', 'N'),
    ('KS_DEFAULT_TIME', F, r'const\s+DEFAULT_TIME_COST\s*:\s*u32\s*=\s*([0-9_]+)\s*;', 'N'),
    ('KS_DEFAULT_LANES', F, r'const\s+DEFAULT_PARALLELISM\s*:\s*u32\s*=\s*([0-9_]+)\s*;', 'N'),
    ('KS_DEFAULT_HASH_LEN', F, r'const\s+DEFAULT_HASH_LENGTH\s*:\s*usize\s*=\s*([0-9_]+)\s*;', 'N'),
    ('KS_MASTER_SEED_SIZE', 'src/key_derivation.rs', r'const\s+MASTER_SEED_SIZE\s*:\s*usize\s*=\s*([0-9_]+)\s*;', 'N'),
    # structural facts, each must occur exactly once
    ('KS_KDF_USES_FILE_SALT', F, r'(self\.derive_key\(password,\s*&storage\.header\.salt\))', 'present'),
    ('KS_DEC_USES_FILE_NONCE_NO_AAD', F, r'(\.decrypt\(&storage\.encrypted_data,\s*&storage\.header\.nonce,\s*None\))', 'present'),
    ('KS_TMP_THEN_RENAME', F, r'(std::fs::rename\(&temp_path,\s*&self\.storage_path\))', 'present'),
]
