# C14 rate limits (src/rate_limit.rs): LRU capacity, join-limiter defaults and windows.
# Each pattern must match exactly once; otherwise the constant is omitted and
# Model/RateLimit.v stops compiling (fail-closed).
_R = 'src/rate_limit.rs'
SPECS = [
    ('RL_MAX_KEYS', _R, r'const\s+MAX_RATE_LIMIT_KEYS\s*:\s*usize\s*=\s*([0-9_]+)\s*;', 'N'),
    # impl Default for JoinRateLimiterConfig
    ('JOIN_DEFAULT_PER_64', _R, r'fn\s+default\(\)\s*->\s*Self\s*\{\s*Self\s*\{[^}]*?max_joins_per_64_per_hour\s*:\s*([0-9_]+)\s*,', 'N'),
    ('JOIN_DEFAULT_PER_48', _R, r'fn\s+default\(\)\s*->\s*Self\s*\{\s*Self\s*\{[^}]*?max_joins_per_48_per_hour\s*:\s*([0-9_]+)\s*,', 'N'),
    ('JOIN_DEFAULT_PER_24', _R, r'fn\s+default\(\)\s*->\s*Self\s*\{\s*Self\s*\{[^}]*?max_joins_per_24_per_hour\s*:\s*([0-9_]+)\s*,', 'N'),
    ('JOIN_DEFAULT_GLOBAL_PER_MIN', _R, r'fn\s+default\(\)\s*->\s*Self\s*\{\s*Self\s*\{[^}]*?max_global_joins_per_minute\s*:\s*([0-9_]+)\s*,', 'N'),
    ('JOIN_DEFAULT_GLOBAL_BURST', _R, r'fn\s+default\(\)\s*->\s*Self\s*\{\s*Self\s*\{[^}]*?global_burst_size\s*:\s*([0-9_]+)\s*,', 'N'),
    # JoinRateLimiter::new: the window of each engine, in seconds
    ('JOIN_WINDOW_64_SECS', _R, r'let\s+subnet_64_config\s*=\s*EngineConfig\s*\{\s*window\s*:\s*Duration::from_secs\(([0-9_ \*]+)\)', 'N'),
    ('JOIN_WINDOW_48_SECS', _R, r'let\s+subnet_48_config\s*=\s*EngineConfig\s*\{\s*window\s*:\s*Duration::from_secs\(([0-9_ \*]+)\)', 'N'),
    ('JOIN_WINDOW_24_SECS', _R, r'let\s+subnet_24_config\s*=\s*EngineConfig\s*\{\s*window\s*:\s*Duration::from_secs\(([0-9_ \*]+)\)', 'N'),
    ('JOIN_WINDOW_GLOBAL_SECS', _R, r'let\s+global_config\s*=\s*EngineConfig\s*\{\s*window\s*:\s*Duration::from_secs\(([0-9_ \*]+)\)', 'N'),
]
