# C16 trust-aware peer selection (src/dht/trust_peer_selector.rs) and the candidate widening of
# DhtCoreEngine::select_query_peers / select_storage_peers (src/dht/core_engine.rs).
SEL = 'src/dht/trust_peer_selector.rs'
CE = 'src/dht/core_engine.rs'
NUM = r'([0-9_.eE+-]+)'
def cfg(fn, field):
    return r'pub fn ' + fn + r'\(\) -> Self \{\s*Self \{[^}]*?\b' + field + r':\s*' + NUM + r'\s*,'
SPECS = [
    ('SEL_SCALE', SEL, r'const\s+DISTANCE_DAMPENING_FACTOR\s*:\s*f64\s*=\s*' + NUM + r'\s*;(?=.*\(distance as f64\) / DISTANCE_DAMPENING_FACTOR)', 'Qdec'),
    ('SEL_DIST_BYTES', SEL, r'fn xor_distance\(key: &DhtKey, node_id: &NodeId\) -> u128 \{.*?for i in 0\.\.([0-9]+) \{\s*distance = \(distance << 8\)', 'N'),
    ('SEL_STORAGE_WEIGHT', SEL, cfg('for_storage', 'trust_weight'), 'Qdec'),
    ('SEL_STORAGE_MIN', SEL, cfg('for_storage', 'min_trust_threshold'), 'Qdec'),
    ('SEL_STORAGE_EXCLUDES', SEL, r'pub fn for_storage\(\) -> Self \{\s*Self \{[^}]*?(exclude_untrusted:\s*true)\s*,', 'present'),
    ('SEL_QUERY_WEIGHT', SEL, cfg('for_queries', 'trust_weight'), 'Qdec'),
    ('SEL_QUERY_MIN', SEL, cfg('for_queries', 'min_trust_threshold'), 'Qdec'),
    ('SEL_QUERY_KEEPS', SEL, r'pub fn for_queries\(\) -> Self \{\s*Self \{[^}]*?(exclude_untrusted:\s*false)\s*,', 'present'),
    # the selector built by `new` uses for_storage() for storage selections
    ('SEL_NEW_USES_FOR_STORAGE', SEL, r'pub fn new\(trust_provider: Arc<T>, config: TrustSelectionConfig\) -> Self \{\s*Self \{\s*trust_provider,\s*config,\s*(storage_config: TrustSelectionConfig::for_storage\(\)),', 'present'),
    # widening: find_closest_nodes(key, count * 2) for queries, count * 3 for storage
    ('SEL_QUERY_WIDEN', CE, r'async fn select_query_peers\(&self, key: &DhtKey, count: usize\) -> Vec<NodeInfo> \{.*?routing\.find_closest_nodes\(key, count \* ([0-9]+)\);', 'N'),
    ('SEL_STORAGE_WIDEN', CE, r'async fn select_storage_peers\(&self, key: &DhtKey, count: usize\) -> Vec<NodeInfo> \{.*?routing\.find_closest_nodes\(key, count \* ([0-9]+)\);', 'N'),
]
