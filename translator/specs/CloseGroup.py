# C15 close-group validation (src/dht/routing_maintenance/{close_group_validator,config,validator}.rs)
CGV = 'src/dht/routing_maintenance/close_group_validator.rs'
CFG = 'src/dht/routing_maintenance/config.rs'
VAL = 'src/dht/routing_maintenance/validator.rs'
SPECS = [
    # impl Default for CloseGroupValidatorConfig (the only places where these fields get a literal)
    ('CG_MIN_PEERS', CGV, r'min_peers_to_query\s*:\s*([0-9_]+)\s*,', 'N'),
    ('CG_THR_WEIGHTED', CGV, r'trust_weighted_threshold\s*:\s*([0-9_]+\.[0-9_]*)\s*,', 'Qdec'),
    ('CG_THR_BFT', CGV, r'bft_threshold\s*:\s*([0-9_]+\.[0-9_]*)\s*,', 'Qdec'),
    ('CG_MIN_WITNESS_TRUST', CGV, r'min_witness_trust\s*:\s*([0-9_]+\.[0-9_]*)\s*,', 'Qdec'),
    ('CG_MIN_REGIONS', CGV, r'min_regions\s*:\s*([0-9_]+)\s*,', 'N'),
    # validate_trust_weighted: weight of a witness without a trust score
    ('CG_UNKNOWN_WEIGHT', CGV, r'let\s+weight\s*=\s*response\s*\.\s*peer_trust_score\s*\.\s*unwrap_or\(\s*([0-9_]+\.[0-9_]*)\s*\)', 'Qdec'),
    # validate_bft: trust assumed for a witness without a trust score in the trusted-witness filter
    ('CG_BFT_UNKNOWN_TRUST', CGV, r'peer_trust_score\s*\.\s*unwrap_or\(\s*([0-9_]+\.[0-9_]*)\s*\)\s*[<>=]+\s*self\.config\.min_witness_trust', 'Qdec'),
    # detect_collusion_indicators (comparison operators are deliberately not part of the patterns: a changed
    # operator must show up as a concrete disagreement in the correspondence, not as a missing constant)
    ('CG_COLLUSION_MIN_RESPONSES', CGV, r'if\s+responses\.len\(\)\s*<=?\s*([0-9_]+)\s*\{\s*return\s+false', 'N'),
    ('CG_COLLUSION_WINDOW_MS', CGV, r'diff\s*<=?\s*Duration::from_millis\(\s*([0-9_]+)\s*\)', 'N'),
    ('CG_COLLUSION_DIV', CGV, r'similar_count\s*>=?\s*responses\.len\(\)\s*/\s*([0-9_]+)', 'N'),
    # validate_trust_only: factor applied to min_witness_trust outside attack mode
    ('CG_TRUST_ONLY_FACTOR', CGV, r'self\.config\.min_witness_trust\s*\*\s*([0-9_]+\.[0-9_]*)', 'Qdec'),
    # MaintenanceConfig: default f, 2f+1, 3f+1
    ('MC_BFT_F', CFG, r'min_trust_threshold\s*:\s*[0-9_.]+\s*,\s*bft_fault_tolerance\s*:\s*([0-9_]+)\s*,', 'N'),
    ('MC_CONF_MUL', CFG, r'fn\s+required_confirmations\(&self\)\s*->\s*usize\s*\{\s*([0-9_]+)\s*\*\s*self\.bft_fault_tolerance\s*\+\s*[0-9_]+\s*\}', 'N'),
    ('MC_CONF_ADD', CFG, r'fn\s+required_confirmations\(&self\)\s*->\s*usize\s*\{\s*[0-9_]+\s*\*\s*self\.bft_fault_tolerance\s*\+\s*([0-9_]+)\s*\}', 'N'),
    ('MC_WIT_MUL', CFG, r'fn\s+minimum_witnesses\(&self\)\s*->\s*usize\s*\{\s*([0-9_]+)\s*\*\s*self\.bft_fault_tolerance\s*\+\s*[0-9_]+\s*\}', 'N'),
    ('MC_WIT_ADD', CFG, r'fn\s+minimum_witnesses\(&self\)\s*->\s*usize\s*\{\s*[0-9_]+\s*\*\s*self\.bft_fault_tolerance\s*\+\s*([0-9_]+)\s*\}', 'N'),
    # from_maintenance_config: max_peers = minimum_witnesses + 3 (not used by the decision; recorded)
    # NodeValidationResult::is_valid: strict majority divisor
    ('NV_MAJORITY_DIV', VAL, r'self\.confirming_witnesses\s*>=?\s*self\.total_witnesses\s*/\s*([0-9_]+)', 'N'),
]
