# C10/C11 EigenTrust engine (src/adaptive/trust.rs).  Every number the model uses is
# re-read from the source; Props/C10.v and Props/C11.v prove their statements from them.
T = 'src/adaptive/trust.rs'
SPECS = [
    # teleport weight, decay rate, iteration control
    ('TRUST_ALPHA', T, r'\balpha\s*:\s*([0-9_.]+)\s*,', 'Qdec'),
    ('TRUST_DECAY_RATE', T, r'\bdecay_rate\s*:\s*([0-9_.]+)\s*,', 'Qdec'),
    ('TRUST_MAX_ITERATIONS', T, r'const\s+MAX_ITERATIONS\s*:\s*usize\s*=\s*([0-9_]+)\s*;', 'N'),
    # `if diff < CONVERGENCE_THRESHOLD && iteration + 1 >= MIN_ITERATIONS { break; }`: the convergence exit is
    # taken only after MIN_ITERATIONS rounds; both constants disappear (fail-closed) when the guard is removed
    ('TRUST_MIN_ITERATIONS', T, r'const\s+MIN_ITERATIONS\s*:\s*usize\s*=\s*([0-9_]+)\s*;', 'N'),
    ('TRUST_MIN_ITER_OFFSET', T, r'if\s+diff\s*<\s*CONVERGENCE_THRESHOLD\s*&&\s*iteration\s*\+\s*([0-9_]+)\s*>=\s*MIN_ITERATIONS\s*\{\s*break\s*;', 'N'),
    ('TRUST_CONV_THRESHOLD', T, r'const\s+CONVERGENCE_THRESHOLD\s*:\s*f64\s*=\s*([0-9_.]+)\s*;', 'Qdec'),
    # `if n > 100 && iteration > 5 { break; } if n > 500 && iteration > 2 { break; } }`
    ('TRUST_CUT1_N', T, r'if\s+n\s*>\s*([0-9_]+)\s*&&\s*iteration\s*>\s*[0-9_]+\s*\{\s*break\s*;\s*\}\s*if\s+n\s*>', 'N'),
    ('TRUST_CUT1_ITER', T, r'if\s+n\s*>\s*[0-9_]+\s*&&\s*iteration\s*>\s*([0-9_]+)\s*\{\s*break\s*;\s*\}\s*if\s+n\s*>', 'N'),
    ('TRUST_CUT2_N', T, r'break\s*;\s*\}\s*if\s+n\s*>\s*([0-9_]+)\s*&&\s*iteration\s*>\s*[0-9_]+\s*\{\s*break\s*;\s*\}\s*\}', 'N'),
    ('TRUST_CUT2_ITER', T, r'break\s*;\s*\}\s*if\s+n\s*>\s*[0-9_]+\s*&&\s*iteration\s*>\s*([0-9_]+)\s*\{\s*break\s*;\s*\}\s*\}', 'N'),
    # EMA of update_local_trust (and the TrustProvider::update_trust copy)
    ('TRUST_EMA_KEEP', T, r'pub\s+async\s+fn\s+update_local_trust\b.*?data\.value\s*=\s*([0-9_.]+)\s*\*\s*data\.value\s*\+\s*[0-9_.]+\s*\*\s*new_value\s*;', 'Qdec'),
    ('TRUST_EMA_NEW', T, r'pub\s+async\s+fn\s+update_local_trust\b.*?data\.value\s*=\s*[0-9_.]+\s*\*\s*data\.value\s*\+\s*([0-9_.]+)\s*\*\s*new_value\s*;', 'Qdec'),
    ('TRUST_EMA_KEEP_SYNC', T, r'\bfn\s+update_trust\s*\(.*?data\.value\s*=\s*([0-9_.]+)\s*\*\s*data\.value\s*\+\s*[0-9_.]+\s*\*\s*new_value\s*;', 'Qdec'),
    ('TRUST_EMA_NEW_SYNC', T, r'\bfn\s+update_trust\s*\(.*?data\.value\s*=\s*[0-9_.]+\s*\*\s*data\.value\s*\+\s*([0-9_.]+)\s*\*\s*new_value\s*;', 'Qdec'),
    # report weights of update_node_stats
    ('TRUST_W_CORRECT', T, r'NodeStatisticsUpdate::CorrectResponse\s*=>\s*node_stats\.correct_responses\s*\+=\s*([0-9_]+)\s*,', 'N'),
    ('TRUST_W_FAILED', T, r'NodeStatisticsUpdate::FailedResponse\s*=>\s*node_stats\.failed_responses\s*\+=\s*([0-9_]+)\s*,', 'N'),
    ('TRUST_W_UNAVAILABLE', T, r'NodeStatisticsUpdate::DataUnavailable\s*=>\s*node_stats\.failed_responses\s*\+=\s*([0-9_]+)\s*,', 'N'),
    ('TRUST_W_CORRUPTED', T, r'NodeStatisticsUpdate::CorruptedData\s*=>\s*\{[^{}]*node_stats\.failed_responses\s*\+=\s*([0-9_]+)\s*;[^{}]*\}', 'N'),
    ('TRUST_W_PROTOCOL', T, r'NodeStatisticsUpdate::ProtocolViolation\s*=>\s*\{[^{}]*node_stats\.failed_responses\s*\+=\s*([0-9_]+)\s*;[^{}]*\}', 'N'),
    # multi-factor multiplier
    ('TRUST_MF_DEFAULT_RATE', T, r'stats\.correct_responses\s*\+\s*stats\.failed_responses\)\s*as\s+f64\s*\}\s*else\s*\{\s*([0-9_.]+)\s*\}', 'Qdec'),
    ('TRUST_MF_LOG_DIV_STORAGE', T, r'stats\.storage_contributed\s+as\s+f64\)\.ln\(\)\s*/\s*([0-9_.]+)\s*;', 'Qdec'),
    ('TRUST_MF_LOG_DIV_BANDWIDTH', T, r'stats\.bandwidth_contributed\s+as\s+f64\)\.ln\(\)\s*/\s*([0-9_.]+)\s*;', 'Qdec'),
    ('TRUST_MF_LOG_DIV_COMPUTE', T, r'stats\.compute_contributed\s+as\s+f64\)\.ln\(\)\s*/\s*([0-9_.]+)\s*;', 'Qdec'),
    ('TRUST_MF_UPTIME_DAY', T, r'stats\.uptime\s+as\s+f64\s*/\s*([0-9_.]+)\)\.min\(', 'Qdec'),
    ('TRUST_MF_UPTIME_CAP', T, r'stats\.uptime\s+as\s+f64\s*/\s*[0-9_.]+\)\.min\(([0-9_.]+)\)', 'Qdec'),
    ('TRUST_MF_W_RATE', T, r'([0-9_.]+)\s*\*\s*response_rate\b', 'Qdec'),
    ('TRUST_MF_W_UPTIME', T, r'\+\s*([0-9_.]+)\s*\*\s*uptime_factor\b', 'Qdec'),
    ('TRUST_MF_W_STORAGE', T, r'\+\s*([0-9_.]+)\s*\*\s*storage_factor\b', 'Qdec'),
    ('TRUST_MF_W_BANDWIDTH', T, r'\+\s*([0-9_.]+)\s*\*\s*bandwidth_factor\b', 'Qdec'),
    ('TRUST_MF_W_COMPUTE', T, r'\+\s*([0-9_.]+)\s*\*\s*compute_factor\b', 'Qdec'),
    # cache: anchors start at 0.9, unknown ids read 0.0
    ('TRUST_ANCHOR_INITIAL', T, r'initial_cache\.insert\(node\.clone\(\)\s*,\s*([0-9_.]+)\s*\)', 'Qdec'),
    ('TRUST_ANCHOR_INITIAL_ADD', T, r'pub\s+async\s+fn\s+add_pre_trusted\b.*?cache\s*\.\s*(?:insert\(node_id\s*,|entry\(node_id\)\s*\.or_insert\()\s*([0-9_.]+)\s*\)', 'Qdec'),
    ('TRUST_UNKNOWN_SCORE', T, r'cache\.get\(node\)\.copied\(\)\.unwrap_or\(([0-9_.]+)\)', 'Qdec'),
]
