# C17 placement (src/placement/algorithms.rs, types.rs, mod.rs)
A = 'src/placement/algorithms.rs'
T = 'src/placement/types.rs'
M = 'src/placement/mod.rs'
F = r'([0-9][0-9_]*(?:\.[0-9_]*)?)'
SPECS = [
    # DiversityEnforcer::new
    ('PLC_MIN_GEO_DISTANCE', A, r'Self\s*\{\s*min_geographic_distance:\s*' + F + r'\s*,', 'Qdec'),
    ('PLC_MAX_PER_REGION', A, r'max_nodes_per_region:\s*([0-9_]+)\s*,', 'N'),
    ('PLC_MAX_PER_ASN', A, r'max_nodes_per_asn:\s*([0-9_]+)\s*,', 'N'),
    ('PLC_PENALTY', A, r'diversity_penalty:\s*' + F + r'\s*,', 'Qdec'),
    # validate_selection compares with min_geographic_distance / 2.0
    ('PLC_GEO_DIVISOR', A, r'if\s+distance\s*<\s*self\.min_geographic_distance\s*/\s*' + F + r'\s*\{', 'Qdec'),
    # calculate_diversity_factor: floor of the factor
    ('PLC_MIN_FACTOR', A, r'diversity_factor\.max\(\s*' + F + r'\s*\)', 'Qdec'),
    # mock per-node scores used by calculate_weights
    ('PLC_MOCK_TRUST', A, r'let\s+trust_score\s*=\s*' + F + r'\s*;', 'Qdec'),
    ('PLC_MOCK_STABILITY', A, r'let\s+stability_score\s*=\s*' + F + r'\s*;', 'Qdec'),
    ('PLC_MOCK_CAPACITY', A, r'let\s+capacity_factor\s*=\s*' + F + r'\s*;', 'Qdec'),
    # PlacementDecision.estimated_reliability written by the strategy, threshold in PlacementEngine::validate_decision
    ('PLC_RELIABILITY', A, r'estimated_reliability:\s*' + F + r'\s*,', 'Qdec'),
    ('PLC_MIN_RELIABILITY', M, r'if\s+decision\.estimated_reliability\s*<\s*' + F + r'\s*\{', 'Qdec'),
    # ReplicationFactor::default
    ('PLC_RF_MIN', T, r'impl\s+Default\s+for\s+ReplicationFactor\s*\{.*?min:\s*([0-9_]+)\s*,', 'N'),
    ('PLC_RF_DEFAULT', T, r'impl\s+Default\s+for\s+ReplicationFactor\s*\{.*?default:\s*([0-9_]+)\s*,', 'N'),
    ('PLC_RF_MAX', T, r'impl\s+Default\s+for\s+ReplicationFactor\s*\{.*?max:\s*([0-9_]+)\s*,', 'N'),
]
