# C09 peer records (src/peer_record.rs)
SPECS = [
    ('PR_MAX_ENDPOINTS', 'src/peer_record.rs',
     r'pub\s+const\s+MAX_ENDPOINTS_PER_PEER\s*:\s*usize\s*=\s*([0-9_]+)\s*;', 'N'),
    ('PR_MAX_TTL_SECONDS', 'src/peer_record.rs',
     r'pub\s+const\s+MAX_TTL_SECONDS\s*:\s*u32\s*=\s*([0-9_ \*]+)\s*;', 'N'),
    # the name bound is a literal inside validate_inputs
    ('PR_MAX_NAME_BYTES', 'src/peer_record.rs',
     r'fn\s+validate_inputs\b.*?if\s+name\.len\(\)\s*>\s*([0-9_]+)\s*\{', 'N'),
    ('PR_CURRENT_VERSION', 'src/peer_record.rs',
     r'pub\s+const\s+CURRENT_VERSION\s*:\s*u8\s*=\s*([0-9_]+)\s*;', 'N'),
]
