# C01 / C03 iterative lookup (src/dht_network_manager.rs)
F = 'src/dht_network_manager.rs'
SPECS = [
    ('LK_MAX_CANDIDATE_NODES', F, r'const\s+MAX_CANDIDATE_NODES\s*:\s*usize\s*=\s*([0-9_]+)\s*;', 'N'),
    ('LK_MAX_ITERATIONS', F, r'pub async fn find_closest_nodes_network\(.*?const\s+MAX_ITERATIONS\s*:\s*usize\s*=\s*([0-9_]+)\s*;', 'N'),
    ('LK_ALPHA', F, r'pub async fn find_closest_nodes_network\(.*?const\s+ALPHA\s*:\s*usize\s*=\s*([0-9_]+)\s*;', 'N'),
    ('GET_MAX_ITERATIONS', F, r'pub async fn get\(&self.*?const\s+MAX_ITERATIONS\s*:\s*usize\s*=\s*([0-9_]+)\s*;.*?pub async fn find_closest_nodes\(', 'N'),
    ('GET_ALPHA', F, r'pub async fn get\(&self.*?const\s+ALPHA\s*:\s*usize\s*=\s*([0-9_]+)\s*;.*?pub async fn find_closest_nodes\(', 'N'),
    ('MGR_MAX_VALUE_SIZE', F, r'const\s+MAX_VALUE_SIZE\s*:\s*usize\s*=\s*([0-9_]+)\s*;', 'N'),
    ('MGR_DHT_CLOSEST_NODES_COUNT', F, r'const\s+DHT_CLOSEST_NODES_COUNT\s*:\s*usize\s*=\s*([0-9_]+)\s*;', 'N'),
    ('CORE_MAX_DHT_VALUE_SIZE', 'src/dht/core_engine.rs', r'const\s+MAX_DHT_VALUE_SIZE\s*:\s*usize\s*=\s*([0-9_]+)\s*;', 'N'),
]
