# C02 routing table (src/dht/core_engine.rs) and the manager-level reply cap (src/dht_network_manager.rs).
# Each constant is tied to its USE SITE by a look-ahead, so re-wiring a call to a different constant
# makes the constant disappear (fail-closed) instead of silently keeping the old number.
CE = 'src/dht/core_engine.rs'
SPECS = [
    # bucket capacity: KademliaRoutingTable::new(node_id, K) -> KBucket::new(k_value) -> max_size
    ('RT_BUCKET_K', CE,
     r'buckets\.push\(KBucket::new\(k_value\)\).*\nconst\s+K\s*:\s*usize\s*=\s*([0-9_]+)\s*;(?=.*KademliaRoutingTable::new\(node_id,\s*K\))', 'N'),
    # find-value replies: routing.find_closest_nodes(key, K)
    ('RT_FIND_VALUE_COUNT', CE,
     r'\nconst\s+K\s*:\s*usize\s*=\s*([0-9_]+)\s*;(?=.*DhtMessage::FindValue\s*\{\s*ref\s+key\s*\}\s*=>.*?routing\.find_closest_nodes\(key,\s*K\))', 'N'),
    # find-node replies: count.min(MAX_FIND_NODE_COUNT)
    ('RT_MAX_FIND_NODE_COUNT', CE,
     r'\nconst\s+MAX_FIND_NODE_COUNT\s*:\s*usize\s*=\s*([0-9_]+)\s*;(?=.*let\s+capped_count\s*=\s*count\.min\(MAX_FIND_NODE_COUNT\)\s*;\s*let\s+routing\s*=[^;]*;\s*let\s+nodes\s*=\s*routing\.find_closest_nodes\(target,\s*capped_count\))', 'N'),
    ('RT_BUCKET_COUNT', CE,
     r'for\s+_\s+in\s+0\.\.KADEMLIA_BUCKET_COUNT\s*\{\s*buckets\.push.*\nconst\s+KADEMLIA_BUCKET_COUNT\s*:\s*usize\s*=\s*([0-9_]+)\s*;', 'N'),
    ('RT_CANDIDATE_EXPANSION_FACTOR', CE,
     r'\nconst\s+CANDIDATE_EXPANSION_FACTOR\s*:\s*usize\s*=\s*([0-9_]+)\s*;', 'N'),
    # manager-level reply cap: find_closest_nodes_local(key, DHT_CLOSEST_NODES_COUNT) in handle_lookup_request
    ('RT_DHT_CLOSEST_NODES_COUNT', 'src/dht_network_manager.rs',
     r'\nconst\s+DHT_CLOSEST_NODES_COUNT\s*:\s*usize\s*=\s*([0-9_]+)\s*;(?=.*\.find_closest_nodes_local\(key,\s*DHT_CLOSEST_NODES_COUNT\))', 'N'),
]
