# C12 monotonic counter (src/monotonic_counter.rs)
SPECS = [
    ('CTR_MAX_SEQUENCE_HISTORY', 'src/monotonic_counter.rs',
     r'const\s+MAX_SEQUENCE_HISTORY\s*:\s*usize\s*=\s*([0-9_]+)\s*;', 'N'),
    ('CTR_MAX_SEQUENCE_AGE_SECS', 'src/monotonic_counter.rs',
     r'const\s+MAX_SEQUENCE_AGE\s*:\s*Duration\s*=\s*Duration::from_secs\(([0-9_ \*]+)\)\s*;', 'N'),
    ('CTR_FUTURE_SKEW_SECS', 'src/monotonic_counter.rs',
     r'if\s+timestamp\s*>\s*current_time\s*\+\s*([0-9_]+)\s*\{\s*return\s+SequenceValidationResult::FromFuture', 'N'),
    # validate-and-apply runs inside ONE critical section: the body of validate_sequence takes the counters
    # write lock exactly once and never the read lock (same for batch_update)
    ('CTR_SINGLE_WRITE_SECTION', 'src/monotonic_counter.rs',
     r'pub async fn validate_sequence\((?:(?!self\.counters\.(?:read|write)\(\)).)*?(self\.counters\.write\(\))(?:(?!self\.counters\.(?:read|write)\(\)).)*?fn validate_sequence_internal', 'present'),
    ('CTR_BATCH_SINGLE_WRITE_SECTION', 'src/monotonic_counter.rs',
     r'pub async fn batch_update\((?:(?!self\.counters\.(?:read|write)\(\)).)*?(self\.counters\.write\(\))(?:(?!self\.counters\.(?:read|write)\(\)).)*?pub async fn get_stats', 'present'),
]
