# C12 monotonic counter (src/monotonic_counter.rs)
SPECS = [
    ('CTR_MAX_SEQUENCE_HISTORY', 'src/monotonic_counter.rs',
     r'const\s+MAX_SEQUENCE_HISTORY\s*:\s*usize\s*=\s*([0-9_]+)\s*;', 'N'),
    ('CTR_MAX_SEQUENCE_AGE_SECS', 'src/monotonic_counter.rs',
     r'const\s+MAX_SEQUENCE_AGE\s*:\s*Duration\s*=\s*Duration::from_secs\(([0-9_ \*]+)\)\s*;', 'N'),
    ('CTR_FUTURE_SKEW_SECS', 'src/monotonic_counter.rs',
     r'if\s+timestamp\s*>\s*current_time\s*\+\s*([0-9_]+)\s*\{\s*return\s+SequenceValidationResult::FromFuture', 'N'),
]
