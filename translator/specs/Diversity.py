# C13 admission caps (src/security.rs, src/dht/core_engine.rs)
_D = r'impl\s+Default\s+for\s+IPDiversityConfig\s*\{.*?'
_T = r'pub\s+fn\s+testnet\(\)\s*->\s*Self\s*\{.*?'
def _f(prefix, field, num=r'([0-9_]+)'):
    return prefix + r'\b' + field + r'\s*:\s*' + num + r'\s*,'
_FLOAT = r'([0-9_]+\.[0-9_]*)'
SPECS = [
    ('DIV_MAX_SUBNET_TRACKING', 'src/security.rs',
     r'const\s+MAX_SUBNET_TRACKING\s*:\s*usize\s*=\s*([0-9_]+)\s*;', 'N'),
    # IPDiversityConfig::default()
    ('DIV_DEF_64', 'src/security.rs', _f(_D, 'max_nodes_per_64'), 'N'),
    ('DIV_DEF_48', 'src/security.rs', _f(_D, 'max_nodes_per_48'), 'N'),
    ('DIV_DEF_32', 'src/security.rs', _f(_D, 'max_nodes_per_32'), 'N'),
    ('DIV_DEF_V4_32', 'src/security.rs', _f(_D, 'max_nodes_per_ipv4_32'), 'N'),
    ('DIV_DEF_V4_24', 'src/security.rs', _f(_D, 'max_nodes_per_ipv4_24'), 'N'),
    ('DIV_DEF_V4_16', 'src/security.rs', _f(_D, 'max_nodes_per_ipv4_16'), 'N'),
    ('DIV_DEF_IP_CAP', 'src/security.rs', _f(_D, 'max_per_ip_cap'), 'N'),
    ('DIV_DEF_FRACTION', 'src/security.rs', _f(_D, 'max_network_fraction', _FLOAT), 'Qdec'),
    ('DIV_DEF_ASN', 'src/security.rs', _f(_D, 'max_nodes_per_asn'), 'N'),
    # IPDiversityConfig::testnet()
    ('DIV_TEST_64', 'src/security.rs', _f(_T, 'max_nodes_per_64'), 'N'),
    ('DIV_TEST_48', 'src/security.rs', _f(_T, 'max_nodes_per_48'), 'N'),
    ('DIV_TEST_32', 'src/security.rs', _f(_T, 'max_nodes_per_32'), 'N'),
    ('DIV_TEST_V4_32', 'src/security.rs', _f(_T, 'max_nodes_per_ipv4_32'), 'N'),
    ('DIV_TEST_V4_24', 'src/security.rs', _f(_T, 'max_nodes_per_ipv4_24'), 'N'),
    ('DIV_TEST_V4_16', 'src/security.rs', _f(_T, 'max_nodes_per_ipv4_16'), 'N'),
    ('DIV_TEST_IP_CAP', 'src/security.rs', _f(_T, 'max_per_ip_cap'), 'N'),
    ('DIV_TEST_FRACTION', 'src/security.rs', _f(_T, 'max_network_fraction', _FLOAT), 'Qdec'),
    ('DIV_TEST_ASN', 'src/security.rs', _f(_T, 'max_nodes_per_asn'), 'N'),
    # the /24 and /16 multiples of the per-IP limit in can_accept_ipv4
    ('DIV_MULT_24', 'src/security.rs',
     r'let\s+limit_24\s*=\s*std::cmp::min\(\s*self\.config\.max_nodes_per_ipv4_24\s*,\s*per_ip_limit\s*(?:\*|\.saturating_mul\()\s*([0-9_]+)\s*\)', 'N'),
    ('DIV_MULT_16', 'src/security.rs',
     r'let\s+limit_16\s*=\s*std::cmp::min\(\s*self\.config\.max_nodes_per_ipv4_16\s*,\s*per_ip_limit\s*(?:\*|\.saturating_mul\()\s*([0-9_]+)\s*\)', 'N'),
    # routing-table pipeline
    ('DIV_REGION_CAP', 'src/dht/core_engine.rs',
     r'GeographicDiversityEnforcer::new\(\s*([0-9_]+)\s*\)', 'N'),
    ('DIV_BUCKET_K', 'src/dht/core_engine.rs', r'\nconst\s+K\s*:\s*usize\s*=\s*([0-9_]+)\s*;', 'N'),
]
