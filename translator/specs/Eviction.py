# C16 eviction policy (src/dht/routing_maintenance/config.rs, liveness.rs, eviction.rs).
# The comparison operators of the policy are tied to their use sites ('present' = the
# pattern occurs exactly once), so `>=` -> `>` or `<` -> `<=` makes the constant disappear.
CFG = 'src/dht/routing_maintenance/config.rs'
LIV = 'src/dht/routing_maintenance/liveness.rs'
EVI = 'src/dht/routing_maintenance/eviction.rs'
SPECS = [
    ('EV_MAX_CONSECUTIVE_FAILURES', CFG,
     r'impl Default for MaintenanceConfig \{.*?max_consecutive_failures:\s*([0-9_]+)\s*,', 'N'),
    ('EV_MIN_TRUST_THRESHOLD', CFG,
     r'impl Default for MaintenanceConfig \{.*?min_trust_threshold:\s*([0-9_.eE+-]+)\s*,', 'Qdec'),
    ('EV_FAILURE_TEST_IS_GE', LIV,
     r'pub fn should_evict\(&self, config: &MaintenanceConfig\) -> bool \{\s*(self\.consecutive_failures >= config\.max_consecutive_failures)\s*\}', 'present'),
    ('EV_SUCCESS_RESETS', LIV,
     r'pub fn record_success\(&mut self\) \{\s*(self\.consecutive_failures = 0;)', 'present'),
    ('EV_FAILURE_INCREMENTS', LIV,
     r'pub fn record_failure\(&mut self\) \{\s*(self\.consecutive_failures \+= 1;)', 'present'),
    ('EV_TRUST_TEST_IS_LT', EVI,
     r'(\.filter\(\|&&s\| s < self\.config\.min_trust_threshold\))', 'present'),
]
