# C08 signatures: key / signature sizes checked by the glue code, salt width, "no expiry" marker
SPECS = [
    # ML-DSA-65 public / secret key sizes as the repository states them
    ('SIG_KD_PUB_LEN', 'src/key_derivation.rs',
     r'\nconst\s+ML_DSA_PUB_LEN\s*:\s*usize\s*=\s*([0-9_]+)\s*;', 'N'),
    ('SIG_KD_SEC_LEN', 'src/key_derivation.rs',
     r'\nconst\s+ML_DSA_SEC_LEN\s*:\s*usize\s*=\s*([0-9_]+)\s*;', 'N'),
    ('SIG_NODEID_PUB_LEN', 'src/identity/node_identity.rs',
     r'fn\s+from_public_key_bytes\b.*?if\s+bytes\.len\(\)\s*!=\s*([0-9_]+)\s*\{', 'N'),
    # address-bound node id: signature width checked before verification, salt width on generation
    ('SIG_IP_SIG_LEN', 'src/security.rs',
     r'const\s+SIGNATURE_LENGTH\s*:\s*usize\s*=\s*([0-9_]+)\s*;', 'N'),
    ('SIG_IP_SIG_BUF', 'src/security.rs',
     r'let\s+mut\s+sig_bytes\s*=\s*\[0u8;\s*([0-9_]+)\s*\]\s*;', 'N'),
    ('SIG_IP_SALT_LEN', 'src/security.rs',
     r'impl<A: NodeIpAddress> GenericIpNodeID<A>.*?pub fn generate\(.*?let\s+mut\s+salt\s*=\s*vec!\[0u8;\s*([0-9_]+)\s*\]\s*;.*?pub fn verify\(&self\)', 'N'),
    ('SIG_IP_TS_LE', 'src/security.rs',
     r'fn\s+build_message\b.*?timestamp_secs\s*\.\s*(to_le_bytes)\(\)', 'present'),
    # write authorisation: signature width checked by the single and the delegated writer
    ('SIG_AUTH_SINGLE_SIG_LEN', 'src/auth/mod.rs',
     r'impl\s+WriteAuth\s+for\s+SingleWriteAuth\b.*?const\s+SIG_LEN\s*:\s*usize\s*=\s*([0-9_]+)\s*;.*?impl\s+WriteAuth\s+for\s+DelegatedWriteAuth\b', 'N'),
    ('SIG_AUTH_DELEG_SIG_LEN', 'src/auth/mod.rs',
     r'impl\s+WriteAuth\s+for\s+DelegatedWriteAuth\b.*?const\s+SIG_LEN\s*:\s*usize\s*=\s*([0-9_]+)\s*;.*?impl\s+WriteAuth\s+for\s+MlsWriteAuth\b', 'N'),
    # pinned update keys: valid_until == 0 means "no expiry"
    ('SIG_NO_EXPIRY', 'src/upgrade/config.rs',
     r'fn\s+is_valid\b.*?self\.valid_until\s*(?:==|!=)\s*([0-9_]+)\b', 'N'),
]
