# C19 addresses (src/address.rs).  The string literals of the glue (Display format, separators,
# normalisation characters) and the crate's dictionary are emitted by translator/gen_address.py.
SPECS = [
    ('ADDR_MULTIADDR_MIN_PARTS', 'src/address.rs',
     r'if\s+parts\.len\(\)\s*>=\s*([0-9]+)\s*&&\s*\(parts\[0\]\s*==\s*"ip4"\s*\|\|\s*parts\[0\]\s*==\s*"ip6"\)\s*&&\s*parts\[2\]\s*==\s*"tcp"', 'N'),
    ('ADDR_FROMSTR_SOCKET_FIRST', 'src/address.rs',
     r'(fn from_str\(s: &str\) -> Result<Self> \{\s*// First try to parse as a socket address\s*if let Ok\(socket_addr\) = SocketAddr::from_str\(s\) \{\s*return Ok\(Self::new\(socket_addr\)\);)', 'present'),
]
