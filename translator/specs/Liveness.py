# C20 liveness / shutdown (src/dht_network_manager.rs)
F = 'src/dht_network_manager.rs'
SPECS = [
    # send_dht_request refuses to send once the shutdown token is cancelled, before anything reaches the transport
    ('LV_STOP_GUARD_BEFORE_SEND', F,
     r'async fn send_dht_request\((?:(?!\n    (?:pub )?(?:async )?fn ).)*?(if self\.shutdown\.is_cancelled\(\))(?:(?!\n    (?:pub )?(?:async )?fn ).)*?\.send_message\(', 'present'),
    # stop(): leave messages first, then cancel the token, then join both background tasks
    ('LV_STOP_ORDER', F,
     r'pub async fn stop\(&self\)(?:(?!\n    (?:pub )?(?:async )?fn ).)*?(self\.leave_network\(\)\.await)(?:(?!\n    (?:pub )?(?:async )?fn ).)*?self\.shutdown\.cancel\(\)(?:(?!\n    (?:pub )?(?:async )?fn ).)*?maintenance_handle(?:(?!\n    (?:pub )?(?:async )?fn ).)*?event_handler_handle', 'present'),
    ('LV_REQUEST_TIMEOUT_USED', F, r'async fn wait_for_response\((?:(?!\n    (?:pub )?(?:async )?fn ).)*?(tokio::time::timeout\(response_timeout, response_rx\))', 'present'),
]
