#!/usr/bin/env python3
"""Translator, part 2: postcard wire schemas (C05).

    python3 gen_schemas.py <repo> <coq/Gen dir>      writes <coq/Gen dir>/Schemas.v

Re-reads, on every run, the `#[derive(Serialize, Deserialize)]` struct / enum definitions on
the inbound paths of saorsa-core and emits them as values of the Coq inductive `ty`
(Model/Postcard.v): field order, variant order, integer widths, Option/Vec nesting, array
lengths and `#[serde(skip)]` come from the source text.  Also emitted: the position of every
struct field (`F_<Type>_<field> : nat`), the index of every enum variant
(`V_<Enum>_<Variant> : N`) and the field positions inside struct variants
(`F_<Enum>_<Variant>_<field>`), so the hand-written model refers to fields by NAME.

Fail-closed: a type that cannot be parsed (generics, unknown serde attribute, unknown leaf
type, unresolved name) is omitted together with everything that depends on it, so the Coq
files that mention it stop compiling and the property is reported as no longer shown.

Hand-written knowledge (trusted only in the fail-closed direction, because the differential
decoding check compares the resulting model with the real decoder on every run):
  LEAVES   - serde's own impls for std types (String, Duration, SystemTime, SocketAddr, ...)
  CUSTOM   - types with a hand-written Serialize/Deserialize in saorsa-core; each entry
             carries regexes that must still match the source
  IMPORTS  - which file a cross-file name comes from (checked against a `use` line)
"""
import re, sys, os

ROOTS = [
    ('src/network.rs', 'WireMessage'),
    ('src/network.rs', 'RequestResponseEnvelope'),
    ('src/dht_network_manager.rs', 'DhtNetworkMessage'),
    ('src/dht/core_engine.rs', 'DhtRequestWrapper'),
    ('src/dht/core_engine.rs', 'DhtResponseWrapper'),
    ('src/placement/dht_records.rs', 'DhtRecord'),
]
FILES = ['src/network.rs', 'src/dht_network_manager.rs', 'src/dht/core_engine.rs',
         'src/dht/network_integration.rs', 'src/placement/dht_records.rs', 'src/peer_record.rs',
         'src/dht/trust_weighted_dht.rs', 'src/lib.rs', 'src/adaptive/mod.rs']

# (file, name) -> (file, name): where a name used in `file` is defined
IMPORTS = {
    ('src/dht_network_manager.rs', 'Key'): ('src/dht/trust_weighted_dht.rs', 'Key'),
    ('src/dht_network_manager.rs', 'PeerId'): ('src/lib.rs', 'PeerId'),
    ('src/dht/core_engine.rs', 'DhtMessage'): ('src/dht/network_integration.rs', 'DhtMessage'),
    ('src/dht/core_engine.rs', 'DhtResponse'): ('src/dht/network_integration.rs', 'DhtResponse'),
    ('src/dht/network_integration.rs', 'DhtKey'): ('src/dht/core_engine.rs', 'DhtKey'),
    ('src/dht/network_integration.rs', 'NodeId'): ('src/dht/core_engine.rs', 'NodeId'),
    ('src/dht/network_integration.rs', 'NodeInfo'): ('src/dht/core_engine.rs', 'NodeInfo'),
    ('src/dht/network_integration.rs', 'NodeCapacity'): ('src/dht/core_engine.rs', 'NodeCapacity'),
    ('src/dht/network_integration.rs', 'ConsistencyLevel'): ('src/dht/core_engine.rs', 'ConsistencyLevel'),
    ('src/placement/dht_records.rs', 'NodeId'): ('src/adaptive/mod.rs', 'NodeId'),
    ('src/adaptive/mod.rs', 'UserId'): ('src/peer_record.rs', 'UserId'),
}

SOCKADDR = 'Enum [Tup [Arr 4 U8; VarU 16]; Tup [Arr 16 U8; VarU 16]]'
LEAVES = {
    'u8': 'U8', 'i8': None,  # i8 is one raw byte reinterpreted; not used, so not supported
    'u16': 'VarU 16', 'u32': 'VarU 32', 'u64': 'VarU 64', 'usize': 'VarU 64', 'u128': 'VarU 128',
    'i16': 'VarI 16', 'i32': 'VarI 32', 'i64': 'VarI 64', 'isize': 'VarI 64', 'i128': 'VarI 128',
    'bool': 'Bool', 'f64': 'F64', 'String': 'Str',
    'Duration': 'Dur', 'SystemTime': 'SysTime', 'SocketAddr': SOCKADDR,
}
# hand-written serde impls in saorsa-core: (file, name) -> (ty, [regexes that must match the file])
CUSTOM = {
    ('src/placement/dht_records.rs', 'SerializableHash'): ('BytesN 32', [
        r'impl\s+Serialize\s+for\s+SerializableHash\s*\{[^}]*serializer\.serialize_bytes\(&self\.0\)',
        r'impl<\'de>\s+Deserialize<\'de>\s+for\s+SerializableHash\s*\{.*?let\s+bytes\s*:\s*Vec<u8>\s*=\s*Vec::deserialize\(deserializer\)\?;\s*if\s+bytes\.len\(\)\s*!=\s*32\s*\{\s*return\s+Err',
        r'pub\s+struct\s+SerializableHash\(\[u8;\s*32\]\);',
    ]),
}


class Unparseable(Exception):
    pass


def strip_comments(src):
    out, i, n = [], 0, len(src)
    while i < n:
        if src.startswith('//', i):
            j = src.find('\n', i)
            i = n if j < 0 else j
        elif src.startswith('/*', i):
            j = src.find('*/', i + 2)
            i = n if j < 0 else j + 2
        elif src[i] == '"':
            j = i + 1
            while j < n and src[j] != '"':
                j += 2 if src[j] == '\\' else 1
            out.append('""'); i = j + 1
        else:
            out.append(src[i]); i += 1
    return ''.join(out)


def matching(src, i, open_c, close_c):
    depth = 0
    for j in range(i, len(src)):
        if src[j] == open_c:
            depth += 1
        elif src[j] == close_c:
            depth -= 1
            if depth == 0:
                return j
    raise Unparseable('unbalanced')


def split_top(body, sep=','):
    parts, depth, cur = [], 0, []
    i = 0
    while i < len(body):
        c = body[i]
        if c in '<([{':
            depth += 1
        elif c in ')]}':
            depth -= 1
        elif c == '>' and not (i > 0 and body[i - 1] == '-'):
            depth -= 1
        if c == sep and depth == 0:
            parts.append(''.join(cur)); cur = []
        else:
            cur.append(c)
        i += 1
    if ''.join(cur).strip():
        parts.append(''.join(cur))
    return [p.strip() for p in parts if p.strip()]


def take_attrs(text):
    """strip leading #[...] attributes; returns (attrs, rest)"""
    attrs = []
    text = text.strip()
    while text.startswith('#['):
        j = matching(text, 1, '[', ']')
        attrs.append(re.sub(r'\s+', '', text[2:j]))
        text = text[j + 1:].strip()
    return attrs, text


def serde_skip(attrs):
    """True = field skipped; raises on any other serde attribute"""
    skip = False
    for a in attrs:
        if a.startswith('serde('):
            if a == 'serde(skip)':
                skip = True
            else:
                raise Unparseable('unsupported serde attribute %s' % a)
    return skip


class Item:
    def __init__(self, file, name, kind, body, attrs):
        self.file, self.name, self.kind, self.body, self.attrs = file, name, kind, body, attrs


def scan(repo):
    items, aliases, texts = {}, {}, {}
    for f in FILES:
        try:
            src = strip_comments(open(os.path.join(repo, f), encoding='utf-8').read())
        except OSError:
            continue
        texts[f] = src
        for m in re.finditer(r'(?m)^\s*pub(?:\([a-z]+\))?\s+type\s+(\w+)\s*=\s*(.+?);\s*$', src):
            aliases[(f, m.group(1))] = m.group(2).strip()
        for m in re.finditer(r'\bpub\s+use\s+((?:\w+::)+)(\w+)\s*;', src):
            aliases.setdefault((f, m.group(2)), m.group(2) + '@use')
        for m in re.finditer(r'#\[derive\(([^\]]*)\)\]', src):
            if not re.search(r'\b(Serialize|Deserialize)\b', m.group(1)):
                continue
            rest = src[m.end():]
            try:
                attrs, rest2 = take_attrs(rest)
            except Unparseable:
                continue
            h = re.match(r'pub(?:\([a-z]+\))?\s+(struct|enum)\s+(\w+)\s*(<[^>{(;]*>)?\s*([{(;])', rest2)
            if not h:
                continue
            kind, name, generics, opener = h.group(1), h.group(2), h.group(3), h.group(4)
            both = re.search(r'\bSerialize\b', m.group(1)) and re.search(r'\bDeserialize\b', m.group(1))
            start = h.end() - 1
            try:
                if opener == ';':
                    body, k2 = '', 'unit'
                elif opener == '{':
                    body, k2 = rest2[start + 1:matching(rest2, start, '{', '}')], kind
                else:
                    body, k2 = rest2[start + 1:matching(rest2, start, '(', ')')], 'tuple'
            except Unparseable:
                continue
            it = Item(f, name, k2, body, attrs)
            it.bad = None
            if generics:
                it.bad = 'generic parameters'
            if not both:
                it.bad = 'derives only one of Serialize/Deserialize'
            items[(f, name)] = it
    return items, aliases, texts


class Gen:
    def __init__(self, repo):
        self.repo = repo
        self.items, self.aliases, self.texts = scan(repo)
        self.done = {}      # (file,name) -> coq identifier
        self.failed = {}    # (file,name) -> reason
        self.out = []       # definitions in dependency order
        self.idx = []       # field / variant index definitions
        self.names = {}     # coq identifier -> (file,name)
        self.stack = []

    def ident(self, key):
        f, name = key
        cand = 'S_' + name
        if cand in self.names and self.names[cand] != key:
            cand = 'S_' + re.sub(r'\W', '_', os.path.splitext(f)[0].replace('src/', '')) + '_' + name
        self.names[cand] = key
        return cand

    def resolve(self, file, name):
        """type expression for a bare name used in `file`"""
        key = (file, name)
        if key in CUSTOM:
            tyv, checks = CUSTOM[key]
            for rx in checks:
                if not re.search(rx, self.texts.get(file, ''), flags=re.S):
                    raise Unparseable('custom serde impl of %s changed (pattern %r)' % (name, rx[:40]))
            return tyv
        if key in self.items:
            return self.define(key)
        if key in self.aliases and not self.aliases[key].endswith('@use'):
            return self.ty(file, self.aliases[key])
        if key in IMPORTS:
            f2, n2 = IMPORTS[key]
            if not re.search(r'\buse\s+[^;]*\b%s\b' % re.escape(name), self.texts.get(file, '')) \
               and not re.search(r'=\s*crate::[\w:]*\b%s\b' % re.escape(n2), self.texts.get(file, '')):
                raise Unparseable('%s no longer imported in %s' % (name, file))
            return self.resolve(f2, n2)
        if name in LEAVES and LEAVES[name]:
            return LEAVES[name]
        raise Unparseable('unresolved type name %s in %s' % (name, file))

    def ty(self, file, t):
        t = t.strip()
        if t.startswith('&') or "'" in t:
            raise Unparseable('reference / lifetime in %r' % t)
        if t.startswith('('):
            if not t.endswith(')'):
                raise Unparseable(t)
            parts = split_top(t[1:-1])
            return 'Tup [%s]' % '; '.join(self.ty(file, p) for p in parts)
        if t.startswith('['):
            m = re.fullmatch(r'\[(.+);\s*([0-9_]+)\s*\]', t, flags=re.S)
            if not m:
                raise Unparseable('array/slice %r' % t)
            n = int(m.group(2).replace('_', ''))
            if n > 32:
                raise Unparseable('serde implements arrays only up to 32')
            return 'Arr %d (%s)' % (n, self.ty(file, m.group(1)))
        m = re.fullmatch(r'((?:\w+::)*)(\w+)\s*(?:<(.*)>)?', t, flags=re.S)
        if not m:
            raise Unparseable('type expression %r' % t)
        path, name, args = m.group(1), m.group(2), m.group(3)
        if args is not None:
            a = split_top(args)
            if name == 'Vec' and len(a) == 1:
                inner = self.ty(file, a[0])
                # Vec<u8> goes through the generic sequence visitor; on the wire and in its
                # accept set it is identical to a byte buffer (length, then raw bytes)
                return 'Bytes' if inner == 'U8' else 'Seq (%s)' % inner
            if name == 'Option' and len(a) == 1:
                return 'Opt (%s)' % self.ty(file, a[0])
            if name == 'Box' and len(a) == 1:
                return self.ty(file, a[0])
            raise Unparseable('unsupported generic type %s<..>' % name)
        if path and not path.startswith(('crate::', 'std::', 'self::', 'super::')):
            raise Unparseable('foreign path %s%s' % (path, name))
        if path.startswith('crate::'):
            # crate::a::b::Name -> file
            segs = [s for s in path.split('::') if s][1:]
            for cand in ('src/' + '/'.join(segs) + '.rs', 'src/' + '/'.join(segs) + '/mod.rs'):
                if cand in self.texts:
                    return self.resolve(cand, name)
            raise Unparseable('module of %s%s not among the scanned files' % (path, name))
        return self.resolve(file, name)

    def fields(self, file, body, owner):
        """named fields -> ([ty], [names])"""
        tys, names = [], []
        for part in split_top(body):
            attrs, rest = take_attrs(part)
            if serde_skip(attrs):
                continue
            m = re.fullmatch(r'(?:pub(?:\([a-z]+\))?\s+)?(\w+)\s*:\s*(.+)', rest, flags=re.S)
            if not m:
                raise Unparseable('field %r of %s' % (part[:40], owner))
            names.append(m.group(1)); tys.append(self.ty(file, m.group(2)))
        return tys, names

    def tuple_fields(self, file, body):
        tys = []
        for part in split_top(body):
            attrs, rest = take_attrs(part)
            if serde_skip(attrs):
                raise Unparseable('skip on tuple field')
            rest = re.sub(r'^pub(?:\([a-z]+\))?\s+', '', rest)
            tys.append(self.ty(file, rest))
        return tys

    def define(self, key):
        if key in self.done:
            return self.done[key]
        if key in self.failed:
            raise Unparseable(self.failed[key])
        if key in self.stack:
            self.failed[key] = 'recursive type'
            raise Unparseable('recursive type %s' % key[1])
        self.stack.append(key)
        it = self.items[key]
        file, name = key
        try:
            if it.bad:
                raise Unparseable(it.bad)
            serde_skip(it.attrs)  # container-level serde attributes are not supported
            idx = []
            if it.kind == 'struct':
                tys, names = self.fields(file, it.body, name)
                expr = 'Tup [%s]' % '; '.join(tys)
                idx += [('F_%s_%s' % (name, n), 'nat', i) for i, n in enumerate(names)]
            elif it.kind == 'tuple':
                tys = self.tuple_fields(file, it.body)
                expr = tys[0] if len(tys) == 1 else 'Tup [%s]' % '; '.join(tys)
            elif it.kind == 'unit':
                expr = 'Tup []'
            else:  # enum
                vs = []
                for vi, part in enumerate(split_top(it.body)):
                    attrs, rest = take_attrs(part)
                    if serde_skip(attrs):
                        raise Unparseable('skipped enum variant')
                    m = re.fullmatch(r'(\w+)\s*(?:=\s*[-0-9_xa-fA-F]+)?', rest)
                    if m:
                        vname, vexpr = m.group(1), 'Tup []'
                    elif re.match(r'\w+\s*\(', rest):
                        vname = re.match(r'(\w+)', rest).group(1)
                        o = rest.index('(')
                        c = matching(rest, o, '(', ')')
                        if rest[c + 1:].strip():
                            raise Unparseable('variant %r' % rest[:40])
                        tys = self.tuple_fields(file, rest[o + 1:c])
                        vexpr = tys[0] if len(tys) == 1 else 'Tup [%s]' % '; '.join(tys)
                    elif re.match(r'\w+\s*\{', rest):
                        vname = re.match(r'(\w+)', rest).group(1)
                        o = rest.index('{')
                        c = matching(rest, o, '{', '}')
                        if rest[c + 1:].strip():
                            raise Unparseable('variant %r' % rest[:40])
                        tys, names = self.fields(file, rest[o + 1:c], name + '::' + vname)
                        vexpr = 'Tup [%s]' % '; '.join(tys)
                        idx += [('F_%s_%s_%s' % (name, vname, n), 'nat', i) for i, n in enumerate(names)]
                    else:
                        raise Unparseable('variant %r' % rest[:40])
                    vs.append(vexpr)
                    idx.append(('V_%s_%s' % (name, vname), 'N', vi))
                expr = 'Enum [%s]' % ';\n    '.join(vs)
        except Unparseable as e:
            self.failed[key] = str(e)
            self.stack.pop()
            raise
        self.stack.pop()
        ident = self.ident(key)
        self.done[key] = ident
        self.out.append('(* %s :: %s *)\nDefinition %s : ty :=\n  %s.' % (file, name, ident, expr))
        pre = ident[2:]
        for n, k, v in idx:
            n2 = n.replace('_' + name + '_', '_' + pre + '_', 1) if pre != name else n
            self.idx.append('Definition %s : %s := %d%s.' % (n2, k, v, '%N' if k == 'N' else '%nat'))
        return ident


def generate(repo):
    g = Gen(repo)
    lines = ['(* GENERATED by translator/gen_schemas.py from %s -- do not edit *)' % repo,
             'From SV Require Import Lib.Base Model.Postcard.', '']
    roots, missing = [], []
    for key in ROOTS:
        try:
            if key not in g.items:
                raise Unparseable('definition not found')
            roots.append(g.define(key))
        except Unparseable as e:
            missing.append('%s (%s)' % (key[1], e))
    lines += g.out
    lines.append('')
    lines += g.idx
    lines.append('')
    for m in missing:
        lines.append('(* MISSING root %s *)' % m)
    # only a complete set of roots yields the lists the theorems quantify over
    if not missing:
        lines.append('Definition root_schemas : list ty := [%s].' % '; '.join(roots))
        lines.append('Definition all_schemas : list ty := [%s].' % '; '.join(g.done[k] for k in g.done))
    return '\n'.join(lines) + '\n', missing


def main():
    repo = sys.argv[1] if len(sys.argv) > 1 else '/repo'
    dst = sys.argv[2] if len(sys.argv) > 2 else os.path.join(os.path.dirname(os.path.abspath(__file__)), '..', 'coq', 'Gen')
    text, missing = generate(repo)
    path = os.path.join(dst, 'Schemas.v')
    try:
        same = open(path).read() == text
    except OSError:
        same = False
    if not same:
        os.makedirs(dst, exist_ok=True)
        open(path, 'w').write(text)
    for m in missing:
        print('gen_schemas: root schema not generated: %s' % m, file=sys.stderr)
    return 0


if __name__ == '__main__':
    sys.exit(main())
