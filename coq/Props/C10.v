(* C10 — global trust is a well-formed distribution that moves with reported behaviour.
   Property theorems only; every proof is [exact lemma].  Model: Model/Trust.v instantiated over the
   exact reals (Lib/GenericFieldR.v); lemmas: Proofs/Trust.v.
   [ln1p] (the libm logarithm inside the multi-factor multiplier) is a Section variable whose only
   assumed property, non-negativity on the values it is applied to, stays visible in every statement.
   The clock enters as the decay factor [d] of every [Compute d] (d = decay_rate ^ elapsed hours). *)
From Coq Require Import Reals Lra.
From SV Require Import Lib.Base Lib.GenericField Lib.GenericFieldR Gen.TrustConsts Model.Trust Proofs.Trust.
Local Open Scope R_scope.

(* what the property text relies on, from the constants regenerated from the source (currently:
   success +1, failure +1, data-unavailable +1, corrupted data +2, protocol violation +2):
   corrupted / protocol-violation weigh at least as much as failed / unavailable; an unknown peer
   reads 0; the default response rate lies in [0,1]; both copies of the EMA (async and
   TrustProvider) use the same weights; both 0.9 literals for fresh anchors agree *)
Theorem C10_constants :
  (TRUST_W_FAILED <= TRUST_W_CORRUPTED /\ TRUST_W_FAILED <= TRUST_W_PROTOCOL /\
   TRUST_W_UNAVAILABLE <= TRUST_W_CORRUPTED /\ TRUST_W_UNAVAILABLE <= TRUST_W_PROTOCOL)%N /\
  @of_Q RF TRUST_UNKNOWN_SCORE = 0 /\ 0 <= @of_Q RF TRUST_MF_DEFAULT_RATE <= 1 /\
  TRUST_EMA_KEEP = TRUST_EMA_KEEP_SYNC /\ TRUST_EMA_NEW = TRUST_EMA_NEW_SYNC /\
  TRUST_ANCHOR_INITIAL = TRUST_ANCHOR_INITIAL_ADD.
Proof.
  split; [repeat split; vm_compute; discriminate|]. split; [exact unknown_score_R|].
  split; [exact default_rate_bounds|]. repeat split; reflexivity.
Qed.

Section C10.
Variable ln1p : N -> R.
Hypothesis ln1p_nonneg : forall x, 0 <= ln1p x.

(* After ANY history (reports, statistics updates of every kind, anchors added/removed, nodes
   removed, earlier computations, queries) every map returned by compute_global_trust gives every
   node a score in [0,1] and the scores sum to 1, or all of them are 0.  (Scores are real numbers
   here, so "finite" is the IEEE side of the trusted base.) *)
Theorem C10_distribution : forall pre ops, Forall decay_ok ops ->
  forall m, In (OMap m) (snd (@run RF ln1p (@init RF pre) ops)) ->
  (forall i x, In (i, x) m -> 0 <= x <= 1) /\
  (Rsum (map snd m) = 1 \/ forall i x, In (i, x) m -> x = 0).
Proof. exact (hist_distribution ln1p ln1p_nonneg). Qed.

(* equal histories give equal scores: the outputs are a function of the history ([run] is a
   function), and the one input that is not part of the history -- the clock, through the decay
   factor -- cancels: replacing every decay factor by 1 changes no output and no later state *)
Theorem C10_deterministic : forall pre ops, Forall decay_pos ops ->
  @run RF ln1p (@init RF pre) (map undecay ops) = @run RF ln1p (@init RF pre) ops.
Proof. exact (hist_deterministic ln1p ln1p_nonneg). Qed.

(* get_trust returns the last computed score: for every id of a returned map, after any further
   operations other than a new computation, add_pre_trusted(i) (which resets i to 0.9) and
   remove_node(i) (which resets i to 0) *)
Theorem C10_query : forall pre ops1 d ops2 i,
  let st := reach ln1p pre ops1 in
  In i (map fst (@global_trust RF ln1p st d)) -> Forall (keeps i) ops2 ->
  snd (@step RF ln1p (fst (@run RF ln1p (fst (@step RF ln1p st (Compute d))) ops2)) (Query i))
  = @OVal RF (@vget RF (@global_trust RF ln1p st d) i).
Proof. exact (hist_query_last ln1p). Qed.

(* ... and 0 for a peer that no report, statistic or anchor set ever mentioned *)
Theorem C10_query_unknown : forall pre ops i, ~ In i pre -> Forall (fun o => ~ mentions i o) ops ->
  snd (@step RF ln1p (reach ln1p pre ops) (Query i)) = @OVal RF 0.
Proof. exact (hist_query_unknown ln1p). Qed.

(* One more success never lowers the peer's score, compared with the same history without it.
   Stated for every peer that is in the node set (it appears in a report or has statistics);
   C10_report_new_peer covers peers nobody has mentioned.  NOT covered: an anchor that appears in no
   report at all -- its first statistic enlarges the node set (n -> n+1), which changes the start
   vector and the iteration cut-offs; see design/C10.md (probed by the harness, class
   c10-anchor-unmentioned). *)
Theorem C10_success_monotone : forall pre ops x d,
  let st := reach ln1p pre ops in
  0 <= d -> In x (@node_set RF st) ->
  @vget RF (@global_trust RF ln1p st d) x
  <= @vget RF (@global_trust RF ln1p (with_stats ln1p st x UCorrect) d) x.
Proof. intros pre ops x d st Hd Hx. exact (state_success_monotone ln1p ln1p_nonneg st x d (reach_wf ln1p pre ops) Hd Hx). Qed.

(* One more failure of any kind never raises it. *)
Theorem C10_failure_monotone : forall pre ops x u d,
  let st := reach ln1p pre ops in
  0 <= d -> is_failure u -> In x (@node_set RF st) ->
  @vget RF (@global_trust RF ln1p (with_stats ln1p st x u) d) x
  <= @vget RF (@global_trust RF ln1p st d) x.
Proof. intros pre ops x u d st Hd Hu Hx. exact (state_failure_monotone ln1p ln1p_nonneg st x u d (reach_wf ln1p pre ops) Hd Hu Hx). Qed.

(* a peer that is not in the map before the report: score 0 before, >= 0 after (any report) *)
Theorem C10_report_new_peer : forall pre ops x u d,
  let st := reach ln1p pre ops in
  0 <= d -> ~ In x (@keys RF st) ->
  @vget RF (@global_trust RF ln1p st d) x = 0 /\
  0 <= @vget RF (@global_trust RF ln1p (with_stats ln1p st x u) d) x.
Proof. intros pre ops x u d st Hd Hx. exact (state_new_peer ln1p ln1p_nonneg st x u d (reach_wf ln1p pre ops) Hd Hx). Qed.

(* corrupted-data and protocol-violation reports cost at least as much as a plain failure
   (or data-unavailable), for EVERY peer, known or not *)
Theorem C10_penalty_order : forall pre ops x u u' d,
  let st := reach ln1p pre ops in
  0 <= d -> (u = UCorrupted \/ u = UProtocol) -> (u' = UFailed \/ u' = UUnavailable) ->
  @vget RF (@global_trust RF ln1p (with_stats ln1p st x u) d) x
  <= @vget RF (@global_trust RF ln1p (with_stats ln1p st x u') d) x.
Proof. intros pre ops x u u' d st Hd Hu Hu'. exact (state_penalty_order ln1p ln1p_nonneg st x u u' d (reach_wf ln1p pre ops) Hd Hu Hu'). Qed.

(* the multiplier formula: monotone in the response counters, everything else equal *)
Theorem C10_factor_monotone : forall s s',
  s_up s' = s_up s -> s_sto s' = s_sto s -> s_bw s' = s_bw s -> s_cpu s' = s_cpu s ->
  (s_ok s <= s_ok s')%N -> (s_fail s' <= s_fail s)%N ->
  @factor RF ln1p s <= @factor RF ln1p s'.
Proof. exact (factor_mono ln1p). Qed.

End C10.

(* What the property text says about get_trust is FALSE in one corner, kept visible here:
   add_pre_trusted(i) overwrites a score that was already computed for i with 0.9. *)
Definition C10_query_full : Prop := forall (ln1p : N -> R) pre ops1 d ops2 i,
  let st := reach ln1p pre ops1 in
  In i (map fst (@global_trust RF ln1p st d)) ->
  Forall (fun o => match o with Compute _ => False | RemoveNode j => j <> i | _ => True end) ops2 ->
  snd (@step RF ln1p (fst (@run RF ln1p (fst (@step RF ln1p st (Compute d))) ops2)) (Query i))
  = @OVal RF (@vget RF (@global_trust RF ln1p st d) i).

Theorem C10_query_refuted : ~ C10_query_full.
Proof. exact query_full_refuted. Qed.

(* ---- hypotheses are satisfiable / the statements are not vacuous ---- *)
Example C10_example_known_peer :
  let st := reach (fun _ => 0) [] [UpdLocal 1 2 true; UpdLocal 2 1 true] in
  @node_set RF st = [1; 2]%N /\ In 1%N (@node_set RF st) /\ Forall decay_ok [@Compute RF 1] /\
  Forall decay_pos [@Compute RF 1].
Proof.
  cbv zeta. split; [reflexivity|]. split; [now left|]. split; repeat constructor; cbn; lra.
Qed.
