(* C12 — each peer sequence number is accepted at most once and only in order.
   Property theorems only; every proof is [exact lemma].  Model: Model/Counter.v. *)
From SV Require Import Lib.Base Gen.CounterConsts Model.Counter Proofs.Counter.
Local Open Scope N_scope.

(* The numbers the property text relies on, proved from the constants regenerated
   from src/monotonic_counter.rs. *)
Theorem C12_constants :
  CTR_MAX_SEQUENCE_AGE_SECS = 3600 /\ CTR_FUTURE_SKEW_SECS = 60 /\ 0 < CTR_MAX_SEQUENCE_HISTORY.
Proof. repeat split; reflexivity. Qed.

(* structural fact re-read from the source: validate-and-apply is ONE critical section (the counters
   write lock is taken exactly once, the read lock never) in validate_sequence and in batch_update;
   this is what makes an interleaving of submitters a sequence of [Submit] steps *)
Theorem C12_single_critical_section : CTR_SINGLE_WRITE_SECTION = 1 /\ CTR_BATCH_SINGLE_WRITE_SECTION = 1.
Proof. split; reflexivity. Qed.

(* Valid  <=>  timestamp in the window and seq = last + 1 *)
Theorem C12_accept_exactly_next : forall now c seq h ts,
  Inv c ->
  (validate now c seq h ts = Valid <->
   ts <= now + CTR_FUTURE_SKEW_SECS /\ now - CTR_MAX_SEQUENCE_AGE_SECS <= ts /\ seq = pc_last c + 1).
Proof. exact validate_valid_iff. Qed.

(* For every history (any ops, any clocks, any cleanup points) the numbers accepted
   from peer p are exactly 1,2,...,m in order, m = the counter's final value. *)
Theorem C12_accepted_is_1_2_3 : forall ops p,
  let r := run st_init ops in
  accepted p ops (snd r) = Nseq 1 (N.to_nat (pc_last (fst r p))).
Proof. exact accepted_from_init. Qed.

(* at most once over the whole life of the store *)
Theorem C12_at_most_once : forall ops p,
  NoDup (accepted p ops (snd (run st_init ops))).
Proof. intros ops p. exact (accepted_nodup ops st_init p invS_init). Qed.

(* every non-Valid verdict leaves the whole store unchanged *)
Theorem C12_no_state_change_on_reject : forall st now p seq h ts,
  validate now (st p) seq h ts <> Valid ->
  fst (step st (Submit now p seq h ts)) = st.
Proof. exact step_reject_unchanged. Qed.

(* peers never affect one another: p's verdicts and final counter are those of the
   history with every other peer's submissions deleted *)
Theorem C12_peer_isolation : forall ops p,
  let r := run st_init ops in
  let r' := run st_init (filter (for_peer p) ops) in
  fst r p = fst r' p /\ results_of p ops (snd r) = snd r'.
Proof. intros ops p. exact (run_isolation ops st_init st_init p eq_refl). Qed.

(* a store reloaded from a persisted snapshot [st] (any reachable state) never
   re-accepts a number <= the persisted counter, whatever follows *)
Theorem C12_reload : forall st ops p x,
  InvS st -> In x (accepted p ops (snd (run st ops))) -> pc_last (st p) < x.
Proof. intros st ops p x. exact (accepted_above ops st p x). Qed.

Theorem C12_reachable_inv : forall ops, InvS (fst (run st_init ops)).
Proof. intro ops. exact (invS_run ops st_init invS_init). Qed.

(* the u64 counter cannot overflow: it counts acceptances *)
Theorem C12_no_overflow : forall ops p,
  pc_last (fst (run st_init ops) p) <= N.of_nat (length ops).
Proof. intros ops p. exact (run_last_bound ops st_init p invS_init). Qed.

(* non-vacuity: a concrete history with replay, gap, stale, future, two peers, cleanup *)
Example C12_example :
  let ops := [Submit 5000 1 1 7 5000; Submit 5000 1 1 7 5000; Submit 5001 2 1 9 5001;
              Submit 5001 1 3 7 5001; Submit 5002 1 2 8 1000; Submit 5002 1 2 8 6000;
              Cleanup 5001; Submit 5003 1 2 8 5003; Submit 5003 1 1 7 5003] in
  snd (run st_init ops) =
    [Some Valid; Some Replay; Some Valid; Some (Gap 2 3); Some TooOld; Some FromFuture;
     None; Some Valid; Some Replay]
  /\ accepted 1 ops (snd (run st_init ops)) = [1; 2].
Proof. vm_compute. split; reflexivity. Qed.
