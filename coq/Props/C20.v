(* C20 — concurrent DHT operations and shutdown always complete; nothing runs after.
   Property theorems only.  Models: Model/Liveness.v (timed loop, lock discipline),
   Gen/LockSeqs.v and Gen/LivenessConsts.v (regenerated from the Rust source on every run). *)
From SV Require Import Lib.Base Gen.LookupConsts Gen.LivenessConsts Gen.LockSeqs
                       Model.Lookup Model.Store Model.Liveness Proofs.Liveness.
Local Open Scope N_scope.

(* structural facts re-read from the source: the request path checks the shutdown token before
   anything reaches the transport; stop() sends its leave messages, cancels the token and joins
   both background tasks, in that order; every wait for a reply is under the request timeout *)
Theorem C20_source_structure :
  LV_STOP_GUARD_BEFORE_SEND = 1 /\ LV_STOP_ORDER = 1 /\ LV_REQUEST_TIMEOUT_USED = 1.
Proof. repeat split; reflexivity. Qed.

(* (A) time: whatever the peers answer (or not), a lookup is over after at most MAX_ITERATIONS
   batches, i.e. within MAX_ITERATIONS x D when every single request is over within D
   (D = dial + send + request timeout); the clock is a ghost: it does not change the result *)
Theorem C20_lookup_time_bound : forall keyof reply self selfs_marked selfs_all target count dur D,
  (forall p, dur p <= D) -> forall init,
  snd (lookup_t keyof reply self selfs_marked selfs_all target count dur init) <= lookup_bound D.
Proof. exact lookup_t_bound. Qed.

Theorem C20_clock_is_ghost : forall keyof reply self selfs_marked selfs_all target count dur init,
  fst (lookup_t keyof reply self selfs_marked selfs_all target count dur init)
  = lookup keyof reply self selfs_marked selfs_all target count init.
Proof. exact lookup_t_result. Qed.

Theorem C20_bounds_proportional_to_timeout : forall D,
  lookup_bound D = LK_MAX_ITERATIONS * D /\ put_bound D = LK_MAX_ITERATIONS * D + D /\
  get_bound D = GET_MAX_ITERATIONS * D /\ forall peers, stop_bound D peers = peers * D + D.
Proof. intro D. repeat split. Qed.

(* (B) locks: every function of the manager acquires its locks in the fixed rank order
   dht < dht_peers < scheduler < stats < active_operations < handles, never re-acquires a held
   lock, and holds nothing when it returns (sequences regenerated from the source) ... *)
Theorem C20_lock_order : forallb (ordered []) lock_progs = true.
Proof. vm_compute. reflexivity. Qed.

(* ... hence no interleaving of any number of concurrently running instances of these functions
   can reach a state in which somebody still has work to do and nobody can move *)
Theorem C20_no_deadlock : forall ps ts',
  (forall p, In p ps -> In p lock_progs) -> reach (spawn_all ps) ts' -> deadlocked ts' = false.
Proof.
  intros ps ts' Hsub Hr. apply (reachable_never_deadlocks (spawn_all ps) ts'); [|exact Hr].
  apply spawn_ok. apply forallb_forall. intros p Hp.
  pose proof C20_lock_order as H. rewrite forallb_forall in H. apply H, Hsub, Hp.
Qed.

(* the generic statement, for any set of tasks obeying the discipline *)
Theorem C20_ordered_tasks_never_deadlock : forall ts ts',
  (forall t, In t ts -> task_ok t = true) -> reach ts ts' -> deadlocked ts' = false.
Proof. exact reachable_never_deadlocks. Qed.

(* non-vacuity: two tasks taking the same two locks in opposite orders do deadlock, and the
   discipline rejects exactly that program *)
Example C20_opposite_orders_deadlock :
  deadlocked [mkTask [(1, Wr)] [Acq 2 Wr; Rel 2; Rel 1]; mkTask [(2, Wr)] [Acq 1 Wr; Rel 1; Rel 2]] = true
  /\ ordered [] [Acq 2 Wr; Acq 1 Wr; Rel 1; Rel 2] = false
  /\ ordered [] [Acq 1 Rd; Acq 2 Wr; Rel 2; Rel 1] = true.
Proof. vm_compute. repeat split; reflexivity. Qed.
