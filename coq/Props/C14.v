(* C14 — join and request rate limits hold for every arrival pattern.
   Property theorems only; every proof is [exact lemma] or a one-line instantiation.
   Model: Model/RateLimit.v (token bucket in exact arithmetic, scaled by the window length:
   b_tok = tokens * window, times in ns).  Every clock reading is an input. *)
From SV Require Import Lib.Base Gen.RateLimitConsts Model.RateLimit Proofs.RateLimit.
Local Open Scope N_scope.

(* The numbers the property text states, from the constants regenerated from src/rate_limit.rs:
   1 per /64, 5 per /48, 3 per /24 per hour; global burst 10 and 100 per minute; the LRU holds 100000 keys. *)
Theorem C14_constants :
  j_per64 jcfg_default = 1 /\ j_per48 jcfg_default = 5 /\ j_per24 jcfg_default = 3 /\
  W64 = 3600 * NS /\ W48 = 3600 * NS /\ W24 = 3600 * NS /\
  j_gburst jcfg_default = 10 /\ j_gmax jcfg_default = 100 /\ WG = 60 * NS /\ RL_MAX_KEYS = 100000.
Proof. repeat split; reflexivity. Qed.

(* ---- one bucket ---- *)
(* Reachable states satisfy the invariant (tokens <= burst, window count <= max). *)
Theorem C14_reachable_inv : forall c t0 ts,
  Inv c (bucket_new c t0) /\ Inv c (fst (bucket_run c (bucket_new c t0) ts)).
Proof. intros c t0 ts. split; [apply inv_new|apply inv_run; apply inv_new]. Qed.

(* From ANY reachable state and for ANY later clock readings: admitted <= burst + max*elapsed/window,
   written without division (elapsed = sum of the time differences the bucket observes). *)
Theorem C14_bucket_bound : forall c b ts,
  Inv c b ->
  ntrue (snd (bucket_run c b ts)) * c_window c
  <= c_burst c * c_window c + c_max c * span_from (b_last b) ts.
Proof. exact bucket_bound. Qed.

Theorem C14_bucket_bound_div : forall c b ts,
  Inv c b -> 0 < c_window c ->
  ntrue (snd (bucket_run c b ts)) <= c_burst c + (c_max c * span_from (b_last b) ts) / c_window c.
Proof. exact bucket_bound_div. Qed.

(* While the fixed window that is open in state b has not expired, the number admitted in it
   (already counted + new) never exceeds max. *)
Theorem C14_window_bound : forall c b ts,
  Inv c b ->
  Forall (fun t => t - b_wstart b <= c_window c) ts ->
  b_inwin b + ntrue (snd (bucket_run c b ts)) <= c_max c.
Proof. exact window_bound. Qed.

(* A denied attempt never increases any budget: the bucket after a denial is exactly the bucket
   after letting the same time pass (tick) -- the step an admitted attempt performs as well before
   paying its token --; with zero elapsed time that is the unchanged bucket; and tick adds at most
   the time refill and never raises the window count. *)
Theorem C14_deny_no_gain : forall c now b,
  (snd (try_consume c now b) = false -> fst (try_consume c now b) = tick c now b) /\
  (snd (try_consume c now b) = true -> fst (try_consume c now b) = consume c (tick c now b)) /\
  (Inv c b -> tick c (b_last b) b = b) /\
  b_tok (tick c now b) <= b_tok b + (now - b_last b) * c_max c /\
  b_inwin (tick c now b) <= b_inwin b.
Proof.
  intros c now b. split; [apply try_denied_is_tick|]. split; [apply try_admitted_is_tick_consume|].
  split; [apply tick_zero_elapsed|]. split; [apply tick_tok_le|apply tick_inwin_le].
Qed.

(* ---- keyed engine ---- *)
(* Different keys never consume each other's budget: the verdicts key k receives in ANY
   interleaving with other keys are those of k's own bucket run over k's own call times.
   Hypothesis: the distinct keys fit in the LRU (MAX_RATE_LIMIT_KEYS); see the refutation below. *)
Theorem C14_key_isolation : forall c tr k,
  distinct (map snd tr) <= RL_MAX_KEYS ->
  results_of k tr (snd (engine_run c RL_MAX_KEYS [] tr)) = snd (obucket_run c None (times_of k tr)).
Proof. intros c tr k H. apply engine_isolation_init. exact H. Qed.

(* the same, from any engine state and for any capacity, including the final bucket of k *)
Theorem C14_key_isolation_general : forall c cap U tr e k,
  EI U e -> (forall x, In x (map snd tr) -> In x U) -> N.of_nat (length U) <= cap ->
  results_of k tr (snd (engine_run c cap e tr)) = snd (obucket_run c (e_find k e) (times_of k tr)) /\
  e_find k (fst (engine_run c cap e tr)) = fst (obucket_run c (e_find k e) (times_of k tr)).
Proof. intros c cap U tr e k. exact (engine_isolation c cap U tr e k). Qed.

(* one call, admitted or denied, leaves every other key's bucket untouched *)
Theorem C14_other_keys_untouched : forall c cap now k e U k',
  EI U e -> In k U -> N.of_nat (length U) <= cap -> k' <> k ->
  e_find k' (fst (engine_try c cap now k e)) = e_find k' e.
Proof. exact engine_try_other. Qed.

(* a denied call leaves its own key with the time-refilled bucket only *)
Theorem C14_deny_no_gain_engine : forall c cap now k e U,
  EI U e -> In k U -> N.of_nat (length U) <= cap ->
  snd (engine_try c cap now k e) = false ->
  e_find k (fst (engine_try c cap now k e)) =
    Some (tick c now (match e_find k e with Some b => b | None => bucket_new c now end)) /\
  (forall k', k' <> k -> e_find k' (fst (engine_try c cap now k e)) = e_find k' e).
Proof. exact engine_try_denied. Qed.

(* a key's admitted requests never exceed burst + refill, nor max inside one window *)
Theorem C14_key_bound : forall c tr k,
  distinct (map snd tr) <= RL_MAX_KEYS ->
  ntrue (results_of k tr (snd (engine_run c RL_MAX_KEYS [] tr))) * c_window c
  <= c_burst c * c_window c + c_max c * span (map fst tr).
Proof. intros c tr k H. apply engine_key_bound. exact H. Qed.

Theorem C14_key_window_bound : forall c tr k t0,
  distinct (map snd tr) <= RL_MAX_KEYS ->
  Forall (fun t => t0 <= t /\ t <= t0 + c_window c) (map fst tr) ->
  ntrue (results_of k tr (snd (engine_run c RL_MAX_KEYS [] tr))) <= c_max c.
Proof. intros c tr k t0 H. apply engine_key_window_bound. exact H. Qed.

(* Known class: more distinct keys than the LRU holds.  Then the least recently used bucket is
   dropped and the key starts again with a full burst: isolation and the per-key bound fail. *)
Theorem C14_key_bound_without_capacity_refuted :
  exists c cap tr k,
    cap < distinct (map snd tr) /\
    c_burst c * c_window c + c_max c * span (map fst tr)
      < ntrue (results_of k tr (snd (engine_run c cap [] tr))) * c_window c.
Proof.
  exists (mkCfg 1000 1 1), 1, [(0, 1); (0, 2); (0, 1)], 1. vm_compute. split; reflexivity.
Qed.

(* ---- validation::RateLimiter::check_ip (shared global bucket, then per-IP bucket) ---- *)
Theorem C14_check_ip_bounds : forall c t_create tr k,
  distinct (map snd tr) <= RL_MAX_KEYS ->
  let rs := snd (ip_run c RL_MAX_KEYS (ip_init c t_create) tr) in
  ntrue (map ip_passed rs) * c_window c
    <= c_burst c * c_window c + c_max c * span_from t_create (map fst tr) /\
  count_ip k IpOk tr rs * c_window c <= c_burst c * c_window c + c_max c * span (map fst tr).
Proof.
  intros c t_create tr k H. split; [apply ip_global_bound|apply ip_key_bound; exact H].
Qed.

(* ---- join limiter ---- *)
(* For every arrival sequence with arbitrary clock readings and every configuration:
   admitted joins from one /64, /48, /24 <= cap + cap*elapsed/hour; attempts that pass the global
   bucket (admitted or denied later) <= burst + max*elapsed/minute. *)
Theorem C14_join_caps : forall jc cap tr,
  join_fits cap tr ->
  let rs := snd (join_run jc cap js_init tr) in
  let T := span (map fst tr) in
  (forall p, count_ok (in64 p) tr rs * W64 <= j_per64 jc * W64 + j_per64 jc * T) /\
  (forall p, count_ok (in48 p) tr rs * W48 <= j_per48 jc * W48 + j_per48 jc * T) /\
  (forall p, count_ok (in24 p) tr rs * W24 <= j_per24 jc * W24 + j_per24 jc * T) /\
  ntrue (map passed_global rs) * WG <= j_gburst jc * WG + j_gmax jc * T /\
  count_ok anyaddr tr rs * WG <= j_gburst jc * WG + j_gmax jc * T.
Proof.
  intros jc cap tr H. cbn zeta.
  split; [exact (join_bound_64 jc cap tr H)|]. split; [exact (join_bound_48 jc cap tr H)|].
  split; [exact (join_bound_24 jc cap tr H)|]. split; [exact (join_bound_global jc cap tr H)|].
  exact (join_bound_total jc cap tr H).
Qed.

(* "per hour": all attempts inside one window length => at most the configured number *)
Theorem C14_join_caps_per_window : forall jc cap tr t0,
  join_fits cap tr ->
  let rs := snd (join_run jc cap js_init tr) in
  (Forall (fun t => t0 <= t /\ t <= t0 + W64) (map fst tr) -> forall p, count_ok (in64 p) tr rs <= j_per64 jc) /\
  (Forall (fun t => t0 <= t /\ t <= t0 + W48) (map fst tr) -> forall p, count_ok (in48 p) tr rs <= j_per48 jc) /\
  (Forall (fun t => t0 <= t /\ t <= t0 + W24) (map fst tr) -> forall p, count_ok (in24 p) tr rs <= j_per24 jc).
Proof.
  intros jc cap tr t0 H. cbn zeta.
  split; [intros HF p; exact (join_window_64 jc cap tr t0 H p HF)|].
  split; [intros HF p; exact (join_window_48 jc cap tr t0 H p HF)|].
  intros HF p; exact (join_window_24 jc cap tr t0 H p HF).
Qed.

(* a burst (no time passes): exactly the configured numbers *)
Theorem C14_join_caps_burst : forall jc cap tr,
  join_fits cap tr -> span (map fst tr) = 0 ->
  let rs := snd (join_run jc cap js_init tr) in
  (forall p, count_ok (in64 p) tr rs <= j_per64 jc) /\
  (forall p, count_ok (in48 p) tr rs <= j_per48 jc) /\
  (forall p, count_ok (in24 p) tr rs <= j_per24 jc) /\
  ntrue (map passed_global rs) <= j_gburst jc /\
  count_ok anyaddr tr rs <= j_gburst jc.
Proof. exact join_burst. Qed.

(* with the shipped defaults: 1 per /64, 5 per /48, 3 per /24, 10 overall *)
Theorem C14_join_caps_burst_defaults : forall tr,
  join_fits RL_MAX_KEYS tr -> span (map fst tr) = 0 ->
  let rs := snd (join_run jcfg_default RL_MAX_KEYS js_init tr) in
  (forall p, count_ok (in64 p) tr rs <= 1) /\
  (forall p, count_ok (in48 p) tr rs <= 5) /\
  (forall p, count_ok (in24 p) tr rs <= 3) /\
  count_ok anyaddr tr rs <= 10.
Proof.
  intros tr H HT. destruct (join_burst jcfg_default RL_MAX_KEYS tr H HT) as (H1 & H2 & H3 & _ & H5).
  repeat split; assumption.
Qed.

(* Each engine of the join limiter is the unmodified keyed engine run on the calls that reach it:
   so isolation, denial and bound theorems above apply per level. *)
Theorem C14_join_levels : forall jc cap tr st,
  let st' := fst (join_run jc cap st tr) in
  let rs := snd (join_run jc cap st tr) in
  engine_run (cfgG jc) cap (s_g st) (traceG tr) = (s_g st', map passed_global rs) /\
  engine_run (cfg64 jc) cap (s_64 st) (trace64 tr rs) = (s_64 st', adm64 tr rs) /\
  engine_run (cfg48 jc) cap (s_48 st) (trace48 tr rs) = (s_48 st', adm48 tr rs) /\
  engine_run (cfg24 jc) cap (s_24 st) (trace24 tr rs) = (s_24 st', adm24 tr rs).
Proof. intros jc cap tr st. exact (join_engines jc cap tr st). Qed.

(* Observation (not excluded by the property text, which speaks of increase only): a join denied
   by a subnet level has already consumed a token of the levels before it.  With the defaults,
   ten attempts from one /64 (one admitted, nine denied) exhaust the global burst, and a first
   attempt from an unrelated /48 is then refused. *)
Theorem C14_denied_join_consumes_global :
  snd (join_run jcfg_default RL_MAX_KEYS js_init
         [(0, V6 1); (0, V6 2); (0, V6 3); (0, V6 4); (0, V6 5); (0, V6 6); (0, V6 7); (0, V6 8);
          (0, V6 9); (0, V6 10); (0, V6 (2 ^ 100))])
  = [JOk; J64; J64; J64; J64; J64; J64; J64; J64; J64; JGlobal].
Proof. vm_compute. reflexivity. Qed.

(* ---- prefixes as bit arithmetic ---- *)
Theorem C14_prefix_iff : forall d a b,
  (zero_low d a = zero_low d b <-> a / 2 ^ d = b / 2 ^ d) /\
  (zero_low d a = zero_low d b <-> forall i, d <= i -> N.testbit a i = N.testbit b i) /\
  zero_low d a = a - a mod 2 ^ d /\
  (forall i, N.testbit (zero_low d a) i = if i <? d then false else N.testbit a i).
Proof.
  intros d a b. split; [rewrite zero_low_eq_iff, !N.shiftr_div_pow2; reflexivity|].
  split; [rewrite zero_low_eq_iff; apply shiftr_eq_iff_bits|].
  split; [apply zero_low_sub|intro i; apply zero_low_bits].
Qed.

(* two IPv6 addresses share a /64 iff their top 64 bits agree, a /48 iff their top 48 bits agree;
   two IPv4 addresses share a /24 iff their top 24 bits agree *)
Theorem C14_same_prefix : forall a b,
  (ext64 a = ext64 b <-> forall i, 64 <= i -> N.testbit a i = N.testbit b i) /\
  (ext48 a = ext48 b <-> forall i, 80 <= i -> N.testbit a i = N.testbit b i) /\
  (ext24 a = ext24 b <-> forall i, 8 <= i -> N.testbit a i = N.testbit b i) /\
  (ext64 a = ext64 b -> ext48 a = ext48 b).
Proof.
  intros a b. unfold ext64, ext48, ext24.
  split; [rewrite zero_low_eq_iff; apply shiftr_eq_iff_bits|].
  split; [rewrite zero_low_eq_iff; apply shiftr_eq_iff_bits|].
  split; [rewrite zero_low_eq_iff; apply shiftr_eq_iff_bits|apply same64_same48].
Qed.

(* IPv4-mapped IPv6 addresses (::ffff:a.b.c.d) are IPv6 to the limiter and all fall into the one
   /64 and /48 "::" -- they are limited by the /64 rule (stricter with the defaults), not the /24 rule *)
Theorem C14_v4_mapped_share_prefix : forall x,
  x < 4294967296 -> ext64 (v4_mapped x) = 0 /\ ext48 (v4_mapped x) = 0.
Proof. intros x H. split; [apply v4_mapped_64|apply v4_mapped_48]; exact H. Qed.

(* ---- what the correspondence check relies on ---- *)
(* A burst too short to earn one token (max * elapsed < window), inside the first window, is decided
   call by call exactly as if the clock stood still. *)
Theorem C14_frozen_clock_exact : forall c ts,
  Forall (fun t => t - hd 0 ts <= c_window c) ts ->
  c_max c * span ts < c_window c ->
  snd (obucket_run c None ts) = snd (obucket_run c None (map (fun _ => hd 0 ts) ts)).
Proof. exact frozen_clock_exact. Qed.

(* Cumulative admissions are monotone in time: if every gap between calls is at least as long,
   at least as many attempts have been admitted after every call (while the window counter
   cannot bind: no more calls than max). *)
Theorem C14_monotone_in_time : forall c t0 gs gs',
  Forall2 N.le gs gs' -> N.of_nat (length gs) + 1 <= c_max c ->
  forall n, ntrue (firstn n (snd (obucket_run c None (t0 :: times_from t0 gs))))
            <= ntrue (firstn n (snd (obucket_run c None (t0 :: times_from t0 gs')))).
Proof. exact fresh_monotone. Qed.

(* ---- non-vacuity ---- *)
Example C14_example_bucket :
  (* 2 tokens/s (max 4 per 2 s), burst 2: burst, denial, refill after 0.5 s and 1.0 s, window cap *)
  snd (obucket_run (mkCfg (2 * NS) 4 2) None
         [0; 0; 0; 500000000; 500000001; 1500000000; 1500000000; 1500000000; 4000000000])
  = [true; true; false; true; false; true; false; false; true].
Proof. vm_compute. reflexivity. Qed.

Example C14_example_join_fits :
  join_fits RL_MAX_KEYS [(0, V6 1); (5, V4 167772161); (7, V6 (2 ^ 64 + 1))] /\
  snd (join_run jcfg_default RL_MAX_KEYS js_init [(0, V6 1); (5, V4 167772161); (7, V6 (2 ^ 64 + 1))])
  = [JOk; JOk; JOk].
Proof. vm_compute. split; [repeat split; discriminate|reflexivity]. Qed.

Example C14_example_inv : Inv (mkCfg 1000 3 2) (bucket_new (mkCfg 1000 3 2) 17).
Proof. apply inv_new. Qed.
