(* C02 - routing-table closest-node answers are exact, duplicate-free and capped.
   Property theorems only; every proof is [exact lemma] (or a one-line instantiation).
   Model: Model/Routing.v (mirrors src/dht/core_engine.rs after the fixes of F02a/b/c);
   lemmas: Proofs/Routing.v, Lib/Xor.v. *)
From Coq Require Import Sorting.Sorted.
From SV Require Import Lib.Base Lib.Xor Gen.RoutingConsts Model.Routing Proofs.Routing.
Local Open Scope N_scope.

(* The numbers the property text states, from the constants regenerated from the source
   (each tied to its use site by the translator): K = 8 per bucket, 256 buckets, FindNode
   cap 20, FindValue K = 8, manager-level reply cap 8 <= 20. *)
Theorem C02_constants :
  RT_BUCKET_K = 8 /\ RT_BUCKET_COUNT = 256 /\ RT_MAX_FIND_NODE_COUNT = 20 /\ RT_FIND_VALUE_COUNT = 8 /\
  RT_DHT_CLOSEST_NODES_COUNT = 8 /\ RT_DHT_CLOSEST_NODES_COUNT <= RT_MAX_FIND_NODE_COUNT /\
  1 <= RT_CANDIDATE_EXPANSION_FACTOR.
Proof. repeat split; try reflexivity; unfold RT_DHT_CLOSEST_NODES_COUNT, RT_MAX_FIND_NODE_COUNT, RT_CANDIDATE_EXPANSION_FACTOR; lia. Qed.

(* For EVERY history of join / add (whatever the admission gates say) / failure / evict
   from the empty table - repeated ids, the local id and absent ids included - the table
   lists each id at most once, never the local id, every node in the bucket of the first
   bit in which it differs from the local id, and at most 8 nodes per bucket. *)
Theorem C02_table_inv : forall local ops, key_ok local -> Forall op_ok ops ->
  let t := fst (run (start local) ops) in
  t_local t = local /\
  NoDup (ids (all_nodes t)) /\
  ~ In local (ids (all_nodes t)) /\
  (forall i x, In x (t_buckets t i) -> In x (all_nodes t) /\ bucket_index local (n_id x) = i /\ key_ok (n_id x)) /\
  (forall i, N.of_nat (length (t_buckets t i)) <= RT_BUCKET_K).
Proof. exact reach_table. Qed.

(* Refinement: the bucket walk with its early exit (find_closest_nodes) returns exactly the
   first [count] entries of the whole table sorted by XOR distance to the key - for every
   reachable table, every 256-bit key and every count. *)
Theorem C02_closest_exact : forall local ops key count, key_ok local -> Forall op_ok ops -> key_ok key ->
  let t := fst (run (start local) ops) in
  closest t key count = firstn (N.to_nat count) (sort_by_dist key (all_nodes t)).
Proof. intros local ops key count Kl F Kk. exact (closest_exact _ key count (reach_inv local ops Kl F) Kk). Qed.

(* ... which means: min(count, size) entries, strictly ascending distance (so each peer
   once), never the local node, all of them table entries, nothing nearer left out. *)
Theorem C02_closest_meaning : forall local ops key count, key_ok local -> Forall op_ok ops -> key_ok key ->
  let t := fst (run (start local) ops) in
  let res := closest t key count in
  N.of_nat (length res) = N.min count (size t) /\
  StronglySorted (dlt key) res /\
  NoDup (ids res) /\
  ~ In (t_local t) (ids res) /\
  (forall x, In x res -> In x (all_nodes t)) /\
  (forall x y, In x res -> In y (all_nodes t) -> ~ In y res -> dlt key x y).
Proof. intros local ops key count Kl F Kk. exact (closest_meaning _ key count (reach_inv local ops Kl F) Kk). Qed.

(* ... and that answer is unique: any list with these properties IS the answer, so the
   statement does not depend on the sorting algorithm or the bucket traversal order. *)
Theorem C02_answer_unique : forall local ops key count res, key_ok local -> Forall op_ok ops -> key_ok key ->
  let t := fst (run (start local) ops) in
  StronglySorted (dlt key) res ->
  (forall x, In x res -> In x (all_nodes t)) ->
  N.of_nat (length res) = N.min count (size t) ->
  (forall x y, In x res -> In y (all_nodes t) -> ~ In y res -> dlt key x y) ->
  res = closest t key count.
Proof. intros local ops key count res Kl F Kk. exact (closest_unique _ key count res (reach_inv local ops Kl F) Kk). Qed.

Theorem C02_sort_unique : forall key l s, NoDup (ids l) ->
  StronglySorted (dlt key) s -> (forall x, In x s <-> In x l) -> s = sort_by_dist key l.
Proof. exact sort_unique. Qed.

(* FindNode / FindValue requests: same rule with the count capped at 20, resp. K = 8 ... *)
Theorem C02_request_exact : forall local ops key count, key_ok local -> Forall op_ok ops -> key_ok key ->
  let t := fst (run (start local) ops) in
  handle_find_node t key count = closest_spec t key (N.min count RT_MAX_FIND_NODE_COUNT) /\
  handle_find_value t key = closest_spec t key RT_FIND_VALUE_COUNT.
Proof. intros local ops key count Kl F Kk. exact (requests_exact _ key count (reach_inv local ops Kl F) Kk). Qed.

(* ... and for EVERY table and request the reply never exceeds the protocol cap. *)
Theorem C02_request_capped : forall t key count,
  N.of_nat (length (handle_find_node t key count)) <= 20 /\
  N.of_nat (length (handle_find_value t key)) <= 8.
Proof. exact requests_capped. Qed.

(* Manager-level reply rule (DhtNetworkManager::find_closest_nodes_local + filter_response_nodes):
   over everything the node knows (connected peers, then table entries) there is one entry
   per DHT key, the connected one winning; the reply is the nearest [cap] of those that are
   not the node itself, with the requester dropped after the cut: ascending, duplicate-free,
   at most cap, at most one slot short (and only when the requester was among the nearest
   cap), and nobody that may be named and is nearer than a named peer is left out.  The
   replies of real nodes are evaluated against [reply_nodes] by harness c02net. *)
Theorem C02_reply : forall is_self requester key cap connected from_table,
  let known := dedupe_ids (connected ++ from_table) in
  let others := filter (fun x => negb (is_self x)) known in
  let top := firstn (N.to_nat cap) (sort_by_dist key others) in
  let elig := filter (eligible is_self requester) known in
  let res := reply_nodes is_self requester key cap connected from_table in
  NoDup (ids known) /\
  (forall x, In x (connected ++ from_table) -> exists y, In y known /\ n_id y = n_id x) /\
  (forall x, In x connected -> NoDup (ids connected) -> In x known) /\
  res = filter (fun x => negb (n_id x =? requester)) top /\
  N.of_nat (length res) <= cap /\
  N.min cap (N.of_nat (length others)) <= N.of_nat (length res) + 1 /\
  (~ In requester (ids top) -> res = top /\ N.of_nat (length res) = N.min cap (N.of_nat (length others))) /\
  StronglySorted (dlt key) res /\
  NoDup (ids res) /\
  (forall x, In x res -> In x (connected ++ from_table) /\ is_self x = false /\ n_id x <> requester) /\
  (forall x y, In x res -> In y elig -> ~ In y res -> dlt key x y).
Proof. exact reply_rule. Qed.

(* What the evaluated check of a reply seen on the wire establishes: every named peer is known to
   the replier afterwards, and the reply IS [reply_nodes] of a knowledge that contains everything
   the replier knew before the lookup and otherwise only peers it names (or the requester). *)
Theorem C02_reply_check : forall selfks req key cap before after reply,
  check_rcase (selfks, req, key, cap, before, after, reply) = true ->
  (forall x, In x reply -> In x after) /\
  exists k, (k = reply ++ before \/ (k = req :: reply ++ before /\ In req after)) /\
            reply = reply_nodes (is_self_in selfks) (n_id req) key cap k [].
Proof. exact check_rcase_sound. Qed.

(* The tie between the byte-level Rust code and the numbers of the model. *)
(* [u8;32]::cmp on distances = comparison of the big-endian integers *)
Theorem C02_be_compare : forall a b, bytes_ok a -> bytes_ok b -> length a = length b ->
  of_be a ?= of_be b = lex_compare a b.
Proof. exact be_compare. Qed.
(* the bit loop of get_bucket_index = 255 - log2 (local xor id) *)
Theorem C02_bucket_index_loop : forall l a, key_ok l -> key_ok a -> bucket_index_loop l a = bucket_index l a.
Proof. exact bucket_index_loop_eq. Qed.
(* XOR distance to a fixed key is injective: distinct peers never tie *)
Theorem C02_dist_injective : forall k a b, dist k a = dist k b -> a = b.
Proof. exact dist_inj. Qed.

(* ---- the defects of the unrepaired source (DESIGN.md F02a, F02b, F02c), on a faithful
   model of the OLD walk / insertion; witnesses by computation ---- *)
Definition w_b0 (x : N) : N := 2 ^ 255 + x.   (* bucket 0 of local id 0 *)
Definition w_b2 (x : N) : N := 2 ^ 253 + x.   (* bucket 2 *)
Definition w_key3 : N := 2 ^ 252 + 5.         (* target bucket 3 *)
Definition w_t1 : table := fst (run (start 0) [Join [nd (w_b0 1) 1; nd (w_b0 2) 2; nd (w_b0 3) 3]]).
Definition w_t2 : table :=
  fst (run (start 0) [Join [nd (w_b2 1) 1; nd (w_b2 2) 2; nd (w_b2 3) 3; nd (w_b2 4) 4; nd (w_b2 5) 5;
                            nd (w_b2 6) 6; nd (w_b2 7) 7; nd (w_b2 8) 8; nd (2 ^ 250 + 1) 9]]).

(* F02a: three peers in bucket 0, target in bucket 3: the old walk answers 8 entries *)
Theorem C02_walk_refuted_duplicates :
  table_ok w_t1 = true /\ size w_t1 = 3 /\
  N.of_nat (length (closest_old w_t1 w_key3 8)) = 8 /\ nodup_N (ids (closest_old w_t1 w_key3 8)) = false /\
  closest w_t1 w_key3 8 = closest_spec w_t1 w_key3 8.
Proof. vm_compute. repeat split; reflexivity. Qed.

(* F02b: full bucket 2, one peer in bucket 5, target in bucket 3, count 4: the old walk
   stops at 8 candidates and never sees the nearest peer *)
Theorem C02_walk_refuted_early_exit :
  table_ok w_t2 = true /\
  map n_pl (closest_old w_t2 w_key3 4) = [5; 4; 7; 6] /\
  map n_pl (closest_spec w_t2 w_key3 4) = [9; 5; 4; 7] /\
  closest w_t2 w_key3 4 = closest_spec w_t2 w_key3 4.
Proof. vm_compute. repeat split; reflexivity. Qed.

(* F02c: the old insertion lists a peer twice and lists the local id *)
Theorem C02_insert_refuted :
  let t1 := fst (table_add_old (start 0) (nd (w_b0 1) 1)) in
  let t2 := fst (table_add_old t1 (nd (w_b0 1) 2)) in
  let t3 := fst (table_add_old t2 (nd 0 3)) in
  ids (all_nodes t3) = [w_b0 1; w_b0 1; 0] /\ table_ok t3 = false.
Proof. vm_compute. split; reflexivity. Qed.

(* ---- non-vacuity: the hypotheses are satisfiable and the operations do what they say ---- *)
Example C02_example_history :
  let a := nd (w_b0 1) 1 in let b := nd (w_b0 2) 2 in let c := nd (w_b2 7) 3 in
  let ops := [Join [a; b]; Add c true; Add (nd (w_b0 1) 9) true (* listed: refresh, keeps payload 1 *);
              Add (nd 0 4) true (* the local id *); Add (nd (w_b2 8) 5) false (* gates refuse *);
              Join [nd (w_b0 4) 6; nd 0 7; nd (w_b0 5) 8] (* stops at the local id *);
              Fail (w_b0 2); Evict (w_b0 77) (* absent *); Find w_key3 2; ReqFindNode w_key3 1000; ReqFindValue 0] in
  key_ok 0 /\ forallb op_okb ops = true /\
  snd (run (start 0) ops) =
    [OOk; OOk; OOk; OErr; OErr; OErr; OOk; OOk;
     ONodes [c; nd (w_b0 4) 6]; ONodes [c; nd (w_b0 4) 6; a]; ONodes [c; a; nd (w_b0 4) 6]].
Proof. vm_compute. repeat split; reflexivity. Qed.

(* a full bucket refuses the ninth peer, keeps the eight *)
Example C02_example_full_bucket :
  let ops := map (fun i => Add (nd (w_b0 i) i) true) [1; 2; 3; 4; 5; 6; 7; 8; 9] in
  snd (run (start 0) ops) = [OOk; OOk; OOk; OOk; OOk; OOk; OOk; OOk; OErr] /\
  size (fst (run (start 0) ops)) = 8.
Proof. vm_compute. split; reflexivity. Qed.

Example C02_example_reply :
  (* peer with DHT key 9 is known twice (connected under payload 100, table under 200); requester has key 5 *)
  reply_nodes (fun x => n_id x =? 1) 5 8 2 [nd 9 100; nd 5 101] [nd 9 200; nd 12 201; nd 1 202; nd 10 203]
  = [nd 9 100; nd 10 203] /\
  (* the requester (key 10) is among the nearest two: it is dropped after the cut, the reply is one short *)
  reply_nodes (fun x => n_id x =? 1) 10 8 2 [nd 9 100; nd 5 101] [nd 9 200; nd 12 201; nd 1 202; nd 10 203]
  = [nd 9 100].
Proof. vm_compute. split; reflexivity. Qed.

(* the check of a wire reply: accepted although the replier learnt of peer 12 only during the lookup,
   accepted one short when the requester took a slot, refused when a known nearer peer is left out *)
Example C02_example_reply_check :
  check_rcase ([1], nd 5 101, 8, 2, [nd 9 100; nd 5 101], [nd 9 100; nd 5 101; nd 12 201], [nd 9 100; nd 12 201]) = true /\
  check_rcase ([1], nd 10 203, 8, 2, [nd 9 100; nd 12 201], [nd 9 100; nd 12 201; nd 10 203], [nd 9 100]) = true /\
  prop_rcase ([1], nd 10 203, 8, 2, [nd 9 100; nd 12 201], [nd 9 100; nd 12 201; nd 10 203], [nd 9 100]) = true /\
  check_rcase ([1], nd 5 101, 8, 2, [nd 9 100; nd 10 203; nd 12 201], [nd 9 100; nd 10 203; nd 12 201], [nd 9 100; nd 12 201]) = false /\
  prop_rcase ([1], nd 5 101, 8, 2, [nd 9 100; nd 10 203; nd 12 201], [nd 9 100; nd 10 203; nd 12 201], [nd 9 100; nd 12 201]) = false.
Proof. vm_compute. repeat split; reflexivity. Qed.
