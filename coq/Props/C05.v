(* C05 — hostile inbound bytes are rejected safely; the sender id comes from the connection.
   Property theorems only; every proof is [exact lemma] or a one-line instantiation.
   Models: Model/Postcard.v (generic postcard codec), Model/Wire.v (inbound paths);
   schemas and limits: Gen/Schemas.v, Gen/WireConsts.v (regenerated from the Rust source).

   PARTIAL (as DESIGN.md says): these theorems are about the model.  The model is total, so
   "returns normally" holds for it by construction; panic-freedom and the allocation behaviour
   of the REAL decoders are observed by the differential run (every call under catch_unwind),
   not proved. *)
From SV Require Import Lib.Base Model.Postcard Proofs.Postcard Gen.Schemas Gen.WireConsts Model.Wire Proofs.Wire.
Local Open Scope N_scope.

(* the numbers the property text states, proved from the regenerated constants *)
Theorem C05_constants :
  W_MAX_MESSAGE_AGE_SECS = 300 /\ W_MAX_FUTURE_SECS = 30 /\ W_DHT_MAX_MESSAGE_SIZE = 64 * 1024 /\
  W_DHT_MAX_VALUE_SIZE = 512 /\ W_CORE_MAX_DHT_VALUE_SIZE = 512 /\ W_CORE_MAX_FIND_NODE_COUNT = 20 /\
  W_MAX_RECORD_SIZE = 512.
Proof. repeat split; reflexivity. Qed.

(* every schema generated from the source meets the side conditions of the codec theorems:
   real integer widths, no sequence of zero-sized elements, enum sizes within u32 *)
Theorem C05_schemas_ok : forallb ty_ok all_schemas = true.
Proof. exact schemas_ok. Qed.

(* round trip, once for all message types: for every schema and every value the Rust type
   can hold, decoding the encoding (followed by anything) gives the value back and leaves
   exactly the trailing bytes *)
Theorem postcard_roundtrip : forall t, ty_ok t = true ->
  forall v rest, wfb t v = true -> decode t (encode t v ++ rest) = Some (v, rest).
Proof. exact decode_encode. Qed.

Theorem C05_roundtrip_all_schemas : forall t, In t all_schemas ->
  forall v rest, wfb t v = true -> decode t (encode t v ++ rest) = Some (v, rest).
Proof. intros t H. exact (decode_encode t (schema_ok t H)). Qed.

(* decode is not injective (overlong varints, unnormalised durations are accepted), but what it
   returns is a value of the type, and re-encoding that value is a fixed point of decoding:
   comparing canonical re-encodings (what the correspondence check does) is comparing values *)
Theorem postcard_decode_canonical : forall t, ty_ok t = true ->
  forall inp v rest, decode t inp = Some (v, rest) ->
  wfb t v = true /\ forall r', decode t (encode t v ++ r') = Some (v, r').
Proof. intros t Hok inp v rest H. split; [exact (decode_wf t Hok inp v rest H)|exact (decode_canonical t Hok inp v rest H)]. Qed.

(* the executable UTF-8 validator accepts the UTF-8 encoding of every string of Unicode
   scalar values (so [wfb Str] is inhabited by every Rust String) *)
Theorem postcard_utf8_accepts_scalars : forall cs,
  forallb scalar cs = true -> utf8_valid (flat_map utf8_enc cs) = true.
Proof. exact utf8_string_valid. Qed.

(* allocation bound: whatever the input claims in its length prefixes and counts, a decoded
   value holds at most as many dynamically sized items (sequence elements, string and buffer
   bytes, at every nesting depth) as input bytes were consumed; every other part of the value
   has a size fixed by the schema *)
Theorem postcard_alloc_bound : forall t, ty_ok t = true ->
  forall inp v rest, decode t inp = Some (v, rest) ->
  (length rest <= length inp)%nat /\ (elems v <= length inp - length rest)%nat.
Proof. exact decode_elems_le. Qed.

Theorem C05_alloc_bound_all_schemas : forall t, In t all_schemas ->
  forall inp v rest, decode t inp = Some (v, rest) ->
  (length rest <= length inp)%nat /\ (elems v <= length inp - length rest)%nat.
Proof. intros t H. exact (decode_elems_le t (schema_ok t H)). Qed.

(* a framed message is surfaced iff it decodes and its timestamp lies in [now-300, now+30]
   ([N] subtraction truncates at 0 like saturating_sub); the event carries the decoded
   protocol and data and the CONNECTION's id *)
Theorem C05_window : forall now src bytes ev,
  parse_protocol_message now src bytes = Some ev <->
  exists m rest p d ts,
    decode S_WireMessage bytes = Some (m, rest) /\ wire_fields m = Some (p, d, ts) /\
    now - 300 <= ts /\ ts <= now + 30 /\ ev = mkEv p src d.
Proof. exact ppm_spec. Qed.

(* the surfaced source is the connection's id for EVERY byte string *)
Theorem C05_source : forall now src bytes ev,
  parse_protocol_message now src bytes = Some ev -> ev_source ev = src.
Proof. exact ppm_source. Qed.

(* ... and nothing about the verdict or the event depends on the sender the payload claims:
   two messages that agree on protocol, data and timestamp are treated identically, whatever
   their [from] fields and whatever follows them *)
Theorem C05_claimed_sender_ignored : forall now src m1 m2 r1 r2,
  wfb S_WireMessage m1 = true -> wfb S_WireMessage m2 = true ->
  wire_fields m1 = wire_fields m2 ->
  parse_protocol_message now src (encode S_WireMessage m1 ++ r1) =
  parse_protocol_message now src (encode S_WireMessage m2 ++ r2).
Proof. exact ppm_ignores_from. Qed.

(* DHT messages over 64 KiB are refused BEFORE decoding: the verdict is the size error whatever
   decoder is plugged in, and the store is untouched *)
Theorem C05_size_gate : forall dec st len data,
  64 * 1024 < len -> dht_handle_with dec st len data = (st, DRejSize).
Proof. exact dht_size_gate. Qed.

(* caps, for every history of frames handled by the DHT manager front end: no stored value and
   no served value exceeds 512 bytes *)
Theorem C05_caps_manager : forall frames,
  store_ok 512 (fst (dht_run [] frames)) = true /\ Forall dres_ok (snd (dht_run [] frames)).
Proof. intro frames. exact (dht_run_inv frames [] eq_refl). Qed.

(* a PUT is acknowledged only for a value of at most 512 bytes *)
Theorem C05_put_ack_cap : forall st args st',
  dht_request st V_DhtNetworkOperation_Put args = (st', DReply V_DhtNetworkResult_PutSuccess None) ->
  exists k v, fld F_DhtNetworkOperation_Put_value args = Some (VBytes v) /\
              blen v <= 512 /\ blen v <= 512 /\ st' = s_put k v st.
Proof. exact dht_put_ack. Qed.

(* caps, for every history of requests handled by the core engine and every routing-table
   size: a find-node reply names at most 20 nodes, no stored or served value exceeds 512 bytes *)
Theorem C05_caps_core : forall avail frames,
  store_ok 512 (fst (core_run avail [] frames)) = true /\ Forall cres_ok (snd (core_run avail [] frames)).
Proof. intros avail frames. exact (core_run_inv avail frames [] eq_refl). Qed.

(* records: both directions refuse more than 512 bytes; what serialises reads back unchanged *)
Theorem C05_record_deserialize_cap : forall data b, record_deserialize data = ROk b -> blen data <= 512.
Proof. exact record_deserialize_ok. Qed.

Theorem C05_record_serialize_cap : forall v b, record_serialize v = ROk b ->
  b = encode S_DhtRecord v /\ blen b <= 512.
Proof. exact record_serialize_ok. Qed.

Theorem C05_record_roundtrip : forall v b, wfb S_DhtRecord v = true -> record_serialize v = ROk b ->
  record_deserialize b = ROk b.
Proof. exact record_roundtrip. Qed.

(* rejects change nothing (model level; the correspondence for this part needs a running node
   and belongs to the network-level check): a frame that is not a matched /rr/ response leaves
   the pending table as it was, and a response completes a request only if the connection it
   arrived on is the peer the request was sent to *)
Theorem C05_dispatch_reject_unchanged : forall pend now src bytes pend' out,
  dispatch pend now src bytes = (pend', out) ->
  match out with
  | DDelivered id payload => p_lookup id pend = Some src /\ pend' = p_remove id pend
  | DEvent e => pend' = pend /\ parse_protocol_message now src bytes = Some e
  | _ => pend' = pend
  end.
Proof. exact dispatch_spec. Qed.

(* every outcome of the DHT front end other than an acknowledged PUT leaves the store unchanged *)
Theorem C05_dht_reject_unchanged : forall st data st' r,
  store_ok 512 st = true -> dht_handle st data = (st', r) ->
  st' = st \/ r = DReply V_DhtNetworkResult_PutSuccess None.
Proof. intros st data st' r Hs H. exact (proj2 (proj2 (dht_handle_inv st data st' r Hs H))). Qed.

(* ---------- non-vacuity ---------- *)
(* overlong varints are accepted (decode is not injective) and re-encode canonically *)
Example C05_ex_overlong :
  decode (VarU 64) [128; 0; 7] = Some (VN 0, [7]) /\ encode (VarU 64) (VN 0) = [0] /\
  decode (VarU 16) [255; 255; 3] = Some (VN 65535, []) /\ decode (VarU 16) [255; 255; 4] = None /\
  decode (VarU 64) [255; 255; 255; 255; 255; 255; 255; 255; 255; 2] = None.
Proof. vm_compute. repeat split; reflexivity. Qed.

(* a concrete WireMessage: surfaced with the connection id although it claims another sender;
   rejected one second outside either edge of the window *)
Example C05_ex_window :
  let msg ts := encode S_WireMessage (VTup [VBytes [47; 120]; VBytes [1; 2; 3]; VBytes [101; 118; 105; 108]; VN ts]) in
  let conn := [109; 101] in
  parse_protocol_message 1000 conn (msg 700) = Some (mkEv [47; 120] conn [1; 2; 3]) /\
  parse_protocol_message 1000 conn (msg 699) = None /\
  parse_protocol_message 1000 conn (msg 1030) = Some (mkEv [47; 120] conn [1; 2; 3]) /\
  parse_protocol_message 1000 conn (msg 1031) = None /\
  wfb S_WireMessage (VTup [VBytes [47; 120]; VBytes [1; 2; 3]; VBytes [101; 118; 105; 108]; VN 700]) = true.
Proof. vm_compute. repeat split; reflexivity. Qed.

(* hostile length prefixes: a 6-byte input claiming a 2^32-element sequence is rejected *)
Example C05_ex_hostile_length :
  decode S_DhtResponseWrapper [0; 2; 128; 128; 128; 128; 16; 0] = None /\
  decode Str [2; 195; 40] = None /\ decode Str [2; 195; 169; 9] = Some (VBytes [195; 169], [9]).
Proof. vm_compute. repeat split; reflexivity. Qed.
