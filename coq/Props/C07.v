(* C07 — damaged log or snapshot data is detected and never replayed as state.
   Property theorems only; every proof is [exact lemma].  Model: Model/Wal.v.
   The record decoder [deser], the snapshot decoders, the value check and the keyed
   MAC [mac] (HMAC-SHA256 under the store key) are universally quantified: the
   theorems hold for ANY disk contents and ANY such functions. *)
From Coq Require Import Sorting.Sorted.
From SV Require Import Lib.Base Gen.WalConsts Model.Wal Proofs.Wal.
Local Open Scope N_scope.

Section C07.
  Variable deser : bytes -> option entry.
  Variable mac : bytes -> bytes.
  Variable val_ok : bytes -> bool.
  Variable dec_changes : bytes -> option (list change).
  Variable deser_hdr : bytes -> option snaphdr.
  Variable dec_map : bytes -> option state.
  Notation recover := (recover deser mac val_ok dec_changes deser_hdr dec_map).
  Notation replay_file := (replay_file deser mac val_ok dec_changes).
  Notation replay_frame := (replay_frame deser mac val_ok dec_changes).

  (* For an ARBITRARY disk: every recovered (k, v) was put there by a record of a
     log file that decodes, whose tag verifies, and whose (tag-covered) payload
     assigns v to k - or it is in a snapshot file whose keyed checksum verifies. *)
  Theorem C07_no_invention : forall d k v,
    get (r_state (recover d)) k = Some v ->
    from_record deser mac val_ok dec_changes (wal_files d) k v \/
    from_snapshot mac deser_hdr dec_map (d_snap d) k v.
  Proof. exact (recover_no_invention deser mac val_ok dec_changes deser_hdr dec_map). Qed.

  (* Under the MAC idealisation (a tag verifies only for records this store wrote under
     its key - an assumption about HMAC-SHA256, stated here, not proved): a value that
     comes from a log record comes from a record this store genuinely wrote for that key. *)
  Theorem C07_genuinely_written : forall (Written : entry -> Prop) files k v,
    (forall e, verify mac e = true -> Written e) ->
    from_record deser mac val_ok dec_changes files k v ->
    exists e cs, Written e /\ entry_changes val_ok dec_changes e = Some cs /\ In (k, Some v) cs.
  Proof. exact (from_record_written deser mac val_ok dec_changes). Qed.

  (* The tag input determines every field (after the fix that length-prefixes key and
     value): a tag that verifies for one (id, time, type, key, value) cannot be
     presented with another key or value - nothing is "moved to another key". *)
  Theorem C07_tag_binds_key_and_value : forall ver txid ts t k v ver' txid' ts' t' k' v',
    u64 txid -> u64 ts -> u64 txid' -> u64 ts' -> u64 (len k) -> u64 (len k') ->
    (forall x, v = Some x -> u64 (len x)) -> (forall x, v' = Some x -> u64 (len x)) ->
    entry_fields ver txid ts t k v = entry_fields ver' txid' ts' t' k' v' ->
    ver = ver' /\ txid = txid' /\ ts = ts' /\ t = t' /\ k = k' /\ v = v'.
  Proof. exact entry_fields_inj. Qed.

  (* Records that precede the damage are honoured: whatever follows the complete
     records [good] in the file (damage, junk, nothing), replaying the file is
     replaying [good] and then replaying the rest. *)
  Theorem C07_before_damage_honoured : forall good rest r, Forall small good ->
    replay_file r (frames good ++ rest) = replay_file (fold_left replay_frame good r) rest.
  Proof. exact (replay_file_prefix deser mac val_ok dec_changes). Qed.

  (* Later records are honoured when the framing is intact: a rejected record
     (undecodable or failing its tag) between complete records is skipped and the
     recovered state and transaction counter are those of the file without it. *)
  Theorem C07_after_damage_if_framing_intact : forall pre bad post r,
    Forall small pre -> small bad -> Forall small post -> rejected deser mac bad ->
    sc (replay_file r (frames (pre ++ bad :: post))) = sc (replay_file r (frames (pre ++ post))).
  Proof. exact (replay_file_skip deser mac val_ok dec_changes). Qed.

  (* Damage is reported: a torn tail or a rejected record in any log file leaves at
     least one corruption event in the statistics. *)
  Theorem C07_stats : forall d b, In b (wal_files d) ->
    (snd (parse b) = true \/ exists body, In body (fst (parse b)) /\ rejected deser mac body) ->
    s_events (r_stats (recover d)) <> [].
  Proof. exact (recover_reports_damage deser mac val_ok dec_changes deser_hdr dec_map). Qed.

  (* ... and so does a snapshot that is rejected while no newer snapshot is accepted *)
  Theorem C07_stats_snapshot : forall l s ts b, In (ts, b) l -> snap_valid mac deser_hdr dec_map b = None ->
    (forall ts' b', In (ts', b') l -> ts < ts' -> snap_valid mac deser_hdr dec_map b' = None) ->
    StronglySorted (fun x y => fst y <= fst x) l -> NoDup (map fst l) ->
    (length (s_events s) < length (s_events (snd (load_snaps mac deser_hdr dec_map l s))))%nat.
  Proof. exact (load_snaps_nev deser mac val_ok dec_changes deser_hdr dec_map). Qed.
End C07.

(* Memory: every buffer size requested while replaying a file is at most the number
   of bytes that remain in the file (so at most the file size), whatever the bytes. *)
Theorem C07_alloc : forall b n r, In (n, r) (allocs b) -> n <= r /\ r <= len b.
Proof. exact allocs_bound. Qed.
(* ... and the sizes requested are exactly the sizes of the records handed to the decoder *)
Theorem C07_alloc_is_frames : forall b, map fst (allocs b) = map len (fst (parse b)).
Proof. intro b. exact (parse_allocs_frames (S (length b)) (len b) b eq_refl). Qed.

(* non-vacuity: a file of one genuine-looking record, one garbage record and a 4-byte
   tail claiming 128 MiB - the parser yields both bodies, reports a torn tail and
   never asks for more than 4 bytes *)
Example C07_example :
  let b := frame [1;2;3;4] ++ frame [9] ++ [0;0;0;8] in
  parse b = ([[1;2;3;4]; [9]], true) /\ allocs b = [(4, 13); (1, 5)] /\
  small [1;2;3;4] /\ rejected (fun _ => None) (fun _ => []) [9].
Proof. vm_compute. repeat split; auto. Qed.
