(* C18 — stored keys open only with the current password; tampering is detected;
   an interrupted update leaves the old or the new file.
   Property theorems only; every proof is [exact lemma] or a one-line instantiation.
   Model: Model/KeyStore.v (the manager over a two-file disk with its seed cache and
   password verifier; the store file byte for byte; a crypto-free reference machine).

   External primitives are Section variables:
     kdf  : Argon2id          level -> password -> salt -> key
     enc, dec : ChaCha20-Poly1305 without associated data
     vf   : the keyed hash kept as the cache's password verifier
     pw_ok: the password policy (validate_password)
   Their assumed behaviour -- [ideal_kdf], [ideal_aead], [ideal_vf], defined in
   Model/KeyStore.v -- is an explicit hypothesis of every theorem that needs it. *)
From SV Require Import Lib.Base Gen.KeyStoreConsts Model.KeyStore Proofs.KeyStore.
Local Open Scope N_scope.

(* the numbers the file layout and the model rely on, from the source *)
Theorem C18_constants :
  KS_FORMAT_VERSION = 1 /\ KS_SALT_SIZE = 32 /\ KS_NONCE_SIZE = 12 /\ KS_TAG_FIELD_SIZE = 16 /\
  KS_MASTER_SEED_SIZE = 32 /\
  (* the key is derived from the salt in the file, decryption uses the nonce in the
     file and no associated data, the update is tmp-then-rename *)
  KS_KDF_USES_FILE_SALT = 1 /\ KS_DEC_USES_FILE_NONCE_NO_AAD = 1 /\ KS_TMP_THEN_RENAME = 1.
Proof. repeat split; reflexivity. Qed.

Section Primitives.
  Variable key : Type.
  Variable kdf : N -> N -> bytes -> key.
  Variable enc : key -> bytes -> payload -> bytes.
  Variable dec : key -> bytes -> bytes -> option payload.
  Variable vf : N -> N.
  Variable pw_ok : N -> bool.

  Notation step := (step key kdf enc dec vf pw_ok true).
  Notation run := (run key kdf enc dec vf pw_ok true).
  (* the state every history reaches, and what the history established:
     (current password, level the file was written at, stored seeds) *)
  Notation reached lvl0 ops := (fst (run (st_init lvl0) ops)).
  Notation established lvl0 ops := (fst (arun pw_ok true (a_init lvl0) ops)).

  (* ---- main theorem: for EVERY history of initialize / store / retrieve /
     change_password / clear_cache / reopen / crash-inside-a-call, with any
     passwords, ids, seeds, salts, nonces and clocks, every verdict of the manager
     (file, cache, verifier, real control flow) is the verdict of the reference
     machine, which has no cache, no cryptography and no disk: a seed comes back
     iff the presented password is the one in force (and the manager has the level
     the file was written at), and then it is the seed last stored under that id. *)
  Theorem C18_refines_reference : ideal_kdf kdf -> ideal_aead enc dec -> ideal_vf vf ->
    forall lvl0 ops, snd (run (st_init lvl0) ops) = snd (arun pw_ok true (a_init lvl0) ops).
  Proof. exact (refines_spec key kdf enc dec vf pw_ok). Qed.

  (* ... and when every manager of the history has the level the store was created
     with (i.e. outside the recorded finding reopen-other-level), that is the
     property exactly as stated: the level plays no role *)
  Theorem C18_refines_property : ideal_kdf kdf -> ideal_aead enc dec -> ideal_vf vf ->
    forall lvl0 ops, same_level lvl0 ops ->
    snd (run (st_init lvl0) ops) = snd (arun pw_ok false (a_init lvl0) ops).
  Proof.
    intros Hk Ha Hv lvl0 ops Hs. rewrite <- (arun_same_level pw_ok lvl0 ops Hs).
    exact (refines_spec key kdf enc dec vf pw_ok Hk Ha Hv lvl0 ops).
  Qed.

  (* ---- the current password gets the stored seed, unchanged: after any history,
     same process (cache warm or cold) or fresh manager *)
  Theorem C18_right_password : ideal_kdf kdf -> ideal_aead enc dec -> ideal_vf vf ->
    forall lvl0 ops P L pl id sd,
    a_file (established lvl0 ops) = Some (P, L, pl) -> a_level (established lvl0 ops) = L ->
    pl_get id pl = Some sd ->
    snd (step (reached lvl0 ops) (Retrieve id P)) = RSeed sd.
  Proof. exact (right_password key kdf enc dec vf pw_ok). Qed.

  (* ---- any other password is refused, after any history: right after a store in
     the same process, after a password change (the previous password included),
     with a warm cache *)
  Theorem C18_wrong_password_fails : ideal_kdf kdf -> ideal_aead enc dec -> ideal_vf vf ->
    forall lvl0 ops id p,
    (forall L pl, a_file (established lvl0 ops) <> Some (p, L, pl)) ->
    snd (step (reached lvl0 ops) (Retrieve id p)) = RErr.
  Proof. exact (wrong_password key kdf enc dec vf pw_ok). Qed.

  (* the same two facts without the reference machine, at the two places the
     property text singles out.  Right after a successful store (any earlier
     history): the password used gets the seed, every other one is refused, in the
     same process and after a restart ... *)
  Theorem C18_after_store : ideal_kdf kdf -> ideal_aead enc dec -> ideal_vf vf ->
    forall lvl0 ops id sd p nonce ts,
    let s := reached lvl0 ops in
    snd (step s (Store id sd p nonce ts)) = ROk ->
    let s1 := fst (step s (Store id sd p nonce ts)) in
    forall q, snd (step s1 (Retrieve id q)) = (if q =? p then RSeed sd else RErr) /\
              snd (step (wipe s1) (Retrieve id q)) = (if q =? p then RSeed sd else RErr).
  Proof.
    intros Hk Ha Hv lvl0 ops id sd p nonce ts.
    exact (after_store key kdf enc dec vf pw_ok Hk Ha Hv _ _ id sd p nonce ts
             (reachable_sim key kdf enc dec vf pw_ok Hk Ha Hv lvl0 ops)).
  Qed.

  (* ... and right after a successful password change the previous password opens
     nothing, in the same process and after a restart *)
  Theorem C18_previous_password_fails : ideal_kdf kdf -> ideal_aead enc dec -> ideal_vf vf ->
    forall lvl0 ops old new salt nonce ts,
    let s := reached lvl0 ops in
    snd (step s (Change old new salt nonce ts)) = ROk -> old <> new ->
    let s1 := fst (step s (Change old new salt nonce ts)) in
    forall id, snd (step s1 (Retrieve id old)) = RErr /\ snd (step (wipe s1) (Retrieve id old)) = RErr.
  Proof.
    intros Hk Ha Hv lvl0 ops old new salt nonce ts.
    exact (after_change key kdf enc dec vf pw_ok Hk Ha Hv _ _ old new salt nonce ts
             (reachable_sim key kdf enc dec vf pw_ok Hk Ha Hv lvl0 ops)).
  Qed.

  (* ---- interrupted update: the process dies inside any call [o] at any point
     [pt] of its file update (nothing written / tmp half written / tmp complete /
     renamed) and is restarted.  Whatever is done afterwards ([rest], any history)
     gets exactly the verdicts it would get had the call not been made, or had it
     completed -- never a mixture. *)
  Theorem C18_atomic_update : ideal_kdf kdf -> ideal_aead enc dec -> ideal_vf vf ->
    forall lvl0 ops pt o rest,
    let s := reached lvl0 ops in
    snd (run (fst (step s (Crash pt o))) rest) = snd (run (wipe s) rest) \/
    snd (run (fst (step s (Crash pt o))) rest) = snd (run (wipe (fst (step s o))) rest).
  Proof.
    intros Hk Ha Hv lvl0 ops pt o rest.
    exact (crash_atomic key kdf enc dec vf pw_ok Hk Ha Hv _ _ pt o rest
             (reachable_sim key kdf enc dec vf pw_ok Hk Ha Hv lvl0 ops)).
  Qed.

  (* which of the two: the old content for every point before the rename ... *)
  Theorem C18_atomic_before_rename_old : ideal_kdf kdf -> ideal_aead enc dec -> ideal_vf vf ->
    forall lvl0 ops pt o rest, cp_done pt = false -> writes o = true ->
    let s := reached lvl0 ops in
    snd (run (fst (step s (Crash pt o))) rest) = snd (run (wipe s) rest).
  Proof.
    intros Hk Ha Hv lvl0 ops pt o rest Hp Hw.
    exact (crash_early_old key kdf enc dec vf pw_ok Hk Ha Hv _ _ pt o rest
             (reachable_sim key kdf enc dec vf pw_ok Hk Ha Hv lvl0 ops) Hp Hw).
  Qed.

  (* ... the new content once the rename has happened *)
  Theorem C18_atomic_after_rename_new : ideal_kdf kdf -> ideal_aead enc dec -> ideal_vf vf ->
    forall lvl0 ops o rest,
    let s := reached lvl0 ops in
    snd (run (fst (step s (Crash CDone o))) rest) = snd (run (wipe (fst (step s o))) rest).
  Proof.
    intros Hk Ha Hv lvl0 ops o rest.
    exact (crash_done_new key kdf enc dec vf pw_ok Hk Ha Hv _ _ o rest
             (reachable_sim key kdf enc dec vf pw_ok Hk Ha Hv lvl0 ops)).
  Qed.

  (* a completed update leaves no temporary file behind (no hypothesis) *)
  Theorem C18_no_stale_tmp : forall fixed s o,
    writes o = true -> snd (KeyStore.step key kdf enc dec vf pw_ok fixed s o) = ROk ->
    d_tmp (fst (KeyStore.step key kdf enc dec vf pw_ok fixed s o)) = None.
  Proof. exact (no_stale_tmp key kdf enc dec vf pw_ok). Qed.

  (* ---- tampering, on the bytes of the store file.
     (1) Whatever bytes open, under whatever password: they parse as a store file of
     the right version whose ciphertext is the genuine encryption of exactly the
     returned content under exactly the presented password, the salt and the nonce
     found in those bytes. *)
  Theorem C18_opens_only_genuine : ideal_aead enc dec ->
    forall lvl bs p pl', load_bytes key kdf dec lvl bs p = Some pl' ->
    exists f', parse_file bs = Some f' /\ f_version f' = KS_FORMAT_VERSION /\
               f_ct f' = enc (kdf lvl p (f_salt f')) (f_nonce f') pl'.
  Proof. exact (opens_only_genuine key kdf enc dec). Qed.

  (* (2) [f] is the current file, holding [pl] under password P at level L.  For ANY
     bytes [bs] put in its place -- one byte altered, many, truncated, extended --
     whose ciphertext field is the original one or is not a genuine encryption (all
     that can be made without a key): every password gets a refusal, except that the
     right password gets exactly [pl] when salt, nonce and ciphertext are intact.
     Never other key material. *)
  Theorem C18_tamper : ideal_kdf kdf -> ideal_aead enc dec ->
    forall f P L pl lvl bs p,
    f_ct f = enc (kdf L P (f_salt f)) (f_nonce f) pl ->
    (forall f', parse_file bs = Some f' -> f_ct f' = f_ct f \/ forall k n m, f_ct f' <> enc k n m) ->
    load_bytes key kdf dec lvl bs p = None \/
    (load_bytes key kdf dec lvl bs p = Some pl /\ p = P /\ lvl = L /\
     exists f', parse_file bs = Some f' /\ f_salt f' = f_salt f /\ f_nonce f' = f_nonce f /\ f_ct f' = f_ct f).
  Proof. exact (tamper_detected key kdf enc dec). Qed.

  (* (3) the header fields outside the AEAD (argon2_config, timestamps,
     encrypted_size, the auth_tag field) and trailing bytes are NOT detected, and
     are harmless: the answer is the one for the undamaged file *)
  Theorem C18_unauthenticated_fields_harmless : forall lvl f f' p,
    f_version f' = f_version f -> f_salt f' = f_salt f -> f_nonce f' = f_nonce f -> f_ct f' = f_ct f ->
    load_file key kdf dec lvl f' p = load_file key kdf dec lvl f p.
  Proof. exact (unauthenticated_fields key kdf dec). Qed.

  (* (4) the undamaged bytes open with the right password (even followed by garbage) *)
  Theorem C18_undamaged_opens : ideal_aead enc dec -> forall f P L pl extra, shape f ->
    f_version f = KS_FORMAT_VERSION -> f_ct f = enc (kdf L P (f_salt f)) (f_nonce f) pl ->
    load_bytes key kdf dec L (encode_file f ++ extra) P = Some pl.
  Proof. exact (honest_bytes key kdf enc dec). Qed.
End Primitives.

(* the byte layout: parsing what was written gives back every field *)
Theorem C18_parse_encode : forall f extra, shape f -> parse_file (encode_file f ++ extra) = Some f.
Proof. exact parse_encode. Qed.

(* ---- the code before the repairs does NOT have the property, with primitives
   that satisfy every ideal hypothesis: F18a (cache served without looking at the
   password: wrong password right after a store gets the seed) and F18b (initialize
   on an existing store leaves the cache: the password of the destroyed store still
   gets its seed). *)
Theorem C18_cache_refuted :
  ideal_kdf toy_kdf /\ ideal_aead toy_enc toy_dec /\ ideal_vf toy_vf /\
  (let ops := [Init 1 [1] [1] 0; Store 1 7 1 [2] 0; Retrieve 1 2] in
   snd (run bytes toy_kdf toy_enc toy_dec toy_vf (fun _ => true) false (st_init 0) ops) = [ROk; ROk; RSeed 7] /\
   snd (arun (fun _ => true) true (a_init 0) ops) = [ROk; ROk; RErr]) /\
  (let ops := [Init 1 [1] [1] 0; Store 1 7 1 [2] 0; Change 1 2 [2] [3] 0; Retrieve 1 2; Retrieve 1 1] in
   snd (run bytes toy_kdf toy_enc toy_dec toy_vf (fun _ => true) false (st_init 0) ops) = [ROk; ROk; ROk; RSeed 7; RSeed 7] /\
   snd (arun (fun _ => true) true (a_init 0) ops) = [ROk; ROk; ROk; RSeed 7; RErr]) /\
  (let ops := [Init 1 [1] [1] 0; Store 1 7 1 [2] 0; Init 2 [2] [3] 0; Retrieve 1 1] in
   snd (run bytes toy_kdf toy_enc toy_dec toy_vf (fun _ => true) false (st_init 0) ops) = [ROk; ROk; ROk; RSeed 7] /\
   snd (arun (fun _ => true) true (a_init 0) ops) = [ROk; ROk; ROk; RErr]).
Proof.
  split; [exact toy_kdf_ideal|]. split; [exact toy_aead_ideal|]. split; [exact toy_vf_ideal|].
  vm_compute. repeat split; reflexivity.
Qed.

(* ---- recorded finding reopen-other-level: the Argon2 parameters in the header are
   written but not used when the file is read, so a manager created with another
   SecurityLevel refuses the right password (code and model agree; the property as
   stated says the seed comes back) *)
Theorem C18_other_level_refuted :
  let ops := [Init 1 [1] [1] 0; Store 1 7 1 [2] 0; Reopen 1; Retrieve 1 1] in
  snd (run bytes toy_kdf toy_enc toy_dec toy_vf (fun _ => true) true (st_init 0) ops) = [ROk; ROk; ROk; RErr] /\
  snd (arun (fun _ => true) false (a_init 0) ops) = [ROk; ROk; ROk; RSeed 7] /\
  ~ same_level 0 ops.
Proof.
  split; [vm_compute; reflexivity|]. split; [vm_compute; reflexivity|].
  intro H. inversion H as [|? ? _ G1]. inversion G1 as [|? ? _ G2]. inversion G2 as [|? ? G3 _]. cbn in G3. discriminate.
Qed.

(* ---- non-vacuity: the hypotheses are satisfiable and the definitions compute *)
Example C18_toy_ideal : ideal_kdf toy_kdf /\ ideal_aead toy_enc toy_dec /\ ideal_vf toy_vf.
Proof. exact (conj toy_kdf_ideal (conj toy_aead_ideal toy_vf_ideal)). Qed.

(* the repaired machine on the three histories of C18_cache_refuted, a crash at
   every point of a password change, and a policy that refuses password 9 *)
Example C18_example :
  let go := fun ops => snd (run bytes toy_kdf toy_enc toy_dec toy_vf (policy [9]) true (st_init 0) ops) in
  go [Init 1 [1] [1] 0; Store 1 7 1 [2] 0; Retrieve 1 2; Retrieve 1 1] = [ROk; ROk; RErr; RSeed 7] /\
  go [Init 1 [1] [1] 0; Store 1 7 1 [2] 0; Change 1 2 [2] [3] 0; Retrieve 1 2; Retrieve 1 1; Retrieve 1 2]
     = [ROk; ROk; ROk; RSeed 7; RErr; RSeed 7] /\
  go [Init 1 [1] [1] 0; Store 1 7 1 [2] 0; Init 2 [2] [3] 0; Retrieve 1 1; Retrieve 1 2] = [ROk; ROk; ROk; RErr; RErr] /\
  go [Init 9 [1] [1] 0; Init 1 [1] [1] 0; Store 1 7 1 [2] 0; Change 1 9 [2] [3] 0; Clear; Retrieve 1 1]
     = [RErr; ROk; ROk; RErr; ROk; RSeed 7] /\
  go [Init 1 [1] [1] 0; Store 1 7 1 [2] 0; Crash CTmp (Change 1 2 [2] [3] 0); Retrieve 1 1; Retrieve 1 2]
     = [ROk; ROk; ROk; RSeed 7; RErr] /\
  go [Init 1 [1] [1] 0; Store 1 7 1 [2] 0; Crash CDone (Change 1 2 [2] [3] 0); Retrieve 1 1; Retrieve 1 2]
     = [ROk; ROk; ROk; RErr; RSeed 7] /\
  go [Init 1 [1] [1] 0; Crash CTorn (Store 1 7 1 [2] 0); Retrieve 1 1; Store 1 8 1 [3] 0; Retrieve 1 1]
     = [ROk; ROk; RErr; ROk; RSeed 8].
Proof. vm_compute. repeat split; reflexivity. Qed.

(* a shaped file written with the toy primitives: it parses back, opens with the
   right password only, a damaged byte is refused; and the hypothesis of C18_tamper
   is satisfiable for a damaged ciphertext (here: the empty one is no encryption) *)
Example C18_example_bytes :
  let f := seal bytes toy_kdf toy_enc 0 1 (repeat 5 32) (repeat 6 12) 1700000000 [(1, 7)] in
  shape f /\
  load_bytes bytes toy_kdf toy_dec 0 (encode_file f) 1 = Some [(1, 7)] /\
  load_bytes bytes toy_kdf toy_dec 0 (encode_file f) 2 = None /\
  load_bytes bytes toy_kdf toy_dec 0 (apply_tamper (TSet 40 99) (encode_file f)) 1 = None /\
  (forall k n m, ([] : bytes) <> toy_enc k n m).
Proof.
  cbv zeta. split.
  { unfold shape. split; [vm_compute; reflexivity|]. split.
    { exists 4096, 1, 1, 32. vm_compute. repeat split; reflexivity. }
    repeat split; vm_compute; reflexivity. }
  split; [vm_compute; reflexivity|]. split; [vm_compute; reflexivity|]. split; [vm_compute; reflexivity|].
  intros k n m H. unfold toy_enc, toy_pre in H. cbn [app] in H. discriminate H.
Qed.
