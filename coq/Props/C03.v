(* C03 — DHT put / get / remote PUT over per-node stores.  Property theorems only; every
   proof is [exact lemma].  Model: Model/Store.v (on Model/Lookup.v), proofs: Proofs/Store.v.
   The adversary is the network: the arbitrary functions [reply] (FIND_NODE answers),
   [responsive] (does a peer process a PUT) and [nodes_reply] (FIND_VALUE answers of peers
   that do not hold the key), the arbitrary initial stores and the arbitrary histories. *)
From SV Require Import Lib.Base Gen.LookupConsts Model.Lookup Model.Store Proofs.Store.
Local Open Scope N_scope.

(* the numbers the property relies on, from the regenerated constants *)
Theorem C03_constants :
  MGR_MAX_VALUE_SIZE = 512 /\ CORE_MAX_DHT_VALUE_SIZE = 512 /\
  MGR_MAX_VALUE_SIZE = CORE_MAX_DHT_VALUE_SIZE /\
  GET_ALPHA = 3 /\ GET_MAX_ITERATIONS = 20 /\ 0 < GET_ALPHA.
Proof. exact store_constants. Qed.

(* 1a. no store path adds a value longer than the limit:
       [AllSmall ss := forall p k v, held ss p k = Some v -> vlen v <= MGR_MAX_VALUE_SIZE]
       is preserved by the remote PUT handler, the core store, the PUT fan-out, put and get *)
Theorem C03_size_cap_step :
  (forall ss p k v, AllSmall ss -> AllSmall (fst (handle_put ss p k v))) /\
  (forall ss p k v, AllSmall ss -> AllSmall (fst (core_store ss p k v))) /\
  (forall responsive ss ts k v, AllSmall ss -> AllSmall (fst (replicate responsive ss ts k v))) /\
  (forall keyof reply responsive self selfs_marked selfs_all repl ss k v init, AllSmall ss ->
     AllSmall (fst (fst (put keyof reply responsive self selfs_marked selfs_all repl ss k v init)))) /\
  (forall nodes_reply self selfs_marked selfs_all key ss init, AllSmall ss ->
     AllSmall (fst (fst (fst (get nodes_reply self selfs_marked selfs_all key ss init))))).
Proof. exact size_cap_step. Qed.

(* 1b. over every history of puts, gets and remote PUTs (each with its own network behaviour,
       origin and parameters) from the empty stores, no node ever stores more than 512 bytes *)
Theorem C03_size_cap_history : forall ops p k v,
  held (run ops) p k = Some v -> vlen v <= MGR_MAX_VALUE_SIZE.
Proof. exact size_cap_history. Qed.

(* 1c. an oversized value is refused on every store path and leaves every store as it was *)
Theorem C03_oversize_refused_everywhere : forall v, MGR_MAX_VALUE_SIZE < vlen v ->
  (forall ss p k, handle_put ss p k v = (ss, false)) /\
  (forall ss p k, core_store ss p k v = (ss, false)) /\
  (forall responsive ss ts k, fst (replicate responsive ss ts k v) = ss) /\
  (forall keyof reply responsive self selfs_marked selfs_all repl ss k init,
     put keyof reply responsive self selfs_marked selfs_all repl ss k v init = (ss, PutRefused, [])).
Proof. exact oversize_refused_everywhere. Qed.

(* 2. a put of more than 512 bytes changes nothing anywhere and sends no request ... *)
Theorem C03_put_refused : forall keyof reply responsive self selfs_marked selfs_all repl ss k v init,
  MGR_MAX_VALUE_SIZE < vlen v ->
  put keyof reply responsive self selfs_marked selfs_all repl ss k v init = (ss, PutRefused, []).
Proof. exact put_refused. Qed.

(* ... that is the only refusal, and every value within the limit is accepted *)
Theorem C03_put_refused_only_oversize :
  forall keyof reply responsive self selfs_marked selfs_all repl ss k v init ss' reqs,
  put keyof reply responsive self selfs_marked selfs_all repl ss k v init = (ss', PutRefused, reqs) ->
  MGR_MAX_VALUE_SIZE < vlen v /\ ss' = ss /\ reqs = [].
Proof. exact put_refused_inv. Qed.

Theorem C03_put_accepted : forall keyof reply responsive self selfs_marked selfs_all repl ss k v init,
  vlen v <= MGR_MAX_VALUE_SIZE ->
  exists ss' n outs reqs,
    put keyof reply responsive self selfs_marked selfs_all repl ss k v init = (ss', PutDone n outs, reqs).
Proof. exact put_accepted. Qed.

(* 3. an accepted put (no side condition on the network or the initial candidates):
      the value is within the limit; afterwards the origin holds exactly v under k, and so does
      every peer reported as a successful replica; the PUT targets are exactly the members of
      the closest-node lookup for k that are not an id of the local node, in lookup order, and
      the FIND_NODE requests are the lookup's; no target is a local id; an outcome is true
      exactly when the target processes PUTs; the replica count is 1 + the successes; nothing
      else changes: other nodes that are not successful targets keep every binding, and every
      node keeps every other key *)
Theorem C03_put_replicas :
  forall keyof reply responsive self selfs_marked selfs_all repl ss k v init ss' n outs reqs,
  put keyof reply responsive self selfs_marked selfs_all repl ss k v init = (ss', PutDone n outs, reqs) ->
  let s := lookup keyof reply self selfs_marked selfs_all k repl init in
  vlen v <= MGR_MAX_VALUE_SIZE /\
  held ss' self k = Some v /\
  (forall p, In (p, true) outs -> held ss' p k = Some v) /\
  map fst outs = filter (fun p => negb (mem p selfs_all)) (best s) /\
  reqs = rev (sent s) /\
  (forall p, In p (map fst outs) -> ~ In p selfs_all) /\
  (forall p b, In (p, b) outs -> b = responsive p) /\
  n = 1 + N.of_nat (length (filter (fun o => snd o) outs)) /\
  (forall p k', p <> self -> ~ In (p, true) outs -> held ss' p k' = held ss p k') /\
  (forall p k', k' <> k -> held ss' p k' = held ss p k').
Proof. exact put_replicas. Qed.

(* 3'. under the side conditions of C01 the targets are pairwise distinct, at most [repl],
       never the local node, and each one answered a FIND_NODE request of this very put *)
Theorem C03_put_targets_wf :
  forall keyof reply responsive self selfs_marked selfs_all repl ss k v init ss' n outs reqs,
  NoDup init -> (forall p, In p init -> ~ In p selfs_all) ->
  incl selfs_marked selfs_all -> In self selfs_marked ->
  put keyof reply responsive self selfs_marked selfs_all repl ss k v init = (ss', PutDone n outs, reqs) ->
  NoDup (map fst outs) /\ (length outs <= repl)%nat /\
  forall p, In p (map fst outs) -> p <> self /\ In p reqs /\ reply p <> None.
Proof. exact put_targets_wf. Qed.

(* 4. a get that returns bytes: they were held under THIS key, before the get, by the node
      named as source, which is the local node or a peer that was sent a request and answered;
      the only store effect is the local cache at (self, key), which then holds exactly v
      whenever v is within the limit (always, in reachable states: 4') *)
Theorem C03_get_sound : forall nodes_reply self selfs_marked selfs_all key ss init ss' v p reqs cut,
  get nodes_reply self selfs_marked selfs_all key ss init = (ss', GetFound v p, reqs, cut) ->
  held ss p key = Some v /\
  (p = self \/ (In p reqs /\ nodes_reply p <> FVFail)) /\
  (forall q k, (q <> self \/ k <> key) -> held ss' q k = held ss q k) /\
  (vlen v <= MGR_MAX_VALUE_SIZE -> held ss' self key = Some v) /\
  (held ss' self key = Some v \/ ss' = ss).
Proof. exact get_sound. Qed.

Theorem C03_get_caches_reachable :
  forall ops nodes_reply self selfs_marked selfs_all key init ss' v p reqs cut,
  get nodes_reply self selfs_marked selfs_all key (run ops) init = (ss', GetFound v p, reqs, cut) ->
  held ss' self key = Some v.
Proof. exact get_caches_reachable. Qed.

(* "ss' holds v at (self, key)" without the size hypothesis is false in unreachable stores *)
Theorem C03_get_cache_unconditional_refuted :
  exists nodes_reply self selfs_marked selfs_all key ss init ss' v p reqs cut,
  get nodes_reply self selfs_marked selfs_all key ss init = (ss', GetFound v p, reqs, cut) /\
  held ss' self key = None /\ ~ AllSmall ss.
Proof. exact get_cache_unconditional_refuted. Qed.

(* a key held locally is answered locally, without any request *)
Theorem C03_get_local : forall nodes_reply self selfs_marked selfs_all key ss v init,
  held ss self key = Some v ->
  get nodes_reply self selfs_marked selfs_all key ss init = (ss, GetFound v self, [], false).
Proof. exact get_local. Qed.

(* 5. not-found: no store changes; the local node did not hold the key and neither did any
      peer that was sent a request and answered; unless a budget cut the run, every peer the
      get learned of (initial candidates and every id named in a NodesFound reply) was sent a
      request or is an id of the local node; the counters are exact *)
Theorem C03_get_notfound : forall nodes_reply self selfs_marked selfs_all key ss init ss' q f reqs cut,
  incl selfs_marked selfs_all ->
  get nodes_reply self selfs_marked selfs_all key ss init = (ss', GetNotFoundR q f, reqs, cut) ->
  ss' = ss /\ held ss self key = None /\
  (forall p, In p reqs -> nodes_reply p <> FVFail -> held ss p key = None) /\
  (cut = false -> forall p,
     (In p init \/ exists r l, In r reqs /\ nodes_reply r = FVNodes l /\ In p l) ->
     In p reqs \/ In p selfs_all) /\
  q = N.of_nat (length reqs + length selfs_marked) /\
  f = N.of_nat (length (filter (fun p => is_fail (nodes_reply p)) reqs)).
Proof. exact get_notfound. Qed.

(* the query budget: at most GET_MAX_ITERATIONS * GET_ALPHA requests, whatever peers answer *)
Theorem C03_get_request_bound : forall nodes_reply self selfs_marked selfs_all key ss init,
  (length (snd (fst (get nodes_reply self selfs_marked selfs_all key ss init)))
   <= N.to_nat GET_MAX_ITERATIONS * N.to_nat GET_ALPHA)%nat.
Proof. exact get_request_bound. Qed.

(* ... and, when the initial candidates are distinct and none is a local id, no peer is asked
   twice and the local node (under any of its ids) is never sent a request *)
Theorem C03_get_no_self_no_dup : forall nodes_reply self selfs_marked selfs_all key ss init,
  NoDup init -> (forall p, In p init -> ~ In p selfs_all) ->
  let reqs := snd (fst (get nodes_reply self selfs_marked selfs_all key ss init)) in
  NoDup reqs /\ forall p, In p reqs -> ~ In p selfs_all.
Proof. exact get_requests_wf. Qed.

(* 6. over every history from the empty stores, whatever a node holds under key k are the
      bytes of an earlier put / remote PUT of exactly (k, v) (and within the limit) *)
Theorem C03_history_sound : forall ops p k v,
  held (run ops) p k = Some v ->
  exists pre o post, ops = pre ++ o :: post /\ carries o k v /\ vlen v <= MGR_MAX_VALUE_SIZE.
Proof. exact history_sound. Qed.

(* 6'. the same from arbitrary stores: the bytes were already held under k by some node, or come from an operation *)
Theorem C03_history_sound_from : forall ss ops p k v,
  held (run_from ss ops) p k = Some v ->
  (exists q, held ss q k = Some v) \/
  (exists pre o post, ops = pre ++ o :: post /\ carries o k v /\ vlen v <= MGR_MAX_VALUE_SIZE).
Proof. exact history_sound_from. Qed.

(* non-vacuity: nodes 1..4; node 4 is silent, node 3 answers lookups but drops PUTs *)
Example C03_example :
  (* node 1 puts (key 7, 100 bytes) with replication 3 knowing peers 2 and 4 *)
  let '(ss1, r1, reqs1) := put ex_keyof ex_reply ex_responsive 1 [1;101] [1;101] 3 [] 7 (42, 100) [2;4] in
  r1 = PutDone 2 [(2, true); (3, false)] /\ reqs1 = [2;4;3] /\
  held ss1 1 7 = Some (42, 100) /\ held ss1 2 7 = Some (42, 100) /\ held ss1 3 7 = None /\ held ss1 4 7 = None /\
  (* node 3 (holds nothing) gets key 7 knowing peers 4 and 2: 4 fails, the replica 2 answers with the bytes *)
  let '(ss2, r2, reqs2, cut2) := get ex_fv 3 [3;103] [3;103] 7 ss1 [4;2] in
  r2 = GetFound (42, 100) 2 /\ reqs2 = [4;2] /\ cut2 = false /\ held ss2 3 7 = Some (42, 100) /\
  (* a key nobody stored: every learned peer (4, 2, then 1 named by 2) is asked, then not-found *)
  let '(ss3, r3, reqs3, cut3) := get ex_fv 3 [3;103] [3;103] 8 ss2 [4;2] in
  ss3 = ss2 /\ r3 = GetNotFoundR 5 1 /\ reqs3 = [4;2;1] /\ cut3 = false /\
  (* a 513-byte value is refused; nothing changes, nothing is sent *)
  put ex_keyof ex_reply ex_responsive 1 [1;101] [1;101] 3 ss2 7 (43, 513) [2;4] = (ss2, PutRefused, []).
Proof. exact example_put_get. Qed.

(* the side conditions of 3' and 5 are satisfiable by that example *)
Example C03_example_hyps :
  NoDup [2;4] /\ (forall p, In p [2;4] -> ~ In p [1;101]) /\ incl [1;101] [1;101] /\ In 1 [1;101] /\
  incl [3;103] [3;103].
Proof. exact store_example_hyps. Qed.
