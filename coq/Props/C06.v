(* C06 — acknowledged state survives a crash at any point; recovery is a prefix.
   Property theorems only; every proof is [exact lemma].  Model: Model/Wal.v
   (byte-granular file-system actions; a crash = any prefix of the actions with the
   last append cut at any byte).  The codecs and the MAC are universally
   quantified; the codec hypotheses (decode inverts encode, encodings fit the u32
   length prefix) stay visible in every statement. *)
From Coq Require Import Sorting.Sorted.
From SV Require Import Lib.Base Gen.WalConsts Model.Wal Proofs.Wal.
Local Open Scope N_scope.

(* the numbers recovery and rotation rely on, proved from the regenerated constants *)
Theorem C06_constants :
  WAL_MAX_ENTRIES = 1000 /\ WAL_MAX_SIZE = 10485760 /\ 1 <= WAL_SNAPSHOT_RETENTION /\ WAL_HMAC_KEY_LEN = 32 /\ WAL_VERSION < 256.
Proof. repeat split; try reflexivity; vm_compute; congruence. Qed.

(* Framing: complete records followed by nothing parse to exactly the records;
   followed by a torn tail they parse to the records plus the torn marker; and any
   non-empty strict prefix of a record IS a torn tail (every byte cut of a write). *)
Theorem wal_parse_frames : forall bodies, Forall small bodies ->
  parse (frames bodies) = (bodies, false) /\
  (forall t, torn t -> parse (frames bodies ++ t) = (bodies, true)) /\
  (forall body n, small body -> (0 < n < length (frame body))%nat -> torn (firstn n (frame body))).
Proof.
  intros bodies H. split; [exact (parse_frames_exact bodies H)|].
  split; [intros t Ht; exact (parse_frames_torn bodies t H Ht) | exact strict_prefix_torn].
Qed.

(* replaying a suffix of a history on top of its own result changes nothing: why
   logs that overlap a snapshot are harmless *)
Theorem C06_replay_suffix_idempotent : forall l1 l2 st,
  apply_changes (apply_changes st (l1 ++ l2)) l2 ≈ apply_changes st (l1 ++ l2).
Proof. exact replay_suffix_idem. Qed.

Section C06.
  Variable deser : bytes -> option entry.
  Variable mac : bytes -> bytes.
  Variable val_ok : bytes -> bool.
  Variable dec_changes : bytes -> option (list change).
  Variable deser_hdr : bytes -> option snaphdr.
  Variable dec_map : bytes -> option state.
  Variable ser : entry -> bytes.
  Variable enc_changes : list change -> bytes.
  Variable ser_hdr : snaphdr -> bytes.
  Variable enc_map : state -> bytes.
  Hypothesis Hser : forall e, deser (ser e) = Some e.
  Hypothesis Hser_small : forall e, small (ser e).
  Hypothesis Hchg : forall cs, dec_changes (enc_changes cs) = Some cs.
  Hypothesis Hmap : forall st, exists st', dec_map (enc_map st) = Some st' /\ st' ≈ st.

  Notation recover := (recover deser mac val_ok dec_changes deser_hdr dec_map).
  Notation DInv := (DInv mac val_ok dec_changes deser_hdr dec_map ser).
  Notation DInvG := (DInvG mac val_ok dec_changes deser_hdr dec_map ser).
  Notation WInv := (WInv mac val_ok dec_changes deser_hdr dec_map ser).
  Notation genuine := (genuine mac val_ok dec_changes).
  Notation eff := (eff val_ok dec_changes).
  Notation simple_op := (simple_op val_ok).

  (* The disk invariant determines what recovery returns: the committed state, and a
     transaction counter that never exceeds the bound kept by the writer. *)
  Theorem C06_recovery_of_invariant : forall d M C, DInv d M C ->
    r_state (recover d) ≈ M /\ r_ctr (recover d) <= C.
  Proof. exact (recover_DInv deser mac val_ok dec_changes deser_hdr dec_map ser Hser Hser_small). Qed.

  (* The empty directory (after state.wal has been created) satisfies it. *)
  Theorem C06_init : WInv (exec disk0 [ACreate FWal]) (mkW [] 0 0 0) [].
  Proof. exact (WInv_init mac val_ok dec_changes deser_hdr dec_map ser). Qed.

  (* EVERY crash cut of one logged write - between or inside the two writes of the
     record (any byte), after it, between the steps of the rotation that may follow -
     leaves a disk that recovers either the state before the write or the state
     after it. *)
  Theorem C06_write_cuts : forall d w M C e y rot a b,
    DInvG d M C [] -> d_wal d = Some y -> genuine e -> C < e_txid e ->
    let d' := exec d (cut (fst (write_actions ser d w e rot)) a b) in
    DInv d' M C \/ DInv d' (apply_changes M (eff e)) (e_txid e).
  Proof. exact (write_cuts deser mac val_ok dec_changes deser_hdr dec_map ser enc_changes enc_map Hser Hser_small Hchg Hmap). Qed.

  (* Rotation steps preserve the invariant (rename to the next free sequence number,
     then re-creation of state.wal). *)
  Theorem C06_rotation_steps : forall d M C y, DInvG d M C [] -> d_wal d = Some y ->
    let d1 := exec1 d (ARename FWal (FRot (next_seq d))) in
    DInvG d1 M C [] /\ d_wal d1 = None /\ DInvG (exec1 d1 (ACreate FWal)) M C [].
  Proof.
    intros d M C y H Hy.
    destruct (step_rotate_rename mac val_ok dec_changes deser_hdr dec_map ser enc_map Hmap d M C y H Hy) as [H1 H2].
    exact (conj H1 (conj H2 (proj1 (step_create_wal mac val_ok dec_changes deser_hdr dec_map ser _ M C H1 H2)))).
  Qed.

  (* Checkpoint, part 1: every step that touches only snapshot.<ts>.tmp (create,
     header, data, any byte cut of them) preserves the invariant. *)
  Theorem C06_checkpoint_tmp_steps : forall d d' M C t,
    d_wal d' = d_wal d -> d_rot d' = d_rot d -> d_snap d' = d_snap d -> DInvG d M C t -> DInvG d' M C t.
  Proof. exact (DInvG_same_files mac val_ok dec_changes deser_hdr dec_map ser). Qed.

  (* PREFIX, for all histories of upserts, deletes and rolled-back batches, from any
     state satisfying the invariant (e.g. the empty directory, C06_init) and EVERY
     crash point (operation i, a whole actions, b bytes of the next append): the
     recovered state is the start state advanced by the first j operations with
     i <= j <= i+1, i.e. acknowledged <= j <= issued.
     PARTIAL with respect to the property text: batch and checkpoint operations are
     not part of this induction (their steps are covered by C06_write_cuts /
     C06_rotation_steps / C06_checkpoint_tmp_steps and by the correspondence check). *)
  Theorem C06_prefix_partial : forall ops d w M i a b, WInv d w M -> Forall simple_op ops ->
    exists j, (i <= j <= S i)%nat /\
      r_state (recover (crash_disk deser mac ser enc_changes ser_hdr enc_map d w ops i a b)) ≈ apply_ops M (firstn j ops).
  Proof. exact (crash_prefix_simple deser mac val_ok dec_changes deser_hdr dec_map ser enc_changes ser_hdr enc_map Hser Hser_small Hchg Hmap). Qed.

  (* CLEAN RESTART: after all operations have returned, recovery reproduces the full state. *)
  Theorem C06_clean_restart_partial : forall ops d w M, WInv d w M -> Forall simple_op ops ->
    r_state (recover (fst (run_ops deser mac ser enc_changes ser_hdr enc_map d w ops))) ≈ apply_ops M ops.
  Proof.
    intros ops d w M HW Hs.
    exact (proj1 (recover_DInv deser mac val_ok dec_changes deser_hdr dec_map ser Hser Hser_small _ _ _
      (DInvG_DInv mac val_ok dec_changes deser_hdr dec_map ser _ _ _ _
        (proj1 (run_ops_simple deser mac val_ok dec_changes deser_hdr dec_map ser enc_changes ser_hdr enc_map Hser Hser_small Hchg Hmap ops d w M HW Hs))))).
  Qed.

  (* TRANSACTION COUNTER: at every crash point of one operation the disk satisfies the
     invariant with the writer's counter after the operation as bound, so the
     recovered counter never exceeds it, while (C06_recovery_of_invariant, all ids on
     disk <= recovered counter by construction of [recover]) it is at least every id
     stamped on a surviving record: a restarted writer continues strictly above. *)
  Theorem C06_txid_monotone_partial : forall d w M o, WInv d w M -> simple_op o ->
    let r := op_actions deser mac ser enc_changes ser_hdr enc_map d w o in
    w_ctr w <= w_ctr (snd r) /\
    WInv (exec d (fst r)) (snd r) (apply_op M o) /\
    forall a b, r_ctr (recover (exec d (cut (fst r) a b))) <= w_ctr (snd r).
  Proof.
    intros d w M o HW Hs.
    destruct (op_step_simple deser mac val_ok dec_changes deser_hdr dec_map ser enc_changes ser_hdr enc_map Hser Hser_small Hchg Hmap d w M o HW Hs) as [Hc [HW' Hle]].
    split; [exact Hle|]. split; [exact HW'|]. intros a b.
    destruct (Hc a b) as [H | H];
      exact (proj2 (recover_DInv deser mac val_ok dec_changes deser_hdr dec_map ser Hser Hser_small _ _ _ H)).
  Qed.
End C06.

(* non-vacuity: the concrete postcard codec satisfies the decode-after-encode
   hypothesis on a sample record, and a two-operation history with a cut inside the
   second record recovers exactly the first operation *)
Example C06_example :
  let e := mk_entry mac_cheap 7 1700000000 TUpsert [107; 49] (Some [2; 9; 9]) in
  pc_deser (pc_ser e) = Some e /\
  let ops := [OUpsert 1700000000 [107; 49] [1; 5]; ODelete 1700000001 [107; 49]] in
  let d0 := exec disk0 [ACreate FWal] in
  let dc := crash_disk pc_deser mac_cheap pc_ser pc_enc_changes pc_ser_hdr pc_enc_map d0 (mkW [] 0 0 0) ops 1 0 17 in
  r_state (x_recover mac_cheap dc) = [([107; 49], [1; 5])] /\
  s_events (r_stats (x_recover mac_cheap dc)) = [EvTorn].
Proof. vm_compute. repeat split; reflexivity. Qed.
