From SV Require Import Lib.Base Gen.WalConsts Model.Wal Proofs.Wal.
