(* C06 — acknowledged state survives a crash at any point; recovery is a prefix.
   Property theorems only; every proof is [exact lemma].  Model: Model/Wal.v
   (byte-granular file-system actions; a crash = any prefix of the actions with the
   last append cut at any byte).  The codecs and the MAC are universally
   quantified; the codec hypotheses (decode inverts encode, encodings fit the u32
   length prefix) stay visible in every statement.  Crash = the process dies: what
   has been handed to the OS survives (page cache / power loss are outside the model). *)
From Coq Require Import Sorting.Sorted.
From SV Require Import Lib.Base Gen.WalConsts Model.Wal Proofs.Wal.
Local Open Scope N_scope.

(* the numbers recovery and rotation rely on, proved from the regenerated constants *)
Theorem C06_constants :
  WAL_MAX_ENTRIES = 1000 /\ WAL_MAX_SIZE = 10485760 /\ 1 <= WAL_SNAPSHOT_RETENTION /\ WAL_HMAC_KEY_LEN = 32 /\ WAL_VERSION < 256.
Proof. repeat split; try reflexivity; vm_compute; congruence. Qed.

(* Framing: complete records followed by nothing parse to exactly the records;
   followed by a torn tail they parse to the records plus the torn marker; and any
   non-empty strict prefix of a record IS a torn tail (every byte cut of a write). *)
Theorem wal_parse_frames : forall bodies, Forall small bodies ->
  parse (frames bodies) = (bodies, false) /\
  (forall t, torn t -> parse (frames bodies ++ t) = (bodies, true)) /\
  (forall body n, small body -> (0 < n < length (frame body))%nat -> torn (firstn n (frame body))).
Proof.
  intros bodies H. split; [exact (parse_frames_exact bodies H)|].
  split; [intros t Ht; exact (parse_frames_torn bodies t H Ht) | exact strict_prefix_torn].
Qed.

(* replaying a suffix of a history on top of its own result changes nothing: why
   logs that overlap a snapshot are harmless *)
Theorem C06_replay_suffix_idempotent : forall l1 l2 st,
  apply_changes (apply_changes st (l1 ++ l2)) l2 ≈ apply_changes st (l1 ++ l2).
Proof. exact replay_suffix_idem. Qed.

Section C06.
  Variable deser : bytes -> option entry.
  Variable mac : bytes -> bytes.
  Variable val_ok : bytes -> bool.
  Variable dec_changes : bytes -> option (list change).
  Variable deser_hdr : bytes -> option snaphdr.
  Variable dec_map : bytes -> option state.
  Variable ser : entry -> bytes.
  Variable enc_changes : list change -> bytes.
  Variable ser_hdr : snaphdr -> bytes.
  Variable enc_map : state -> bytes.
  (* codec assumptions: decoding inverts encoding; encodings fit the u32 length prefix *)
  Hypothesis Hser : forall e, deser (ser e) = Some e.
  Hypothesis Hser_small : forall e, small (ser e).
  Hypothesis Hchg : forall cs, dec_changes (enc_changes cs) = Some cs.
  Hypothesis Hhdr : forall h, deser_hdr (ser_hdr h) = Some h.
  Hypothesis Hhdr_small : forall h, small (ser_hdr h).
  Hypothesis Hmap : forall st, exists st', dec_map (enc_map st) = Some st' /\ st' ≈ st.

  Notation recover := (recover deser mac val_ok dec_changes deser_hdr dec_map).
  Notation DInv := (DInv mac val_ok dec_changes deser_hdr dec_map ser).
  Notation DInvG := (DInvG mac val_ok dec_changes deser_hdr dec_map ser).
  Notation WInv := (WInv mac val_ok dec_changes deser_hdr dec_map ser).
  Notation genuine := (genuine mac val_ok dec_changes).
  Notation eff := (eff val_ok dec_changes).
  Notation op_actions := (op_actions deser mac ser enc_changes ser_hdr enc_map).
  Notation run_ops := (run_ops deser mac ser enc_changes ser_hdr enc_map).
  Notation crash_disk := (crash_disk deser mac ser enc_changes ser_hdr enc_map).
  Notation open_wstate := (open_wstate deser mac val_ok dec_changes deser_hdr dec_map).
  Notation run_cycles := (run_cycles deser mac val_ok dec_changes deser_hdr dec_map ser enc_changes ser_hdr enc_map).
  Notation cycles_ok := (cycles_ok deser mac val_ok dec_changes deser_hdr dec_map ser enc_changes ser_hdr enc_map).

  (* The disk invariant determines what recovery returns: the committed state M, and
     exactly the transaction counter C (the largest id on disk). *)
  Theorem C06_recovery_of_invariant : forall d M C, DInv d M C ->
    r_state (recover d) ≈ M /\ r_ctr (recover d) = C.
  Proof. intros; eapply recover_DInv; eauto. Qed.

  (* The empty directory (after state.wal has been created) satisfies it. *)
  Theorem C06_init : WInv (exec disk0 [ACreate FWal]) (mkW [] 0 0 0) [] 0.
  Proof. exact (WInv_init mac val_ok dec_changes deser_hdr dec_map ser). Qed.

  (* EVERY crash cut of one logged write - between or inside the two writes of the
     record (any byte), after it, between the steps of the rotation that may follow -
     leaves a disk that recovers either the state before the write or the state
     after it. *)
  Theorem C06_write_cuts : forall d w M C e y rot a b,
    DInvG d M C [] -> d_wal d = Some y -> genuine e -> C < e_txid e ->
    let d' := exec d (cut (fst (write_actions ser d w e rot)) a b) in
    DInv d' M C \/ DInv d' (apply_changes M (eff e)) (e_txid e).
  Proof. intros; eapply write_cuts; eauto. Qed.

  (* Rotation steps preserve the invariant (rename to the next free sequence number,
     then re-creation of state.wal). *)
  Theorem C06_rotation_steps : forall d M C y, DInvG d M C [] -> d_wal d = Some y ->
    let d1 := exec1 d (ARename FWal (FRot (next_seq d))) in
    DInvG d1 M C [] /\ d_wal d1 = None /\ DInvG (exec1 d1 (ACreate FWal)) M C [].
  Proof.
    intros d M C y H Hy.
    destruct (step_rotate_rename mac val_ok dec_changes deser_hdr dec_map ser enc_map Hmap d M C y H Hy) as [H1 H2].
    exact (conj H1 (conj H2 (proj1 (step_create_wal mac val_ok dec_changes deser_hdr dec_map ser _ M C H1 H2)))).
  Qed.

  (* EVERY crash cut of a checkpoint - temporary file created, header written, data
     written (any byte), renamed into place, each covered log removed, each old
     snapshot pruned - recovers the same committed state M; the counter is the old
     one before the rename and the writer's counter after it.  The complete
     checkpoint leaves a clean log and the snapshot named ts as the newest. *)
  Theorem C06_checkpoint_steps : forall d w M C ts a b, WInv d w M C -> snap_hi d <= ts ->
    let acts := fst (op_actions d w (OCheckpoint ts)) in
    (DInv (exec d (cut acts a b)) M C \/ DInv (exec d (cut acts a b)) M (w_ctr w)) /\
    DInvG (exec d acts) M (w_ctr w) [] /\ d_wal (exec d acts) = d_wal d /\ snap_hi (exec d acts) = ts.
  Proof. intros; eapply checkpoint_cuts; eauto. Qed.

  (* One operation of any kind (upsert, delete, batch, rolled-back batch, checkpoint):
     afterwards writer and disk agree on the new state with a counter that did not go
     down, and every crash cut inside it recovers the old or the new state. *)
  Theorem C06_operation_step : forall d w M C o, WInv d w M C -> mem_ok val_ok M -> op_ok val_ok d o ->
    exists C', C <= C' /\
      WInv (exec d (fst (op_actions d w o))) (snd (op_actions d w o)) (apply_op M o) C' /\
      snap_hi (exec d (fst (op_actions d w o))) = match o with OCheckpoint ts => ts | _ => snap_hi d end /\
      forall a b, DInv (exec d (cut (fst (op_actions d w o)) a b)) M C \/
                  DInv (exec d (cut (fst (op_actions d w o)) a b)) (apply_op M o) C'.
  Proof. intros; eapply op_step; eauto. Qed.

  (* PREFIX.  For ALL histories of upsert / delete / batch / rolled-back batch /
     checkpoint operations (ops_ok: stored values decode, checkpoint file names do not
     go backwards), from any state satisfying the invariant, and EVERY crash point
     (operation i, a whole file-system actions of it, b bytes of its next append):
     the recovered state is the start state advanced by the first j operations with
     i <= j <= i+1 - every acknowledged operation (the first i) is included, nothing
     beyond the issued ones - and the recovered counter is not below the start counter. *)
  Theorem C06_prefix : forall ops d w M C hi i a b,
    WInv d w M C -> mem_ok val_ok M -> snap_hi d <= hi -> ops_ok val_ok hi ops ->
    exists j, (i <= j <= S i)%nat /\
      r_state (recover (crash_disk d w ops i a b)) ≈ apply_ops M (firstn j ops) /\
      C <= r_ctr (recover (crash_disk d w ops i a b)).
  Proof. intros; eapply crash_prefix_recover; eauto. Qed.

  (* CLEAN RESTART reproduces the full state. *)
  Theorem C06_clean_restart : forall ops d w M C hi,
    WInv d w M C -> mem_ok val_ok M -> snap_hi d <= hi -> ops_ok val_ok hi ops ->
    r_state (recover (fst (run_ops d w ops))) ≈ apply_ops M ops.
  Proof. intros; eapply clean_restart; eauto. Qed.

  (* OPENING a directory left by any crash (create state.wal if missing, recover, cut
     the torn tail) re-establishes the writer invariant with the same state and counter. *)
  Theorem C06_open : forall d M C, DInv d M C -> WInv (open_disk d) (open_wstate d) M C.
  Proof. intros; eapply open_WInv; eauto. Qed.

  (* REPEATED CRASH / REOPEN CYCLES (induction on cycles): after any number of cycles,
     each one crashing at an arbitrary point, the recovered state is the initial state
     advanced, cycle by cycle, by a prefix of that cycle's operations (acked <= j <=
     issued), and the TRANSACTION COUNTER NEVER MOVES BACKWARDS across the restarts. *)
  Theorem C06_cycles_txid_monotone : forall cs d M C, DInv d M C -> mem_ok val_ok M -> cycles_ok d cs ->
    exists M', survives M cs M' /\ r_state (recover (run_cycles d cs)) ≈ M' /\
               r_ctr (recover d) <= r_ctr (recover (run_cycles d cs)).
  Proof. intros; eapply cycles_recover; eauto. Qed.
End C06.

(* The batch record: applying the sorted difference between the old and the new map
   to (any state equivalent to) the old map gives the new map - what recovery does
   with the single Batch record equals what batch_update did in memory. *)
Theorem C06_batch_record_is_the_batch : forall before after M, before ≈ M ->
  apply_changes M (batch_diff before after) ≈ after.
Proof. exact batch_diff_apply. Qed.

(* The incremental evaluator [walk] that the generated case files run is the model of
   the theorems: it returns the crash disk of [crash_disk] for the continuation point
   and, when it answers true, every probe's observation equals the model's answer on
   the crash disk of [crash_disk] for that probe's point. *)
Theorem C06_case_evaluator_is_crash_disk : forall ops mac d w idx probes nxt,
  (forall i a b, nxt = (idx + N.of_nat i, a, b) -> (i <= length ops)%nat ->
     snd (walk mac d w ops idx probes nxt) =
     crash_disk pc_deser mac pc_ser pc_enc_changes pc_ser_hdr pc_enc_map d w ops i a b) /\
  (fst (walk mac d w ops idx probes nxt) = true ->
     forall i a b o, In (idx + N.of_nat i, a, b, o) probes -> (i <= length ops)%nat ->
       obs_ok mac (crash_disk pc_deser mac pc_ser pc_enc_changes pc_ser_hdr pc_enc_map d w ops i a b) o = true).
Proof. exact walk_spec. Qed.

(* non-vacuity: the concrete postcard codec satisfies the decode-after-encode
   hypotheses on sample values (the harness compares it with the real bytes on every
   run), a history with a batch and a checkpoint satisfies ops_ok, and a
   two-operation history cut inside the second record recovers exactly the first
   operation and reports the torn tail *)
Example C06_example :
  let e := mk_entry mac_cheap 7 1700000000 TUpsert [107; 49] (Some [2; 9; 9]) in
  pc_deser (pc_ser e) = Some e /\
  pc_dec_changes (pc_enc_changes [([107], Some [1; 5]); ([108], None)]) = Some [([107], Some [1; 5]); ([108], None)] /\
  (let h := mkHdr 1 1700000000 7 2 9 (repeat 0 32) in pc_deser_hdr (pc_ser_hdr h) = Some h) /\
  pc_dec_map (pc_enc_map [([107], [1; 5]); ([108], [0])]) = Some [([108], [0]); ([107], [1; 5])] /\
  let ops := [OUpsert 1700000000 [107; 49] [1; 5]; ODelete 1700000001 [107; 49]] in
  let d0 := exec disk0 [ACreate FWal] in
  let dc := crash_disk pc_deser mac_cheap pc_ser pc_enc_changes pc_ser_hdr pc_enc_map d0 (mkW [] 0 0 0) ops 1 0 17 in
  r_state (x_recover mac_cheap dc) = [([107; 49], [1; 5])] /\
  s_events (r_stats (x_recover mac_cheap dc)) = [EvTorn].
Proof. vm_compute. repeat split; reflexivity. Qed.

Example C06_ops_ok_example :
  ops_ok pc_val_ok 0 [OUpsert 1700000000 [107; 49] [1; 5]; OBatch 1700000000 [([107], Some [1; 5]); ([108], None)];
                      OCheckpoint 1700000001; OBatchFail; ODelete 1700000002 [107; 49]; OCheckpoint 1700000001].
Proof.
  cbn [ops_ok]. split; [reflexivity|]. split; [|split; [lia|split; [lia | exact I]]].
  intros k v [H | [H | []]]; inv H. reflexivity.
Qed.
