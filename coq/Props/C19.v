(* C19 — addresses survive every textual round trip the library itself performs.
   Property theorems only; every proof is [exact lemma] or a one-line instantiation.
   Model: Model/Address.v (IPv4 side executable; IPv6 text and the 6/9/12-word codec are oracles).
   No dictionary hypothesis remains: the crate's 4096-word list is regenerated into
   Gen/AddressDict.v on every run and its bijectivity is proved by an exhaustive sweep. *)
From SV Require Import Lib.Base Gen.AddressDict Gen.AddressGlue Gen.AddressConsts Model.Address Proofs.Address.
Local Open Scope N_scope.

(* The numbers and literals the property relies on, proved from what the translator re-read from
   the sources: base 4096, four words, the crate omits port 65535 and the library substitutes
   exactly that port for a bare IP; Display appends " (" words ")"; the consumers and FromStr cut
   at the same " (" literal; hyphen/space normalisation is an involution on word text. *)
Theorem C19_constants :
  CRATE_BASE = 4096 /\ CRATE_WORDS = 4 /\ CRATE_OMIT_PORT = 65535 /\ ADDR_BARE_IP_PORT = CRATE_OMIT_PORT
  /\ length dict = 4096%nat
  /\ display_infix = [32; 40] /\ display_suffix = [41]
  /\ dnm_sep_multiaddr = display_infix /\ dnm_sep_dial = display_infix /\ fromstr_sep = display_infix
  /\ fromstr_close = display_suffix
  /\ ENC_FROM = 32 /\ ENC_TO = 45 /\ DEC_FROM = ENC_TO /\ DEC_TO = ENC_FROM
  /\ ADDR_MULTIADDR_MIN_PARTS = 4.
Proof. repeat split; reflexivity. Qed.

(* ---- the word codec, all 2^48 points (port 65535 included): pure arithmetic *)
Theorem C19_words_roundtrip : forall a, wf4 a ->
  unpack (of_digits (to_digits nwords (pack a))) = a.
Proof. exact words_roundtrip. Qed.

Theorem C19_words_injective : forall a b, wf4 a -> wf4 b ->
  to_digits nwords (pack a) = to_digits nwords (pack b) -> a = b.
Proof. exact digits_injective. Qed.

(* the crate's dictionary is a bijection between 0..4095 and lower-case a-z words *)
Theorem C19_dictionary_bijection : forall i, i < 4096 ->
  word i <> [] /\ forallb is_az (word i) = true /\ lower (word i) = word i /\ get_index (word i) = Some i.
Proof. exact word_facts. Qed.
Theorem C19_dictionary_injective : forall i j, i < 4096 -> j < 4096 -> word i = word j -> i = j.
Proof. exact word_injective. Qed.

(* ---- IPv4 socket text *)
Theorem C19_text_roundtrip4 : forall a, wf4 a -> parse4 (print4 a) = Some a.
Proof. exact parse4_print4. Qed.

(* C19_reject: the parser is total and its accepted language is EXACTLY: four decimal octets
   (1-3 digits, no redundant leading zero, <= 255) separated by dots, a colon, a decimal port
   (any number of leading zeros, <= 65535), each denoting the corresponding field.  Every other
   string is rejected; no string is read as an address it does not denote. *)
Theorem C19_reject : forall s a, parse4 s = Some a <-> Rendering s a.
Proof. exact parse4_iff. Qed.
Theorem C19_reject_ip : forall s o, parse_ip4 s = Some o <-> RenderingIp s o.
Proof. exact parse_ip4_iff. Qed.
Theorem C19_accepted_is_wellformed : forall s a, parse4 s = Some a -> wf4 a.
Proof. exact parse4_wf. Qed.
(* a rendering followed by anything that is not a digit is rejected as a whole *)
Theorem C19_reject_trailing : forall a c rest, wf4 a -> is_digit c = false -> parse4 (print4 a ++ c :: rest) = None.
Proof. exact parse4_print4_junk. Qed.

(* ---- four-word form through the library's textual glue *)
Theorem C19_from_four_words_roundtrip : forall a, wf4 a -> from_four_words (words_of a) = R4 a.
Proof. exact from_four_words_roundtrip. Qed.

(* all single-separator (space / hyphen, mixed) and ASCII-case variants of the word form *)
Theorem C19_word_variants : forall a w0 w1 w2 w3 s1 s2 s3, wf4 a ->
  (s1 = 32 \/ s1 = 45) -> (s2 = 32 \/ s2 = 45) -> (s3 = 32 \/ s3 = 45) ->
  wordlike w0 -> wordlike w1 -> wordlike w2 -> wordlike w3 ->
  map lower [w0; w1; w2; w3] = map word (to_digits nwords (pack a)) ->
  from_four_words (w0 ++ s1 :: w1 ++ s2 :: w2 ++ s3 :: w3) = R4 a.
Proof. exact from_four_words_variants. Qed.

(* ---- Display / FromStr *)
Theorem C19_display_fromstr : forall a, wf4 a -> from_str (display a) = R4 a.
Proof. exact from_str_of_display. Qed.

(* ---- every consumer of a rendered string reads the same socket address *)
Theorem C19_consumers_agree : forall a, wf4 a ->
  consumer_strip dnm_sep_dial (display a) = R4 a
  /\ consumer_strip dnm_sep_multiaddr (display a) = R4 a
  /\ multiaddr_from_address (display a) = (if is_unspecified a then RNone else R4 a)
  /\ add_node_ip (display a) = Some (a1 a, a2 a, a3 a, a4 a)
  /\ add_node_ip (print4 a) = Some (a1 a, a2 a, a3 a, a4 a)
  /\ id_decode (words_of a) = R4 a.
Proof.
  intros a H. destruct (consumer_strip_display a H) as [H1 H2]. destruct (add_node_ip_plain a H) as [H3 _].
  repeat split; auto using multiaddr_from_address_display, add_node_ip_display, id_decode_words.
Qed.

(* on ARBITRARY strings: whatever both FromStr (socket / own-rendering alternatives) and a
   suffix-stripping consumer accept, they read as the same address *)
Theorem C19_consumers_never_disagree : forall s a b,
  orelse (parse_sock s) (from_str_display s) = R4 a -> consumer_strip [32; 40] s = R4 b -> a = b.
Proof. exact strip_agrees_with_fromstr. Qed.

(* ---- any address family (IPv6 is an instance under these three oracle hypotheses, which the
        harness samples; IPv4 is proved above): Display then FromStr / the consumers give the address back *)
Theorem C19_display_fromstr_generic :
  forall (A : Type) (prt : A -> str) (prs : str -> res) (inj : A -> res) (wrd : A -> str),
  (forall a, prs (prt a) = inj a) ->
  (forall a, contains 32 (prt a) = false) ->
  (forall a r, prs (prt a ++ 32 :: r) = RNone) ->
  forall a, inj a <> RNone -> from_str_head_g prs (display_g A prt wrd a) = inj a.
Proof. intros A prt prs inj wrd H1 H2 H3. exact (display_fromstr_g A prt prs inj wrd H1 H2 H3). Qed.

Theorem C19_consumers_agree_generic :
  forall (A : Type) (prt : A -> str) (prs : str -> res) (inj : A -> res) (wrd : A -> str),
  (forall a, prs (prt a) = inj a) ->
  (forall a, contains 32 (prt a) = false) ->
  forall a, prs (before_first dnm_sep_dial (display_g A prt wrd a)) = inj a
            /\ prs (before_first dnm_sep_multiaddr (display_g A prt wrd a)) = inj a.
Proof. intros A prt prs inj wrd H1 H2. exact (consumer_strip_g A prt prs inj wrd H1 H2). Qed.

(* ---- non-vacuity *)
Example C19_example_port_65535 :
  let a := mkA 255 255 255 255 65535 in
  wf4 a /\ to_digits nwords (pack a) = [4095; 4095; 4095; 4095]
  /\ from_four_words (words_of a) = R4 a /\ from_str (display a) = R4 a.
Proof. vm_compute. repeat split; reflexivity. Qed.

Example C19_example_rejects :
  parse4 [48; 49; 46; 50; 46; 51; 46; 52; 58; 56; 48] = None          (* "01.2.3.4:80" *)
  /\ parse4 [49; 46; 50; 46; 51; 46; 52; 58; 48; 56; 48] = Some (mkA 1 2 3 4 80)   (* "1.2.3.4:080" *)
  /\ parse4 [49; 46; 50; 46; 51; 46; 52; 58; 54; 53; 53; 51; 54] = None   (* "1.2.3.4:65536" *)
  /\ from_str [49; 46; 50; 46; 51; 46; 52; 58; 56; 48; 32; 40] = RNone   (* "1.2.3.4:80 (" *)
  /\ from_str [] = RNone.
Proof. vm_compute. repeat split; reflexivity. Qed.

Example C19_example_family_v4 :
  (forall a : wf_addr, parse_sock (print4 (proj1_sig a)) = R4 (proj1_sig a))
  /\ (forall a : wf_addr, contains 32 (print4 (proj1_sig a)) = false)
  /\ (forall (a : wf_addr) r, parse_sock (print4 (proj1_sig a) ++ 32 :: r) = RNone).
Proof.
  repeat split; intros [a H]; cbn [proj1_sig];
    [apply parse_sock_print4, H | apply v4_no_space, H | intro r; apply parse_sock_print4_junk; [exact H|reflexivity]].
Qed.
