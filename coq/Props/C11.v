(* C11 — unvouched identities gain no meaningful trust; anchors keep a floor.
   Property theorems only; every proof is [exact lemma].  Model: Model/Trust.v instantiated over the
   exact reals (Lib/GenericFieldR.v); lemmas: Proofs/Trust.v.
   [ln1p] (the libm logarithm inside the multi-factor multiplier) is a Section variable whose only
   assumed property, non-negativity on the values it is applied to, stays visible in every statement. *)
From Coq Require Import Reals Lra.
From SV Require Import Lib.Base Lib.GenericField Lib.GenericFieldR Gen.TrustConsts Model.Trust Proofs.Trust Proofs.TrustStar.
Local Open Scope R_scope.

(* the numbers the property text relies on, proved from the constants regenerated from
   src/adaptive/trust.rs: teleport weight 0.4, threshold 1e-4, at most 50 rounds,
   7 rounds when n > 100, 4 rounds when n > 500, convergence exit only from the 4th round on *)
Theorem C11_constants :
  @alpha RF = 4 / 10 /\ @conv_thr RF = 1 / 10000 /\
  TRUST_MAX_ITERATIONS = 50%N /\ (TRUST_CUT1_N = 100 /\ TRUST_CUT1_ITER + 2 = 7)%N /\
  (TRUST_CUT2_N = 500 /\ TRUST_CUT2_ITER + 2 = 4)%N /\
  (TRUST_MIN_ITERATIONS = 4 /\ TRUST_MIN_ITER_OFFSET = 1)%N.
Proof. rewrite alpha_R, conv_thr_R. repeat split; try reflexivity; lra. Qed.

Section C11.
Variable ln1p : N -> R.
Hypothesis ln1p_nonneg : forall x, 0 <= ln1p x.

(* ONE repaired round, for every distribution vector [v] over the keys [ks] of any graph with at
   least one anchor: a set with no incoming statement from outside keeps at most (1 - alpha) of its
   mass (what its dangling members hold goes to the anchors, the total stays 1). *)
Theorem C11_closed_set_decay_round :
  forall (nodes ks pre : list N) (es : list (edge RF)),
  nodes <> [] -> NoDup ks -> incl nodes ks -> NoDup pre -> incl pre ks -> (pre = [] -> ks = nodes) ->
  (forall e, In e es -> 0 < e_val e) ->
  (forall e, In e es -> In (e_from e) ks /\ In (e_to e) ks) ->
  forall Sy : list N,
  NoDup Sy -> incl Sy nodes -> (forall i, In i Sy -> ~ In i pre) -> pre <> [] ->
  (forall e, In e es -> In (e_to e) Sy -> In (e_from e) Sy) ->
  forall v : vec RF, dist ks v ->
  massR Sy (fst (@round RF nodes ks pre es (@wedges RF es) v)) <= (1 - @alpha RF) * massR Sy v.
Proof. exact round_mass_decay. Qed.

(* For every history: after the computation the set holds at most (3/5)^rounds of its population share. *)
Theorem C11_closed_set_decay : forall pre ops d Sy,
  let st := reach ln1p pre ops in
  0 <= d -> st_pre st <> [] -> equal_stats ln1p st -> unvouched st Sy ->
  @mass RF (@global_trust RF ln1p st d) Sy <= (3 / 5) ^ N.to_nat (@rounds_run RF st) * pop_share st Sy.
Proof. exact (hist_closed_set_decay ln1p ln1p_nonneg). Qed.

(* every exit of the repaired loop is taken after at least 4 rounds *)
Theorem C11_at_least_four_rounds : forall pre ops,
  let st := reach ln1p pre ops in
  @node_set RF st <> [] -> st_pre st <> [] -> (4 <= @rounds_run RF st)%N.
Proof. exact (hist_rounds_ge_4 ln1p). Qed.

(* THE PROPERTY AS WRITTEN, at full strength: for every history, every network size, every anchor
   count >= 1 and every unvouched set of any size and internal rating pattern, the set ends with
   aggregate global trust no greater than one seventh of its share of the population. *)
Theorem C11_sybil_seventh : forall pre ops d Sy,
  let st := reach ln1p pre ops in
  0 <= d -> st_pre st <> [] -> equal_stats ln1p st -> unvouched st Sy ->
  @mass RF (@global_trust RF ln1p st d) Sy <= pop_share st Sy / 7.
Proof. exact (hist_sybil_seventh ln1p ln1p_nonneg). Qed.

(* below 0.1 % of the total in networks of up to 100 nodes, whichever exit the loop takes *)
Theorem C11_small_net : forall pre ops d Sy,
  let st := reach ln1p pre ops in
  0 <= d -> st_pre st <> [] -> equal_stats ln1p st -> unvouched st Sy ->
  (length (@node_set RF st) <= 100)%nat ->
  @mass RF (@global_trust RF ln1p st d) Sy < 1 / 1000.
Proof. exact (hist_small_net ln1p ln1p_nonneg). Qed.

(* every anchor keeps alpha / |anchors| of the total; NO hypothesis about anybody's statements *)
Theorem C11_anchor_floor : forall pre ops d a,
  let st := reach ln1p pre ops in
  0 <= d -> equal_stats ln1p st -> In a (st_pre st) ->
  @alpha RF / INR (length (st_pre st)) * @vsum RF (@global_trust RF ln1p st d)
    <= @vget RF (@global_trust RF ln1p st d) a.
Proof. exact (hist_anchor_floor ln1p ln1p_nonneg). Qed.

End C11.

(* Why the minimum of 4 rounds is needed: for a faithful copy of the loop WITHOUT it ([iterate_old] in
   Proofs/TrustStar.v: convergence exit allowed from the first round on) the one-seventh bound is
   false -- anchor 2, identity 1 rating itself, 4998 honest nodes without statements: the old loop
   leaves after two rounds and identity 1 keeps 0.36/5000 > (1/5000)/7. *)
Theorem C11_old_exit_rule_refuted : ~ old_loop_seventh_full.
Proof. exact old_loop_seventh_refuted. Qed.

(* ---- the hypotheses are satisfiable: an anchor vouching for an honest node, and a self-rating
   identity nobody vouches for; nobody has statistics ---- *)
Definition ex_ops : list (op RF) := [UpdLocal 1 2 true; UpdLocal 3 3 true].

Example C11_example_hypotheses :
  let st := reach (fun _ => 0) [1%N] ex_ops in
  @node_set RF st = [1; 2; 3]%N /\ st_pre st = [1%N] /\ st_pre st <> [] /\
  equal_stats (fun _ => 0) st /\ unvouched st [3%N] /\ (length (@node_set RF st) <= 100)%nat.
Proof.
  assert (En : @node_set RF (reach (fun _ => 0) [1%N] ex_ops) = [1; 2; 3]%N) by reflexivity.
  assert (Es : st_stats (reach (fun _ => 0) [1%N] ex_ops) = []) by reflexivity.
  cbv zeta. split; [exact En|]. split; [reflexivity|]. split; [discriminate|]. split; [|split].
  - intros i j _ _. unfold stats_of. rewrite Es. reflexivity.
  - split; [repeat constructor; intros []|]. split; [rewrite En; intros x [<-|[]]; simpl; tauto|].
    split; [intros i [<-|[]] [H|[]]; discriminate|].
    intros e He _ Ht. cbn in He. destruct He as [<-|[<-|[]]]; cbn in *; [destruct Ht as [H|[]]; discriminate|now left].
  - rewrite En. simpl. lia.
Qed.

Example C11_example_conclusion :
  @mass RF (@global_trust RF (fun _ => 0) (reach (fun _ => 0) [1%N] ex_ops) 1) [3%N] < 1 / 1000.
Proof.
  destruct C11_example_hypotheses as [_ [_ [H1 [H2 [H3 H4]]]]].
  apply (C11_small_net (fun _ => 0) (fun _ => Rle_refl 0) [1%N] ex_ops 1 [3%N]); try assumption. lra.
Qed.
