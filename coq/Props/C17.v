(* C17 - placement returns exactly k distinct diverse candidates or an error.
   Property theorems only; every proof is [exact lemma] or a one-line instantiation.
   Model: Model/Placement.v (binary64 model of src/placement/algorithms.rs and of
   PlacementEngine::select_nodes).  The oracles - every random draw [draw], Rust's powf
   results [kf] (u.powf(1/w)) and [pf] (score.powf(exponent)), the distance table [dist],
   the metadata table [md] - and all numeric inputs (any binary64 value, NaN and
   infinities included) are universally quantified. *)
From Coq Require Import Floats QArith Reals Lra Permutation.
From SV Require Import Lib.Base Gen.PlacementConsts Model.Placement Proofs.Placement Proofs.PlacementR Proofs.PlacementTie.

(* The numbers of the property text, proved from the constants regenerated from
   src/placement/algorithms.rs: 100 km / 2 = 50 km, 2 per region, 3 per ASN. *)
Theorem C17_constants :
  thr_geo = 50%float /\ PLC_MAX_PER_REGION = 2%N /\ PLC_MAX_PER_ASN = 3%N /\
  (PLC_MIN_GEO_DISTANCE / PLC_GEO_DIVISOR == 50)%Q.
Proof. repeat split; reflexivity. Qed.

(* Every Ok answer of WeightedPlacementStrategy::select_nodes, for all draws: exactly k
   nodes, pairwise distinct, all of them supplied candidates with metadata, at most 2 per
   region, at most 3 per ASN, no two closer than 50 km (IEEE comparison on the distance
   table: [ltb d 50 = false]). *)
Theorem C17_ok_shape : forall kf pf dist md cf draw cands k sel,
  select_nodes kf pf dist md cf draw cands k = Ok sel ->
  length sel = k /\ NoDup sel /\ incl sel cands /\
  (forall x, In x sel -> md x <> None) /\
  (forall r, (region_count md r sel <= 2)%nat) /\
  (forall a, (asn_count md a sel <= 3)%nat) /\
  (forall x y, In x sel -> In y sel -> x <> y -> PrimFloat.ltb (dist x y) 50 = false).
Proof.
  intros kf pf dist md cf draw cands k sel H.
  destruct (select_nodes_trace _ _ _ _ _ _ _ _ _ H) as [hist Ht].
  pose proof (select_trace_spec _ _ _ _ _ _ _ _ _ _ Ht). tauto.
Qed.

(* the same through PlacementEngine::select_nodes, which adds: k is at least the configured
   minimum and the Byzantine requirement *)
Theorem C17_engine_ok_shape : forall kf pf dist md cf draw rf_min bft_req cands k sel,
  engine_select kf pf dist md cf draw rf_min bft_req cands k = Ok sel ->
  select_nodes kf pf dist md cf draw cands k = Ok sel /\
  (rf_min <= N.of_nat k)%N /\ (rf_min <= N.of_nat (length sel))%N /\ (bft_req <= N.of_nat (length sel))%N.
Proof. exact engine_select_ok. Qed.

(* "otherwise the call returns an error": a request for more nodes than there are
   candidates, or from an empty set, is an error whatever the draws *)
Theorem C17_too_few_candidates : forall kf pf dist md cf draw cands k,
  (length cands < k)%nat \/ cands = [] ->
  select_nodes kf pf dist md cf draw cands k = Err EInsufficient.
Proof.
  intros kf pf dist md cf draw cands k H. unfold select_nodes, select_trace.
  destruct cands as [|c cands]; [reflexivity|].
  destruct H as [H|H]; [|discriminate]. apply Nat.ltb_lt in H. rewrite H. reflexivity.
Qed.

(* eight regions with at most two nodes each: no Ok answer has more than 16 nodes *)
Theorem C17_at_most_16 : forall kf pf dist md cf draw cands k sel,
  (forall x ra, md x = Some ra -> (fst ra < 8)%N) ->
  select_nodes kf pf dist md cf draw cands k = Ok sel -> (k <= 16)%nat.
Proof. exact select_le_16. Qed.

(* No panic outcome, for zero / negative / infinite / NaN / subnormal exponents and
   whatever the oracles return for them.  The only modelled source of a panic is sort_by
   meeting a NaN key; hypotheses: a draw is in [0,1) and Rust's u.powf(1/w) is not NaN for
   such a draw and a weight that passed the sampler's guard (non-NaN and > 0). *)
Theorem C17_total : forall kf pf dist md cf draw cands k,
  (forall u w, in_unit_open u = true -> weight_bad w = false -> PrimFloat.is_nan (kf u w) = false) ->
  (forall i, in_unit_open (draw i) = true) ->
  select_nodes kf pf dist md cf draw cands k <> Panic.
Proof.
  intros kf pf dist md cf draw cands k Hkf Hd. unfold select_nodes.
  pose proof (select_trace_not_panic kf pf dist md cf draw Hkf Hd cands k).
  destruct (select_trace _ _ _ _ _ _ _ _) as [sh| |]; [discriminate|discriminate|contradiction].
Qed.

Theorem C17_sampler_total : forall kf draw off cands k,
  (forall u w, in_unit_open u = true -> weight_bad w = false -> PrimFloat.is_nan (kf u w) = false) ->
  (forall i, in_unit_open (draw i) = true) ->
  sample_nodes kf draw off cands k <> Panic.
Proof. intros kf draw off cands k Hkf Hd. exact (sample_nodes_no_panic kf draw off cands k Hkf Hd). Qed.

(* the guard as it was before the fix (only  w <= 0.0  rejected) does let a NaN weight reach
   the sort: the repaired defect, as a witness *)
Theorem C17_old_guard_refuted : exists cands keys k,
  sample_keys_gen weight_bad_old cands keys k = Panic /\
  sample_keys_gen weight_bad cands keys k = Err EInvalidWeight.
Proof. exists [(1%N, PrimFloat.nan); (2%N, 1%float)], [PrimFloat.nan; 0.5%float], 1%nat. split; reflexivity. Qed.

(* the error of a degenerate exponent: a weight that is not finite and positive is rejected *)
Theorem C17_bad_weight_is_error : forall pf t s c d a b g w,
  calc_weight pf t s c d a b g = Ok w -> PrimFloat.is_finite w = true /\ PrimFloat.leb w 0 = false.
Proof. exact calc_weight_ok_finite_pos. Qed.

(* Without replacement, k rounds: round j starts from the candidate list [nth j hist], the
   node chosen in round j is in it, and a node chosen in an earlier round i < j is not. *)
Theorem C17_without_replacement : forall kf pf dist md cf draw cands k sel hist,
  select_trace kf pf dist md cf draw cands k = Ok (sel, hist) ->
  length hist = k /\
  forall i j x r, nth_error sel i = Some x -> nth_error hist j = Some r ->
    (i = j -> In x r) /\ ((i < j)%nat -> ~ In x r).
Proof.
  intros kf pf dist md cf draw cands k sel hist H.
  pose proof (select_trace_spec _ _ _ _ _ _ _ _ _ _ H) as (Hl & _ & _ & _ & _ & _ & _ & _ & Hwr & _).
  split; [rewrite <- (wr_length _ _ Hwr); exact Hl|]. exact (wr_nth _ _ Hwr).
Qed.

(* WeightedSampler::sample_nodes (public): an Ok answer has exactly k entries, each a listed
   candidate, no listed entry is used twice (with the unselected rest the answer is a
   permutation of the listed ids; distinct ids give a duplicate-free answer), and for
   k > 0 every listed weight passed the guard (not NaN, > 0). *)
Theorem C17_sampler_shape : forall kf draw off cands k sel,
  sample_nodes kf draw off cands k = Ok sel ->
  length sel = k /\ incl sel (map fst cands) /\
  (exists rest, Permutation (sel ++ rest) (map fst cands)) /\
  (NoDup (map fst cands) -> NoDup sel) /\
  ((0 < k)%nat -> forall c, In c cands -> weight_bad (snd c) = false).
Proof.
  intros kf draw off cands k sel H.
  pose proof (sample_nodes_ok _ _ _ _ _ _ H) as (A & B & C & D).
  pose proof (sample_nodes_submultiset _ _ _ _ _ _ H). tauto.
Qed.

(* The key u^(1/w) is non-decreasing in the weight (real analysis). *)
Theorem C17_key_monotone : forall u w1 w2 : R,
  (0 < u < 1)%R -> (0 < w1 <= w2)%R -> (Rpower u (/ w1) <= Rpower u (/ w2))%R.
Proof. exact rkey_monotone. Qed.

(* Swap dominance: the sampler ([topk], as in the model: stable descending sort, keys u^(1/w)
   over the reals).  Let a be at least as heavy as b.  If with draws (ua, ub) the lighter b is
   selected and the heavier a is not, then with the two draws exchanged a is selected and b is
   not.  The original run may contain any ties (they are broken by slice position, as the
   stable sort does); in the exchanged run only the two exchanged candidates must not tie with
   another key.  Exchanging the two draws is a measure-preserving involution of the draw space
   and ties have probability zero, hence P(b selected) <= P(a selected). *)
Theorem C17_swap_dominance : forall (es : list entry) k a b wa wb ua ub,
  NoDup (map e_id es) ->
  In (a, (wa, ua)) es -> In (b, (wb, ub)) es -> a <> b ->
  (0 < wb <= wa)%R -> (0 < ua < 1)%R -> (0 < ub < 1)%R ->
  let es' := swap_draws a b ua ub es in
  (forall e, In e es' -> e_id e <> a -> e_key e <> Rpower ub (/ wa)) ->
  (forall e, In e es' -> e_id e <> b -> e_key e <> Rpower ua (/ wb)) ->
  In b (rsample es k) -> ~ In a (rsample es k) ->
  In a (rsample es' k) /\ ~ In b (rsample es' k).
Proof. exact swap_dominance_ties. Qed.

(* what "selected" means for the sampler, ties included: fewer than k entries rank before it,
   where q ranks before p iff key q > key p, or the keys are equal and q is listed earlier *)
Theorem C17_sampler_rank : forall (es : list entry) k i e,
  NoDup (map e_id es) -> nth_error es i = Some e ->
  (In (e_id e) (rsample es k) <-> (cntG (fun q => befE q (i, e)) (indexed es) < k)%nat).
Proof. exact rsample_char_stable. Qed.

(* ReplicationFactor::new accepts exactly 1 <= min <= default <= max; the shipped default
   (3, 8, 16) is accepted and its maximum is the 16 of C17_at_most_16 *)
Theorem C17_replication_factor_bounds :
  (forall mn df mx, rf_new_ok mn df mx = true <-> (1 <= mn /\ mn <= df /\ df <= mx)%N) /\
  rf_new_ok PLC_RF_MIN PLC_RF_DEFAULT PLC_RF_MAX = true /\ PLC_RF_MAX = 16%N.
Proof. split; [exact rf_new_ok_iff|split; reflexivity]. Qed.

(* ---------------- non-vacuity ---------------- *)
(* four far-apart nodes in two regions, k = 3, concrete draws: an Ok answer of 3 nodes; the
   same request with k = 5 is an error; hypotheses of C17_total are satisfiable *)
Definition ex_md (x : N) : option (N * N) :=
  if (x <? 4)%N then Some (x / 2, 64500 + x)%N else None.
Definition ex_dist (x y : N) : float := if (x =? y)%N then 0%float else 3000%float.
Definition ex_kf (u w : float) : float := u.            (* any non-NaN stand-in for powf *)
Definition ex_draw (i : nat) : float :=
  nth i [0.5; 0.25; 0.75; 0.125; 0.375; 0.625; 0.875; 0.0625; 0.5]%float 0.5%float.
Example C17_example_ok :
  select_nodes ex_kf (fun _ a => a) ex_dist ex_md (mkCfg 1 1 1) ex_draw [0; 1; 2; 3]%N 3 = Ok [2; 3; 1]%N
  /\ select_nodes ex_kf (fun _ a => a) ex_dist ex_md (mkCfg 1 1 1) ex_draw [0; 1; 2; 3]%N 5 = Err EInsufficient
  /\ select_nodes ex_kf (fun _ a => a) ex_dist ex_md (mkCfg PrimFloat.nan 1 1) ex_draw [0; 1; 2; 3]%N 3 = Err EInvalidWeight
  /\ select_nodes ex_kf (fun _ a => a) ex_dist ex_md (mkCfg 1 1 1) ex_draw [0; 1; 2; 3; 4]%N 3 = Err EMetadata.
Proof. vm_compute. repeat split; reflexivity. Qed.

(* three nodes of one region: the third breaks the region limit -> error, never a set *)
Example C17_example_region_error :
  select_nodes ex_kf (fun _ a => a) ex_dist (fun x => Some (0, x)%N) (mkCfg 1 1 1) ex_draw [0; 1; 2]%N 3 = Err EDivRegion.
Proof. vm_compute. reflexivity. Qed.

Example C17_key_example : (Rpower (/ 2) (/ 1) <= Rpower (/ 2) (/ 2))%R.
Proof. apply C17_key_monotone; lra. Qed.
