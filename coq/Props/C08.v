(* C08 -- signatures verify only for the exact message and key that produced them.
   Property theorems only; every proof is [exact lemma].  Model: Model/Sig.v.

   External primitives are Section variables; their assumed behaviour is an explicit,
   named hypothesis of each theorem that needs it (definitions in Model/Sig.v):
     keygen xi            ML-DSA-65 KeyGen_internal (FIPS 204 Algorithm 6) on 32 bytes of randomness / seed
     sign sk m r          ML-DSA-65 signing with randomness r (the library signs hedged: OsRng)
     vs3 pk m s           ML-DSA-65 verification, Ok(true) / Ok(false) / Err
     kdf, H, b64          HKDF-SHA3-256, SHA-256, base64 decoding
     issued pk m s        "the holder of pk's secret key produced s when asked to sign m"
     sig_correct          what a generated secret key signs verifies under its public key
     ideal_sig            vs3 pk m s = VTrue -> issued pk m s      (idealised strong unforgeability)
   That the shipped ML-DSA build satisfies [sig_correct] and rejects altered inputs is NOT proved
   here: it is validated by sampling on the release build (harness/src/bin/c08.rs) -- level partial. *)
From SV Require Import Lib.Base Gen.SigConsts Model.Sig Proofs.Sig.
Local Open Scope N_scope.

(* ---- sizes the glue code checks, regenerated from the Rust source *)
Theorem C08_constants :
  PUB_LEN = 1952 /\ SEC_LEN = 4032 /\ SIG_LEN = 3309 /\ SIG_NODEID_PUB_LEN = 1952 /\
  SIG_IP_SIG_LEN = 3309 /\ SIG_IP_SIG_BUF = 3309 /\ SIG_IP_SALT_LEN = 16 /\
  SIG_AUTH_SINGLE_SIG_LEN = 3309 /\ SIG_AUTH_DELEG_SIG_LEN = 3309 /\ SIG_NO_EXPIRY = 0.
Proof. repeat split; reflexivity. Qed.

Section Scheme.
  Variable keygen : bytes -> ident.
  Variable kdf : bytes -> option bytes -> bytes -> nat -> bytes.
  Variable sign : bytes -> bytes -> bytes -> bytes.
  Variable vs3 : bytes -> bytes -> bytes -> verdict.
  Variable issued : bytes -> bytes -> bytes -> Prop.

  (* ---- every identity the library constructs -- generated, restored from its exported form (any
     number of times), derived from a seed, derived along a path -- is a real key pair, and what it
     signs verifies under its public key, for every message and all signing randomness *)
  Theorem C08_identity_roundtrip : sig_correct keygen sign vs3 ->
    forall i, constructed keygen kdf i ->
      pair keygen i /\ forall m r, vs3 (fst i) m (sign (snd i) m r) = VTrue.
  Proof.
    intros Hc i C. split; [exact (constructed_pair keygen kdf i C)|exact (identity_roundtrip keygen kdf sign vs3 Hc i C)].
  Qed.

  (* export -> import succeeds on every constructed identity and gives the same keys *)
  Theorem C08_import_restores : keygen_sized keygen -> forall i, constructed keygen kdf i ->
    id_import (id_export i) = Some i.
  Proof. exact (import_restores keygen kdf). Qed.

  (* ---- only exact: whatever the key holder did not issue does not verify *)
  Theorem C08_only_exact : ideal_sig vs3 issued -> forall pk (G : list (bytes * bytes)),
    (forall m s, issued pk m s -> In (m, s) G) ->
    forall m s, ~ In (m, s) G -> vs3 pk m s <> VTrue.
  Proof. exact (only_exact vs3 issued). Qed.

  (* the three ways to be inexact, spelled out for one issued signature s on m *)
  Theorem C08_wrong_message : ideal_sig vs3 issued -> forall pk m s m',
    (forall x y, issued pk x y -> x = m /\ y = s) -> m' <> m -> vs3 pk m' s <> VTrue.
  Proof. exact (wrong_message vs3 issued). Qed.
  Theorem C08_wrong_signature : ideal_sig vs3 issued -> forall pk m s s',
    (forall x y, issued pk x y -> x = m /\ y = s) -> s' <> s -> vs3 pk m s' <> VTrue.
  Proof. exact (wrong_signature vs3 issued). Qed.
  (* a changed key or another identity's key: its holder did not issue (m, s) *)
  Theorem C08_wrong_key : ideal_sig vs3 issued -> forall pk' m s,
    ~ issued pk' m s -> vs3 pk' m s <> VTrue.
  Proof. exact (wrong_key vs3 issued). Qed.

  Section Glue.
    Variable H : bytes -> bytes.
    Variable b64 : bytes -> option bytes.

    (* ---- address-bound node identities: accepted iff the id is the hash of ip||key||salt||ts, the key
       and signature have ML-DSA-65 sizes, and the signature verifies over the same bytes *)
    Theorem C08_ipnode_iff : forall n,
      ipnode_verify H vs3 n = VTrue <->
      H (node_message n) = n_id n /\ pk_ok (n_pk n) = true /\ len (n_sig n) = 3309 /\
      vs3 (n_pk n) (node_message n) (n_sig n) = VTrue.
    Proof. exact (ipnode_verify_iff H vs3). Qed.

    (* the signed bytes determine every field (within one address family: equal ip widths) *)
    Theorem C08_ipnode_message_injective : forall ip1 pk1 s1 t1 ip2 pk2 s2 t2,
      length ip1 = length ip2 -> length pk1 = length pk2 -> t1 < 2 ^ 64 -> t2 < 2 ^ 64 ->
      ip_message ip1 pk1 s1 t1 = ip_message ip2 pk2 s2 t2 ->
      ip1 = ip2 /\ pk1 = pk2 /\ s1 = s2 /\ t1 = t2.
    Proof. exact ip_message_inj. Qed.

    (* G = everything the holder of n's key ever signed as an address binding (same family).
       An accepted node id is, field for field and signature included, one of them. *)
    Theorem C08_ipnode : ideal_sig vs3 issued -> forall n (G : list binding),
      (forall m s, issued (n_pk n) m s ->
         exists g, In g G /\ m = ip_message (b_ip g) (n_pk n) (b_salt g) (b_ts g) /\ s = b_sig g) ->
      (forall g, In g G -> length (b_ip g) = length (n_ip n) /\ b_ts g < 2 ^ 64) -> n_ts n < 2 ^ 64 ->
      ipnode_verify H vs3 n = VTrue ->
      n_id n = H (node_message n) /\
      exists g, In g G /\ n_ip n = b_ip g /\ n_salt n = b_salt g /\ n_ts n = b_ts g /\ n_sig n = b_sig g.
    Proof. exact (ipnode_only_exact H vs3 issued). Qed.

    (* ---- update packages: accepted iff checksum matches AND the named key is pinned AND inside its
       validity window AND the signature (both base64 texts decodable, ML-DSA sizes) verifies over the
       file contents under that pinned key *)
    Theorem C08_update_iff : forall keys now contents expected key_id sig,
      verify_file H vs3 b64 keys now contents expected key_id sig = UAccept <->
      hex (H contents) = map ascii_lower expected /\
      exists k pkb sb, find_key keys key_id = Some k /\ key_valid k now = true /\
        b64 (k_pub k) = Some pkb /\ b64 sig = Some sb /\ pk_ok pkb = true /\ sig_ok sb = true /\
        vs3 pkb contents sb = VTrue.
    Proof. exact (verify_file_iff H vs3 b64). Qed.

    Theorem C08_update : ideal_sig vs3 issued -> forall keys now contents expected key_id sig,
      verify_file H vs3 b64 keys now contents expected key_id sig = UAccept ->
      hex (H contents) = map ascii_lower expected /\
      exists k pkb sb, In k keys /\ k_id k = key_id /\
        k_from k <= now /\ (k_until k = 0 \/ now < k_until k) /\
        b64 (k_pub k) = Some pkb /\ b64 sig = Some sb /\ issued pkb contents sb.
    Proof. exact (update_only_exact H vs3 b64 issued). Qed.

    (* each conjunct is necessary: failing alone it makes the verifier refuse ... *)
    Theorem C08_update_conjunct_necessary : forall keys now contents expected key_id sig,
      (verify_checksum H contents expected = false \/
       find_key keys key_id = None \/
       (exists k, find_key keys key_id = Some k /\ key_valid k now = false) \/
       (forall pkb sb, vs3 pkb contents sb <> VTrue)) ->
      verify_file H vs3 b64 keys now contents expected key_id sig <> UAccept.
    Proof. exact (update_conjunct_necessary H vs3 b64). Qed.

    (* the validity window with its edges: from <= now, and now < until unless until = 0 *)
    Theorem C08_key_window : forall k now,
      key_valid k now = true <-> k_from k <= now /\ (k_until k = 0 \/ now < k_until k).
    Proof. exact key_valid_iff. Qed.
  End Glue.

  (* ---- record write authorisation.  [authorised] (Model/Sig.v) is the property's reading:
     single = the key signed; delegated = some listed key signed; threshold = at least t DISTINCT
     listed keys signed; composite = all / any member authorised. *)
  Section Auth.
    Variable record : bytes.
    Variable sigs : list bytes.

    Theorem C08_writeauth_single : forall pk,
      single_verify vs3 record sigs pk = VTrue <->
      exists s r, sigs = s :: r /\ pk_ok pk = true /\ len s = 3309 /\ vs3 pk record s = VTrue.
    Proof. exact (single_iff vs3 record sigs). Qed.

    Theorem C08_writeauth_delegated : forall ks,
      delegated_verify vs3 record sigs ks = VTrue <->
      exists s r ak, sigs = s :: r /\ len s = 3309 /\ In ak ks /\ pk_ok ak = true /\ vs3 ak record s = VTrue.
    Proof. exact (delegated_iff vs3 record sigs). Qed.

    (* the repaired threshold rule (thr_spec): for EVERY tree, acceptance implies authorisation *)
    Theorem C08_writeauth_spec_sound : forall a,
      wverify_spec vs3 record sigs a = VTrue -> authorised vs3 record sigs a.
    Proof. exact (wverify_spec_sound vs3 record sigs). Qed.

    (* the code that exists (count-only threshold placeholder, recorded finding threshold-write-auth):
       forall trees outside the known class, acceptance implies authorisation *)
    Theorem C08_writeauth_threshold : forall a, has_threshold a = false ->
      wverify_code vs3 record sigs a = VTrue -> authorised vs3 record sigs a.
    Proof. exact (wverify_code_sound vs3 record sigs). Qed.

    (* composite: all = every member accepts; any = some member accepts (and conversely when no
       member reports an error first) *)
    Theorem C08_writeauth_composite : forall thr l,
      (wverify vs3 record sigs thr (WComposite true l) = VTrue <->
         forall x, In x l -> wverify vs3 record sigs thr x = VTrue) /\
      (wverify vs3 record sigs thr (WComposite false l) = VTrue ->
         exists x, In x l /\ wverify vs3 record sigs thr x = VTrue) /\
      ((forall x, In x l -> wverify vs3 record sigs thr x <> VErr) ->
       (exists x, In x l /\ wverify vs3 record sigs thr x = VTrue) ->
       wverify vs3 record sigs thr (WComposite false l) = VTrue).
    Proof.
      intros thr l. split; [exact (all_v_true _ l)|]. split; [exact (any_v_true _ l)|exact (any_v_complete _ l)].
    Qed.

    (* under the ideal scheme an accepted leaf is a signature the listed key's holder issued on this record *)
    Theorem C08_writeauth_issued : ideal_sig vs3 issued -> forall k,
      signs vs3 record sigs k -> exists s, In s sigs /\ issued k record s.
    Proof. exact (signs_issued vs3 record sigs issued). Qed.
  End Auth.
End Scheme.

(* ---- F08a: the construction the code used before the repair (HKDF output cut into "public" and
   "secret" bytes) is not a key pair: (general) whatever byte pair of the right sizes is not a key
   pair is produced by it for a suitable KDF; (concrete) a correct scheme under which the old seed
   and path identities fail to verify their own signatures while the repaired ones verify. *)
Theorem C08_from_seed_refuted :
  (forall keygen pk sk, len pk = PUB_LEN -> ~ pair keygen (pk, sk) ->
     exists kdf, forall seed master path,
       ~ pair keygen (id_from_seed_old kdf seed) /\ ~ pair keygen (id_derive_path_old kdf master path)) /\
  (sig_correct toy_keygen toy_sign toy_vs3 /\
   (let i := id_from_seed_old toy_kdf [1; 2; 3] in toy_vs3 (fst i) [5] (toy_sign (snd i) [5] []) <> VTrue) /\
   (let i := id_derive_path_old toy_kdf [1; 2; 3] [0; 1] in toy_vs3 (fst i) [5] (toy_sign (snd i) [5] []) <> VTrue) /\
   (let i := id_from_seed toy_keygen toy_kdf [1; 2; 3] in toy_vs3 (fst i) [5] (toy_sign (snd i) [5] []) = VTrue) /\
   (let i := id_derive_path toy_keygen toy_kdf [1; 2; 3] [0; 1] in toy_vs3 (fst i) [5] (toy_sign (snd i) [5] []) = VTrue)).
Proof. split; [exact from_seed_old_not_pair|exact from_seed_old_fails]. Qed.

(* ---- F08b: the count-only threshold placeholder accepts two byte strings nobody signed *)
Theorem C08_writeauth_threshold_refuted :
  exists (vs3 : bytes -> bytes -> bytes -> verdict) record sigs a,
    (forall pk m s, vs3 pk m s <> VTrue) /\ has_threshold a = true /\
    wverify_code vs3 record sigs a = VTrue /\ ~ authorised vs3 record sigs a /\
    wverify_spec vs3 record sigs a = VFalse.
Proof. exact thr_code_refuted. Qed.

(* ---- across address families the signed bytes are NOT injective for every byte string used as a
   key: an IPv4 and an IPv6 binding of one key coincide only if the key repeats itself with period
   12 = 16 - 4 (first statement); such degenerate byte strings exist (second).  A generated ML-DSA
   key (rho || packed t1) is not of that shape except with negligible probability; C08_ipnode is
   therefore stated per family. *)
Theorem C08_ipnode_cross_family : forall ip4 ip6 pk s1 t1 s2 t2,
  length ip4 = 4%nat -> length ip6 = 16%nat ->
  ip_message ip4 pk s1 t1 = ip_message ip6 pk s2 t2 ->
  forall i, (i + 12 < length pk)%nat -> nth (i + 12) pk 0 = nth i pk 0.
Proof.
  intros ip4 ip6 pk s1 t1 s2 t2 L4 L6. apply (ip_message_cross 12). rewrite L4, L6. reflexivity.
Qed.
Theorem C08_ipnode_cross_family_refuted :
  exists ip4 ip6 pk s4 s6 ts,
    length ip4 = 4%nat /\ length ip6 = 16%nat /\ pk_ok pk = true /\ len s4 = SIG_IP_SALT_LEN /\
    ip_message ip4 pk s4 ts = ip_message ip6 pk s6 ts.
Proof. exact ip_message_cross_witness. Qed.

(* ---- update conjuncts are independent: each fails alone on a concrete input (toy primitives),
   including the window edges: valid at valid_from and at valid_until - 1, refused at
   valid_from - 1 and at valid_until; valid_until = 0 never expires *)
Theorem C08_update_conjuncts_independent :
  let ok := hex [42] in
  upd_conj toy_H toy_vs3 toy_b64 [toy_key 10 20] 15 [42] ok [107] toy_sigtext = (true, true, true, true) /\
  upd_conj toy_H toy_vs3 toy_b64 [toy_key 10 20] 15 [42] (hex [43]) [107] toy_sigtext = (false, true, true, true) /\
  upd_conj toy_H toy_vs3 toy_b64 [toy_key 10 20] 15 [42] ok [108] toy_sigtext = (true, false, false, false) /\
  upd_conj toy_H toy_vs3 toy_b64 [toy_key 10 20] 20 [42] ok [107] toy_sigtext = (true, true, false, true) /\
  upd_conj toy_H toy_vs3 toy_b64 [toy_key 10 20] 9 [42] ok [107] toy_sigtext = (true, true, false, true) /\
  upd_conj toy_H toy_vs3 toy_b64 [toy_key 10 20] 19 [42] ok [107] toy_sigtext = (true, true, true, true) /\
  upd_conj toy_H toy_vs3 toy_b64 [toy_key 10 20] 10 [42] ok [107] toy_sigtext = (true, true, true, true) /\
  upd_conj toy_H toy_vs3 toy_b64 [toy_key 10 0] 1000000 [42] ok [107] toy_sigtext = (true, true, true, true) /\
  upd_conj toy_H toy_vs3 toy_b64 [toy_key 10 20] 15 [42] ok [107] (61 :: [1; 1; 43]) = (true, true, true, false).
Proof. exact update_conjuncts_independent. Qed.

(* ---- non-vacuity: the hypotheses are satisfiable together and the definitions compute *)
Example C08_toy_correct : sig_correct toy_keygen toy_sign toy_vs3.
Proof. exact toy_correct. Qed.

(* the toy scheme is ideal for "issued = the one signature the key's tag determines" *)
Example C08_toy_ideal :
  ideal_sig toy_vs3 (fun pk m s => pk = [7; nth 1 pk 0] /\ s = 1 :: nth 1 pk 0 :: m).
Proof.
  intros pk m s V. unfold toy_vs3 in V.
  destruct (bytes_eqb pk [7; nth 1 pk 0]) eqn:E1; [|discriminate].
  destruct (bytes_eqb s (1 :: nth 1 pk 0 :: m)) eqn:E2; [|discriminate].
  apply bytes_eqb_eq in E1, E2. split; assumption.
Qed.

Example C08_toy_verdicts :
  (* a toy node id: genuine accepted, one changed field refused *)
  (let pk := repeat 3 (N.to_nat PUB_LEN) in
   let sg := repeat 9 (N.to_nat SIG_LEN) in
   let vs := fun p m s => if bytes_eqb p pk && bytes_eqb s sg && bytes_eqb m (ip_message [10;0;0;1] pk [5;5] 77) then VTrue else VFalse in
   let n := mkNode (ip_message [10;0;0;1] pk [5;5] 77) [10;0;0;1] pk sg 77 [5;5] in
   ipnode_verify toy_H vs n = VTrue /\
   ipnode_verify toy_H vs (mkNode (n_id n) [10;0;0;2] pk sg 77 [5;5]) = VFalse /\
   ipnode_verify toy_H vs (mkNode (ip_message [10;0;0;2] pk [5;5] 77) [10;0;0;2] pk sg 77 [5;5]) = VFalse /\
   ipnode_verify toy_H vs (mkNode (n_id n) [10;0;0;1] pk (9 :: sg) 77 [5;5]) = VFalse) /\
  (* write authorisation trees over the toy scheme: key 1 signed [42], key 2 did not *)
  (let sigs := [[1; 1; 42]] in
   let vs := toy_vs3 in
   thr_spec vs [42] [[1;1;42]; [1;2;42]] 2 3 [[7;1]; [7;2]; [7;3]] = VFalse /\
   thr_code [[1;1;42]; [1;2;42]] 2 3 [[7;1]; [7;2]; [7;3]] = VTrue /\
   mk_threshold 2 3 [[7;1]; [7;2]; [7;3]] = Some (WThreshold 2 3 [[7;1]; [7;2]; [7;3]]) /\
   mk_threshold 4 3 [[7;1]; [7;2]; [7;3]] = None /\ mk_threshold 0 3 [[7;1]; [7;2]; [7;3]] = None /\
   all_v (fun v => v) [VTrue; VFalse; VErr] = VFalse /\ any_v (fun v => v) [VFalse; VErr; VTrue] = VErr /\
   all_v (fun v : verdict => v) [] = VTrue /\ any_v (fun v : verdict => v) [] = VFalse /\ sigs = sigs).
Proof. vm_compute. repeat split; reflexivity. Qed.
