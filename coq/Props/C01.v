(* C01 — iterative closest-nodes lookup.  Property theorems only; every proof is
   [exact lemma].  Model: Model/Lookup.v, proofs: Proofs/Lookup.v.
   The adversary is the arbitrary function [reply]. *)
From SV Require Import Lib.Base Gen.LookupConsts Model.Lookup Proofs.Lookup.
From Coq Require Import Sorting.Sorted.
Local Open Scope N_scope.

(* the numbers the property relies on, from the regenerated constants *)
Theorem C01_constants :
  LK_ALPHA = 3 /\ LK_MAX_ITERATIONS = 20 /\ LK_MAX_CANDIDATE_NODES = 200 /\ 0 < LK_ALPHA.
Proof. repeat split; reflexivity. Qed.

(* 1. whatever peers reply, at most MAX_ITERATIONS * ALPHA requests are sent
      (termination itself is structural: [loop] recurses on its fuel) *)
Theorem C01_request_bound : forall keyof reply self selfs_marked selfs_all target count init,
  (length (sent (lookup keyof reply self selfs_marked selfs_all target count init))
   <= N.to_nat LK_MAX_ITERATIONS * N.to_nat LK_ALPHA)%nat.
Proof. exact lookup_request_bound. Qed.

(* 2. no peer is queried twice and the local node (under any of its ids) is never sent a request *)
Theorem C01_no_self_no_dup : forall keyof reply self selfs_marked selfs_all target count init,
  NoDup init -> (forall p, In p init -> ~ In p selfs_all) ->
  incl selfs_marked selfs_all -> In self selfs_marked ->
  let s := lookup keyof reply self selfs_marked selfs_all target count init in
  NoDup (sent s) /\ forall p, In p (sent s) -> ~ In p selfs_all.
Proof. exact lookup_no_self_no_dup. Qed.

(* 3. the result: at most [count] distinct nodes, ascending by distance, each the local
      node or a peer that answered during this lookup *)
Theorem C01_result_wf : forall keyof reply self selfs_marked selfs_all target count init,
  NoDup init -> (forall p, In p init -> ~ In p selfs_all) ->
  incl selfs_marked selfs_all -> In self selfs_marked ->
  let s := lookup keyof reply self selfs_marked selfs_all target count init in
  (length (best s) <= count)%nat /\ NoDup (best s) /\
  StronglySorted (fun a b => dist keyof target a <= dist keyof target b) (best s) /\
  forall p, In p (best s) -> p = self \/ (In p (sent s) /\ reply p <> None).
Proof. exact lookup_result_wf. Qed.

(* 4. the result is the [count] closest among the local node and the peers that answered *)
Theorem C01_best_is_closest : forall keyof reply self selfs_marked selfs_all target count init,
  NoDup init -> (forall p, In p init -> ~ In p selfs_all) ->
  incl selfs_marked selfs_all -> In self selfs_marked ->
  let s := lookup keyof reply self selfs_marked selfs_all target count init in
  forall p, (p = self /\ (0 < count)%nat) \/ (In p (sent s) /\ reply p <> None) ->
    In p (best s) \/
    (length (best s) = count /\ forall w, In w (best s) -> dist keyof target w <= dist keyof target p).
Proof. exact lookup_best_is_closest. Qed.

(* 5. unless the run was cut by a budget, no peer the lookup learned of (initial
      candidates, or named in any reply) that is strictly closer than the farthest
      returned node is left unqueried *)
Theorem C01_complete : forall keyof reply self selfs_marked selfs_all target count init,
  NoDup init -> (forall p, In p init -> ~ In p selfs_all) ->
  incl selfs_marked selfs_all -> In self selfs_marked ->
  let s := lookup keyof reply self selfs_marked selfs_all target count init in
  budget_hit s = false ->
  forall p, (In p init \/ exists q l, In q (sent s) /\ reply q = Some l /\ In p l) ->
    In p (sent s) \/ In p selfs_all \/
    (length (best s) = count /\ forall w, In w (best s) -> dist keyof target w <= dist keyof target p).
Proof. exact lookup_complete. Qed.
