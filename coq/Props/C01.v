(* C01 — iterative closest-nodes lookup.  Property theorems only; every proof is
   [exact lemma].  Model: Model/Lookup.v, proofs: Proofs/Lookup.v.
   The adversary is the arbitrary function [reply]. *)
From SV Require Import Lib.Base Gen.LookupConsts Model.Lookup Proofs.Lookup.
From Coq Require Import Sorting.Sorted.
Local Open Scope N_scope.

(* the numbers the property relies on, from the regenerated constants *)
Theorem C01_constants :
  LK_ALPHA = 3 /\ LK_MAX_ITERATIONS = 20 /\ LK_MAX_CANDIDATE_NODES = 200 /\ 0 < LK_ALPHA.
Proof. repeat split; reflexivity. Qed.

(* 1. whatever peers reply, at most MAX_ITERATIONS * ALPHA requests are sent
      (termination itself is structural: [loop] recurses on its fuel) *)
Theorem C01_request_bound : forall keyof reply self selfs_marked selfs_all target count init,
  (length (sent (lookup keyof reply self selfs_marked selfs_all target count init))
   <= N.to_nat LK_MAX_ITERATIONS * N.to_nat LK_ALPHA)%nat.
Proof. exact lookup_request_bound. Qed.

(* 2. no peer is queried twice and the local node (under any of its ids) is never sent a request *)
Theorem C01_no_self_no_dup : forall keyof reply self selfs_marked selfs_all target count init,
  NoDup init -> (forall p, In p init -> ~ In p selfs_all) ->
  incl selfs_marked selfs_all -> In self selfs_marked ->
  let s := lookup keyof reply self selfs_marked selfs_all target count init in
  NoDup (sent s) /\ forall p, In p (sent s) -> ~ In p selfs_all.
Proof. exact lookup_no_self_no_dup. Qed.

(* 3. the result: at most [count] distinct nodes, ascending by distance, each the local
      node or a peer that answered during this lookup *)
Theorem C01_result_wf : forall keyof reply self selfs_marked selfs_all target count init,
  NoDup init -> (forall p, In p init -> ~ In p selfs_all) ->
  incl selfs_marked selfs_all -> In self selfs_marked ->
  let s := lookup keyof reply self selfs_marked selfs_all target count init in
  (length (best s) <= count)%nat /\ NoDup (best s) /\
  StronglySorted (fun a b => dist keyof target a <= dist keyof target b) (best s) /\
  forall p, In p (best s) -> p = self \/ (In p (sent s) /\ reply p <> None).
Proof. exact lookup_result_wf. Qed.

(* 4. the result is the [count] closest among the local node and the peers that answered *)
Theorem C01_best_is_closest : forall keyof reply self selfs_marked selfs_all target count init,
  NoDup init -> (forall p, In p init -> ~ In p selfs_all) ->
  incl selfs_marked selfs_all -> In self selfs_marked ->
  let s := lookup keyof reply self selfs_marked selfs_all target count init in
  forall p, (p = self /\ (0 < count)%nat) \/ (In p (sent s) /\ reply p <> None) ->
    In p (best s) \/
    (length (best s) = count /\ forall w, In w (best s) -> dist keyof target w <= dist keyof target p).
Proof. exact lookup_best_is_closest. Qed.

(* 5. unless the run was cut by a budget, no peer the lookup learned of (initial
      candidates, or named in any reply) that is strictly closer than the farthest
      returned node is left unqueried *)
Theorem C01_complete : forall keyof reply self selfs_marked selfs_all target count init,
  NoDup init -> (forall p, In p init -> ~ In p selfs_all) ->
  incl selfs_marked selfs_all -> In self selfs_marked ->
  let s := lookup keyof reply self selfs_marked selfs_all target count init in
  budget_hit s = false ->
  forall p, (In p init \/ exists q l, In q (sent s) /\ reply q = Some l /\ In p l) ->
    In p (sent s) \/ In p selfs_all \/
    (length (best s) = count /\ forall w, In w (best s) -> dist keyof target w <= dist keyof target p).
Proof. exact lookup_complete. Qed.

(* 6. full mesh: U is the set of all peers, the initial candidates are the [count]
      closest of U, every member of U answers and names only members of U or the local
      node, and the run is not budget-cut.  Then the result is exactly the [count]
      closest of self :: U. *)
Theorem C01_full_mesh_exact : forall keyof reply self selfs_marked selfs_all target count init U,
  NoDup init ->
  incl selfs_marked selfs_all -> In self selfs_marked ->
  (forall u, In u U -> ~ In u selfs_all) ->
  incl init U ->
  (forall u m, In u U -> ~ In u init -> In m init -> dist keyof target m <= dist keyof target u) ->
  length init = Nat.min count (length U) ->
  (forall u, In u U -> exists l, reply u = Some l /\ forall x, In x l -> In x U \/ In x selfs_all) ->
  let s := lookup keyof reply self selfs_marked selfs_all target count init in
  budget_hit s = false ->
  (forall w, In w (best s) -> In w (self :: U)) /\
  (forall x, In x (self :: U) ->
     In x (best s) \/
     (length (best s) = count /\ forall w, In w (best s) -> dist keyof target w <= dist keyof target x)).
Proof. exact lookup_full_mesh. Qed.

(* The executable predicate [spec_ok] that the correspondence check evaluates on the
   implementation's observed requests/result holds of the model's own run (count >= 1). *)
Theorem C01_model_satisfies_spec_ok : forall keyof reply self selfs_marked selfs_all target count init,
  (0 < count)%nat ->
  NoDup init -> (forall p, In p init -> ~ In p selfs_all) ->
  incl selfs_marked selfs_all -> In self selfs_marked ->
  let s := lookup keyof reply self selfs_marked selfs_all target count init in
  spec_ok keyof reply self selfs_all target count init (sent s) (best s) (budget_hit s) = true.
Proof. exact lookup_spec_ok. Qed.

(* [spec_ok] (not theorems 1-6) is too strong at count = 0: its "closest among the
   answering peers" clause has no count = 0 escape, so it rejects the model's run as
   soon as one peer answers.  Theorems 1-6 above hold for count = 0 as well. *)
Theorem C01_spec_ok_count0_refuted : exists keyof reply self selfs_marked selfs_all target init,
  NoDup init /\ (forall p, In p init -> ~ In p selfs_all) /\
  incl selfs_marked selfs_all /\ In self selfs_marked /\
  let s := lookup keyof reply self selfs_marked selfs_all target 0%nat init in
  spec_ok keyof reply self selfs_all target 0%nat init (sent s) (best s) (budget_hit s) = false.
Proof. exact spec_ok_count0_refuted. Qed.

(* non-vacuity: 7 peers around node 0 (transport id 100); peer 4 is silent, peer 2
   lies (names the requester's own id 0 and an unreachable id 7), target key 0, K = 3.
   Requests go to 3,4 / 1,2,5 / 7; peer 6 is never queried (dominated); result = the 3
   closest answering nodes. *)
Example C01_example :
  let keyof := assoc 0 [(0,50);(1,10);(2,20);(3,30);(4,40);(5,60);(6,70);(7,5)] in
  let reply := assoc None [(1,Some [2;3]);(2,Some [1;7;0]);(3,Some [1;2;5]);(4,None);(5,Some [6]);(6,Some [1])] in
  let s := lookup keyof reply 0 [0;100] [0;100] 0 3%nat [3;4] in
  best s = [1;2;3] /\ sent s = [7;5;2;1;4;3] /\ budget_hit s = false /\
  spec_ok keyof reply 0 [0;100] 0 3%nat [3;4] (sent s) (best s) (budget_hit s) = true.
Proof. vm_compute. repeat split; reflexivity. Qed.

(* the side conditions of the theorems are satisfiable by that example *)
Example C01_example_hyps :
  NoDup [3;4] /\ (forall p, In p [3;4] -> ~ In p [0;100]) /\ incl [0;100] [0;100] /\ In 0 [0;100].
Proof. exact example_hyps. Qed.
