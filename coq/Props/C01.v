(* C01 — iterative closest-nodes lookup.  Property theorems only.
   Model: Model/Lookup.v.  (Proofs in progress: see Proofs/Lookup.v.) *)
From SV Require Import Lib.Base Gen.LookupConsts Model.Lookup.
Local Open Scope N_scope.

(* the numbers the property relies on, from the regenerated constants *)
Theorem C01_constants :
  LK_ALPHA = 3 /\ LK_MAX_ITERATIONS = 20 /\ LK_MAX_CANDIDATE_NODES = 200 /\ 0 < LK_ALPHA.
Proof. repeat split; reflexivity. Qed.
