(* C16 - failing or distrusted peers are sidelined exactly as the stated policy says.
   Property theorems only; every proof is [exact lemma] (or a one-line instantiation).
   Models: Model/Eviction.v (EvictionManager + NodeLivenessState), Model/Selector.v
   (TrustAwarePeerSelector and the engine's two selections, after the fixes of F16a/b/c),
   Model/Routing.v (C02).  Lemmas: Proofs/Eviction.v, Proofs/Selector.v, Proofs/Routing.v. *)
From Coq Require Import Sorting.Sorted Permutation QArith Floats.
From SV Require Import Lib.Base Lib.Xor Lib.F64 Gen.EvictionConsts Gen.RoutingConsts Gen.SelectorConsts
                       Model.Routing Proofs.Routing Model.Eviction Proofs.Eviction Model.Selector Proofs.Selector.
Local Open Scope N_scope.

(* The numbers and comparison operators the property relies on, from the constants
   regenerated from the source (each tied to its use site by the translator). *)
Theorem C16_constants :
  EV_MAX_CONSECUTIVE_FAILURES = 3 /\ (EV_MIN_TRUST_THRESHOLD == 15 # 100)%Q /\
  EV_FAILURE_TEST_IS_GE = 1 /\ EV_SUCCESS_RESETS = 1 /\ EV_FAILURE_INCREMENTS = 1 /\ EV_TRUST_TEST_IS_LT = 1 /\
  (SEL_STORAGE_MIN == 2 # 10)%Q /\ (SEL_STORAGE_WEIGHT == 5 # 10)%Q /\ SEL_STORAGE_EXCLUDES = 1 /\
  (SEL_QUERY_MIN == 1 # 10)%Q /\ (SEL_QUERY_WEIGHT == 3 # 10)%Q /\ SEL_QUERY_KEEPS = 1 /\
  SEL_NEW_USES_FOR_STORAGE = 1 /\
  (SEL_SCALE == inject_Z (10 ^ 30))%Q /\ SEL_DIST_BYTES = 16 /\ LOW_BITS = 128 /\
  SEL_QUERY_WIDEN = 2 /\ SEL_STORAGE_WIDEN = 3.
Proof. repeat split; reflexivity. Qed.

(* ================= eviction policy ================= *)
(* For EVERY interleaved history h of success / failure / trust-update / mark / forget events
   over any number of peers, every threshold configuration c and every peer p (T = the type
   of trust values with the code's strict comparison; binary64 in the implementation):
   p is a candidate  <=>  it has a liveness entry and its consecutive failures since its last
   success (or since it was forgotten) reach the limit, or its latest trust score is below the
   threshold, or it is marked. *)
Theorem C16_candidate_iff : forall (T : Type) (ltb : T -> T -> bool) (c : cfg) (h : list ev) (p : N),
  let rh := rev h in
  is_candidate ltb c (s_of (run h) p) = true <->
  (tracked p rh = true /\ max_fail c <= fails_since p rh) \/
  (exists t, last_trust p rh = Some t /\ ltb t (min_trust c) = true) \/
  (exists r, last_mark p rh = Some r).
Proof. exact (@candidate_iff). Qed.

(* ... and for a positive limit (the default is 3) the count alone decides *)
Theorem C16_candidate_iff_positive_limit : forall (T : Type) (ltb : T -> T -> bool) (c : cfg) (h : list ev) (p : N),
  0 < max_fail c ->
  let rh := rev h in
  is_candidate ltb c (s_of (run h) p) = true <->
  max_fail c <= fails_since p rh \/
  (exists t, last_trust p rh = Some t /\ ltb t (min_trust c) = true) \/
  (exists r, last_mark p rh = Some r).
Proof. exact (@candidate_iff_pos). Qed.

(* the reported reason: marked > failures (with the count) > trust *)
Theorem C16_reason_precedence : forall (T : Type) (ltb : T -> T -> bool) (c : cfg) (h : list ev) (p : N),
  reason_of ltb c (s_of (run h) p) =
  match last_mark p (rev h) with
  | Some r => Some r
  | None =>
      if tracked p (rev h) && (max_fail c <=? fails_since p (rev h)) then Some (RFailures (fails_since p (rev h)))
      else match last_trust p (rev h) with
           | Some t => if ltb t (min_trust c) then Some RLowTrust else None
           | None => None
           end
  end.
Proof. exact (@reason_spec). Qed.

(* get_eviction_candidates lists exactly the peers with a reason, each once *)
Theorem C16_candidate_list : forall (T : Type) (ltb : T -> T -> bool) (c : cfg) (h : list ev),
  (forall p r, In (p, r) (candidates ltb c (run h)) <-> reason_of ltb c (s_of (run h) p) = Some r) /\
  NoDup (map fst (candidates ltb c (run h))).
Proof. intros T ltb c h. exact (conj (candidates_in ltb c h) (candidates_nodup ltb c (run h))). Qed.

(* one success clears failure-based candidacy: right after it the counter is 0, the failure
   test is false, and the peer is a candidate only through trust or a mark *)
Theorem C16_success_clears : forall (T : Type) (ltb : T -> T -> bool) (c : cfg) (h : list ev) (p : N),
  0 < max_fail c ->
  let s := run (h ++ [Success p]) in
  fails_of (s_of s p) = 0 /\
  fails_evict c (s_of s p) = false /\
  (is_candidate ltb c (s_of s p) = true <->
   (exists t, last_trust p (rev h) = Some t /\ ltb t (min_trust c) = true) \/
   (exists r, last_mark p (rev h) = Some r)).
Proof. exact (@success_clears). Qed.

(* ... and it takes the full number of new failures to become a failure candidate again *)
Theorem C16_success_clears_lasting : forall (T : Type) (c : @cfg T) (h1 h2 : list ev) (p : N),
  N.of_nat (length h2) < max_fail c ->
  fails_evict c (s_of (run (h1 ++ Success p :: h2)) p) = false.
Proof. intro T. exact (no_failure_candidacy_soon_after_success (fun _ _ => true)). Qed.

(* the u32 counter cannot overflow on histories shorter than 2^32 *)
Theorem C16_failures_bounded : forall (T : Type) (h : list (@ev T)) (p : N),
  fails_since p (rev h) <= N.of_nat (length h).
Proof. intros T h p. rewrite <- (rev_length h). exact (fails_since_le_length (fun _ _ => true) p (rev h)). Qed.

(* With the degenerate limit 0 the two halves of the policy text contradict each other
   ("0 accumulated failures" holds for everybody): the code follows the iff - a peer with a
   liveness entry is a candidate even right after a success - hence the hypothesis 0 < limit
   in C16_success_clears. *)
Theorem C16_success_clears_limit0_refuted :
  exists (c : @cfg N) (h : list (@ev N)) (p : N),
    max_fail c = 0 /\ is_candidate N.ltb c (s_of (run (h ++ [Success p])) p) = true /\
    last_trust p (rev h) = None /\ last_mark p (rev h) = None.
Proof. exists (mkCfg 0 0), [], 7. vm_compute. repeat split; reflexivity. Qed.

(* ================= routing: evicted / failed peers ================= *)
(* For every history: once handle_node_failure / evict_node removed [id], and as long as no
   later add_node / join_network offers it again, it is in no closest-node answer - find_nodes,
   FindNode / FindValue replies, and both engine selections (any number structure, any
   selection configuration, any trust source). *)
Theorem C16_evicted_absent : forall local ops1 o ops2 id, key_ok local ->
  Forall op_ok (ops1 ++ o :: ops2) -> (o = Fail id \/ o = Evict id) ->
  forallb (fun o => negb (offers id o)) ops2 = true ->
  let t := fst (Routing.run (start local) (ops1 ++ o :: ops2)) in
  ~ In id (ids (all_nodes t)) /\
  forall key count, key_ok key ->
    ~ In id (ids (closest t key count)) /\
    ~ In id (ids (handle_find_node t key count)) /\
    ~ In id (ids (handle_find_value t key)) /\
    forall F (S : num F) sel trust_of storage, ~ In id (ids (engine_select S sel trust_of storage t key count)).
Proof. exact removed_in_no_answer. Qed.

(* ================= selection ================= *)
(* select_peers_with_config, for every number structure, configuration, key, trust source,
   candidate list (repetitions allowed) and count: the answer is the first [count] entries of
   the ranking of the eligible candidates; with what is left out it is the candidate list as
   a multiset; it is duplicate-free when the candidates are; it has min(count, #eligible)
   entries; everything in it passed the exclusion test. *)
Theorem C16_selection_wf : forall F (S : num F) (c : scfg) key trust_of cands count,
  let res := select S c key trust_of cands count in
  res = map e_node (firstn (N.to_nat count) (rank S c key trust_of cands)) /\
  (exists rest, Permutation cands (res ++ rest)) /\
  (forall x, In x res -> In x cands) /\
  (NoDup (ids cands) -> NoDup (ids res)) /\
  N.of_nat (length res) = N.min count (N.of_nat (length (filter (elig_node S c key trust_of) cands))) /\
  N.of_nat (length res) <= count.
Proof.
  intros F S c key trust_of cands count res.
  exact (conj (select_firstn S c key trust_of cands count) (conj (select_multiset S c key trust_of cands count)
        (conj (select_incl S c key trust_of cands count) (conj (select_nodup S c key trust_of cands count)
        (conj (select_length S c key trust_of cands count)
              (eq_ind_r (fun n => n <= count) (N.le_min_l _ _) (select_length S c key trust_of cands count))))))).
Qed.

(* exclusion floor, any configuration with exclude_untrusted: no selected peer has a trust
   (the provider's answer, NaN read as 0 = unknown) below the floor *)
Theorem C16_floor_any_config : forall F (S : num F) (c : scfg) key trust_of cands count x,
  c_excl c = true -> In x (select S c key trust_of cands count) ->
  ltb S (nan0 S (trust_of (n_id x))) (c_min c) = false.
Proof. exact (@select_floor). Qed.

(* storage selections (TrustSelectionConfig::for_storage: floor 0.2, exclusion on) in exact
   arithmetic: every selected peer has trust >= 1/5 *)
Theorem C16_storage_floor : forall key (trust_of : N -> Q) cands count x,
  In x (select qnum (for_storage (fun q => q)) key trust_of cands count) ->
  (SEL_STORAGE_MIN <= trust_of (n_id x))%Q /\ (1 # 5 <= trust_of (n_id x))%Q.
Proof. exact storage_floor_exact. Qed.

(* the same for any number structure satisfying the order laws - binary64 included: under
   exclusion a selected peer's trust is not below the floor, and for a positive floor (0.2) it
   is not NaN either.  Fewer than [count] trusted candidates give a shorter answer
   (C16_selection_wf: length = min(count, #eligible)); there is no fallback that re-admits. *)
Theorem C16_storage_floor_raw : forall F (S : num F), laws S -> forall (c : scfg) key trust_of cands count x,
  c_excl c = true -> In x (select S c key trust_of cands count) ->
  ltb S (trust_of (n_id x)) (c_min c) = false /\
  (ltb S (zero S) (c_min c) = true -> leb S (trust_of (n_id x)) (trust_of (n_id x)) = true).
Proof. intros F S L c key trust_of. exact (floor_raw S L c key trust_of). Qed.

(* the engine: storage selections respect the storage configuration's floor, and every
   engine selection consists of table entries, each id once, at most [count], never the
   local node - for every reachable table *)
Theorem C16_engine_storage_floor : forall F (S : num F) qc sc trust_of t key count x, c_excl sc = true ->
  In x (engine_select S (Some (qc, sc)) trust_of true t key count) ->
  ltb S (nan0 S (trust_of (n_id x))) (c_min sc) = false.
Proof. exact (@engine_storage_floor). Qed.

Theorem C16_engine_selection_wf : forall F (S : num F) sel trust_of storage local ops key count,
  key_ok local -> Forall op_ok ops -> key_ok key ->
  let t := fst (Routing.run (start local) ops) in
  let res := engine_select S sel trust_of storage t key count in
  (forall x, In x res -> In x (all_nodes t)) /\ NoDup (ids res) /\ N.of_nat (length res) <= count /\
  ~ In (t_local t) (ids res).
Proof.
  intros F S sel trust_of storage local ops key count Kl Fo Kk.
  exact (engine_select_wf S sel trust_of storage _ key count (reach_inv local ops Kl Fo) Kk).
Qed.

(* ---------- ranking ---------- *)
(* The order laws of a number structure (Proofs/Selector.v [laws]: <= is a total preorder on
   numbers, and the operations of the score are monotone on the ranges in which the score
   uses them).  They hold in exact arithmetic: *)
Theorem C16_laws_exact : laws qnum.
Proof. exact q_laws. Qed.

(* For every number structure with these laws - proved for Q above, and the NAMED FLOAT
   ASSUMPTION for binary64 ([laws fnum]: every IEEE-754 operation is the correctly rounded
   exact result, and rounding is monotone) - every configuration (weights outside [0,1] and
   NaN included: they are read through [unit]), trust source (NaN, negative, > 1, infinite
   included), key and candidate list with 256-bit ids:
   the ranking is sorted by (score desc, full XOR distance asc, trust desc); *)
Theorem C16_rank_sorted : forall F (S : num F), laws S -> forall (c : scfg) key trust_of cands,
  key_ok key -> Forall (fun x => key_ok (n_id x)) cands ->
  StronglySorted (fun a b => before_eq S a b = true) (rank S c key trust_of cands).
Proof. intros F S L c key trust_of cands Kk. exact (rank_sorted S L c key trust_of Kk cands). Qed.

(* a peer ranked ahead of another of equal trust is not farther from the key (full 256-bit
   XOR distance, so ids differing only in low-order bytes are told apart); *)
Theorem C16_rank_distance : forall F (S : num F), laws S -> forall (c : scfg) key trust_of cands l1 x l2 y l3,
  key_ok key -> Forall (fun x => key_ok (n_id x)) cands ->
  rank S c key trust_of cands = l1 ++ x :: l2 ++ y :: l3 ->
  feq S (e_trust x) (e_trust y) = true -> e_dist x <= e_dist y.
Proof. intros F S L c key trust_of cands l1 x l2 y l3 Kk. exact (rank_distance S L c key trust_of Kk cands l1 x l2 y l3). Qed.

(* a peer ranked ahead of another at equal distance is not less trusted; *)
Theorem C16_rank_trust : forall F (S : num F), laws S -> forall (c : scfg) key trust_of cands l1 x l2 y l3,
  key_ok key -> Forall (fun x => key_ok (n_id x)) cands ->
  rank S c key trust_of cands = l1 ++ x :: l2 ++ y :: l3 ->
  e_dist x = e_dist y -> ltb S (e_trust x) (e_trust y) = false.
Proof. intros F S L c key trust_of cands l1 x l2 y l3 Kk. exact (rank_trust S L c key trust_of Kk cands l1 x l2 y l3). Qed.

(* and the cut at [count] obeys both laws: nobody selected stands ahead of an eligible
   candidate that was left out and is closer with equal trust / equally far and more trusted *)
Theorem C16_rank_cut : forall F (S : num F), laws S -> forall (c : scfg) key trust_of cands count x y,
  key_ok key -> Forall (fun x => key_ok (n_id x)) cands ->
  In x (firstn (N.to_nat count) (rank S c key trust_of cands)) ->
  In y (skipn (N.to_nat count) (rank S c key trust_of cands)) ->
  (feq S (e_trust x) (e_trust y) = true -> e_dist x <= e_dist y) /\
  (e_dist x = e_dist y -> ltb S (e_trust x) (e_trust y) = false).
Proof. intros F S L c key trust_of cands count x y Kk. exact (cut_distance_trust S L c key trust_of Kk cands count x y). Qed.

(* the monotonicity behind both: closer (as xor_distance sees it) and at least as trusted
   gives at least the score *)
Theorem C16_score_monotone : forall F (S : num F), laws S -> forall w d1 d2 t1 t2,
  d1 <= d2 -> d2 < 2 ^ 128 ->
  leb S (unit S t2) (unit S t1) = true ->
  leb S (mul S (dscore S d2) (tfactor S (unit S w) (unit S t2)))
        (mul S (dscore S d1) (tfactor S (unit S w) (unit S t1))) = true.
Proof.
  intros F S L w d1 d2 t1 t2 D1 D2 T.
  exact (proj2 (score_mono S L (unit S w) d1 d2 (unit S t1) (unit S t2) (unit_range S L w) D1 D2
                  (proj1 (unit_range S L t2)) T (proj2 (unit_range S L t1)))).
Qed.

(* with distinct ids the ranking is the ONLY sorted arrangement of the eligible candidates:
   the answer does not depend on the sorting algorithm or on the order of the input *)
Theorem C16_rank_unique : forall F (S : num F), laws S -> forall (c : scfg) key trust_of cands l,
  key_ok key -> Forall (fun x => key_ok (n_id x)) cands -> NoDup (ids cands) ->
  Permutation l (filter (eligible S c) (map (entry S c key trust_of) cands)) ->
  StronglySorted (fun a b => before_eq S a b = true) l -> l = rank S c key trust_of cands.
Proof. intros F S L c key trust_of cands l Kk. exact (rank_unique S L c key trust_of Kk cands l). Qed.

(* the instances: exact arithmetic, unconditionally ... *)
Theorem C16_rank_exact : forall (c : scfg) key trust_of cands l1 x l2 y l3,
  key_ok key -> Forall (fun x => key_ok (n_id x)) cands ->
  rank qnum c key trust_of cands = l1 ++ x :: l2 ++ y :: l3 ->
  ((e_trust x == e_trust y)%Q -> e_dist x <= e_dist y) /\
  (e_dist x = e_dist y -> (e_trust y <= e_trust x)%Q).
Proof. exact rank_exact. Qed.

(* In exact arithmetic more is true at equal distance AS THE SCORE SEES IT (same top 16 bytes,
   the low bytes may differ): with a weight below 1 the score is strictly increasing in trust,
   so whoever is ranked ahead is at least as trusted - the full-distance tie-break never
   overrides a difference of trust. *)
Theorem C16_rank_trust_scored_distance_exact : forall (c : scfg) key trust_of cands l1 x l2 y l3,
  key_ok key -> Forall (fun x => key_ok (n_id x)) cands ->
  rank qnum c key trust_of cands = l1 ++ x :: l2 ++ y :: l3 ->
  e_dist x / 2 ^ 128 = e_dist y / 2 ^ 128 -> (unit qnum (c_weight c) < 1)%Q ->
  (e_trust y <= e_trust x)%Q.
Proof. exact rank_trust_scored_exact. Qed.

(* ... and binary64 under the named float assumption *)
Theorem C16_rank_binary64 : laws fnum -> forall (c : scfg) key trust_of cands l1 x l2 y l3,
  key_ok key -> Forall (fun x => key_ok (n_id x)) cands ->
  rank fnum c key trust_of cands = l1 ++ x :: l2 ++ y :: l3 ->
  (feq fnum (e_trust x) (e_trust y) = true -> e_dist x <= e_dist y) /\
  (e_dist x = e_dist y -> PrimFloat.ltb (e_trust x) (e_trust y) = false).
Proof.
  intros L c key trust_of cands l1 x l2 y l3 Kk K E.
  exact (conj (rank_distance fnum L c key trust_of Kk cands l1 x l2 y l3 K E)
              (rank_trust fnum L c key trust_of Kk cands l1 x l2 y l3 K E)).
Qed.

(* ---------- trust selection disabled ---------- *)
(* for every reachable table, key and count, both engine selections are exactly the [count]
   entries of the whole table nearest to the key, nearest first (the 2x / 3x widening is
   invisible) *)
Theorem C16_disabled_is_distance_order : forall F (S : num F) trust_of storage local ops key count,
  key_ok local -> Forall op_ok ops -> key_ok key ->
  let t := fst (Routing.run (start local) ops) in
  engine_select S None trust_of storage t key count = firstn (N.to_nat count) (sort_by_dist key (all_nodes t)).
Proof.
  intros F S trust_of storage local ops key count Kl Fo Kk.
  exact (engine_disabled S trust_of storage _ key count (reach_inv local ops Kl Fo) Kk).
Qed.

(* ================= the defects of the unrepaired source, on a faithful model of the OLD
   selection (raw trust and weight, stable sort on the score alone); by computation in
   binary64 ================= *)
Definition w_half : float := f64_of_Q (1 # 2).
Definition w_queries : @scfg float := for_queries f64_of_Q.
(* F16a: ids ..09 and ..01 differ only in the last byte, equal trust, offered as [9; 1]: the
   scores tie (the f64 of the top 16 bytes is the same) and the old code answers [9; 1] *)
Theorem C16_old_refuted_tie_keeps_input_order :
  map n_pl (select_old fnum w_queries 0 (fun _ => w_half) [nd 9 9; nd 1 1] 8) = [9; 1] /\
  map n_pl (select fnum w_queries 0 (fun _ => w_half) [nd 9 9; nd 1 1] 8) = [1; 9].
Proof. vm_compute. split; reflexivity. Qed.

(* F16b: equal trust -5 makes the trust factor negative: the farther peer comes first *)
Theorem C16_old_refuted_negative_trust :
  let m5 := PrimFloat.opp (f64_of_Z 5) in
  map n_pl (select_old fnum w_queries 0 (fun _ => m5) [nd (2 ^ 200) 1; nd (2 ^ 255) 9] 8) = [9; 1] /\
  map n_pl (select fnum w_queries 0 (fun _ => m5) [nd (2 ^ 200) 1; nd (2 ^ 255) 9] 8) = [1; 9].
Proof. vm_compute. split; reflexivity. Qed.

(* F16c (new): a trust weight above 1 ranks the LESS trusted of two peers at the same
   distance-as-scored first; also in exact arithmetic, so it is not a rounding effect *)
Theorem C16_old_refuted_weight_above_one :
  let c := mkSC (2 # 1)%Q (1 # 10)%Q false in
  let tr := fun id => if id =? 2 ^ 200 then (9 # 10)%Q else (1 # 10)%Q in
  map n_pl (select_old qnum c 0 tr [nd (2 ^ 200) 1; nd (2 ^ 200 + 1) 2] 8) = [2; 1] /\
  map n_pl (select qnum c 0 tr [nd (2 ^ 200) 1; nd (2 ^ 200 + 1) 2] 8) = [1; 2].
Proof. vm_compute. split; reflexivity. Qed.

(* ================= non-vacuity ================= *)
Example C16_example_history :
  let c := mkCfg 3 (15 # 100)%Q in
  let lt := fun a b : Q => negb (Qle_bool b a) in
  let h := [Failure 1; Failure 1; Success 2; Failure 1; Trust 2 (1 # 10)%Q; Mark 3 RRejected;
            Failure 4; Success 4; Trust 5 (15 # 100)%Q; Failure 6; Failure 6; Failure 6; Failure 6; Mark 6 RStale] in
  map (fun p => reason_of lt c (s_of (run h) p)) [1; 2; 3; 4; 5; 6; 7] =
    [Some (RFailures 3); Some RLowTrust; Some RRejected; None; None; Some RStale; None] /\
  is_candidate lt c (s_of (run (h ++ [Success 1])) 1) = false /\
  reason_of lt c (s_of (run (h ++ [Forget 6; Failure 6])) 6) = None /\
  length (candidates lt c (run h)) = 4%nat.
Proof. vm_compute. repeat split; reflexivity. Qed.

(* the premises of the ranking theorems are satisfiable (a concrete ranking of four
   candidates in exact arithmetic), storage excludes the two peers below 0.2 *)
Example C16_example_selection :
  let tr := fun id => if id =? 1 then (9 # 10)%Q else if id =? 2 then (1 # 10)%Q
                      else if id =? 2 ^ 250 then (5 # 10)%Q else (-5 # 1)%Q in
  let cands := [nd (2 ^ 255) 4; nd 2 2; nd (2 ^ 250) 3; nd 1 1] in
  key_okb 0 = true /\ forallb (fun x => key_okb (n_id x)) cands = true /\
  map n_pl (select qnum (for_queries (fun q => q)) 0 tr cands 8) = [1; 2; 3; 4] /\
  map n_pl (select qnum (for_storage (fun q => q)) 0 tr cands 8) = [1; 3] /\
  map n_pl (select qnum (for_queries (fun q => q)) 0 tr cands 2) = [1; 2].
Proof.
  vm_compute. repeat split; reflexivity.
Qed.

(* the order laws sampled on binary64 at boundary values (validation of the named float
   assumption on a few points, NOT a proof of it) *)
Example C16_float_laws_sample :
  let xs := [PrimFloat.zero; f64_of_Q (1 # 10); w_half; PrimFloat.one; f64_of_N (2 ^ 128 - 1); f64_of_N (2 ^ 64)] in
  forallb (fun a => forallb (fun b =>
     implb (PrimFloat.leb a b)
           (PrimFloat.leb (PrimFloat.div a (scale fnum)) (PrimFloat.div b (scale fnum)) &&
            PrimFloat.leb (PrimFloat.add PrimFloat.one a) (PrimFloat.add PrimFloat.one b) &&
            PrimFloat.leb (PrimFloat.div PrimFloat.one (PrimFloat.add PrimFloat.one b))
                          (PrimFloat.div PrimFloat.one (PrimFloat.add PrimFloat.one a)))) xs) xs = true /\
  unit fnum nan = PrimFloat.zero /\ unit fnum (PrimFloat.opp (f64_of_Z 5)) = PrimFloat.zero /\
  unit fnum infinity = PrimFloat.one /\ unit fnum neg_zero = PrimFloat.zero.
Proof. vm_compute. repeat split; reflexivity. Qed.
