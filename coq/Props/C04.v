(* C04 — replies reach only the matching request from the contacted peer; no leaks.
   Property theorems only.  Model: Model/Pending.v (both pending tables). *)
From SV Require Import Lib.Base Gen.PendingConsts Model.Pending Proofs.Pending.
Local Open Scope N_scope.

Theorem C04_constants : RR_MAX_ACTIVE_REQUESTS = 256 /\ PEND_SWEEP_MULT = 2.
Proof. split; reflexivity. Qed.

(* ---- DHT RPC table ---- *)

(* A pending DHT request completes with a reply only if the reply carries that request's
   identifier, arrives from the peer it was sent to, and nothing was delivered to it before. *)
Theorem C04_match : forall t id from pl t' i p,
  step t (Deliver id from pl) = (t', Some (i, p)) ->
  i = id /\ p = pl /\ exists en, lookup t id = Some en /\ e_peer en = from /\ e_tx en = true /\ e_rx en = true.
Proof. exact deliver_match. Qed.

(* Replies with an unknown identifier (never sent, already finished = late), from another
   peer, or duplicated, are discarded: no completion and the table is untouched. *)
Theorem C04_discard : forall t id from pl,
  (lookup t id = None \/ exists en, lookup t id = Some en /\ (e_peer en <> from \/ e_tx en = false)) ->
  step t (Deliver id from pl) = (t, None).
Proof. exact deliver_discarded. Qed.

(* ... and no delivery, completion or cancellation concerning one request touches another. *)
Theorem C04_isolation : forall t e j,
  match e with
  | Deliver id _ _ | Finish id | Cancel id => j <> id
  | Send _ _ _ _ => False
  end -> lookup (fst (step t e)) j = lookup t j.
Proof. exact step_isolation. Qed.

Theorem C04_isolation_send : forall t id peer now to j, NoDup (keys t) -> j <> id ->
  lookup (fst (step t (Send id peer now to))) j =
  match lookup t j with Some e => if expired now e then None else Some e | None => None end.
Proof. exact send_isolation. Qed.

(* For every interleaving (= every event list) in which request identifiers are fresh,
   a request is handed at most one reply. *)
Theorem C04_at_most_once : forall evs id, NoDup (send_ids evs) ->
  (length (completions_of id (snd (run [] evs))) <= 1)%nat.
Proof. exact at_most_once. Qed.

(* When a request's future returns, nothing of it remains ... *)
Theorem C04_no_leak_finished : forall t id, lookup (fst (step t (Finish id))) id = None.
Proof. exact finish_no_leak. Qed.

(* ... and what a dropped future left behind is gone at the first request issued more than
   PEND_SWEEP_MULT x timeout after it started. *)
Theorem C04_no_leak_cancelled : forall t id peer now to j en, NoDup (keys t) ->
  lookup (fst (step t (Send id peer now to))) j = Some en -> j = id \/ expired now en = false.
Proof. exact send_sweeps. Qed.

Theorem C04_table_wf : forall t e, NoDup (keys t) -> NoDup (keys (fst (step t e))).
Proof. exact step_nodup. Qed.

(* ---- application request/response table ---- *)

Theorem C04_rr_cap : forall evs,
  N.of_nat (length (fst (rrun [] evs))) <= RR_MAX_ACTIVE_REQUESTS.
Proof. intro evs. apply rrun_cap. cbn. unfold RR_MAX_ACTIVE_REQUESTS. lia. Qed.

Theorem C04_rr_match : forall t id from pl t' i p,
  rstep t (RDeliver id from pl) = (t', RComplete i p) ->
  i = id /\ p = pl /\ rlookup t id = Some from /\ rlookup t' id = None.
Proof. exact rdeliver_match. Qed.

Theorem C04_rr_isolation : forall t e j,
  match e with RDeliver id _ _ | RFinish id | RCancel id => j <> id | RSend id _ => j <> id end ->
  rlookup (fst (rstep t e)) j = rlookup t j.
Proof. exact rstep_isolation. Qed.

Theorem C04_rr_no_leak : forall t id,
  rlookup (fst (rstep t (RFinish id))) id = None /\ rlookup (fst (rstep t (RCancel id))) id = None.
Proof. exact rfinish_no_leak. Qed.

(* non-vacuity: wrong sender, guessed id, the real reply, a duplicate, a late reply, a dropped
   future swept by a later request *)
Example C04_example :
  let evs := [Send 1 10 0 100; Send 2 11 5 100; Deliver 1 11 70; Deliver 9 10 71; Deliver 1 10 72;
              Deliver 1 10 73; Finish 1; Deliver 1 10 74; Cancel 2; Send 3 12 500 100] in
  snd (run [] evs) = [None; None; None; None; Some (1, 72); None; None; None; None; None]
  /\ map fst (fst (run [] evs)) = [3].
Proof. vm_compute. split; reflexivity. Qed.
