(* C13 — per-subnet and per-ASN admission caps are never exceeded; slots are returned.
   Property theorems only; proofs are one-line instantiations of Proofs/Diversity.v.
   Model: Model/Diversity.v (IPDiversityEnforcer, the DhtCoreEngine admission pipeline,
   BootstrapManager::add_peer). *)
From Coq Require Import QArith.
From SV Require Import Lib.Base Gen.DiversityConsts Model.Diversity Proofs.Diversity.
Local Open Scope N_scope.

(* The numbers the property text and the configuration documentation state, proved from
   the constants regenerated from src/security.rs and src/dht/core_engine.rs. *)
Theorem C13_constants :
  DIV_MAX_SUBNET_TRACKING = 50000 /\
  (DIV_DEF_64 = 1 /\ DIV_DEF_48 = 3 /\ DIV_DEF_32 = 10) /\
  (DIV_DEF_V4_24 = 3 /\ DIV_DEF_V4_16 = 10 /\ DIV_DEF_IP_CAP = 50 /\ (DIV_DEF_FRACTION == 5 # 1000)%Q) /\
  DIV_DEF_ASN = 20 /\ DIV_MULT_24 = 3 /\ DIV_MULT_16 = 10 /\ DIV_REGION_CAP = 50 /\ DIV_BUCKET_K = 8.
Proof. repeat split; reflexivity. Qed.

(* ---------------------------------------------------------------------------------- *)
(* enforcer: all histories of add / remove / probe / set-network-size                  *)
(* [hist_ok]: before every step each tracking table has room for one more key (the      *)
(* 50 000-entry bound), and Remove is called for admitted nodes only.                   *)
(* ---------------------------------------------------------------------------------- *)

(* every counter is exactly the number of admitted nodes sharing that prefix / ASN / country *)
Theorem C13_counters_are_admitted_nodes : forall c ops,
  hist_ok c enf_init [] ops ->
  forall l k, cnt (getm (run c enf_init ops) l) k = count_adm (adm_run c enf_init [] ops) l k.
Proof. intros c ops H. exact (agree_run c ops enf_init [] agree_init H). Qed.

(* soundness and completeness of one admission: it succeeds if and only if every level of
   the candidate is below its limit (halved, minimum one, for hosting/VPN candidates; the
   IPv4 limits from the network-size rule), counting ADMITTED NODES *)
Theorem C13_complete : forall c s adm an,
  Agree s adm ->
  (add c s an <> None <->
   forall l k lim, In (l, k) (keys_of an) -> limit c (e_size s) (strict an) l = Some lim -> count_adm adm l k < lim).
Proof. exact complete_iff. Qed.

(* the limits the code applies: halving with minimum one, the network-size rule and its multiples *)
Theorem C13_limits : forall c size,
  (forall x, halve true x = N.max 1 (x / 2)) /\ (forall x, halve false x = x) /\
  per_ip c size = N.min (c_ipcap c) (N.max 1 (size * c_fnum c / c_fden c)) /\
  full_limit c size V32 = Some (per_ip c size) /\
  full_limit c size V24 = Some (N.min (c4_24 c) (per_ip c size * 3)) /\
  full_limit c size V16 = Some (N.min (c4_16 c) (per_ip c size * 10)) /\
  full_limit c size L64 = Some (c64 c) /\ full_limit c size L48 = Some (c48 c) /\ full_limit c size L32 = Some (c32 c) /\
  full_limit c size LAsn = Some (c_asn c).
Proof. intros. repeat split; reflexivity. Qed.

(* caps at every moment of every history.  [N.max 1 _] is the "minimum one" of the halving
   rule: a hosting/VPN candidate is admitted up to max(1, cap/2) even when cap = 0.
   (a) configured ceiling of the level, whatever the network size did;
   (b) the limit for the LARGEST network size in force so far - this is what holds when the
       size was lowered: counts admitted under a larger size stay, nothing is evicted;
   (c) when sizes never shrink: the limit in force now. *)
Theorem C13_cap_invariant : forall c ops,
  hist_ok c enf_init [] ops ->
  let adm := adm_run c enf_init [] ops in
  (forall l k cap, static_cap c l = Some cap -> count_adm adm l k <= N.max 1 cap) /\
  (forall l k lim, full_limit c (hw_run 0 ops) l = Some lim -> count_adm adm l k <= N.max 1 lim) /\
  (sizes_nondecreasing 0 ops ->
   forall l k lim, full_limit c (e_size (run c enf_init ops)) l = Some lim -> count_adm adm l k <= N.max 1 lim).
Proof. exact cap_invariant_all. Qed.

(* with a cap of at least one the [max] disappears *)
Theorem C13_cap_invariant_positive : forall c ops l k cap,
  hist_ok c enf_init [] ops -> static_cap c l = Some cap -> 1 <= cap ->
  count_adm (adm_run c enf_init [] ops) l k <= cap.
Proof. intros c ops l k cap H Hc H1. pose proof (C13_cap_invariant c ops H) as [S _]. specialize (S l k cap Hc). lia. Qed.

(* lowering the network size lowers the IPv4 limits below counts that were admitted earlier:
   default configuration, size 400 -> two nodes on one address; size back to 0 -> limit 1 < 2,
   and the address admits nobody until it is back under the limit *)
Example C13_shrink_example :
  let a := IP4 167837953 in
  let ops := [SetSize 400; Add a no_attrs; Add a no_attrs; SetSize 0] in
  let s := run cfg_default enf_init ops in
  hist_ok cfg_default enf_init [] ops /\
  cnt (getm s V32) 167837953 = 2 /\ full_limit cfg_default (e_size s) V32 = Some 1 /\
  can_accept cfg_default s (analyze a no_attrs) = false /\
  can_accept cfg_default (remove cfg_default (remove cfg_default s (analyze a no_attrs)) (analyze a no_attrs)) (analyze a no_attrs) = true.
Proof. vm_compute. repeat split; try reflexivity; intro l; destruct l; reflexivity. Qed.

(* removing an admitted node gives every slot back, and it can be admitted again *)
Theorem C13_remove_returns : forall c s an s',
  Bounded c s -> add c s an = Some s' ->
  (forall l k, cnt (getm (remove c s' an) l) k = cnt (getm s l) k) /\
  can_accept c (remove c s' an) an = true.
Proof. intros c s an s' B H. split; [intros; now apply remove_add_cnt | now apply (readmit_after_remove c s an s')]. Qed.

(* a refused admission consumes nothing (enforcer) *)
Theorem C13_atomic_enforcer : forall c s ip at_,
  snd (step c s (Add ip at_)) = 0 -> fst (step c s (Add ip at_)) = s.
Proof. intros c s ip at_. cbn [step]. destruct (add c s (analyze ip at_)); cbn [fst snd]; [discriminate | reflexivity]. Qed.

(* beyond the tracking bound the property is lost: with room for one tracked /64 the LRU
   table forgets the first node and a second node is admitted into its /64 (cap 1) *)
Example C13_tracking_bound_needed :
  let c := mkCfg 1 3 10 1 3 10 50 1 200 20 1 in
  let a1 := IP6 (2 ^ 64 * 5 + 1) in let a2 := IP6 (2 ^ 64 * 5 + 2) in let b := IP6 (2 ^ 100 + 7) in
  let ops := [Add a1 no_attrs; Add b no_attrs; Add a2 no_attrs] in
  count_adm (adm_run c enf_init [] ops) L64 5 = 2 /\ static_cap c L64 = Some 1.
Proof. vm_compute. split; reflexivity. Qed.

(* ---------------------------------------------------------------------------------- *)
(* routing-table pipeline: all histories of add_node / evict_node / handle_node_failure *)
(* (default configuration, network size 0 as on that path).                             *)
(* PARTIAL in one respect, hence the suffix: the hypothesis - fewer than 50 000 operations *)
(* since start - is how these statements stay below the tracking bound.  What is missing:  *)
(* the routing table holds at most 256 x 8 entries, so no tracking table can ever fill    *)
(* and the hypothesis could be dropped; that needs the accounting lemma tracked keys <=    *)
(* table entries (NoDup/positivity of the counter maps), which is not proved here.       *)
(* The per-step lemmas einv_core_add / einv_core_remove hold for ANY state satisfying the *)
(* invariant with room in the tables.                                                     *)
(* ---------------------------------------------------------------------------------- *)

(* counters are the tallies of the routing table, and the caps hold, after any history *)
Theorem C13_pipeline_invariant_partial : forall self ops,
  N.of_nat (length ops) < DIV_MAX_SUBNET_TRACKING ->
  let g := erun cfg_default self eng_init ops in
  (forall l k, cnt (getm (g_enf g) l) k = count_adm (adm_of (g_tab g)) l k) /\
  (forall r, cnt (g_reg g) r = reg_count (g_tab g) r) /\
  (forall k, count_adm (adm_of (g_tab g)) V32 k <= 1 /\ count_adm (adm_of (g_tab g)) V24 k <= 3 /\
             count_adm (adm_of (g_tab g)) V16 k <= 10 /\ count_adm (adm_of (g_tab g)) L64 k <= 1 /\
             count_adm (adm_of (g_tab g)) L48 k <= 3 /\ count_adm (adm_of (g_tab g)) L32 k <= 10) /\
  (forall r, reg_count (g_tab g) r <= 50).
Proof. exact pipeline_invariant. Qed.

(* a failed add_node (validator, IP diversity, region cap, full bucket) leaves the table and
   every counter as they were *)
Theorem C13_atomic_pipeline_partial : forall self ops id addr valid,
  N.of_nat (length ops) < DIV_MAX_SUBNET_TRACKING ->
  let g := erun cfg_default self eng_init ops in
  let r := core_add cfg_default self g id addr valid in
  snd r <> 0 ->
  g_tab (fst r) = g_tab g /\
  (forall l k, cnt (getm (g_enf (fst r)) l) k = cnt (getm (g_enf g) l) k) /\
  (forall x, cnt (g_reg (fst r)) x = cnt (g_reg g) x).
Proof. exact atomic_pipeline. Qed.

(* eviction / failure removes the node's entries and gives their slots back: afterwards the
   counters are the tallies of the table without that node *)
Theorem C13_evict_returns_partial : forall self ops id,
  N.of_nat (length ops) < DIV_MAX_SUBNET_TRACKING ->
  let g := erun cfg_default self eng_init ops in
  let g' := core_remove cfg_default g id in
  g_tab g' = filter (fun e => negb (en_id e =? id)) (g_tab g) /\
  (forall l k, cnt (getm (g_enf g') l) k = count_adm (adm_of (g_tab g')) l k) /\
  (forall r, cnt (g_reg g') r = reg_count (g_tab g') r).
Proof. exact evict_returns. Qed.

(* an admitted node is tallied under the IP of its address: the gate is applied for every
   address text the library renders (std's parser/printer behaviour as explicit hypotheses) *)
Theorem C13_address_forms :
  forall (parse_sock : list N -> option (ipaddr * N)) (parse_ip : list N -> option ipaddr)
         (show_sock : ipaddr -> N -> list N) (show_ip : ipaddr -> list N)
         (words : ipaddr -> N -> list N) (garbage : list N),
  (forall ip p, parse_sock (show_sock ip p) = Some (ip, p)) ->
  (forall ip, parse_sock (show_ip ip) = None) ->
  (forall ip, parse_ip (show_ip ip) = Some ip) ->
  (forall ip p ch, In ch (show_sock ip p) -> ch <> 32) ->
  (forall ip ch, In ch (show_ip ip) -> ch <> 32) ->
  forall f, f <> FGarbage ->
  gate_text parse_sock parse_ip (render show_sock show_ip words garbage f) = gate_ip f /\ gate_ip f <> None.
Proof. exact address_forms_all. Qed.

(* the hypotheses of C13_address_forms are satisfiable (a toy printer: one digit for the
   address kind, the value, 58, the port) and the suffix is stripped on a concrete text *)
Example C13_strip_example :
  strip_suffix [49; 46; 50; 58; 57; 32; 40; 97; 45; 98; 41] = [49; 46; 50; 58; 57] /\
  strip_suffix [49; 46; 50; 58; 57] = [49; 46; 50; 58; 57].
Proof. vm_compute. split; reflexivity. Qed.

(* bootstrap cache: add_peer is the enforcer's add on the unified analysis of the first
   address, so two IPv4 peers from unrelated networks are both admitted under the default caps *)
Example C13_bootstrap_two_ipv4_networks :
  let '(s1, r1) := boot_add cfg_default enf_init (IP4 167837955) in
  let '(s2, r2) := boot_add cfg_default s1 (IP4 3325256711) in
  r1 = 1 /\ r2 = 1.
Proof. vm_compute. split; reflexivity. Qed.

(* re-announcing a peer that is already listed (new address, any validator verdict) is a pure
   refresh: the entry keeps the address it was admitted under and no counter moves - so a later
   eviction gives back exactly the slots that were taken at admission *)
Theorem C13_refresh_changes_nothing : forall c self g id addr valid,
  listed (g_tab g) id = true -> estep c self g (EAdd id addr valid) = (g, 0).
Proof. intros c self g id addr valid H. cbn [estep]. rewrite H. reflexivity. Qed.

(* non-vacuity: a concrete history through every branch of the pipeline *)
Example C13_pipeline_example :
  let self := 2 ^ 255 in
  let a i := FDisplay (IP4 (167772160 + i)) 9000 true in
  let ops := [EAdd 1 (a 1) true; EAdd 2 (a 1) true; EAdd 3 (a 2) false; EAdd 4 (a 2) true; EAdd 5 (a 3) true;
              EAdd 6 (a 4) true; EEvict 1; EAdd 7 (a 1) true; EFail 9] in
  map snd (map (fun n => estep cfg_default self (erun cfg_default self eng_init (firstn n ops)) (nth n ops (EFail 0))) [0; 1; 2; 3; 4; 5; 6; 7]%nat)
    = [0; 2; 1; 0; 0; 2; 0; 0].
Proof. vm_compute. reflexivity. Qed.
