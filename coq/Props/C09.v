(* C09 — a peer record verifies only if its owner signed exactly it, cached or not.
   Property theorems only; every proof is [exact lemma].  Model: Model/PeerRecord.v
   (byte-exact signable encoding incl. postcard's encoding of the endpoints,
   verification, signature cache with an eviction oracle, constructor bounds).

   External primitives are Section variables:
     H   : BLAKE3 (user id derivation and cache key),
     vs  : ml_dsa_verify  key -> message -> signature -> bool,
     signed pk m : "the holder of pk's secret key produced a signature on m".
   Their assumed behaviour ([ideal_sig], [collision_free], Model/PeerRecord.v) is
   an explicit hypothesis of each theorem that needs it. *)
From SV Require Import Lib.Base Gen.PeerRecordConsts Model.PeerRecord Proofs.PeerRecord.
Local Open Scope N_scope.

(* ---- the canonical encoding is injective on every field the signature covers:
   id, key, sequence number, name, endpoints (every field of every endpoint),
   timestamp, lifetime (and version).
   [shape_rec] holds of every in-memory Rust value (array and integer widths);
   [canon_rec] excludes the recorded finding v6-scope-flowinfo; a successful
   encoding ([signable_opt _ = Some _]) excludes the empty name. *)
Theorem C09_signable_injective : forall pkw r1 r2 m,
  shape_rec pkw r1 -> shape_rec pkw r2 -> canon_rec r1 -> canon_rec r2 ->
  signable_opt r1 = Some m -> signable_opt r2 = Some m ->
  fields_of r1 = fields_of r2.
Proof. exact signable_injective. Qed.

(* The two excluded classes are exactly where the plain byte encoding is NOT
   injective: (1) None / Some "" names -- closed in the code by refusing to
   encode Some "" (F09c); (2) IPv6 flowinfo / scope_id, which serde does not
   write -- recorded finding v6-scope-flowinfo (the second witness even has a
   successful encoding). *)
Theorem C09_signable_injective_refuted :
  (exists r1 r2, r_name r1 <> r_name r2 /\ signable r1 = signable r2) /\
  (exists r1 r2, r_eps r1 <> r_eps r2 /\ signable r1 = signable r2 /\ signable_opt r1 <> None).
Proof. exact signable_not_injective_outside. Qed.

Section Primitives.
  Variable H : bytes -> bytes.
  Variable vs : bytes -> bytes -> bytes -> bool.
  Variable signed : bytes -> bytes -> Prop.

  (* ---- verification is exactly: encodable, id = hash of the embedded key,
     signature valid over the encoding under the embedded key *)
  Theorem C09_verify_iff : forall r,
    verify H vs r = true <->
    name_empty r = false /\ r_uid r = H (r_pk r) /\ vs (r_pk r) (signable r) (r_sig r) = true.
  Proof. exact (verify_iff H vs). Qed.

  Theorem C09_verify_binds : ideal_sig vs signed -> forall r,
    verify H vs r = true ->
    r_uid r = H (r_pk r) /\ signed (r_pk r) (signable r) /\ r_name r <> Some [].
  Proof. exact (verify_binds H vs signed). Qed.

  (* ---- only exactly what the owner signed verifies.  G = the records the owner
     of r's key ever signed (each as it was when signed).  If the presented record
     verifies, its id is the hash of its key and it agrees with one of them on
     id, key, sequence number, name, endpoints, timestamp and lifetime. *)
  Theorem C09_only_exact : ideal_sig vs signed -> forall pkw (G : list prec) r,
    (forall m, signed (r_pk r) m -> exists g, In g G /\ signable_opt g = Some m) ->
    (forall g, In g G -> shape_rec pkw g /\ canon_rec g) ->
    shape_rec pkw r -> canon_rec r ->
    verify H vs r = true ->
    r_uid r = H (r_pk r) /\ exists g, In g G /\ fields_of g = fields_of r.
  Proof. exact (only_exact H vs signed). Qed.

  (* contrapositive: every alteration of a covered field of anything the owner
     signed, and every record carrying an id that is not the key's hash, is rejected *)
  Theorem C09_altered_rejected : ideal_sig vs signed -> forall pkw (G : list prec) r,
    (forall m, signed (r_pk r) m -> exists g, In g G /\ signable_opt g = Some m) ->
    (forall g, In g G -> shape_rec pkw g /\ canon_rec g) ->
    shape_rec pkw r -> canon_rec r ->
    (r_uid r <> H (r_pk r) \/ forall g, In g G -> fields_of g <> fields_of r) ->
    verify H vs r = false.
  Proof. exact (altered_rejected H vs signed). Qed.

  (* ---- the cache is transparent: for every capacity (0 included), every
     eviction order (the oracle [ev] picks the victim from the step number and the
     whole cache state), every list of records -- genuine, altered, forged, in any
     order -- verify_cached returns exactly what verify_signature returns.
     No assumption on the signature scheme; the hash must have no collision
     among the cache-key byte strings of the records in play. *)
  Theorem C09_cache_transparent : forall pkw sigw cap ev rs,
    Forall (widths pkw sigw) rs -> collision_free H rs ->
    run (fun r => H (key_bytes r)) (verify H vs) cap ev 0 [] rs = map (verify H vs) rs.
  Proof. exact (cache_transparent H vs). Qed.

  (* the cache never holds more than max(capacity,1) verdicts *)
  Theorem C09_cache_bounded : forall cap ev rs,
    (length (final (fun r => H (key_bytes r)) (verify H vs) cap ev 0 [] rs) <= Nat.max cap 1)%nat.
  Proof. exact (cache_bounded H vs). Qed.
End Primitives.

(* ---- the key the code used before the repair (user id, sequence number,
   timestamp) is NOT transparent, even with an injective hash and a scheme with
   unique signatures: a forged record that shares the three fields inherits a
   cached "valid" (F09a). *)
Theorem C09_cache_refuted :
  exists (H : bytes -> bytes) (vs : bytes -> bytes -> bytes -> bool) cap ev rs,
    (forall x y, H x = H y -> x = y) /\
    (forall pk m s, vs pk m s = true -> s = toy_sign pk m) /\
    run (fun r => H (old_key_bytes r)) (verify H vs) cap ev 0 [] rs <> map (verify H vs) rs.
Proof. exact old_key_not_transparent. Qed.

(* ---- construction bounds, with the numbers of the property text, proved from
   the constants regenerated from src/peer_record.rs *)
Theorem C09_bounds : forall name eps ttl,
  validate name eps ttl = true <->
  (match name with Some nm => 1 <= len nm <= 255 | None => True end) /\
  1 <= len eps <= 16 /\ 1 <= ttl <= 86400.
Proof. exact validate_iff. Qed.

Theorem C09_constants :
  PR_MAX_NAME_BYTES = 255 /\ PR_MAX_ENDPOINTS = 16 /\ PR_MAX_TTL_SECONDS = 86400 /\ PR_CURRENT_VERSION = 1.
Proof. repeat split; reflexivity. Qed.

(* ---- non-vacuity: the hypotheses are satisfiable and the definitions compute *)
Example C09_toy_ideal : ideal_sig toy_vs (fun pk m => exists s, toy_vs pk m s = true).
Proof. intros pk m s E. exists s. exact E. Qed.

Example C09_toy_shapes :
  shape_rec 32 toy_genuine /\ canon_rec toy_genuine /\ shape_rec 32 toy_forged /\ canon_rec toy_forged /\
  widths 32 (length (r_sig toy_genuine)) toy_genuine /\ widths 32 (length (r_sig toy_genuine)) toy_forged.
Proof.
  assert (Hep : shape_ep toy_ep).
  { split; [vm_compute; reflexivity|]. split; [split; vm_compute; reflexivity|].
    split; [exact I|]. split; [vm_compute; reflexivity|]. split; [vm_compute; reflexivity|].
    split; [constructor; [vm_compute; reflexivity|constructor]|].
    split; [exact I|vm_compute; reflexivity]. }
  assert (Hs : forall r, r_uid r = toy_pk -> r_pk r = toy_pk -> r_seq r = 1 -> r_eps r = [toy_ep] ->
                         r_ts r = 1000 -> r_ttl r = 300 -> (exists c, r_name r = Some [c]) -> shape_rec 32 r).
  { intros r E1 E2 E3 E4 E5 E6 [c E7]. unfold shape_rec. rewrite E1, E2, E3, E4, E5, E6, E7.
    split; [vm_compute; reflexivity|]. split; [vm_compute; reflexivity|].
    split; [vm_compute; reflexivity|]. split; [vm_compute; reflexivity|].
    split; [vm_compute; reflexivity|]. split; [constructor; [exact Hep|constructor]|].
    split; [vm_compute; reflexivity|]. split; vm_compute; reflexivity. }
  assert (Hc : forall r, r_eps r = [toy_ep] -> canon_rec r).
  { intros r E. unfold canon_rec. rewrite E. constructor; [exact I|constructor]. }
  split; [apply Hs; try reflexivity; eexists; reflexivity|].
  split; [apply Hc; reflexivity|].
  split; [apply Hs; try reflexivity; eexists; reflexivity|].
  split; [apply Hc; reflexivity|].
  split; (split; [vm_compute; reflexivity|split; vm_compute; reflexivity]).
Qed.

Example C09_toy_collision_free : collision_free toy_H [toy_genuine; toy_forged].
Proof. intros r1 r2 _ _ E. exact E. Qed.

Example C09_toy_verdicts :
  verify toy_H toy_vs toy_genuine = true /\ verify toy_H toy_vs toy_forged = false /\
  (* repaired key: transparent on the very history that breaks the old key, capacity 1 *)
  run (fun r => toy_H (key_bytes r)) (verify toy_H toy_vs) 1 (fun _ _ => O) 0 []
      [toy_genuine; toy_forged; toy_genuine; toy_forged] = [true; false; true; false] /\
  run (fun r => toy_H (old_key_bytes r)) (verify toy_H toy_vs) 1 (fun _ _ => O) 0 []
      [toy_genuine; toy_forged; toy_genuine; toy_forged] = [true; true; true; true] /\
  parse_signable 32 (signable toy_genuine) = Some (fields_of toy_genuine, []) /\
  validate (Some [97]) [toy_ep] 300 = true /\ validate (Some []) [toy_ep] 300 = false /\
  validate None [] 300 = false /\ validate None [toy_ep] 86401 = false.
Proof. vm_compute. repeat split; reflexivity. Qed.
