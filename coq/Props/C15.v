(* C15 — close-group membership needs a Byzantine quorum; f liars cannot force it.
   Property theorems only; every proof is [exact lemma].  Model: Model/CloseGroup.v (exact rationals;
   thresholds are the decimal values of the literals in close_group_validator.rs, regenerated on
   every run into Gen/CloseGroupConsts.v). *)
From SV Require Import Lib.Base Gen.CloseGroupConsts Model.CloseGroup Proofs.CloseGroup.
From Coq Require Import QArith.
Local Open Scope Q_scope.

(* The numbers the property text relies on, proved from the regenerated constants:
   71 %, 0.7, unknown trust counts 1/2 (normal mode) resp. 0 (attack mode), minimum witness trust 0.3,
   5 answers, 3 regions, 10 ms collusion window over more than half of at least 3 answers, f = 2,
   2f+1 and 3f+1. *)
Theorem C15_constants :
  CG_THR_BFT == 71 # 100 /\ CG_THR_WEIGHTED == 7 # 10 /\ CG_UNKNOWN_WEIGHT == 1 # 2
  /\ CG_BFT_UNKNOWN_TRUST == 0 /\ CG_MIN_WITNESS_TRUST == 3 # 10
  /\ CG_MIN_PEERS = 5%N /\ CG_MIN_REGIONS = 3%N
  /\ collusion_window_ns = 10000000%N /\ CG_COLLUSION_MIN_RESPONSES = 3%N /\ CG_COLLUSION_DIV = 2%N
  /\ MC_BFT_F = 2%N
  /\ (forall f, required_confirmations f = (2 * f + 1)%N) /\ (forall f, minimum_witnesses f = (3 * f + 1)%N).
Proof. repeat split; reflexivity. Qed.

(* Attack (BFT) mode, every configuration, every response vector, every candidate trust:
   accepted  <=>  enough answers, candidate not below the trust gate, at least the minimum number of
   sufficiently trusted witnesses answered (and at least one), the confirming fraction of them is at
   least the threshold (cross-multiplied), the confirmations span the required number of regions, and
   the collusion flag is down. *)
Theorem C15_bft_needs_quorum : forall c rs cand,
  v_valid (validate_membership c true rs cand) = true <->
  ((c_min_peers c <= lenN rs)%N /\ candidate_low c cand = false
   /\ (c_min_peers c <= lenN (trusted c rs))%N /\ (0 < lenN (trusted c rs))%N
   /\ c_thr_bft c * QofN (lenN (trusted c rs)) <= QofN (confirmations (trusted c rs))
   /\ (c_min_regions c <= count_confirming_regions rs)%N
   /\ detect_collusion (map r_latency (trusted c rs)) = false).
Proof. exact bft_quorum_iff. Qed.

(* 3f+1 trusted witnesses of which at most f confirm (f answer arbitrarily, all the others deny):
   rejected, for every f, whatever the untrusted witnesses say, for every threshold >= 1/3 ... *)
Theorem C15_f_liars : forall c rs cand f,
  (1 # 3) <= c_thr_bft c ->
  lenN (trusted c rs) = (3 * f + 1)%N ->
  (confirmations (trusted c rs) <= f)%N ->
  v_valid (validate_membership c true rs cand) = false.
Proof. exact f_liars_rejected. Qed.

(* ... in particular for the threshold in the source (0.71, regenerated) *)
Theorem C15_f_liars_default : forall c rs cand f,
  c_thr_bft c == CG_THR_BFT ->
  lenN (trusted c rs) = (3 * f + 1)%N ->
  (confirmations (trusted c rs) <= f)%N ->
  v_valid (validate_membership c true rs cand) = false.
Proof. exact f_liars_rejected_default. Qed.

(* stronger form: fewer than a third of the trusted witnesses confirming is never enough *)
Theorem C15_minority_cannot_force : forall c rs cand,
  (1 # 3) <= c_thr_bft c ->
  (3 * confirmations (trusted c rs) < lenN (trusted c rs))%N ->
  v_valid (validate_membership c true rs cand) = false.
Proof. exact minority_rejected. Qed.

(* configuration derived from MaintenanceConfig (threshold (2f+1)/(3f+1), 3f+1 answers required):
   with exactly 3f+1 trusted answers, acceptance needs 2f+1 confirmations *)
Theorem C15_maintenance_quorum : forall f rs cand, let c := cfg_from_maintenance f in
  lenN (trusted c rs) = (3 * f + 1)%N ->
  v_valid (validate_membership c true rs cand) = true -> (2 * f + 1 <= confirmations (trusted c rs))%N.
Proof. exact maintenance_quorum. Qed.

(* Normal mode: accepted <=> enough answers, candidate gate, and the confirming share of the witness
   weight (unknown trust = 1/2, never negative) reaches the threshold.  Regions never reject here. *)
Theorem C15_weighted : forall c rs cand,
  v_valid (validate_membership c false rs cand) = true <->
  ((c_min_peers c <= lenN rs)%N /\ candidate_low c cand = false
   /\ let tw := sumQ (map weight_of rs) in
      let cw := sumQ (map weight_of (filter r_confirms rs)) in
      (0 < tw /\ c_thr_weighted c * tw <= cw) \/ (tw <= 0 /\ c_thr_weighted c <= 0)).
Proof. exact weighted_iff. Qed.

(* Both modes, every configuration: turning any set of confirmations into denials (everything else
   unchanged) never turns a rejection into an acceptance. *)
Theorem C15_flip_monotone : forall c attack rs' rs cand,
  flipped rs' rs ->
  v_valid (validate_membership c attack rs' cand) = true ->
  v_valid (validate_membership c attack rs cand) = true.
Proof. exact flip_monotone. Qed.

Theorem C15_flip_one : forall c attack i rs cand,
  v_valid (validate_membership c attack rs cand) = false ->
  v_valid (validate_membership c attack (flip_at i rs) cand) = false.
Proof. exact flip_one. Qed.

(* The clamp of weights at zero is necessary: with raw weights (the code before the repair, see
   design/C15.md) a witness with a negative trust score makes the weighted decision non-monotone. *)
Theorem C15_flip_monotone_raw_weights_refuted :
  exists rs' rs, flipped rs' rs /\ weighted_accept_raw cfg_default rs' None = true
                 /\ weighted_accept_raw cfg_default rs None = false.
Proof. exact raw_weights_not_monotone. Qed.

(* Unanimous confirmation, attack mode: accepted exactly under the stated side conditions
   (threshold at most 1, enough trusted witnesses, regions, collusion flag down, candidate gate). *)
Theorem C15_unanimous_accept_bft : forall c rs cand,
  Forall (fun r => r_confirms r = true) rs ->
  (c_min_peers c <= lenN rs)%N -> candidate_low c cand = false ->
  (c_min_peers c <= lenN (trusted c rs))%N -> (0 < lenN (trusted c rs))%N ->
  c_thr_bft c <= 1 ->
  (c_min_regions c <= count_confirming_regions rs)%N ->
  detect_collusion (map r_latency (trusted c rs)) = false ->
  v_valid (validate_membership c true rs cand) = true.
Proof. exact unanimous_bft. Qed.

(* "distinct response times": pairwise at least the 10 ms window apart keeps the flag down
   (merely different times do not: see C15_example_collusion) *)
Theorem C15_no_collusion_when_apart : forall lats,
  pairwise_apart collusion_window_ns lats -> detect_collusion lats = false.
Proof. exact no_collusion_when_apart. Qed.

(* Unanimous confirmation, normal mode *)
Theorem C15_unanimous_accept_weighted : forall c rs cand,
  Forall (fun r => r_confirms r = true) rs ->
  (c_min_peers c <= lenN rs)%N -> candidate_low c cand = false ->
  0 < sumQ (map weight_of rs) -> c_thr_weighted c <= 1 ->
  v_valid (validate_membership c false rs cand) = true.
Proof. exact unanimous_weighted. Qed.

(* a rejection always names a reason *)
Theorem C15_rejected_has_reason : forall c attack rs cand,
  v_valid (validate_membership c attack rs cand) = false -> v_fail (validate_membership c attack rs cand) <> [].
Proof. exact rejected_has_reason. Qed.

(* enforcement modes (validate on the cached verdict): Strict returns the verdict and rejects unknown
   nodes, LogOnly lets everything through *)
Theorem C15_enforcement : forall c attack rs cand,
  let v := v_valid (validate_membership c attack rs cand) in
  (c_strict c = true -> validate_cached c (Some v) = v)
  /\ (c_strict c = false -> validate_cached c (Some v) = true)
  /\ validate_cached c None = negb (c_strict c).
Proof. exact enforcement. Qed.

(* validator.rs counters, for every sequence of record_confirmation / record_denial /
   record_no_response: strict majority; >= 2f+1; >= 3f+1 *)
Theorem C15_counters : forall ops f, let s := nv_run ops in
  (nv_is_valid s = true <-> (nv_total s < 2 * nv_conf s)%N)
  /\ (nv_is_valid_bft f s = true <-> (2 * f + 1 <= nv_conf s)%N)
  /\ (nv_sufficient f s = true <-> (3 * f + 1 <= nv_total s)%N)
  /\ (nv_conf s + nv_deny s <= nv_total s)%N /\ nv_total s = lenN ops.
Proof. exact nv_counters. Qed.

Theorem C15_counters_f_liars : forall ops f, let s := nv_run ops in
  nv_total s = (3 * f + 1)%N ->
  ((nv_conf s <= f)%N -> nv_is_valid_bft f s = false)
  /\ ((nv_total s - nv_conf s <= f)%N -> nv_is_valid_bft f s = true /\ nv_is_valid s = true).
Proof. exact nv_f_liars. Qed.

(* ---------- non-vacuity ---------- *)
Definition ex_resp (conf : bool) (trust_milli : Z) (region : N) (lat_ms : N) : resp :=
  mkResp conf (Some (milli trust_milli)) (Some region) (lat_ms * 1000000)%N.

(* the 5-of-7 example of the test suite is accepted in attack mode, 4-of-7 is not (4/7 < 0.71 <= 5/7) *)
Example C15_example_5_of_7 :
  let seven k := [ex_resp true 900 1 50; ex_resp true 800 2 60; ex_resp true 700 3 70; ex_resp true 600 4 80;
                  ex_resp k 500 5 90; ex_resp false 400 6 100; ex_resp false 350 7 110] in
  v_valid (validate_membership cfg_default true (seven true) (Some (1 # 2))) = true
  /\ v_valid (validate_membership cfg_default true (seven false) (Some (1 # 2))) = false
  /\ v_fail (validate_membership cfg_default true (seven false) (Some (1 # 2))) = [InsufficientConfirmation].
Proof. vm_compute. repeat split; reflexivity. Qed.

(* hypotheses of C15_f_liars are satisfiable: f = 2, seven trusted witnesses, two confirm, plus an
   untrusted one confirming *)
Example C15_example_f_liars :
  let rs := [ex_resp true 900 1 50; ex_resp true 800 2 60; ex_resp false 700 3 70; ex_resp false 600 4 80;
             ex_resp false 500 5 90; ex_resp false 400 6 100; ex_resp false 350 7 110; ex_resp true 100 8 120] in
  lenN (trusted cfg_default rs) = (3 * 2 + 1)%N /\ (confirmations (trusted cfg_default rs) <= 2)%N
  /\ (1 # 3) <= c_thr_bft cfg_default
  /\ v_valid (validate_membership cfg_default true rs None) = false.
Proof. vm_compute. repeat split; try reflexivity; discriminate. Qed.

(* unanimous confirmation with response times that are all different but only 2 ms apart is REJECTED in
   attack mode (collusion flag); 20 ms apart it is accepted *)
Example C15_example_collusion :
  let five gap := map (fun i => ex_resp true 800 i (50 + gap * i)) [1; 2; 3; 4; 5]%N in
  v_valid (validate_membership cfg_default true (five 2%N) None) = false
  /\ v_fail (validate_membership cfg_default true (five 2%N) None) = [SuspectedCollusion]
  /\ v_valid (validate_membership cfg_default true (five 20%N) None) = true
  /\ pairwise_apart collusion_window_ns (map r_latency (five 20%N)).
Proof.
  cbv zeta. split; [vm_compute; reflexivity|]. split; [vm_compute; reflexivity|]. split; [vm_compute; reflexivity|].
  change (pairwise_apart 10000000 [70000000; 90000000; 110000000; 130000000; 150000000]%N).
  unfold pairwise_apart.
  repeat (apply FOP_cons; [repeat (apply Forall_cons; [unfold apart; lia|]); apply Forall_nil|]). apply FOP_nil.
Qed.

(* normal mode: 7 of 10 witnesses of unknown trust confirming is the exact tie 0.7 >= 0.7: accepted;
   6 of 10 is not; a region shortfall only adds a warning *)
Example C15_example_weighted_tie :
  let ten k := map (fun i => mkResp (i <? k)%N None (Some 1%N) (i * 20000000)%N) [0; 1; 2; 3; 4; 5; 6; 7; 8; 9]%N in
  v_valid (validate_membership cfg_default false (ten 7%N) None) = true
  /\ v_fail (validate_membership cfg_default false (ten 7%N) None) = [InsufficientGeographicDiversity]
  /\ v_valid (validate_membership cfg_default false (ten 6%N) None) = false.
Proof. vm_compute. repeat split; reflexivity. Qed.

Example C15_example_counters :
  let s := nv_run [RecConfirm; RecConfirm; RecConfirm; RecConfirm; RecConfirm; RecDeny; RecNoResponse] in
  nv_is_valid s = true /\ nv_is_valid_bft 2 s = true /\ nv_sufficient 2 s = true /\ nv_is_valid_bft 3 s = false.
Proof. vm_compute. repeat split; reflexivity. Qed.
