(* XOR-distance lemmas on N, shared by the routing / lookup / selection models.

   A 256-bit key ([u8;32] in the Rust code) is the natural number whose big-endian
   digits are the bytes.  [be_compare] : comparing two 32-byte arrays
   lexicographically (what [u8;32]::cmp does) is comparing those numbers.
   [dist k a = N.lxor a k] is the Kademlia distance of [a] to the key [k]; it is
   injective in [a], so a list sorted by distance to a fixed key is unique.
   [bucket_index l a] = index of the first (most significant) bit in which [a]
   differs from [l], 255 when they are equal (Rust: get_bucket_index). *)
From SV Require Import Lib.Base.
Local Open Scope N_scope.

Definition KEY_BITS : N := 256.
Definition KEY_LIMIT : N := 2 ^ 256.
Definition key_okb (a : N) : bool := a <? KEY_LIMIT.
Definition key_ok (a : N) : Prop := a < KEY_LIMIT.

Definition dist (k a : N) : N := N.lxor a k.

(* ---------- big-endian bytes ---------- *)
Fixpoint of_be_acc (acc : N) (bs : list N) : N :=
  match bs with [] => acc | b :: tl => of_be_acc (acc * 256 + b) tl end.
Definition of_be (bs : list N) : N := of_be_acc 0 bs.

(* lexicographic comparison of two byte strings, as [T; N]::cmp / slice::cmp *)
Fixpoint lex_compare (a b : list N) : comparison :=
  match a, b with
  | [], [] => Eq
  | [], _ :: _ => Lt
  | _ :: _, [] => Gt
  | x :: a', y :: b' => match x ?= y with Eq => lex_compare a' b' | c => c end
  end.

Definition bytes_ok (bs : list N) : Prop := Forall (fun b => b < 256) bs.

Lemma of_be_acc_bound : forall bs acc, bytes_ok bs ->
  acc * 256 ^ N.of_nat (length bs) <= of_be_acc acc bs < (acc + 1) * 256 ^ N.of_nat (length bs).
Proof.
  induction bs as [|b tl IH]; intros acc Hb.
  - cbn [length of_be_acc]. change (N.of_nat 0) with 0. rewrite N.pow_0_r. lia.
  - inversion Hb as [|? ? Hlt Htl]; subst.
    cbn [of_be_acc]. specialize (IH (acc * 256 + b) Htl).
    replace (N.of_nat (length (b :: tl))) with (N.succ (N.of_nat (length tl))) by (cbn [length]; lia).
    rewrite N.pow_succ_r'. nia.
Qed.

Lemma of_be_acc_compare : forall a b acc1 acc2, bytes_ok a -> bytes_ok b -> length a = length b ->
  of_be_acc acc1 a ?= of_be_acc acc2 b =
  match acc1 ?= acc2 with Eq => lex_compare a b | c => c end.
Proof.
  induction a as [|x a IH]; intros [|y b] acc1 acc2 Ha Hb Hlen; try discriminate.
  - cbn [of_be_acc lex_compare]. destruct (acc1 ?= acc2); reflexivity.
  - inversion Ha as [|? ? Hx Ha']; inversion Hb as [|? ? Hy Hb']; subst.
    cbn [of_be_acc lex_compare]. injection Hlen as Hlen.
    rewrite (IH b _ _ Ha' Hb' Hlen).
    destruct (N.compare_spec acc1 acc2) as [E|E|E].
    + subst. destruct (N.compare_spec x y) as [F|F|F].
      * subst. rewrite N.compare_refl. reflexivity.
      * replace (acc2 * 256 + x ?= acc2 * 256 + y) with Lt; [reflexivity|]. symmetry. apply N.compare_lt_iff. lia.
      * replace (acc2 * 256 + x ?= acc2 * 256 + y) with Gt; [reflexivity|]. symmetry. apply N.compare_gt_iff. lia.
    + replace (acc1 * 256 + x ?= acc2 * 256 + y) with Lt; [reflexivity|]. symmetry. apply N.compare_lt_iff. lia.
    + replace (acc1 * 256 + x ?= acc2 * 256 + y) with Gt; [reflexivity|]. symmetry. apply N.compare_gt_iff. lia.
Qed.

(* [u8;32]::cmp on two arrays = comparison of the big-endian integers *)
Lemma be_compare : forall a b, bytes_ok a -> bytes_ok b -> length a = length b ->
  of_be a ?= of_be b = lex_compare a b.
Proof. intros a b Ha Hb Hl. unfold of_be. rewrite (of_be_acc_compare a b 0 0 Ha Hb Hl). reflexivity. Qed.

Lemma of_be_32_key_ok : forall a, bytes_ok a -> length a = 32%nat -> key_ok (of_be a).
Proof.
  intros a Ha Hl. unfold key_ok, of_be. pose proof (of_be_acc_bound a 0 Ha) as [_ H].
  rewrite Hl in H. change (N.of_nat 32) with 32 in H.
  change ((0 + 1) * 256 ^ 32) with KEY_LIMIT in H. exact H.
Qed.

(* bytewise XOR of two arrays is N.lxor of the numbers: not needed by the proofs
   (the model works on N directly); the harness converts [u8;32] to N with of_be. *)

(* ---------- xor algebra ---------- *)
Lemma lxor_cancel_r : forall a k, N.lxor (N.lxor a k) k = a.
Proof. intros. rewrite N.lxor_assoc, N.lxor_nilpotent, N.lxor_0_r. reflexivity. Qed.

Lemma dist_inj : forall k a b, dist k a = dist k b -> a = b.
Proof.
  unfold dist. intros k a b H.
  rewrite <- (lxor_cancel_r a k), H, lxor_cancel_r. reflexivity.
Qed.

Lemma dist_self : forall k, dist k k = 0.
Proof. intros. apply N.lxor_nilpotent. Qed.

Lemma dist_0_iff : forall k a, dist k a = 0 <-> a = k.
Proof. unfold dist. intros. apply N.lxor_eq_0_iff. Qed.

Lemma dist_sym : forall k a, dist k a = dist a k.
Proof. unfold dist. intros. apply N.lxor_comm. Qed.

(* distance to the key through a third point *)
Lemma dist_via : forall l k a, dist k a = N.lxor (N.lxor l a) (N.lxor l k).
Proof.
  unfold dist. intros l k a.
  rewrite (N.lxor_comm l a), N.lxor_assoc, <- (N.lxor_assoc l l k), N.lxor_nilpotent, N.lxor_0_l.
  reflexivity.
Qed.

Lemma lxor_key_ok : forall a b, key_ok a -> key_ok b -> key_ok (N.lxor a b).
Proof.
  unfold key_ok, KEY_LIMIT. intros a b Ha Hb.
  destruct (N.eq_dec (N.lxor a b) 0) as [E|E]; [rewrite E; reflexivity|].
  apply N.log2_lt_pow2; [lia|].
  pose proof (N.log2_lxor a b) as H.
  assert (N.log2 a < 256) by (destruct (N.eq_dec a 0); [subst; cbn; lia | apply N.log2_lt_pow2; lia]).
  assert (N.log2 b < 256) by (destruct (N.eq_dec b 0); [subst; cbn; lia | apply N.log2_lt_pow2; lia]).
  lia.
Qed.

(* ---------- position of the highest differing bit ---------- *)
Lemma testbit_true_le_log2 : forall a n, N.testbit a n = true -> n <= N.log2 a.
Proof.
  intros a n H. destruct (N.le_gt_cases n (N.log2 a)) as [L|L]; [exact L|].
  rewrite (N.bits_above_log2 a n L) in H. discriminate.
Qed.

(* ultrametric law: the xor of two numbers of different bit length has the larger length *)
Lemma log2_lxor_lt : forall x y, N.log2 x < N.log2 y -> N.log2 (N.lxor x y) = N.log2 y.
Proof.
  intros x y H.
  assert (Hy : y <> 0) by (intro; subst; cbn in H; lia).
  apply N.le_antisymm.
  - pose proof (N.log2_lxor x y). lia.
  - apply testbit_true_le_log2. rewrite N.lxor_spec, (N.bits_above_log2 x _ H), (N.bit_log2 y Hy). reflexivity.
Qed.

(* ... and two numbers of the same bit length cancel their top bit *)
Lemma lxor_same_log2 : forall x y, x <> 0 -> y <> 0 -> N.log2 x = N.log2 y -> N.lxor x y < 2 ^ N.log2 x.
Proof.
  intros x y Hx Hy H.
  destruct (N.eq_dec (N.lxor x y) 0) as [E|E].
  - rewrite E. apply N.neq_0_lt_0, N.pow_nonzero. lia.
  - apply N.log2_lt_pow2; [lia|].
    pose proof (N.log2_lxor x y) as Hm.
    destruct (N.eq_dec (N.log2 (N.lxor x y)) (N.log2 x)) as [F|F]; [|lia].
    exfalso. pose proof (N.bit_log2 _ E) as B.
    rewrite F, N.lxor_spec, (N.bit_log2 x Hx), H, (N.bit_log2 y Hy) in B. discriminate.
Qed.

Lemma pow2_le_of_log2 : forall a n, a <> 0 -> n <= N.log2 a -> 2 ^ n <= a.
Proof. intros a n Ha H. apply N.log2_le_pow2; [lia|exact H]. Qed.

Lemma lt_pow2_of_log2 : forall a n, N.log2 a < n -> a < 2 ^ n.
Proof.
  intros a n H. destruct (N.eq_dec a 0) as [E|E].
  - subst. apply N.neq_0_lt_0, N.pow_nonzero. lia.
  - apply N.log2_lt_pow2; [lia|exact H].
Qed.

(* ---------- bucket index ---------- *)
(* Rust (get_bucket_index / get_bucket_index_for_key): first i in 0..256 with bit i
   (counted from the most significant bit of byte 0) of local^id set; 255 if none. *)
Definition bucket_index (l a : N) : N :=
  let x := N.lxor l a in
  if x =? 0 then 255 else 255 - N.log2 x.

(* the loop as written in the Rust source *)
Fixpoint first_set_from (x : N) (i : N) (fuel : nat) : N :=
  match fuel with
  | O => 255
  | S f => if N.testbit x (255 - i) then i else first_set_from x (i + 1) f
  end.
Definition bucket_index_loop (l a : N) : N := first_set_from (N.lxor l a) 0 256.

Lemma first_set_from_spec : forall fuel x i, x <> 0 -> N.of_nat fuel + i = 256 ->
  N.log2 x + i <= 255 -> first_set_from x i fuel = 255 - N.log2 x.
Proof.
  induction fuel as [|f IH]; intros x i Hx Hf Hge.
  - exfalso. cbn in Hf. lia.
  - cbn [first_set_from].
    destruct (N.testbit x (255 - i)) eqn:T.
    + apply testbit_true_le_log2 in T. rewrite Nat2N.inj_succ in Hf. lia.
    + rewrite Nat2N.inj_succ in Hf. apply IH; [exact Hx|lia|].
      assert (255 - i <> N.log2 x) by (intro E; rewrite E, (N.bit_log2 x Hx) in T; discriminate).
      lia.
Qed.

Lemma bucket_index_loop_eq : forall l a, key_ok l -> key_ok a -> bucket_index_loop l a = bucket_index l a.
Proof.
  intros l a Hl Ha. unfold bucket_index_loop, bucket_index.
  destruct (N.eqb_spec (N.lxor l a) 0) as [E|E].
  - rewrite E. vm_compute. reflexivity.
  - apply first_set_from_spec; [exact E|reflexivity|].
    pose proof (lxor_key_ok l a Hl Ha) as Hk. unfold key_ok, KEY_LIMIT in Hk.
    apply N.log2_lt_pow2 in Hk; lia.
Qed.

Lemma bucket_index_le : forall l a, bucket_index l a <= 255.
Proof. intros. unfold bucket_index. destruct (_ =? 0); lia. Qed.

Lemma bucket_index_self : forall l, bucket_index l l = 255.
Proof. intros. unfold bucket_index. rewrite N.lxor_nilpotent. reflexivity. Qed.

Section BucketDistance.
  (* l = local id, k = target key, w/x = stored ids *)
  Variables l k : N.
  Hypothesis Hl : key_ok l.
  Hypothesis Hk : key_ok k.

  Let log2_lx : forall a, key_ok a -> N.log2 (N.lxor l a) <= 255.
  Proof.
    intros a Ha. pose proof (lxor_key_ok l a Hl Ha) as H. unfold key_ok, KEY_LIMIT in H.
    destruct (N.eq_dec (N.lxor l a) 0) as [E|E]; [rewrite E; cbn; lia|].
    apply N.log2_lt_pow2 in H; lia.
  Qed.

  (* A node in a bucket below the target bucket is at distance >= 2^(255-bucket) *)
  Lemma dist_lower_bucket : forall x, key_ok x -> x <> l ->
    bucket_index l x < bucket_index l k ->
    2 ^ (255 - bucket_index l x) <= dist k x.
  Proof.
    intros x Hx Hne Hlt. unfold bucket_index in *.
    assert (Ex : N.lxor l x <> 0) by (rewrite N.lxor_eq_0_iff; congruence).
    pose proof (log2_lx x Hx) as Bx. pose proof (log2_lx k Hk) as Bk.
    rewrite (proj2 (N.eqb_neq _ _) Ex) in *.
    rewrite (dist_via l k x).
    destruct (N.eqb_spec (N.lxor l k) 0) as [Ek|Ek].
    - rewrite Ek, N.lxor_0_r. apply pow2_le_of_log2; [exact Ex|lia].
    - assert (Hl2 : N.log2 (N.lxor l k) < N.log2 (N.lxor l x)) by lia.
      apply pow2_le_of_log2.
      + intro Z. apply (proj1 (N.lxor_eq_0_iff _ _)) in Z. rewrite Z in Hl2. lia.
      + rewrite (N.lxor_comm (N.lxor l x) (N.lxor l k)), (log2_lxor_lt _ _ Hl2). lia.
  Qed.

  (* Every node is at distance < 2^(256 - min(bucket, target bucket)) *)
  Lemma dist_upper_bound : forall x, key_ok x -> x <> l ->
    dist k x < 2 ^ (256 - N.min (bucket_index l x) (bucket_index l k)).
  Proof.
    intros x Hx Hne. unfold bucket_index.
    assert (Ex : N.lxor l x <> 0) by (rewrite N.lxor_eq_0_iff; congruence).
    pose proof (log2_lx x Hx) as Bx. pose proof (log2_lx k Hk) as Bk.
    rewrite (proj2 (N.eqb_neq _ _) Ex).
    rewrite (dist_via l k x).
    destruct (N.eqb_spec (N.lxor l k) 0) as [Ek|Ek].
    - rewrite Ek, N.lxor_0_r. apply lt_pow2_of_log2. lia.
    - apply lt_pow2_of_log2. pose proof (N.log2_lxor (N.lxor l x) (N.lxor l k)). lia.
  Qed.

  (* k <> l: a node in the target bucket is at distance < 2^(255-target) ... *)
  Lemma dist_target_bucket : forall x, key_ok x -> x <> l -> k <> l ->
    bucket_index l x = bucket_index l k ->
    dist k x < 2 ^ (255 - bucket_index l k).
  Proof.
    intros x Hx Hne Hkl Heq. unfold bucket_index in *.
    assert (Ex : N.lxor l x <> 0) by (rewrite N.lxor_eq_0_iff; congruence).
    assert (Ek : N.lxor l k <> 0) by (rewrite N.lxor_eq_0_iff; congruence).
    pose proof (log2_lx x Hx) as Bx. pose proof (log2_lx k Hk) as Bk.
    rewrite (proj2 (N.eqb_neq _ _) Ex), (proj2 (N.eqb_neq _ _) Ek) in *.
    rewrite (dist_via l k x).
    assert (E2 : N.log2 (N.lxor l x) = N.log2 (N.lxor l k)) by lia.
    replace (255 - (255 - N.log2 (N.lxor l k))) with (N.log2 (N.lxor l x)) by lia.
    apply lxor_same_log2; assumption.
  Qed.

  (* ... and a node in a bucket above the target bucket at distance >= 2^(255-target) *)
  Lemma dist_higher_bucket : forall x, key_ok x -> x <> l -> k <> l ->
    bucket_index l k < bucket_index l x ->
    2 ^ (255 - bucket_index l k) <= dist k x.
  Proof.
    intros x Hx Hne Hkl Hlt. unfold bucket_index in *.
    assert (Ex : N.lxor l x <> 0) by (rewrite N.lxor_eq_0_iff; congruence).
    assert (Ek : N.lxor l k <> 0) by (rewrite N.lxor_eq_0_iff; congruence).
    pose proof (log2_lx x Hx) as Bx. pose proof (log2_lx k Hk) as Bk.
    rewrite (proj2 (N.eqb_neq _ _) Ex), (proj2 (N.eqb_neq _ _) Ek) in *.
    rewrite (dist_via l k x).
    assert (Hl2 : N.log2 (N.lxor l x) < N.log2 (N.lxor l k)) by lia.
    apply pow2_le_of_log2.
    - intro Z. apply (proj1 (N.lxor_eq_0_iff _ _)) in Z. rewrite Z in Hl2. lia.
    - rewrite (log2_lxor_lt _ _ Hl2). lia.
  Qed.

  (* The two facts the bucket walk's early exit relies on. *)

  (* (A) every node of the target bucket is closer to the key than every node of any other bucket *)
  Lemma target_bucket_closest : forall w x, key_ok w -> key_ok x -> w <> l -> x <> l ->
    bucket_index l w = bucket_index l k -> bucket_index l x <> bucket_index l k ->
    dist k w < dist k x.
  Proof.
    intros w x Hw Hx Hwl Hxl Ew Nx.
    destruct (N.lt_total (bucket_index l x) (bucket_index l k)) as [L|[E|G]]; [|contradiction|].
    - pose proof (dist_lower_bucket x Hx Hxl L) as Lo.
      pose proof (dist_upper_bound w Hw Hwl) as Up. rewrite Ew, N.min_id in Up.
      assert (2 ^ (256 - bucket_index l k) <= 2 ^ (255 - bucket_index l x)).
      { apply N.pow_le_mono_r; lia. }
      lia.
    - assert (Hkl : k <> l).
      { intro; subst k. rewrite bucket_index_self in G. pose proof (bucket_index_le l x). lia. }
      pose proof (dist_target_bucket w Hw Hwl Hkl Ew).
      pose proof (dist_higher_bucket x Hx Hxl Hkl G). lia.
  Qed.

  (* (B) a node in a bucket below the target is farther than every node in any higher-numbered bucket *)
  Lemma lower_bucket_farther : forall w x, key_ok w -> key_ok x -> w <> l -> x <> l ->
    bucket_index l x < bucket_index l k -> bucket_index l x < bucket_index l w ->
    dist k w < dist k x.
  Proof.
    intros w x Hw Hx Hwl Hxl Lk Lw.
    pose proof (dist_lower_bucket x Hx Hxl Lk) as Lo.
    pose proof (dist_upper_bound w Hw Hwl) as Up.
    assert (2 ^ (256 - N.min (bucket_index l w) (bucket_index l k)) <= 2 ^ (255 - bucket_index l x)).
    { apply N.pow_le_mono_r; lia. }
    lia.
  Qed.
End BucketDistance.
