(* Shared imports and small tactics.  No proofs about the system live here. *)
From Coq Require Export List Arith ZArith NArith Lia Bool.
From Coq Require Export ZifyBool ZifyNat ZifyN.
Export ListNotations.

#[global] Arguments N.add : simpl never.
#[global] Arguments N.sub : simpl never.
#[global] Arguments N.mul : simpl never.
#[global] Arguments N.eqb : simpl never.
#[global] Arguments N.ltb : simpl never.
#[global] Arguments N.leb : simpl never.
#[global] Arguments Z.add : simpl never.
#[global] Arguments Z.sub : simpl never.
#[global] Arguments Z.mul : simpl never.

Ltac Zify.zify_post_hook ::= Z.div_mod_to_equations.

(* destruct the first boolean test found in an [if] of the goal, remembering it *)
Ltac case_if :=
  match goal with
  | |- context [if ?b then _ else _] => let E := fresh "E" in destruct b eqn:E
  end.

Ltac case_if_in H :=
  match type of H with
  | context [if ?b then _ else _] => let E := fresh "E" in destruct b eqn:E
  end.

Ltac inv H := inversion H; subst; clear H.

(* results of correspondence cases: list of ids on which model and implementation differ *)
Definition failing {A} (f : A -> bool) (ident : A -> N) (l : list A) : list N :=
  map ident (filter (fun x => negb (f x)) l).
