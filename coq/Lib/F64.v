(* binary64 values for the executable models (C16): exact construction of a float from its
   IEEE-754 bit pattern, from an integer (round to nearest even, as Rust's `u128 as f64`) and
   from a decimal rational constant of the source.  Nothing here is an axiom of ours: the
   operations are Coq's primitive floats (Floats.PrimFloat), evaluated bit-exactly by vm_compute. *)
From Coq Require Import ZArith NArith QArith Floats SpecFloat.

Definition f64_of_bits (b : N) : float :=
  let sign := N.testbit b 63 in
  let e := N.land (N.shiftr b 52) 2047 in
  let m := N.land b (2 ^ 52 - 1) in
  if (e =? 2047)%N then
    if (m =? 0)%N then (if sign then neg_infinity else infinity) else nan
  else if (e =? 0)%N then
    match m with
    | N0 => if sign then neg_zero else zero
    | Npos p => SF2Prim (S754_finite sign p (-1074))
    end
  else
    match (m + 2 ^ 52)%N with
    | N0 => zero
    | Npos p => SF2Prim (S754_finite sign p (Z.of_N e - 1075))
    end.

(* integer -> nearest binary64 (ties to even) *)
Definition f64_of_Z (z : Z) : float := SF2Prim (binary_normalize 53 1024 z 0 false).
Definition f64_of_N (n : N) : float := f64_of_Z (Z.of_N n).

(* a decimal literal n/d of the source: exact for the literals in use (denominator 1, or
   numerator and denominator both below 2^53 so that the single IEEE division is the
   correctly rounded value of the quotient, which is what the Rust literal denotes) *)
Definition f64_of_Q (q : Q) : float :=
  match Qden q with
  | xH => f64_of_Z (Qnum q)
  | d => PrimFloat.div (f64_of_Z (Qnum q)) (f64_of_Z (Zpos d))
  end.
