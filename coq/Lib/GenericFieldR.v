(* The exact-real instance of Lib/GenericField.v (theorems are stated over it).
   Comparison is decided by the classical total order of R ([Rlt_dec]); nothing here computes. *)
From Coq Require Import Reals NArith ZArith.
From SV Require Import Lib.GenericField.

Definition RF : GField := {|
  T := R;
  zero := 0%R;
  one := 1%R;
  add := Rplus;
  sub := Rminus;
  mul := Rmult;
  div := Rdiv;
  ltb := fun a b => if Rlt_dec a b then true else false;
  absf := Rabs;
  of_N := fun n => IZR (Z.of_N n);
|}.
