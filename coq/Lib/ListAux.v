(* Small list facts used by Proofs/Lookup.v.  No system content. *)
From SV Require Import Lib.Base.

Lemma In_firstn {A} (x : A) n l : In x (firstn n l) -> In x l.
Proof.
  revert n. induction l as [|a l IH]; intros [|n]; cbn [firstn In]; try tauto.
  intros [H|H]; [left; exact H | right; eapply IH; exact H].
Qed.

Lemma NoDup_firstn {A} n (l : list A) : NoDup l -> NoDup (firstn n l).
Proof.
  revert n. induction l as [|a l IH]; intros [|n] H; cbn [firstn]; try constructor.
  - inv H. intro Hin. apply In_firstn in Hin. contradiction.
  - inv H. apply IH; assumption.
Qed.

Lemma NoDup_app_l {A} (l1 l2 : list A) : NoDup (l1 ++ l2) -> NoDup l1.
Proof.
  induction l1 as [|a l1 IH]; cbn [app]; intro H; [constructor|].
  inv H. constructor; [|apply IH; assumption].
  intro Hin. apply H2. apply in_or_app. left; exact Hin.
Qed.

Lemma NoDup_app_r {A} (l1 l2 : list A) : NoDup (l1 ++ l2) -> NoDup l2.
Proof.
  induction l1 as [|a l1 IH]; cbn [app]; intro H; [exact H|].
  inv H. apply IH; assumption.
Qed.

Lemma NoDup_app_disj {A} (l1 l2 : list A) x : NoDup (l1 ++ l2) -> In x l1 -> In x l2 -> False.
Proof.
  induction l1 as [|a l1 IH]; cbn [app In]; intros H H1 H2; [contradiction|].
  inv H. destruct H1 as [->|H1].
  - apply H4. apply in_or_app. right; exact H2.
  - apply IH; assumption.
Qed.

Lemma NoDup_snoc {A} (l : list A) x : NoDup l -> ~ In x l -> NoDup (l ++ [x]).
Proof.
  induction l as [|a l IH]; cbn [app]; intros H Hx.
  - constructor; [intros []|constructor].
  - inv H. constructor.
    + intro Hin. apply in_app_or in Hin. destruct Hin as [Hin|[->|[]]].
      * contradiction.
      * apply Hx. left; reflexivity.
    + apply IH; [assumption|]. intro Hin. apply Hx. right; exact Hin.
Qed.

Lemma NoDup_filter {A} (f : A -> bool) l : NoDup l -> NoDup (filter f l).
Proof.
  induction l as [|a l IH]; cbn [filter]; intro H; [constructor|].
  inv H. destruct (f a); [constructor|]; auto.
  intro Hin. apply filter_In in Hin. tauto.
Qed.
