(* A record of arithmetic operations so that ONE definition of a numeric algorithm can be
   instantiated (i) over exact numbers (R in Lib/GenericFieldR.v for theorems, Q here for exact
   evaluation of witnesses) and (ii) over IEEE binary64 (PrimFloat) for execution against
   the Rust implementation.  Definitions only. *)
From Coq Require Import NArith ZArith QArith Qreduction PrimFloat Uint63 Floats.

Record GField := mkGField {
  T : Type;
  zero : T;
  one : T;
  add : T -> T -> T;
  sub : T -> T -> T;
  mul : T -> T -> T;
  div : T -> T -> T;
  ltb : T -> T -> bool;        (* strict < *)
  absf : T -> T;
  of_N : N -> T;               (* u64 as f64 *)
}.

Arguments zero {_}. Arguments one {_}.
Arguments add {_}. Arguments sub {_}. Arguments mul {_}. Arguments div {_}.
Arguments ltb {_}. Arguments absf {_}. Arguments of_N {_}.

(* a positive decimal constant of the source, e.g. 0.4 = 2/5: numerator / denominator.
   For binary64 the quotient of two exactly representable integers is the correctly rounded
   value of the rational, i.e. the same double as the Rust literal. *)
Definition of_Q {F : GField} (q : Q) : T F :=
  div (of_N (Z.to_N (Qnum q))) (of_N (Npos (Qden q))).

(* IEEE binary64: every operation is the primitive one that rustc emits for f64 *)
Definition FloatF : GField := {|
  T := float;
  zero := PrimFloat.zero;
  one := PrimFloat.one;
  add := PrimFloat.add;
  sub := PrimFloat.sub;
  mul := PrimFloat.mul;
  div := PrimFloat.div;
  ltb := PrimFloat.ltb;
  absf := PrimFloat.abs;
  of_N := fun n => PrimFloat.of_uint63 (Uint63.of_Z (Z.of_N n));
|}.

(* exact rationals, kept reduced so that vm_compute stays small *)
Definition QF : GField := {|
  T := Q;
  zero := 0%Q;
  one := 1%Q;
  add := fun a b => Qred (a + b);
  sub := fun a b => Qred (a - b);
  mul := fun a b => Qred (a * b);
  div := fun a b => Qred (a / b);
  ltb := fun a b => negb (Qle_bool b a);
  absf := fun a => Qabs.Qabs a;
  of_N := fun n => inject_Z (Z.of_N n);
|}.
