(* Stable insertion sort for an arbitrary Boolean order, with the facts the selection model
   needs: permutation, sortedness for a total preorder (on the elements satisfying P),
   stability is by construction (an element is placed before the first element it is not
   strictly after).  Used instead of Sorting.Mergesort because the ranking comparator is only
   a preorder on the values that occur (floats), so the order laws are relative to P. *)
From Coq Require Import Sorting.Sorted Permutation.
From SV Require Import Lib.Base.

Section Isort.
  Context {A : Type}.
  Variable le : A -> A -> bool.

  Fixpoint insert (x : A) (l : list A) : list A :=
    match l with
    | [] => [x]
    | y :: tl => if le x y then x :: l else y :: insert x tl
    end.
  Definition isort (l : list A) : list A := fold_right insert [] l.

  Lemma insert_perm : forall x l, Permutation (x :: l) (insert x l).
  Proof.
    induction l as [|y tl IH]; cbn [insert]; [reflexivity|].
    destruct (le x y); [reflexivity|].
    eapply perm_trans; [apply perm_swap|]. apply perm_skip, IH.
  Qed.

  Lemma isort_perm : forall l, Permutation l (isort l).
  Proof.
    induction l as [|x l IH]; cbn [isort fold_right]; [constructor|].
    eapply perm_trans; [apply perm_skip, IH|]. apply insert_perm.
  Qed.

  Lemma isort_in : forall l x, In x (isort l) <-> In x l.
  Proof.
    intros l x. split; intro H.
    - eapply Permutation_in; [apply Permutation_sym, isort_perm|exact H].
    - eapply Permutation_in; [apply isort_perm|exact H].
  Qed.

  Lemma isort_length : forall l, length (isort l) = length l.
  Proof. intro l. symmetry. apply Permutation_length, isort_perm. Qed.

  Variable P : A -> Prop.
  Hypothesis le_total : forall a b, P a -> P b -> le a b = true \/ le b a = true.
  Hypothesis le_trans : forall a b c, P a -> P b -> P c -> le a b = true -> le b c = true -> le a c = true.

  Definition leP (a b : A) : Prop := le a b = true.

  Lemma insert_forall : forall (Q : A -> Prop) x l, Q x -> Forall Q l -> Forall Q (insert x l).
  Proof.
    intros Q x l Hx Hl. eapply Permutation_Forall; [apply insert_perm|]. constructor; assumption.
  Qed.

  Lemma insert_sorted : forall x l, P x -> Forall P l ->
    StronglySorted leP l -> StronglySorted leP (insert x l).
  Proof.
    induction l as [|y tl IH]; intros Px Pl S; cbn [insert].
    - constructor; constructor.
    - inversion Pl as [|? ? Py Ptl]; subst. inversion S as [|? ? Stl Hy]; subst.
      destruct (le x y) eqn:E.
      + constructor; [exact S|]. constructor; [exact E|].
        rewrite Forall_forall in Ptl, Hy. apply Forall_forall. intros z Hz.
        apply (le_trans x y z); auto. apply Hy, Hz.
      + constructor; [apply IH; assumption|].
        apply insert_forall; [|exact Hy].
        destruct (le_total x y Px Py) as [H|H]; [congruence|exact H].
  Qed.

  Lemma isort_forall : forall (Q : A -> Prop) l, Forall Q l -> Forall Q (isort l).
  Proof. intros Q l H. eapply Permutation_Forall; [apply isort_perm|exact H]. Qed.

  Lemma isort_sorted : forall l, Forall P l -> StronglySorted leP (isort l).
  Proof.
    induction l as [|x l IH]; intro H; cbn [isort fold_right]; [constructor|].
    inversion H; subst. apply insert_sorted; auto. apply isort_forall; assumption.
  Qed.

  (* any sorted permutation of l is isort l when le is antisymmetric on the elements of l *)
  Lemma sorted_perm_unique : forall l1 l2,
    (forall a b, In a l1 -> In b l1 -> le a b = true -> le b a = true -> a = b) ->
    Permutation l1 l2 -> StronglySorted leP l1 -> StronglySorted leP l2 -> l1 = l2.
  Proof.
    induction l1 as [|x l1 IH]; intros l2 Anti Pm S1 S2.
    - apply Permutation_nil in Pm. subst. reflexivity.
    - destruct l2 as [|y l2]; [apply Permutation_sym, Permutation_nil in Pm; discriminate|].
      inversion S1 as [|? ? S1' H1]; subst. inversion S2 as [|? ? S2' H2]; subst.
      rewrite Forall_forall in H1, H2.
      assert (x = y) as ->.
      { assert (Hx : In x (y :: l2)) by (eapply Permutation_in; [exact Pm|left; reflexivity]).
        assert (Hy : In y (x :: l1)) by (eapply Permutation_in; [apply Permutation_sym; exact Pm|left; reflexivity]).
        destruct Hx as [->|Hx]; [reflexivity|]. destruct Hy as [->|Hy]; [reflexivity|].
        apply Anti; [left; reflexivity|right; exact Hy|apply H1; exact Hy|apply H2; exact Hx]. }
      f_equal. apply IH; auto.
      + intros a b Ha Hb. apply Anti; right; assumption.
      + eapply Permutation_cons_inv; exact Pm.
  Qed.
End Isort.
