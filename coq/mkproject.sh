#!/bin/sh
# regenerate _CoqProject and Makefile from the files present (cases/ excluded)
cd "$(dirname "$0")"
{ echo "-Q . SV"; echo "-arg -w -arg -notation-overridden,-deprecated-hint-without-locality,-deprecated-instance-without-locality"; ls Lib/*.v Gen/*.v Model/*.v Proofs/*.v Props/*.v 2>/dev/null; } > _CoqProject.new
if ! cmp -s _CoqProject.new _CoqProject 2>/dev/null || [ ! -f Makefile ]; then
  mv _CoqProject.new _CoqProject
  coq_makefile -f _CoqProject -o Makefile >/dev/null
else
  rm -f _CoqProject.new
fi
