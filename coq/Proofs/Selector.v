(* Lemmas about Model/Selector.v.
   Part 1 (no arithmetic): selection = first [count] of the ranked eligible candidates;
           well-formedness; exclusion floor.
   Part 2: the order laws [laws S] of a number structure and, from them alone, the ranking
           theorems (sortedness of [rank], no farther-before-closer at equal trust, no
           less-trusted-before-more-trusted at equal distance).
   Part 3: [laws qnum] proved for exact rational arithmetic.
   Part 4: the engine selections on the routing table of Model/Routing.v; evicted / failed
           peers are absent until offered again. *)
From Coq Require Import Sorting.Sorted Permutation QArith Qminmax Lqa Floats.
From SV Require Import Lib.Base Lib.Xor Lib.ListAux Lib.Isort Gen.RoutingConsts Gen.SelectorConsts
                       Model.Routing Proofs.Routing Model.Selector.
Local Open Scope N_scope.

(* ------------------------------------------------------------------ generic lists *)
Lemma take_firstn : forall {A} (l : list A) n, take n l = firstn (N.to_nat n) l.
Proof.
  induction l as [|x l IH]; intro n; cbn [take]; [destruct (N.to_nat n); reflexivity|].
  destruct (N.eqb_spec n 0) as [->|Hn]; [reflexivity|].
  replace (N.to_nat n) with (S (N.to_nat (n - 1))) by lia. cbn [firstn]. rewrite IH. reflexivity.
Qed.

Lemma filter_partition_perm : forall {A} (f : A -> bool) l,
  Permutation l (filter f l ++ filter (fun x => negb (f x)) l).
Proof.
  induction l as [|x l IH]; cbn [filter]; [constructor|].
  destruct (f x); cbn [negb app]; [apply perm_skip, IH|].
  apply Permutation_cons_app, IH.
Qed.

Lemma ss_app_split : forall {A} (R : A -> A -> Prop) l1 l2,
  StronglySorted R (l1 ++ l2) -> forall x y, In x l1 -> In y l2 -> R x y.
Proof.
  induction l1 as [|a l1 IH]; intros l2 S x y Hx Hy; [destruct Hx|].
  cbn [app] in S. inversion S as [|? ? S' Ha]; subst. destruct Hx as [->|Hx].
  - rewrite Forall_forall in Ha. apply Ha, in_or_app. right. exact Hy.
  - eapply IH; eauto.
Qed.

Lemma ss_split3 : forall {A} (R : A -> A -> Prop) l1 x l2 y l3,
  StronglySorted R (l1 ++ x :: l2 ++ y :: l3) -> R x y.
Proof.
  intros A R l1 x l2 y l3 S.
  apply (ss_app_split R (l1 ++ [x]) (l2 ++ y :: l3)).
  - rewrite <- app_assoc. exact S.
  - apply in_or_app. right. left. reflexivity.
  - apply in_or_app. right. left. reflexivity.
Qed.

(* ------------------------------------------------------------------ part 1 *)
Section Part1.
  Context {F : Type}.
  Variable S : num F.
  Variable c : @scfg F.
  Variable key : N.
  Variable trust_of : N -> F.

  Definition elig_node (x : node) : bool := eligible S c (entry S c key trust_of x).

  Lemma entry_node : forall x, e_node (entry S c key trust_of x) = x.
  Proof. reflexivity. Qed.

  Lemma map_node_entries : forall l, map e_node (map (entry S c key trust_of) l) = l.
  Proof. intro l. rewrite map_map. cbn [entry e_node]. apply map_id. Qed.

  Lemma filter_entries : forall l,
    filter (eligible S c) (map (entry S c key trust_of) l) = map (entry S c key trust_of) (filter elig_node l).
  Proof.
    induction l as [|x l IH]; [reflexivity|]. cbn [map filter]. unfold elig_node at 1.
    destruct (eligible S c (entry S c key trust_of x)); cbn [map]; rewrite IH; reflexivity.
  Qed.

  Lemma rank_perm : forall cands,
    Permutation (map e_node (rank S c key trust_of cands)) (filter elig_node cands).
  Proof.
    intro cands. unfold rank. rewrite filter_entries.
    eapply perm_trans; [apply Permutation_map, Permutation_sym, isort_perm|].
    rewrite map_node_entries. reflexivity.
  Qed.

  Lemma rank_in : forall cands e, In e (rank S c key trust_of cands) ->
    exists x, In x cands /\ e = entry S c key trust_of x /\ eligible S c e = true.
  Proof.
    intros cands e H. unfold rank in H. apply isort_in in H. apply filter_In in H. destruct H as [H E].
    apply in_map_iff in H. destruct H as [x [<- Hx]]. exists x. auto.
  Qed.

  Lemma select_firstn : forall cands count,
    select S c key trust_of cands count = map e_node (firstn (N.to_nat count) (rank S c key trust_of cands)).
  Proof. intros. unfold select. rewrite take_firstn. reflexivity. Qed.

  (* the answer together with what was left out is the candidate list, as a multiset *)
  Lemma select_multiset : forall cands count,
    exists rest, Permutation cands (select S c key trust_of cands count ++ rest).
  Proof.
    intros cands count. rewrite select_firstn.
    exists (map e_node (skipn (N.to_nat count) (rank S c key trust_of cands)) ++ filter (fun x => negb (elig_node x)) cands).
    rewrite app_assoc, <- map_app, firstn_skipn.
    eapply perm_trans; [apply (filter_partition_perm elig_node)|].
    apply Permutation_app_tail, Permutation_sym, rank_perm.
  Qed.

  Lemma select_incl : forall cands count x, In x (select S c key trust_of cands count) -> In x cands.
  Proof.
    intros cands count x H. destruct (select_multiset cands count) as [rest P].
    eapply Permutation_in; [apply Permutation_sym, P|]. apply in_or_app. left. exact H.
  Qed.

  Lemma select_nodup : forall cands count, NoDup (ids cands) -> NoDup (ids (select S c key trust_of cands count)).
  Proof.
    intros cands count ND. destruct (select_multiset cands count) as [rest P].
    assert (P' : Permutation (ids cands) (ids (select S c key trust_of cands count) ++ ids rest)).
    { unfold ids. rewrite <- map_app. apply Permutation_map, P. }
    eapply NoDup_app_l. eapply Permutation_NoDup; [exact P'|exact ND].
  Qed.

  Lemma select_length : forall cands count,
    N.of_nat (length (select S c key trust_of cands count)) = N.min count (N.of_nat (length (filter elig_node cands))).
  Proof.
    intros. rewrite select_firstn, map_length, firstn_length.
    rewrite <- (Permutation_length (rank_perm cands)), map_length. lia.
  Qed.

  (* every selected peer passed the exclusion test and has a numeric score *)
  Lemma select_eligible : forall cands count x, In x (select S c key trust_of cands count) -> elig_node x = true.
  Proof.
    intros cands count x H. rewrite select_firstn in H. apply in_map_iff in H. destruct H as [e [<- He]].
    apply In_firstn in He. apply rank_in in He. destruct He as [y [_ [-> E]]]. exact E.
  Qed.

  Lemma select_floor : forall cands count x, c_excl c = true -> In x (select S c key trust_of cands count) ->
    ltb S (nan0 S (trust_of (n_id x))) (c_min c) = false.
  Proof.
    intros cands count x Ex H. apply select_eligible in H. unfold elig_node, eligible in H.
    apply andb_true_iff in H. destruct H as [H _]. rewrite Ex in H. cbn [andb entry e_raw] in H.
    apply negb_true_iff in H. exact H.
  Qed.
End Part1.

(* ------------------------------------------------------------------ part 2 *)
Section Laws.
  Context {F : Type}.
  Variable S : num F.
  Notation "a <== b" := (leb S a b = true) (at level 70).
  Notation two := (add S (one S) (one S)).

  (* The order laws.  Every one of them is a fact of exact arithmetic (Part 3) and of IEEE-754
     binary64 (each operation is the correctly rounded exact result, rounding is monotone and
     fixes 0, 1, 2; a comparison with a NaN is false, so every premise below excludes NaN). *)
  Record laws : Prop := mkLaws {
    L_trans : forall a b c, a <== b -> b <== c -> a <== c;
    L_total : forall a b, a <== a -> b <== b -> a <== b \/ b <== a;
    L_ok : forall a b, a <== b -> a <== a /\ b <== b;
    L_ltb : forall a b, ltb S a b = true <-> (a <== b /\ leb S b a = false);
    L_01 : zero S <== one S;
    L_12 : one S <== two;
    L_ofN : forall a b, a <= b -> b < 2 ^ 128 -> zero S <== ofN S a /\ ofN S a <== ofN S b;
    L_div_scale : forall a b, zero S <== a -> a <== b ->
      zero S <== div S a (scale S) /\ div S a (scale S) <== div S b (scale S);
    L_add_one : forall a b, zero S <== a -> a <== b ->
      one S <== add S (one S) a /\ add S (one S) a <== add S (one S) b;
    L_recip : forall a b, one S <== a -> a <== b ->
      zero S <== div S (one S) b /\ div S (one S) b <== div S (one S) a /\ div S (one S) a <== one S;
    L_sub_one : forall a, zero S <== a -> a <== one S ->
      zero S <== sub S (one S) a /\ sub S (one S) a <== one S;
    L_mul : forall a b d, zero S <== a -> a <== b -> b <== two -> zero S <== d -> d <== two ->
      zero S <== mul S a d /\ mul S a d <== mul S b d /\ zero S <== mul S d a /\ mul S d a <== mul S d b;
    L_mul_unit : forall a d, zero S <== a -> a <== one S -> zero S <== d -> d <== one S -> mul S a d <== one S;
    L_add_unit : forall a b d, zero S <== d -> d <== one S -> zero S <== a -> a <== b -> b <== one S ->
      zero S <== add S d a /\ add S d a <== add S d b /\ add S d b <== two
  }.

  Hypothesis L : laws.

  Lemma ok0 : zero S <== zero S. Proof. exact (proj1 (L_ok L _ _ (L_01 L))). Qed.
  Lemma ok1 : one S <== one S. Proof. exact (proj2 (L_ok L _ _ (L_01 L))). Qed.

  Definition in_unit (x : F) : Prop := zero S <== x /\ x <== one S.

  Lemma unit_range : forall x, in_unit (unit S x).
  Proof.
    intro x. unfold unit, in_unit. destruct (ltb S (zero S) x) eqn:E.
    - apply (L_ltb L) in E. destruct E as [E1 E2]. destruct (leb S (one S) x) eqn:E3.
      + split; [apply (L_01 L)|apply ok1].
      + split; [exact E1|]. destruct (L_total L x (one S)) as [H|H]; [apply (L_ok L _ _ E1)|apply ok1|exact H|congruence].
    - split; [apply ok0|apply (L_01 L)].
  Qed.

  Lemma lt_le_trans : forall a b d, a <== b -> ltb S b d = true -> ltb S a d = true.
  Proof.
    intros a b d H1 H2. apply (L_ltb L) in H2. destruct H2 as [H2 H3]. apply (L_ltb L). split.
    - eapply (L_trans L); eauto.
    - destruct (leb S d a) eqn:E; [|reflexivity]. rewrite (L_trans L _ _ _ E H1) in H3. discriminate.
  Qed.

  (* a raw trust below a positive floor - or NaN - is read as below the floor *)
  Lemma unit_below : forall t m, ltb S (zero S) m = true ->
    (ltb S t m = true \/ leb S t t = false) -> ltb S (unit S t) m = true.
  Proof.
    intros t m Hm Ht. unfold unit. destruct (ltb S (zero S) t) eqn:E; [|exact Hm].
    pose proof (proj1 (L_ltb L _ _) E) as [E1 _]. destruct Ht as [Ht|Ht].
    - destruct (leb S (one S) t) eqn:E3; [|exact Ht]. eapply lt_le_trans; eauto.
    - rewrite (proj2 (L_ok L _ _ E1)) in Ht. discriminate.
  Qed.

  (* ---- the score ---- *)
  Lemma dscore_mono : forall d1 d2, d1 <= d2 -> d2 < 2 ^ 128 ->
    zero S <== dscore S d2 /\ dscore S d2 <== dscore S d1 /\ dscore S d1 <== one S.
  Proof.
    intros d1 d2 H1 H2. unfold dscore.
    destruct (L_ofN L d1 d2 H1 H2) as [A1 A2].
    destruct (L_div_scale L _ _ A1 A2) as [B1 B2].
    destruct (L_add_one L _ _ B1 B2) as [C1 C2].
    exact (L_recip L _ _ C1 C2).
  Qed.

  Lemma tfactor_mono : forall w t1 t2, in_unit w -> zero S <== t1 -> t1 <== t2 -> t2 <== one S ->
    zero S <== tfactor S w t1 /\ tfactor S w t1 <== tfactor S w t2 /\ tfactor S w t2 <== two.
  Proof.
    intros w t1 t2 [W1 W2] T1 T12 T2. unfold tfactor.
    destruct (L_sub_one L w W1 W2) as [S1 S2].
    assert (T2' : t2 <== two) by (eapply (L_trans L); [exact T2|apply (L_12 L)]).
    assert (S2' : sub S (one S) w <== two) by (eapply (L_trans L); [exact S2|apply (L_12 L)]).
    destruct (L_mul L t1 t2 (sub S (one S) w) T1 T12 T2' S1 S2') as [_ [_ [M1 M2]]].
    assert (M3 : mul S (sub S (one S) w) t2 <== one S).
    { apply (L_mul_unit L); [exact S1|exact S2|eapply (L_trans L); [exact T1|exact T12]|exact T2]. }
    exact (L_add_unit L _ _ w W1 W2 M1 M2 M3).
  Qed.

  Lemma le_refl_of : forall a b, a <== b -> a <== a.
  Proof. intros a b H. exact (proj1 (L_ok L _ _ H)). Qed.
  Lemma le_refl_of_r : forall a b, a <== b -> b <== b.
  Proof. intros a b H. exact (proj2 (L_ok L _ _ H)). Qed.

  (* closer (as xor_distance sees it) and at least as trusted => at least the score *)
  Lemma score_mono : forall w d1 d2 t1 t2, in_unit w -> d1 <= d2 -> d2 < 2 ^ 128 ->
    zero S <== t2 -> t2 <== t1 -> t1 <== one S ->
    zero S <== mul S (dscore S d2) (tfactor S w t2) /\
    mul S (dscore S d2) (tfactor S w t2) <== mul S (dscore S d1) (tfactor S w t1).
  Proof.
    intros w d1 d2 t1 t2 W D1 D2 T2 T21 T1.
    destruct (dscore_mono d1 d2 D1 D2) as [A1 [A2 A3]].
    destruct (tfactor_mono w t2 t1 W T2 T21 T1) as [B1 [B2 B3]].
    assert (A3' : dscore S d1 <== two) by (eapply (L_trans L); [exact A3|apply (L_12 L)]).
    assert (B23 : tfactor S w t2 <== two) by (eapply (L_trans L); [exact B2|exact B3]).
    destruct (L_mul L _ _ (tfactor S w t2) A1 A2 A3' B1 B23) as [M1 [M2 _]].
    assert (A1' : zero S <== dscore S d1) by (eapply (L_trans L); [exact A1|exact A2]).
    destruct (L_mul L _ _ (dscore S d1) B1 B2 B3 A1' A3') as [_ [_ [_ M4]]].
    split; [exact M1|]. eapply (L_trans L); [exact M2|exact M4].
  Qed.

  (* ---- the comparator is a total preorder on scored entries ---- *)
  Section Lex.
    Context {A : Type}.
    Variable P : A -> Prop.
    Variables r s : A -> A -> bool.
    Definition lexg (a b : A) : bool := r a b && (negb (r b a) || s a b).
    Hypothesis r_total : forall a b, P a -> P b -> r a b = true \/ r b a = true.
    Hypothesis s_total : forall a b, P a -> P b -> s a b = true \/ s b a = true.
    Hypothesis r_trans : forall a b d, P a -> P b -> P d -> r a b = true -> r b d = true -> r a d = true.
    Hypothesis s_trans : forall a b d, P a -> P b -> P d -> s a b = true -> s b d = true -> s a d = true.
    Lemma lexg_total : forall a b, P a -> P b -> lexg a b = true \/ lexg b a = true.
    Proof.
      intros a b Pa Pb. unfold lexg.
      destruct (r a b) eqn:E1, (r b a) eqn:E2; cbn [andb negb orb]; auto.
      destruct (r_total a b Pa Pb); congruence.
    Qed.
    Lemma lexg_trans : forall a b d, P a -> P b -> P d -> lexg a b = true -> lexg b d = true -> lexg a d = true.
    Proof.
      intros a b d Pa Pb Pd H1 H2. unfold lexg in *.
      apply andb_true_iff in H1. destruct H1 as [R1 H1]. apply andb_true_iff in H2. destruct H2 as [R2 H2].
      rewrite (r_trans a b d Pa Pb Pd R1 R2). cbn [andb].
      destruct (r d a) eqn:E; cbn [negb orb]; [|reflexivity].
      pose proof (r_trans d a b Pd Pa Pb E R1) as Rdb. rewrite Rdb in H2. cbn [negb orb] in H2.
      pose proof (r_trans b d a Pb Pd Pa R2 E) as Rba. rewrite Rba in H1. cbn [negb orb] in H1.
      exact (s_trans a b d Pa Pb Pd H1 H2).
    Qed.
  End Lex.

  Definition numbered (e : @ent F) : Prop := e_score e <== e_score e /\ e_trust e <== e_trust e.

  Lemma before_eq_total : forall a b, numbered a -> numbered b -> before_eq S a b = true \/ before_eq S b a = true.
  Proof.
    intros a b Pa Pb. unfold before_eq. apply (lexg_total numbered (sle S) (lex dle (tle S))); auto.
    - intros x y [X _] [Y _]. unfold sle. destruct (L_total L (e_score y) (e_score x) Y X); auto.
    - intros x y Px Py. apply (lexg_total numbered dle (tle S)); auto.
      + intros u v _ _. unfold dle. destruct (N.leb_spec (e_dist u) (e_dist v)); [left; reflexivity|right; apply N.leb_le; lia].
      + intros u v [_ U] [_ V]. unfold tle. destruct (L_total L (e_trust v) (e_trust u) V U); auto.
  Qed.

  Lemma before_eq_trans : forall a b d, numbered a -> numbered b -> numbered d ->
    before_eq S a b = true -> before_eq S b d = true -> before_eq S a d = true.
  Proof.
    intros a b d Pa Pb Pd. unfold before_eq.
    apply (lexg_trans numbered (sle S) (lex dle (tle S))); auto.
    - intros x y z _ _ _. unfold sle. intros H1 H2. eapply (L_trans L); eauto.
    - intros x y z Px Py Pz. apply (lexg_trans numbered dle (tle S)); auto.
      + intros u v w _ _ _. unfold dle. rewrite !N.leb_le. lia.
      + intros u v w _ _ _. unfold tle. intros H1 H2. eapply (L_trans L); eauto.
  Qed.

  (* ---- entries built by [entry] ---- *)
  Variable c : @scfg F.
  Variable key : N.
  Variable trust_of : N -> F.
  Hypothesis key_is_256 : key_ok key.

  Lemma low_bits_128 : LOW_BITS = 128.
  Proof. reflexivity. Qed.

  Lemma d16_bound : forall id, key_ok id -> d16 key id < 2 ^ 128.
  Proof.
    intros id K. unfold d16. rewrite low_bits_128.
    assert (D : dist key id < 2 ^ 256) by (unfold dist; apply lxor_key_ok; assumption).
    apply N.div_lt_upper_bound; [apply N.pow_nonzero; lia|].
    replace (2 ^ 128 * 2 ^ 128) with (2 ^ 256) by (rewrite <- N.pow_add_r; reflexivity). exact D.
  Qed.

  Lemma d16_mono : forall a b, dist key a <= dist key b -> d16 key a <= d16 key b.
  Proof. intros a b H. unfold d16. apply N.div_le_mono; [apply N.pow_nonzero; lia|exact H]. Qed.

  Lemma entry_numbered : forall x, key_ok (n_id x) -> numbered (entry S c key trust_of x).
  Proof.
    intros x K. unfold numbered, entry. cbn [e_score e_trust]. unfold score.
    destruct (unit_range (trust_of (n_id x))) as [T1 T2].
    split; [|exact (le_refl_of_r _ _ T1)].
    destruct (score_mono (unit S (c_weight c)) (d16 key (n_id x)) (d16 key (n_id x))
                (unit S (trust_of (n_id x))) (unit S (trust_of (n_id x)))
                (unit_range _) (N.le_refl _) (d16_bound _ K) T1 (le_refl_of_r _ _ T1) T2) as [_ H].
    exact (le_refl_of _ _ H).
  Qed.

  Lemma rank_sorted : forall cands, Forall (fun x => key_ok (n_id x)) cands ->
    StronglySorted (fun a b => before_eq S a b = true) (rank S c key trust_of cands).
  Proof.
    intros cands K. unfold rank.
    apply (isort_sorted (before_eq S) numbered before_eq_total before_eq_trans).
    apply Forall_forall. intros e He. apply filter_In in He. destruct He as [He _].
    apply in_map_iff in He. destruct He as [x [<- Hx]]. apply entry_numbered.
    rewrite Forall_forall in K. apply K, Hx.
  Qed.

  (* the two ranking laws for a pair of scored candidates, the first of which is placed
     before_eq the second: the second is neither closer with equal trust, nor equally far
     and more trusted *)
  Lemma before_eq_not_misranked : forall x y, key_ok (n_id x) -> key_ok (n_id y) ->
    before_eq S (entry S c key trust_of x) (entry S c key trust_of y) = true ->
    misranked S (entry S c key trust_of x) (entry S c key trust_of y) = false.
  Proof.
    intros x y Kx Ky B. unfold misranked. cbn [entry e_trust e_dist].
    set (tx := unit S (trust_of (n_id x))) in *. set (ty := unit S (trust_of (n_id y))) in *.
    destruct (unit_range (trust_of (n_id x))) as [X1 X2]. fold tx in X1, X2.
    destruct (unit_range (trust_of (n_id y))) as [Y1 Y2]. fold ty in Y1, Y2.
    unfold before_eq, lex, sle, dle, tle in B. cbn [entry e_score e_dist e_trust] in B. fold tx ty in B.
    unfold score in B.
    apply andb_true_iff in B. destruct B as [B1 B2].
    apply orb_false_iff. split.
    - (* y closer, equal trust *)
      apply andb_false_iff. destruct (feq S tx ty) eqn:E; [right|left; reflexivity].
      apply andb_true_iff in E. destruct E as [E1 E2].
      destruct (N.ltb_spec (dist key (n_id y)) (dist key (n_id x))) as [Lt|Ge]; [exfalso|reflexivity].
      assert (D : d16 key (n_id y) <= d16 key (n_id x)) by (apply d16_mono; lia).
      destruct (score_mono (unit S (c_weight c)) _ _ ty tx (unit_range _) D (d16_bound _ Kx) X1 E1 Y2) as [_ M].
      rewrite M in B2. cbn [negb orb] in B2. apply andb_true_iff in B2. destruct B2 as [B2 _].
      apply N.leb_le in B2. lia.
    - (* equally far, y more trusted *)
      apply andb_false_iff. destruct (N.eqb_spec (dist key (n_id x)) (dist key (n_id y))) as [E|NE]; [right|left; reflexivity].
      destruct (ltb S tx ty) eqn:Lt; [exfalso|reflexivity].
      apply (L_ltb L) in Lt. destruct Lt as [Lt1 Lt2].
      assert (D : d16 key (n_id y) <= d16 key (n_id x)) by (apply d16_mono; lia).
      destruct (score_mono (unit S (c_weight c)) _ _ ty tx (unit_range _) D (d16_bound _ Kx) X1 Lt1 Y2) as [_ M].
      rewrite M in B2. cbn [negb orb] in B2. apply andb_true_iff in B2. destruct B2 as [_ B2].
      rewrite E, N.leb_refl in B2. cbn [negb orb] in B2. congruence.
  Qed.

  Lemma rank_entry_key_ok : forall cands e, Forall (fun x => key_ok (n_id x)) cands ->
    In e (rank S c key trust_of cands) -> exists x, In x cands /\ key_ok (n_id x) /\ e = entry S c key trust_of x.
  Proof.
    intros cands e K H. apply rank_in in H. destruct H as [x [Hx [-> _]]].
    exists x. rewrite Forall_forall in K. auto.
  Qed.

  (* whoever stands before somebody in the ranking is not misranked against it *)
  Lemma rank_no_misrank : forall cands l1 x l2 y l3, Forall (fun x => key_ok (n_id x)) cands ->
    rank S c key trust_of cands = l1 ++ x :: l2 ++ y :: l3 -> misranked S x y = false.
  Proof.
    intros cands l1 x l2 y l3 K E.
    pose proof (rank_sorted cands K) as Srt. rewrite E in Srt. apply ss_split3 in Srt.
    assert (Ix : In x (rank S c key trust_of cands)) by (rewrite E; apply in_or_app; right; left; reflexivity).
    assert (Iy : In y (rank S c key trust_of cands)).
    { rewrite E. apply in_or_app. right. right. apply in_or_app. right. left. reflexivity. }
    destruct (rank_entry_key_ok _ _ K Ix) as [nx [_ [Kx ->]]].
    destruct (rank_entry_key_ok _ _ K Iy) as [ny [_ [Ky ->]]].
    apply before_eq_not_misranked; assumption.
  Qed.

  (* the cut at [count]: nobody selected is misranked against anybody eligible left out *)
  Lemma rank_cut : forall cands count x y, Forall (fun x => key_ok (n_id x)) cands ->
    In x (firstn count (rank S c key trust_of cands)) -> In y (skipn count (rank S c key trust_of cands)) ->
    misranked S x y = false.
  Proof.
    intros cands count x y K Hx Hy.
    pose proof (rank_sorted cands K) as Srt. rewrite <- (firstn_skipn count) in Srt.
    pose proof (ss_app_split _ _ _ Srt x y Hx Hy) as B.
    assert (Ix : In x (rank S c key trust_of cands)) by (apply In_firstn in Hx; exact Hx).
    assert (Iy : In y (rank S c key trust_of cands)) by (rewrite <- (firstn_skipn count); apply in_or_app; right; exact Hy).
    destruct (rank_entry_key_ok _ _ K Ix) as [nx [_ [Kx ->]]].
    destruct (rank_entry_key_ok _ _ K Iy) as [ny [_ [Ky ->]]].
    apply before_eq_not_misranked; assumption.
  Qed.

  (* distinct ids: the ranking is THE sorted arrangement (no dependence on the sort algorithm) *)
  Lemma rank_unique : forall cands l, Forall (fun x => key_ok (n_id x)) cands -> NoDup (ids cands) ->
    Permutation l (filter (eligible S c) (map (entry S c key trust_of) cands)) ->
    StronglySorted (fun a b => before_eq S a b = true) l -> l = rank S c key trust_of cands.
  Proof.
    intros cands l K ND P Srt.
    apply (sorted_perm_unique (before_eq S)); [| |exact Srt|apply rank_sorted; exact K].
    - intros a b Ha Hb H1 H2.
      assert (A : forall e, In e l -> exists x, In x cands /\ e = entry S c key trust_of x).
      { intros e He. eapply Permutation_in in He; [|exact P]. apply filter_In in He. destruct He as [He _].
        apply in_map_iff in He. destruct He as [x [<- Hx]]. eauto. }
      destruct (A a Ha) as [xa [Ia ->]]. destruct (A b Hb) as [xb [Ib ->]].
      assert (D : dist key (n_id xa) = dist key (n_id xb)).
      { unfold before_eq, lex, sle, dle in H1, H2. cbn [entry e_score e_dist] in H1, H2.
        apply andb_true_iff in H1. destruct H1 as [S1 H1]. apply andb_true_iff in H2. destruct H2 as [S2 H2].
        rewrite S2 in H1. rewrite S1 in H2. cbn [negb orb] in H1, H2.
        apply andb_true_iff in H1. destruct H1 as [H1 _]. apply andb_true_iff in H2. destruct H2 as [H2 _].
        apply N.leb_le in H1, H2. lia. }
      apply dist_inj in D. rewrite (nodup_ids_inj cands xa xb ND Ia Ib D). reflexivity.
    - eapply perm_trans; [exact P|]. unfold rank. apply isort_perm.
  Qed.
End Laws.

(* ------------------------------------------------------------------ part 3 *)
(* exact rational arithmetic satisfies the laws *)
Section QLaws.
  Local Open Scope Q_scope.

  Lemma qb : forall a b : Q, Qle_bool a b = true <-> a <= b.
  Proof. exact Qle_bool_iff. Qed.

  Lemma scale_pos : 0 < SEL_SCALE.
  Proof. reflexivity. Qed.

  Lemma q_laws : laws qnum.
  Proof.
    constructor; cbn [leb ltb zero one scale add sub mul div ofN qnum]; intros; rewrite ?qb in *.
    - eapply Qle_trans; eauto.
    - destruct (Qlt_le_dec b a) as [H1|H1]; [right; apply Qlt_le_weak; exact H1|left; exact H1].
    - split; apply Qle_refl.
    - rewrite negb_true_iff. split.
      + intro H. split; [|exact H]. apply Qlt_le_weak, Qnot_le_lt. intro H1. apply qb in H1. congruence.
      + tauto.
    - discriminate.
    - discriminate.
    - split.
      + change 0 with (inject_Z 0). rewrite <- Zle_Qle. lia.
      + rewrite <- Zle_Qle. lia.
    - pose proof scale_pos as P.
      assert (I : 0 <= / SEL_SCALE) by (apply Qinv_le_0_compat, Qlt_le_weak, P).
      unfold Qdiv. split.
      + apply Qmult_le_0_compat; assumption.
      + apply Qmult_le_compat_r; assumption.
    - split; lra.
    - assert (Pa : 0 < a) by lra. assert (Pb : 0 < b) by lra. repeat split.
      + apply Qle_shift_div_l; [exact Pb|]. lra.
      + apply Qle_shift_div_l; [exact Pa|].
        setoid_replace (1 / b * a) with (a / b) by (unfold Qdiv; ring).
        apply Qle_shift_div_r; [exact Pb|]. lra.
      + apply Qle_shift_div_r; [exact Pa|]. lra.
    - split; lra.
    - repeat split; nra.
    - nra.
    - repeat split; lra.
  Qed.
End QLaws.

(* ------------------------------------------------------------------ part 4 *)
(* the engine's selections over the routing table *)
Section Engine.
  Context {F : Type}.
  Variable S : num F.

  Lemma widen_pos : 1 <= SEL_QUERY_WIDEN /\ 1 <= SEL_STORAGE_WIDEN.
  Proof. split; unfold SEL_QUERY_WIDEN, SEL_STORAGE_WIDEN; lia. Qed.

  Lemma firstn_firstn_le : forall {A} (l : list A) n m, (n <= m)%nat -> firstn n (firstn m l) = firstn n l.
  Proof. intros A l n m H. rewrite firstn_firstn. f_equal. lia. Qed.

  (* trust selection disabled: exactly the [count] closest entries of the table, nearest first *)
  Lemma engine_disabled : forall trust_of storage t key count, Inv t -> key_ok key ->
    engine_select S None trust_of storage t key count = closest_spec t key count.
  Proof.
    intros trust_of storage t key count I K. unfold engine_select, closest_spec.
    rewrite take_firstn, (closest_exact t key _ I K).
    apply firstn_firstn_le. destruct widen_pos. destruct storage; nia.
  Qed.

  Lemma closest_sub : forall t key count x, Inv t -> key_ok key -> In x (closest t key count) -> In x (all_nodes t).
  Proof. intros t key count x I K H. rewrite (closest_exact t key count I K) in H. apply In_firstn, sort_in in H. exact H. Qed.

  Lemma closest_nodup : forall t key count, Inv t -> key_ok key -> NoDup (ids (closest t key count)).
  Proof.
    intros t key count I K. rewrite (closest_exact t key count I K).
    apply nodup_ids_firstn, sort_ids_nodup, inv_all_nodup, I.
  Qed.

  Lemma closest_key_ok : forall t key count, Inv t -> key_ok key -> Forall (fun x => key_ok (n_id x)) (closest t key count).
  Proof.
    intros t key count I K. apply Forall_forall. intros x H. apply (closest_sub _ _ _ _ I K) in H.
    apply (in_all_nodes t x I) in H. destruct H as [i H]. destruct I as [_ [Hp _]]. apply (Hp i x H).
  Qed.

  Lemma take_incl : forall {A} n (l : list A) x, In x (take n l) -> In x l.
  Proof. intros A n l x H. rewrite take_firstn in H. apply In_firstn in H. exact H. Qed.

  (* every engine selection: members of the table, each id once, at most [count] *)
  Lemma engine_select_wf : forall sel trust_of storage t key count, Inv t -> key_ok key ->
    let res := engine_select S sel trust_of storage t key count in
    (forall x, In x res -> In x (all_nodes t)) /\ NoDup (ids res) /\ N.of_nat (length res) <= count /\
    ~ In (t_local t) (ids res).
  Proof.
    intros sel trust_of storage t key count I K res.
    set (w := if storage then SEL_STORAGE_WIDEN else SEL_QUERY_WIDEN).
    assert (Sub : forall x, In x res -> In x (closest t key (count * w))).
    { intros x H. subst res. unfold engine_select in H. fold w in H.
      destruct sel as [[qc sc]|]; [apply select_incl in H; exact H|apply take_incl in H; exact H]. }
    assert (A : forall x, In x res -> In x (all_nodes t)) by (intros x H; eapply closest_sub; eauto).
    split; [exact A|]. split; [|split].
    - subst res. unfold engine_select. fold w. destruct sel as [[qc sc]|].
      + apply select_nodup, closest_nodup; assumption.
      + rewrite take_firstn. apply nodup_ids_firstn, closest_nodup; assumption.
    - subst res. unfold engine_select. fold w. destruct sel as [[qc sc]|].
      + rewrite select_length. lia.
      + rewrite take_firstn, firstn_length. lia.
    - intro H. apply in_ids_inv in H. destruct H as [x [Hx E]]. apply A in Hx.
      apply (inv_local_absent t I). rewrite <- E. apply in_ids, Hx.
  Qed.

  Lemma engine_select_storage_eq : forall qc sc trust_of t key count,
    engine_select S (Some (qc, sc)) trust_of true t key count =
    select S sc key trust_of (closest t key (count * SEL_STORAGE_WIDEN)) count.
  Proof. reflexivity. Qed.
  Lemma engine_select_query_eq : forall qc sc trust_of t key count,
    engine_select S (Some (qc, sc)) trust_of false t key count =
    select S qc key trust_of (closest t key (count * SEL_QUERY_WIDEN)) count.
  Proof. reflexivity. Qed.

  (* storage selections respect the floor of the storage configuration *)
  Lemma engine_storage_floor : forall qc sc trust_of t key count x, c_excl sc = true ->
    In x (engine_select S (Some (qc, sc)) trust_of true t key count) ->
    ltb S (nan0 S (trust_of (n_id x))) (c_min sc) = false.
  Proof.
    intros qc sc trust_of t key count x E H. rewrite engine_select_storage_eq in H.
    eapply select_floor; [exact E|exact H].
  Qed.
End Engine.

(* ---- evicted / failed peers stay away until offered again ---- *)
Definition offers (id : N) (o : op) : bool :=
  match o with
  | Add x _ => n_id x =? id
  | Join l => existsb (fun x => n_id x =? id) l
  | _ => false
  end.

Definition listed (t : table) (id : N) : Prop := exists i x, In x (t_buckets t i) /\ n_id x = id.

Lemma bucket_add_in : forall cap b x b' y, bucket_add cap b x = Some b' -> In y b' -> In y b \/ y = x.
Proof.
  intros cap b x b' y H Hy. unfold bucket_add in H.
  destruct (find (fun z => n_id z =? n_id x) b) as [old|] eqn:Fd.
  - injection H as <-. apply in_app_iff in Hy. destruct Hy as [Hy|[<-|[]]].
    + apply without_id_in in Hy. left. tauto.
    + apply find_some in Fd. left. tauto.
  - destruct (N.of_nat (length b) <? cap); [|discriminate]. injection H as <-.
    apply in_app_iff in Hy. destruct Hy as [Hy|[<-|[]]]; auto.
Qed.

Lemma table_add_listed : forall t x id, listed (fst (table_add t x)) id -> listed t id \/ n_id x = id.
Proof.
  intros t x id [i [y [Hy E]]]. unfold table_add in Hy.
  destruct (n_id x =? t_local t); [left; exists i, y; auto|].
  destruct (bucket_add (t_cap t) (t_buckets t (bucket_index (t_local t) (n_id x))) x) as [b'|] eqn:B; [|left; exists i, y; auto].
  cbn [fst set_bucket t_buckets] in Hy. destruct (i =? bucket_index (t_local t) (n_id x)); [|left; exists i, y; auto].
  destruct (bucket_add_in _ _ _ _ _ B Hy) as [H| ->]; [left; eexists _, y; eauto|right; exact E].
Qed.

Lemma table_join_listed : forall l t id, listed (fst (table_join t l)) id -> listed t id \/ existsb (fun x => n_id x =? id) l = true.
Proof.
  induction l as [|x l IH]; intros t id H; cbn [table_join] in H; [left; exact H|].
  cbn [existsb]. destruct (table_add t x) as [t1 ok] eqn:A.
  assert (A1 : listed t1 id -> listed t id \/ n_id x = id).
  { intro H1. apply table_add_listed. rewrite A. exact H1. }
  destruct ok.
  - destruct (IH t1 id H) as [H1|H1]; [|right; rewrite H1; apply orb_true_r].
    destruct (A1 H1) as [H2|H2]; [left; exact H2|right]. apply N.eqb_eq in H2. rewrite H2. reflexivity.
  - cbn [fst] in H. destruct (A1 H) as [H2|H2]; [left; exact H2|right]. apply N.eqb_eq in H2. rewrite H2. reflexivity.
Qed.

Lemma table_remove_listed : forall t id id', listed (table_remove t id) id' -> listed t id'.
Proof.
  intros t id id' [i [y [Hy E]]]. unfold table_remove in Hy. cbn [set_bucket t_buckets] in Hy.
  destruct (i =? bucket_index (t_local t) id); [apply without_id_in in Hy; exists (bucket_index (t_local t) id), y; tauto|exists i, y; auto].
Qed.

Lemma table_remove_unlisted : forall t id, Inv t -> ~ listed (table_remove t id) id.
Proof.
  intros t id I [i [y [Hy E]]]. unfold table_remove in Hy. cbn [set_bucket t_buckets] in Hy.
  destruct (N.eqb_spec i (bucket_index (t_local t) id)) as [->|Ne].
  - apply without_id_in in Hy. tauto.
  - destruct I as [_ [Hp _]]. destruct (Hp i y Hy) as [_ [_ B]]. rewrite E in B. congruence.
Qed.

Lemma step_listed : forall t o id, offers id o = false -> listed (fst (step t o)) id -> listed t id.
Proof.
  intros t o id Off H. destruct o; cbn [step offers] in *; try exact H.
  - destruct (table_join t l) as [t1 ok] eqn:J. cbn [fst] in H.
    destruct (table_join_listed l t id) as [H1|H1]; [rewrite J; exact H|exact H1|congruence].
  - destruct (engine_add t x gate) as [t1 ok] eqn:A. cbn [fst] in H.
    assert (A1 : listed (fst (table_add t x)) id -> listed t id).
    { intro H1. destruct (table_add_listed t x id H1) as [H2|H2]; [exact H2|]. apply N.eqb_neq in Off. congruence. }
    unfold engine_add in A. destruct ((n_id x =? t_local t) || table_contains t (n_id x)).
    + apply A1. rewrite A. exact H.
    + destruct gate; [apply A1; rewrite A; exact H|injection A as <- _; exact H].
  - eapply table_remove_listed; eauto.
  - eapply table_remove_listed; eauto.
Qed.

Lemma run_listed : forall ops t id, forallb (fun o => negb (offers id o)) ops = true ->
  listed (fst (run t ops)) id -> listed t id.
Proof.
  induction ops as [|o ops IH]; intros t id Off H; cbn [run] in H; [exact H|].
  cbn [forallb] in Off. apply andb_true_iff in Off. destruct Off as [O1 O2]. apply negb_true_iff in O1.
  destruct (step t o) as [t1 r] eqn:St. destruct (run t1 ops) as [t2 rs] eqn:Rn. cbn [fst] in H.
  apply (step_listed t o id O1). rewrite St. cbn [fst]. apply (IH t1 id O2). rewrite Rn. exact H.
Qed.

Lemma run_app_fst : forall ops1 ops2 t, fst (run t (ops1 ++ ops2)) = fst (run (fst (run t ops1)) ops2).
Proof.
  induction ops1 as [|o ops1 IH]; intros ops2 t; [reflexivity|].
  cbn [app run]. destruct (step t o) as [t1 r]. specialize (IH ops2 t1).
  destruct (run t1 (ops1 ++ ops2)) as [t2 rs]. destruct (run t1 ops1) as [t3 rs3]. cbn [fst] in *. exact IH.
Qed.

Lemma listed_all_nodes : forall t id, Inv t -> (In id (ids (all_nodes t)) <-> listed t id).
Proof.
  intros t id I. split.
  - intro H. apply in_ids_inv in H. destruct H as [x [Hx E]]. apply (in_all_nodes t x I) in Hx.
    destruct Hx as [i Hx]. exists i, x. auto.
  - intros [i [x [Hx E]]]. rewrite <- E. apply in_ids. apply (in_all_nodes t x I). exists i. exact Hx.
Qed.

Lemma run_cons_fst : forall t o ops, fst (run t (o :: ops)) = fst (run (fst (step t o)) ops).
Proof. intros. cbn [run]. destruct (step t o) as [t1 r]. cbn [fst]. destruct (run t1 ops). reflexivity. Qed.

(* after handle_node_failure / evict_node of [id], whatever follows that does not offer [id]
   again (add_node / join_network naming it), the table does not list it *)
Lemma removed_stays_absent : forall local ops1 o ops2 id, key_ok local ->
  Forall op_ok (ops1 ++ o :: ops2) -> (o = Fail id \/ o = Evict id) ->
  forallb (fun o => negb (offers id o)) ops2 = true ->
  let t := fst (run (start local) (ops1 ++ o :: ops2)) in
  Inv t /\ ~ In id (ids (all_nodes t)).
Proof.
  intros local ops1 o ops2 id Kl Fa Ho Off t.
  assert (It : Inv t) by (apply reach_inv; assumption).
  split; [exact It|]. intro H. apply (listed_all_nodes t id It) in H.
  subst t. rewrite run_app_fst, run_cons_fst in H.
  apply Forall_app in Fa. destruct Fa as [F1 _].
  pose proof (reach_inv local ops1 Kl F1) as I1.
  apply run_listed in H; [|exact Off].
  assert (E : fst (step (fst (run (start local) ops1)) o) = table_remove (fst (run (start local) ops1)) id)
    by (destruct Ho as [-> | ->]; reflexivity).
  rewrite E in H. exact (table_remove_unlisted _ id I1 H).
Qed.

(* ---- reading [misranked = false] ---- *)
Lemma not_misranked : forall {F} (S : num F) (x y : @ent F), misranked S x y = false ->
  (feq S (e_trust x) (e_trust y) = true -> e_dist x <= e_dist y) /\
  (e_dist x = e_dist y -> ltb S (e_trust x) (e_trust y) = false).
Proof.
  intros F S x y H. unfold misranked in H. apply orb_false_iff in H. destruct H as [H1 H2]. split.
  - intro E. rewrite E in H1. cbn [andb] in H1. apply N.ltb_ge in H1. exact H1.
  - intro E. apply N.eqb_eq in E. rewrite E in H2. exact H2.
Qed.

(* ranking theorems in that reading *)
Section Ranking.
  Context {F : Type}.
  Variable S : num F.
  Hypothesis L : laws S.
  Variable c : @scfg F.
  Variable key : N.
  Variable trust_of : N -> F.
  Hypothesis Kk : key_ok key.

  Lemma rank_distance : forall cands l1 x l2 y l3, Forall (fun x => key_ok (n_id x)) cands ->
    rank S c key trust_of cands = l1 ++ x :: l2 ++ y :: l3 ->
    feq S (e_trust x) (e_trust y) = true -> e_dist x <= e_dist y.
  Proof. intros cands l1 x l2 y l3 K E. exact (proj1 (not_misranked S x y (rank_no_misrank S L c key trust_of Kk cands l1 x l2 y l3 K E))). Qed.

  Lemma rank_trust : forall cands l1 x l2 y l3, Forall (fun x => key_ok (n_id x)) cands ->
    rank S c key trust_of cands = l1 ++ x :: l2 ++ y :: l3 ->
    e_dist x = e_dist y -> ltb S (e_trust x) (e_trust y) = false.
  Proof. intros cands l1 x l2 y l3 K E. exact (proj2 (not_misranked S x y (rank_no_misrank S L c key trust_of Kk cands l1 x l2 y l3 K E))). Qed.

  (* the cut: x selected, y eligible and left out *)
  Lemma cut_distance_trust : forall cands count x y, Forall (fun x => key_ok (n_id x)) cands ->
    In x (firstn (N.to_nat count) (rank S c key trust_of cands)) ->
    In y (skipn (N.to_nat count) (rank S c key trust_of cands)) ->
    (feq S (e_trust x) (e_trust y) = true -> e_dist x <= e_dist y) /\
    (e_dist x = e_dist y -> ltb S (e_trust x) (e_trust y) = false).
  Proof. intros cands count x y K Hx Hy. exact (not_misranked S x y (rank_cut S L c key trust_of Kk cands _ x y K Hx Hy)). Qed.

  (* under exclusion a selected peer's raw trust is not below the floor; and if the floor is
     positive it is a number (a NaN answer is read as 0, which is below a positive floor) *)
  Lemma floor_raw : forall cands count x, c_excl c = true ->
    In x (select S c key trust_of cands count) ->
    ltb S (trust_of (n_id x)) (c_min c) = false /\
    (ltb S (zero S) (c_min c) = true -> leb S (trust_of (n_id x)) (trust_of (n_id x)) = true).
  Proof.
    intros cands count x Ex H. pose proof (select_floor S c key trust_of cands count x Ex H) as Fl.
    unfold nan0 in Fl. destruct (leb S (trust_of (n_id x)) (trust_of (n_id x))) eqn:E.
    - split; [exact Fl|reflexivity].
    - split; [|intro Pm; congruence].
      destruct (ltb S (trust_of (n_id x)) (c_min c)) eqn:E2; [|reflexivity].
      apply (L_ltb S L) in E2. destruct E2 as [E2 _]. rewrite (proj1 (L_ok S L _ _ E2)) in E. discriminate.
  Qed.
End Ranking.

(* removed ids are in no answer *)
Lemma removed_in_no_answer : forall local ops1 o ops2 id, key_ok local ->
  Forall op_ok (ops1 ++ o :: ops2) -> (o = Fail id \/ o = Evict id) ->
  forallb (fun o => negb (offers id o)) ops2 = true ->
  let t := fst (run (start local) (ops1 ++ o :: ops2)) in
  ~ In id (ids (all_nodes t)) /\
  forall key count, key_ok key ->
    ~ In id (ids (closest t key count)) /\
    ~ In id (ids (handle_find_node t key count)) /\
    ~ In id (ids (handle_find_value t key)) /\
    forall F (S : num F) sel trust_of storage, ~ In id (ids (engine_select S sel trust_of storage t key count)).
Proof.
  intros local ops1 o ops2 id Kl Fa Ho Off t.
  destruct (removed_stays_absent local ops1 o ops2 id Kl Fa Ho Off) as [It Ab]. fold t in It, Ab.
  split; [exact Ab|]. intros key count Kk.
  assert (C : forall n, ~ In id (ids (closest t key n))).
  { intros n H. apply in_ids_inv in H. destruct H as [x [Hx E]]. apply Ab. rewrite <- E.
    apply in_ids. eapply closest_sub; eauto. }
  split; [apply C|]. split; [apply C|]. split; [apply C|].
  intros F S sel trust_of storage H. apply in_ids_inv in H. destruct H as [x [Hx E]]. apply Ab. rewrite <- E.
  apply in_ids. exact (proj1 (engine_select_wf S sel trust_of storage t key count It Kk) x Hx).
Qed.

(* ---- the exact-arithmetic instance, in the vocabulary of Q ---- *)
Lemma storage_floor_exact : forall key (trust_of : N -> Q) cands count x,
  In x (select qnum (for_storage (fun q => q)) key trust_of cands count) ->
  (SEL_STORAGE_MIN <= trust_of (n_id x))%Q /\ (1 # 5 <= trust_of (n_id x))%Q.
Proof.
  intros key trust_of cands count x H. set (c := for_storage (fun q : Q => q)) in *.
  destruct (floor_raw qnum q_laws c key trust_of cands count x eq_refl H) as [B _].
  cbn [ltb qnum c_min c for_storage] in B. apply negb_false_iff in B. apply Qle_bool_iff in B.
  split; exact B.
Qed.

Lemma rank_exact : forall (c : scfg) key trust_of cands l1 x l2 y l3,
  key_ok key -> Forall (fun x => key_ok (n_id x)) cands ->
  rank qnum c key trust_of cands = l1 ++ x :: l2 ++ y :: l3 ->
  ((e_trust x == e_trust y)%Q -> e_dist x <= e_dist y) /\
  (e_dist x = e_dist y -> (e_trust y <= e_trust x)%Q).
Proof.
  intros c key trust_of cands l1 x l2 y l3 Kk K E. split.
  - intro H. apply (rank_distance qnum q_laws c key trust_of Kk cands l1 x l2 y l3 K E).
    unfold feq. cbn [leb qnum]. apply andb_true_iff. split; apply Qle_bool_iff; rewrite H; apply Qle_refl.
  - intro H. pose proof (rank_trust qnum q_laws c key trust_of Kk cands l1 x l2 y l3 K E H) as A.
    cbn [ltb qnum] in A. apply negb_false_iff in A. apply Qle_bool_iff in A. exact A.
Qed.

(* ---- strictness in exact arithmetic: at equal SCORED distance the more trusted wins ---- *)
Lemma dscore_pos_exact : forall d, (0 < dscore qnum d)%Q.
Proof.
  intro d. unfold dscore. cbn [div one add ofN scale qnum].
  assert (A : (0 <= inject_Z (Z.of_N d) / SEL_SCALE)%Q).
  { unfold Qdiv. apply Qmult_le_0_compat; [change 0%Q with (inject_Z 0); rewrite <- Zle_Qle; lia|].
    apply Qinv_le_0_compat. discriminate. }
  apply Qlt_shift_div_l; lra.
Qed.

Lemma score_strict_exact : forall w d t1 t2, (0 <= w)%Q -> (w < 1)%Q -> (t1 < t2)%Q ->
  (mul qnum (dscore qnum d) (tfactor qnum w t1) < mul qnum (dscore qnum d) (tfactor qnum w t2))%Q.
Proof.
  intros w d t1 t2 W0 W1 T. pose proof (dscore_pos_exact d) as P.
  unfold tfactor. cbn [mul add sub one qnum]. apply Qmult_lt_l; [exact P|].
  apply Qplus_lt_r. apply Qmult_lt_l; [lra|exact T].
Qed.

(* at equal SCORED distance (same top 16 bytes) and weight < 1, the strictly more trusted peer
   is ranked ahead *)
Lemma rank_trust_scored_exact : forall (c : scfg) key trust_of cands l1 x l2 y l3,
  key_ok key -> Forall (fun x => key_ok (n_id x)) cands ->
  rank qnum c key trust_of cands = l1 ++ x :: l2 ++ y :: l3 ->
  e_dist x / 2 ^ 128 = e_dist y / 2 ^ 128 -> (unit qnum (c_weight c) < 1)%Q ->
  (e_trust y <= e_trust x)%Q.
Proof.
  intros c key trust_of cands l1 x l2 y l3 Kk K E D W.
  pose proof (rank_sorted qnum q_laws c key trust_of Kk cands K) as Srt. rewrite E in Srt. apply ss_split3 in Srt.
  assert (Ix : In x (rank qnum c key trust_of cands)) by (rewrite E; apply in_or_app; right; left; reflexivity).
  assert (Iy : In y (rank qnum c key trust_of cands)).
  { rewrite E. apply in_or_app. right. right. apply in_or_app. right. left. reflexivity. }
  apply rank_in in Ix. destruct Ix as [nx [_ [-> _]]]. apply rank_in in Iy. destruct Iy as [ny [_ [-> _]]].
  cbn [entry e_trust e_dist] in *.
  destruct (Qlt_le_dec (unit qnum (trust_of (n_id nx))) (unit qnum (trust_of (n_id ny)))) as [Lt|Ge]; [exfalso|exact Ge].
  unfold before_eq, lex, sle in Srt. cbn [entry e_score] in Srt. apply andb_true_iff in Srt. destruct Srt as [S1 _].
  cbn [leb qnum] in S1. apply Qle_bool_iff in S1. unfold score in S1.
  assert (D' : d16 key (n_id nx) = d16 key (n_id ny)) by (unfold d16; exact D).
  rewrite D' in S1.
  destruct (unit_range qnum q_laws (c_weight c)) as [W0 _]. cbn [leb zero qnum] in W0. apply Qle_bool_iff in W0.
  pose proof (score_strict_exact (unit qnum (c_weight c)) (d16 key (n_id ny)) _ _ W0 W Lt) as St.
  lra.
Qed.
