(* Proofs about Model/RateLimit.v (C14). *)
From SV Require Import Lib.Base Gen.RateLimitConsts Model.RateLimit.
Local Open Scope N_scope.

(* ================================================================== bucket *)
Definition Inv (c : cfg) (b : bucket) : Prop :=
  b_tok b <= tok_cap c /\ b_inwin b <= c_max c /\ b_last b - b_wstart b <= c_window c.

Lemma inv_new c now : Inv c (bucket_new c now).
Proof. unfold Inv, bucket_new; cbn. lia. Qed.

Lemma inv_tick c now b : Inv c b -> Inv c (tick c now b).
Proof.
  unfold Inv, tick. intros (H1 & H2 & H3). cbn.
  destruct (c_window c <? now - b_wstart b) eqn:E; lia.
Qed.

Lemma inv_consume c b : Inv c b -> can_admit c b = true -> Inv c (consume c b).
Proof.
  unfold Inv, consume, can_admit. intros (H1 & H2 & H3) Ha. cbn.
  apply andb_true_iff in Ha. lia.
Qed.

Lemma inv_try c now b : Inv c b -> Inv c (fst (try_consume c now b)).
Proof.
  intro H. unfold try_consume. cbn zeta.
  destruct (can_admit c (tick c now b)) eqn:E; cbn [fst].
  - apply inv_consume; [apply inv_tick; exact H|exact E].
  - apply inv_tick; exact H.
Qed.

Lemma bucket_run_cons c b t r :
  bucket_run c b (t :: r) =
  (fst (bucket_run c (fst (try_consume c t b)) r),
   snd (try_consume c t b) :: snd (bucket_run c (fst (try_consume c t b)) r)).
Proof.
  cbn [bucket_run]. destruct (try_consume c t b) as [b1 x]. cbn [fst snd].
  destruct (bucket_run c b1 r) as [b2 xs]. reflexivity.
Qed.

Lemma inv_run c ts : forall b, Inv c b -> Inv c (fst (bucket_run c b ts)).
Proof.
  induction ts as [|t r IH]; intros b H; [exact H|].
  rewrite bucket_run_cons. cbn [fst]. apply IH. apply inv_try. exact H.
Qed.

Lemma bucket_run_app c pre seg : forall b,
  bucket_run c b (pre ++ seg) =
  (fst (bucket_run c (fst (bucket_run c b pre)) seg),
   snd (bucket_run c b pre) ++ snd (bucket_run c (fst (bucket_run c b pre)) seg)).
Proof.
  induction pre as [|t r IH]; intro b.
  - cbn [app bucket_run fst snd]. destruct (bucket_run c b seg); reflexivity.
  - cbn [app]. rewrite !bucket_run_cons. rewrite IH. cbn [fst snd]. reflexivity.
Qed.

(* ---- the token potential: one call *)
Lemma try_last c now b : b_last (fst (try_consume c now b)) = now.
Proof.
  unfold try_consume. cbn zeta. destruct (can_admit c (tick c now b)); reflexivity.
Qed.

Lemma try_potential c now b :
  b_tok (fst (try_consume c now b)) + (if snd (try_consume c now b) then c_window c else 0)
  <= b_tok b + (now - b_last b) * c_max c.
Proof.
  unfold try_consume. cbn zeta.
  destruct (can_admit c (tick c now b)) eqn:E; cbn [fst snd].
  - unfold can_admit in E. apply andb_true_iff in E. destruct E as [E _].
    unfold consume, tick in *. cbn in *. lia.
  - unfold tick. cbn. lia.
Qed.

Lemma run_potential c ts : forall b,
  ntrue (snd (bucket_run c b ts)) * c_window c + b_tok (fst (bucket_run c b ts))
  <= b_tok b + c_max c * span_from (b_last b) ts.
Proof.
  induction ts as [|t r IH]; intro b.
  - cbn. lia.
  - rewrite bucket_run_cons. cbn [fst snd ntrue span_from].
    specialize (IH (fst (try_consume c t b))). rewrite try_last in IH.
    pose proof (try_potential c t b) as HP.
    destruct (snd (try_consume c t b)); lia.
Qed.

(* admitted * window <= burst * window + max * elapsed, from any reachable state *)
Lemma bucket_bound c b ts :
  Inv c b ->
  ntrue (snd (bucket_run c b ts)) * c_window c
  <= c_burst c * c_window c + c_max c * span_from (b_last b) ts.
Proof.
  intros (H1 & _). pose proof (run_potential c ts b). unfold tok_cap in H1. lia.
Qed.

Lemma div_bound a bq W X : 0 < W -> a * W <= bq * W + X -> a <= bq + X / W.
Proof.
  intros HW H.
  assert (H1 : a * W <= (bq + X / W) * W + X mod W).
  { pose proof (N.div_mod X W ltac:(lia)). lia. }
  pose proof (N.mod_lt X W ltac:(lia)).
  destruct (N.le_gt_cases a (bq + X / W)) as [Hle|Hgt]; [exact Hle|exfalso].
  assert ((bq + X / W + 1) * W <= a * W) by (apply N.mul_le_mono_r; lia).
  lia.
Qed.

Lemma bucket_bound_div c b ts :
  Inv c b -> 0 < c_window c ->
  ntrue (snd (bucket_run c b ts)) <= c_burst c + (c_max c * span_from (b_last b) ts) / c_window c.
Proof.
  intros HI HW. apply div_bound; [exact HW|]. apply bucket_bound. exact HI.
Qed.

(* ---- the fixed-window counter *)
Lemma try_window_noreset c now b :
  now - b_wstart b <= c_window c ->
  b_wstart (fst (try_consume c now b)) = b_wstart b /\
  b_inwin (fst (try_consume c now b)) = b_inwin b + (if snd (try_consume c now b) then 1 else 0).
Proof.
  intro H. unfold try_consume. cbn zeta.
  assert (E : (c_window c <? now - b_wstart b) = false) by lia.
  destruct (can_admit c (tick c now b)); cbn [fst snd]; unfold consume, tick; cbn; rewrite E; split; lia.
Qed.

Lemma run_window_noreset c ts : forall b,
  Forall (fun t => t - b_wstart b <= c_window c) ts ->
  b_wstart (fst (bucket_run c b ts)) = b_wstart b /\
  b_inwin (fst (bucket_run c b ts)) = b_inwin b + ntrue (snd (bucket_run c b ts)).
Proof.
  induction ts as [|t r IH]; intros b HF.
  - cbn. split; lia.
  - inv HF. rewrite bucket_run_cons. cbn [fst snd ntrue].
    destruct (try_window_noreset c t b H1) as [Hw Hi].
    destruct (IH (fst (try_consume c t b))) as [Hw2 Hi2].
    { rewrite Hw. exact H2. }
    rewrite Hw2, Hi2, Hw, Hi. split; lia.
Qed.

(* as long as the window that is open in state b has not expired, the number admitted in it
   (before and after) never exceeds max *)
Lemma window_bound c b ts :
  Inv c b ->
  Forall (fun t => t - b_wstart b <= c_window c) ts ->
  b_inwin b + ntrue (snd (bucket_run c b ts)) <= c_max c.
Proof.
  intros HI HF. destruct (run_window_noreset c ts b HF) as [_ Hi].
  destruct (inv_run c ts b HI) as (_ & H2 & _). lia.
Qed.

(* ---- denial *)
Lemma try_denied_is_tick c now b :
  snd (try_consume c now b) = false -> fst (try_consume c now b) = tick c now b.
Proof.
  unfold try_consume. cbn zeta. destruct (can_admit c (tick c now b)); cbn [fst snd]; congruence.
Qed.

Lemma try_admitted_is_tick_consume c now b :
  snd (try_consume c now b) = true -> fst (try_consume c now b) = consume c (tick c now b).
Proof.
  unfold try_consume. cbn zeta. destruct (can_admit c (tick c now b)); cbn [fst snd]; congruence.
Qed.

Lemma tick_zero_elapsed c b : Inv c b -> tick c (b_last b) b = b.
Proof.
  intros (H1 & H2 & H3). unfold tick.
  assert (E : (c_window c <? b_last b - b_wstart b) = false) by lia.
  rewrite E. destruct b as [tok last iw ws]. cbn in *. f_equal. lia.
Qed.

Lemma tick_tok_le c now b : b_tok (tick c now b) <= b_tok b + (now - b_last b) * c_max c.
Proof. unfold tick; cbn. lia. Qed.

Lemma tick_inwin_le c now b : b_inwin (tick c now b) <= b_inwin b.
Proof. unfold tick; cbn. destruct (c_window c <? now - b_wstart b); lia. Qed.

(* ---- created-on-first-use buckets *)
Lemma obucket_run_cons c ob t r :
  obucket_run c ob (t :: r) =
  (fst (obucket_run c (Some (fst (obucket_try c t ob))) r),
   snd (obucket_try c t ob) :: snd (obucket_run c (Some (fst (obucket_try c t ob))) r)).
Proof.
  cbn [obucket_run]. destruct (obucket_try c t ob) as [b1 x]. cbn [fst snd].
  destruct (obucket_run c (Some b1) r) as [o2 xs]. reflexivity.
Qed.

Lemma obucket_run_some c ts : forall b,
  snd (obucket_run c (Some b) ts) = snd (bucket_run c b ts).
Proof.
  induction ts as [|t r IH]; intro b; [reflexivity|].
  rewrite obucket_run_cons, bucket_run_cons. cbn [snd]. unfold obucket_try. rewrite IH. reflexivity.
Qed.

Lemma obucket_run_none c t r :
  snd (obucket_run c None (t :: r)) = snd (bucket_run c (bucket_new c t) (t :: r)).
Proof.
  rewrite obucket_run_cons, bucket_run_cons. cbn [snd]. unfold obucket_try.
  rewrite obucket_run_some. reflexivity.
Qed.

Lemma span_from_self t r : span_from t (t :: r) = span_from t r.
Proof. cbn [span_from]. lia. Qed.

(* fresh key: admitted * window <= burst * window + max * (time since its first use) *)
Lemma fresh_bound c ts :
  ntrue (snd (obucket_run c None ts)) * c_window c <= c_burst c * c_window c + c_max c * span ts.
Proof.
  destruct ts as [|t r]; [cbn; lia|].
  rewrite obucket_run_none. unfold span.
  pose proof (bucket_bound c (bucket_new c t) (t :: r) (inv_new c t)) as H.
  cbn [bucket_new b_last] in H. rewrite span_from_self in H. exact H.
Qed.

Lemma fresh_window_bound c ts :
  Forall (fun t => t - hd 0 ts <= c_window c) ts ->
  ntrue (snd (obucket_run c None ts)) <= c_max c.
Proof.
  destruct ts as [|t r]; [cbn; lia|]. intro HF.
  rewrite obucket_run_none.
  pose proof (window_bound c (bucket_new c t) (t :: r) (inv_new c t)) as H.
  cbn [bucket_new b_wstart b_inwin hd] in *. specialize (H HF). lia.
Qed.

(* ---- span of a subsequence *)
Inductive subl {A} : list A -> list A -> Prop :=
| subl_nil : forall l, subl [] l
| subl_cons : forall a l1 l2, subl l1 l2 -> subl (a :: l1) (a :: l2)
| subl_skip : forall a l1 l2, subl l1 l2 -> subl l1 (a :: l2).

Lemma span_from_shift t0 t l : span_from t0 l <= (t - t0) + span_from t l.
Proof. destruct l as [|u r]; cbn [span_from]; lia. Qed.

Lemma span_from_subl l' l : subl l' l -> forall t0, span_from t0 l' <= span_from t0 l.
Proof.
  induction 1 as [l|a l1 l2 H IH|a l1 l2 H IH]; intro t0.
  - cbn. lia.
  - cbn [span_from]. specialize (IH a). lia.
  - cbn [span_from]. specialize (IH a). pose proof (span_from_shift t0 a l1). lia.
Qed.

Lemma span_le_span_from t0 l : span l <= span_from t0 l.
Proof. destruct l as [|u r]; cbn [span span_from]; lia. Qed.

Lemma span_subl l' l : subl l' l -> span l' <= span l.
Proof.
  induction 1 as [l|a l1 l2 H IH|a l1 l2 H IH].
  - cbn. lia.
  - cbn [span]. apply span_from_subl. exact H.
  - cbn [span]. pose proof (span_le_span_from a l2). lia.
Qed.

Lemma subl_refl {A} (l : list A) : subl l l.
Proof. induction l; constructor; assumption. Qed.

Lemma subl_in {A} (l' l : list A) x : subl l' l -> In x l' -> In x l.
Proof.
  induction 1; cbn [In]; intro Hin; [contradiction| |right; auto].
  destruct Hin; [left; assumption|right; auto].
Qed.

Lemma subl_trans {A} (l1 l2 l3 : list A) : subl l1 l2 -> subl l2 l3 -> subl l1 l3.
Proof.
  intros H12 H23. revert l1 H12.
  induction H23 as [l|a m1 m2 H IH|a m1 m2 H IH]; intros l1 H12.
  - inv H12. constructor.
  - inv H12; [constructor|constructor; apply IH; assumption|apply subl_skip; apply IH; assumption].
  - apply subl_skip. apply IH. exact H12.
Qed.

(* ---- a burst too short to earn one token behaves as if the clock were frozen *)
(* relation between the real bucket [b] and the frozen-clock bucket [f] *)
Definition near (c : cfg) (slack : N) (b f : bucket) : Prop :=
  exists j d, b_tok f = j * c_window c /\ j <= c_burst c /\ b_tok b = b_tok f + d /\ d <= slack /\
              b_inwin b = b_inwin f /\ b_wstart b = b_wstart f.

Lemma mult_ge j W d : W <= j * W + d -> d < W -> W <= j * W.
Proof.
  intros H Hd. destruct (N.eq_dec j 0) as [->|Hj]; [lia|].
  assert (1 * W <= j * W) by (apply N.mul_le_mono_r; lia). lia.
Qed.

Lemma near_step c slack b f now t0 :
  near c slack b f ->
  b_last f = t0 -> b_wstart f = t0 ->
  now - t0 <= c_window c ->
  slack + (now - b_last b) * c_max c < c_window c ->
  snd (try_consume c now b) = snd (try_consume c t0 f) /\
  near c (slack + (now - b_last b) * c_max c) (fst (try_consume c now b)) (fst (try_consume c t0 f)) /\
  b_last (fst (try_consume c t0 f)) = t0 /\ b_wstart (fst (try_consume c t0 f)) = t0.
Proof.
  intros (j & d & Hf & Hj & Hb & Hd & Hi & Hw) Hl Hws Hnow Hs.
  set (D := (now - b_last b) * c_max c) in *.
  assert (Ecap : tok_cap c = c_burst c * c_window c) by reflexivity.
  (* tick of the frozen bucket is the identity on tokens/inwin/wstart *)
  assert (Ef : tick c t0 f = f).
  { unfold tick. rewrite Hl, Hws. replace (t0 - t0) with 0 by lia.
    assert (E0 : (c_window c <? 0) = false) by lia. rewrite E0.
    assert (j * c_window c <= c_burst c * c_window c) by (apply N.mul_le_mono_r; exact Hj).
    destruct f as [tok last iw ws]. cbn in *. subst last ws. f_equal; lia. }
  (* tick of the real bucket *)
  assert (Er : (c_window c <? now - b_wstart b) = false) by (rewrite Hw, Hws; lia).
  assert (Hjc : j * c_window c <= c_burst c * c_window c) by (apply N.mul_le_mono_r; exact Hj).
  assert (Htick : exists d', b_tok (tick c now b) = b_tok f + d' /\ d' <= slack + D /\
                            b_inwin (tick c now b) = b_inwin f /\ b_wstart (tick c now b) = t0).
  { unfold tick. cbn. rewrite Er. fold D. rewrite Hb, Hi, Hw, Hws.
    destruct (N.le_gt_cases (b_tok f + d + D) (tok_cap c)) as [Hle|Hgt].
    - exists (d + D). repeat split; lia.
    - exists (tok_cap c - b_tok f). repeat split; lia. }
  destruct Htick as (d' & Ht & Hd' & Hi' & Hw').
  unfold try_consume. cbn zeta. rewrite Ef.
  assert (Eadm : can_admit c (tick c now b) = can_admit c f).
  { unfold can_admit. rewrite Ht, Hi'. f_equal.
    destruct (c_window c <=? b_tok f) eqn:E1.
    - lia.
    - destruct (c_window c <=? b_tok f + d') eqn:E2; [|reflexivity].
      exfalso. rewrite Hf in *. pose proof (mult_ge j (c_window c) d' ltac:(lia) ltac:(lia)). lia. }
  rewrite Eadm. destruct (can_admit c f) eqn:Ea; cbn [fst snd].
  - split; [reflexivity|]. split.
    + unfold can_admit in Ea. apply andb_true_iff in Ea. destruct Ea as [Ea _].
      assert (Hj1 : 1 <= j).
      { destruct (N.eq_dec j 0) as [Hj0|Hj0]; [|lia]. exfalso. rewrite Hj0, N.mul_0_l in Hf. lia. }
      exists (j - 1), d'. unfold consume. cbn [b_tok b_last b_inwin b_wstart]. rewrite Ht, Hi', Hw', Hws.
      repeat split; try lia. rewrite N.mul_sub_distr_r. lia.
    + unfold consume. cbn [b_tok b_last b_inwin b_wstart]. split; assumption.
  - split; [reflexivity|]. split.
    + exists j, d'. rewrite Hi', Hw', Hws. repeat split; try lia.
    + split; assumption.
Qed.

Lemma near_run c ts : forall slack b f t0,
  near c slack b f ->
  b_last f = t0 -> b_wstart f = t0 ->
  Forall (fun t => t - t0 <= c_window c) ts ->
  slack + c_max c * span_from (b_last b) ts < c_window c ->
  snd (bucket_run c b ts) = snd (bucket_run c f (map (fun _ => t0) ts)).
Proof.
  induction ts as [|t r IH]; intros slack b f t0 Hn Hl Hw HF Hs; [reflexivity|].
  pose proof (Forall_inv HF) as H1. pose proof (Forall_inv_tail HF) as H2. cbn beta in H1.
  cbn [map]. rewrite !bucket_run_cons. cbn [snd span_from] in *.
  destruct (near_step c slack b f t t0 Hn Hl Hw H1) as (E1 & Hn' & Hl' & Hw'); [lia|].
  f_equal; [exact E1|].
  eapply IH; try eassumption. rewrite try_last. lia.
Qed.

Lemma near_new c t : near c 0 (bucket_new c t) (bucket_new c t).
Proof.
  exists (c_burst c), 0. unfold bucket_new, tok_cap. cbn. repeat split; lia.
Qed.

(* the statement used by the correspondence check: if max * elapsed < window (less than one
   token can be earned) and the first window has not expired, every decision equals the
   decision of the run in which the clock stands still at the time of the first call *)
Lemma frozen_clock_exact c ts :
  Forall (fun t => t - hd 0 ts <= c_window c) ts ->
  c_max c * span ts < c_window c ->
  snd (obucket_run c None ts) = snd (obucket_run c None (map (fun _ => hd 0 ts) ts)).
Proof.
  destruct ts as [|t r]; [reflexivity|]. intros HF Hs.
  cbn [map hd] in *. rewrite !obucket_run_none.
  change (t :: map (fun _ => t) r) with (map (fun _ : N => t) (t :: r)).
  eapply near_run with (slack := 0); try reflexivity.
  - apply near_new.
  - exact HF.
  - cbn [bucket_new b_last]. rewrite span_from_self. unfold span in Hs. lia.
Qed.

(* ================================================================== keyed engine *)
Definition keys (e : engine) : list N := map fst e.

Lemma e_find_remove_other k k' e : k' <> k -> e_find k' (e_remove k e) = e_find k' e.
Proof.
  intro H. induction e as [|[q b] r IH]; cbn [e_remove e_find]; [reflexivity|].
  destruct (q =? k) eqn:E.
  - apply N.eqb_eq in E. subst q. rewrite IH.
    destruct (k =? k') eqn:E2; [apply N.eqb_eq in E2; congruence|reflexivity].
  - cbn [e_find]. rewrite IH. reflexivity.
Qed.

Lemma e_find_none_notin k e : e_find k e = None -> ~ In k (keys e).
Proof.
  induction e as [|[q b] r IH]; cbn [e_find keys map fst In]; intro H; [tauto|].
  destruct (q =? k) eqn:E; [discriminate|]. apply N.eqb_neq in E.
  intros [H1|H1]; [congruence|]. exact (IH H H1).
Qed.

Lemma keys_remove k e x : In x (keys (e_remove k e)) -> In x (keys e) /\ x <> k.
Proof.
  induction e as [|[q b] r IH]; cbn [e_remove keys map fst In]; [tauto|].
  destruct (q =? k) eqn:E.
  - intro H. destruct (IH H). split; [right|]; assumption.
  - apply N.eqb_neq in E. cbn [keys map fst In]. intros [H|H].
    + subst x. split; [left; reflexivity|exact E].
    + destruct (IH H). split; [right|]; assumption.
Qed.

Lemma nodup_remove k e : NoDup (keys e) -> NoDup (keys (e_remove k e)).
Proof.
  induction e as [|[q b] r IH]; cbn [e_remove keys map fst]; intro H; [constructor|].
  inv H. destruct (q =? k); [apply IH; assumption|].
  cbn [keys map fst]. constructor; [|apply IH; assumption].
  intro Hin. apply keys_remove in Hin. tauto.
Qed.

Definition EI (U : list N) (e : engine) : Prop := NoDup (keys e) /\ incl (keys e) U.

Lemma EI_nil U : EI U [].
Proof. split; [constructor|intros x []]. Qed.

(* what one call does, as long as the LRU never has to evict: all keys in play (U) fit *)
Lemma engine_try_spec c cap now k e U :
  EI U e -> In k U -> N.of_nat (length U) <= cap ->
  EI U (fst (engine_try c cap now k e)) /\
  snd (engine_try c cap now k e) = snd (obucket_try c now (e_find k e)) /\
  e_find k (fst (engine_try c cap now k e)) = Some (fst (obucket_try c now (e_find k e))) /\
  (forall k', k' <> k -> e_find k' (fst (engine_try c cap now k e)) = e_find k' e).
Proof.
  intros [HN HI] Hk Hcap. unfold engine_try, obucket_try.
  destruct (e_find k e) as [b|] eqn:F.
  - destruct (try_consume c now b) as [b' x]. cbn [fst snd].
    split; [|split; [reflexivity|split]].
    + split.
      * cbn [keys map fst]. constructor; [|apply nodup_remove; exact HN].
        intro Hin. apply keys_remove in Hin. tauto.
      * cbn [keys map fst]. intros y [Hy|Hy]; [subst y; exact Hk|].
        apply keys_remove in Hy. apply HI. tauto.
    + cbn [e_find]. rewrite N.eqb_refl. reflexivity.
    + intros k' Hk'. cbn [e_find]. destruct (k =? k') eqn:E; [apply N.eqb_eq in E; congruence|].
      apply e_find_remove_other. exact Hk'.
  - destruct (try_consume c now (bucket_new c now)) as [b' x]. cbn [fst snd].
    assert (Hnot : ~ In k (keys e)) by (apply e_find_none_notin; exact F).
    assert (HN' : NoDup (k :: keys e)) by (constructor; assumption).
    assert (HI' : incl (k :: keys e) U).
    { intros y [Hy|Hy]; [subst y; exact Hk|apply HI; exact Hy]. }
    assert (Hlen : (length (k :: keys e) <= length U)%nat) by (apply NoDup_incl_length; assumption).
    assert (Eput : e_put cap k b' e = (k, b') :: e).
    { unfold e_put. cbn [length] in *. unfold keys in Hlen. rewrite map_length in Hlen.
      destruct (cap <? N.of_nat (S (length e))) eqn:E; [lia|reflexivity]. }
    rewrite Eput. split; [|split; [reflexivity|split]].
    + split; assumption.
    + cbn [e_find]. rewrite N.eqb_refl. reflexivity.
    + intros k' Hk'. cbn [e_find]. destruct (k =? k') eqn:E; [apply N.eqb_eq in E; congruence|reflexivity].
Qed.

Lemma engine_run_cons c cap e now k r :
  engine_run c cap e ((now, k) :: r) =
  (fst (engine_run c cap (fst (engine_try c cap now k e)) r),
   snd (engine_try c cap now k e) :: snd (engine_run c cap (fst (engine_try c cap now k e)) r)).
Proof.
  cbn [engine_run]. destruct (engine_try c cap now k e) as [e1 x]. cbn [fst snd].
  destruct (engine_run c cap e1 r) as [e2 xs]. reflexivity.
Qed.

(* key isolation: what key k experiences is the run of its own bucket over its own call times *)
Lemma engine_isolation c cap U tr : forall e k,
  EI U e -> (forall x, In x (map snd tr) -> In x U) -> N.of_nat (length U) <= cap ->
  results_of k tr (snd (engine_run c cap e tr)) = snd (obucket_run c (e_find k e) (times_of k tr)) /\
  e_find k (fst (engine_run c cap e tr)) = fst (obucket_run c (e_find k e) (times_of k tr)).
Proof.
  induction tr as [|[now q] r IH]; intros e k HE HU Hcap; [cbn; auto|].
  rewrite engine_run_cons. cbn [fst snd results_of times_of].
  assert (Hq : In q U) by (apply HU; left; reflexivity).
  destruct (engine_try_spec c cap now q e U HE Hq Hcap) as (HE' & Hres & Hfk & Hfo).
  assert (HU' : forall x, In x (map snd r) -> In x U) by (intros x Hx; apply HU; right; exact Hx).
  destruct (IH (fst (engine_try c cap now q e)) k HE' HU' Hcap) as [IH1 IH2].
  destruct (q =? k) eqn:E.
  - apply N.eqb_eq in E. subst q. rewrite obucket_run_cons. cbn [fst snd].
    rewrite Hfk in IH1, IH2. rewrite IH1, IH2, Hres. split; reflexivity.
  - apply N.eqb_neq in E. rewrite Hfo in IH1, IH2 by congruence. split; assumption.
Qed.

Lemma engine_isolation_init c cap tr k :
  N.of_nat (length (nodup N.eq_dec (map snd tr))) <= cap ->
  results_of k tr (snd (engine_run c cap [] tr)) = snd (obucket_run c None (times_of k tr)).
Proof.
  intro H.
  destruct (engine_isolation c cap (nodup N.eq_dec (map snd tr)) tr [] k) as [H1 _].
  - apply EI_nil.
  - intros x Hx. apply nodup_In. exact Hx.
  - exact H.
  - exact H1.
Qed.

(* other keys' buckets are untouched by a call, admitted or denied *)
Lemma engine_try_other c cap now k e U k' :
  EI U e -> In k U -> N.of_nat (length U) <= cap -> k' <> k ->
  e_find k' (fst (engine_try c cap now k e)) = e_find k' e.
Proof. intros HE Hk Hc Hne. destruct (engine_try_spec c cap now k e U HE Hk Hc) as (_ & _ & _ & H). auto. Qed.

Lemma times_of_subl k tr : subl (times_of k tr) (map fst tr).
Proof.
  induction tr as [|[now q] r IH]; cbn [times_of map fst]; [constructor|].
  destruct (q =? k); [apply subl_cons|apply subl_skip]; exact IH.
Qed.

(* per-key bound inside an engine *)
Lemma engine_key_bound c cap tr k :
  N.of_nat (length (nodup N.eq_dec (map snd tr))) <= cap ->
  ntrue (results_of k tr (snd (engine_run c cap [] tr))) * c_window c
  <= c_burst c * c_window c + c_max c * span (map fst tr).
Proof.
  intro H. rewrite engine_isolation_init by exact H.
  pose proof (fresh_bound c (times_of k tr)) as HB.
  pose proof (span_subl _ _ (times_of_subl k tr)) as HS.
  assert (c_max c * span (times_of k tr) <= c_max c * span (map fst tr)) by (apply N.mul_le_mono_l; exact HS).
  lia.
Qed.

Lemma Forall_subl {A} (P : A -> Prop) l' l : subl l' l -> Forall P l -> Forall P l'.
Proof.
  intros HS HF. rewrite Forall_forall in *. intros x Hx. apply HF. eapply subl_in; eassumption.
Qed.

Lemma engine_key_window_bound c cap tr k t0 :
  N.of_nat (length (nodup N.eq_dec (map snd tr))) <= cap ->
  Forall (fun t => t0 <= t /\ t <= t0 + c_window c) (map fst tr) ->
  ntrue (results_of k tr (snd (engine_run c cap [] tr))) <= c_max c.
Proof.
  intros H HF. rewrite engine_isolation_init by exact H.
  apply fresh_window_bound.
  pose proof (Forall_subl _ _ _ (times_of_subl k tr) HF) as HF'.
  destruct (times_of k tr) as [|t r] eqn:E; [constructor|].
  cbn [hd]. pose proof (Forall_inv HF') as H0. cbn beta in H0.
  eapply Forall_impl; [|exact HF']. cbn beta. intros a Ha. lia.
Qed.

(* ================================================================== join limiter *)
Lemma join_run_cons jc cap st now ip r :
  join_run jc cap st ((now, ip) :: r) =
  (fst (join_run jc cap (fst (join_check jc cap now ip st)) r),
   snd (join_check jc cap now ip st) :: snd (join_run jc cap (fst (join_check jc cap now ip st)) r)).
Proof.
  cbn [join_run]. destruct (join_check jc cap now ip st) as [s1 x]. cbn [fst snd].
  destruct (join_run jc cap s1 r) as [s2 xs]. reflexivity.
Qed.

(* each engine of the join limiter runs, unmodified, on the sub-trace of calls that reach it *)
Lemma join_engines jc cap tr : forall st,
  let st' := fst (join_run jc cap st tr) in
  let rs := snd (join_run jc cap st tr) in
  engine_run (cfgG jc) cap (s_g st) (traceG tr) = (s_g st', map passed_global rs) /\
  engine_run (cfg64 jc) cap (s_64 st) (trace64 tr rs) = (s_64 st', adm64 tr rs) /\
  engine_run (cfg48 jc) cap (s_48 st) (trace48 tr rs) = (s_48 st', adm48 tr rs) /\
  engine_run (cfg24 jc) cap (s_24 st) (trace24 tr rs) = (s_24 st', adm24 tr rs).
Proof.
  induction tr as [|[now ip] r IH]; intro st; cbn zeta.
  - cbn. auto.
  - rewrite join_run_cons. cbn [fst snd].
    specialize (IH (fst (join_check jc cap now ip st))). cbn zeta in IH.
    destruct IH as (IHg & IH64 & IH48 & IH24).
    set (s2 := fst (join_run jc cap (fst (join_check jc cap now ip st)) r)) in *.
    set (xs := snd (join_run jc cap (fst (join_check jc cap now ip st)) r)) in *.
    revert IHg IH64 IH48 IH24.
    unfold join_check.
    destruct (engine_try (cfgG jc) cap now 0 (s_g st)) as [g' okg] eqn:EG.
    destruct okg; cbn [negb].
    + destruct ip as [a|a].
      * destruct (engine_try (cfg24 jc) cap now (ext24 a) (s_24 st)) as [e24 ok24] eqn:E24.
        destruct ok24; cbn [negb fst snd s_g s_64 s_48 s_24]; intros IHg IH64 IH48 IH24;
          cbn [traceG trace64 trace48 trace24 adm64 adm48 adm24 map passed_global passed_64 is_ok engine_run];
          rewrite ?EG, ?E24, ?IHg, ?IH24; auto.
      * destruct (engine_try (cfg64 jc) cap now (ext64 a) (s_64 st)) as [e64 ok64] eqn:E64.
        destruct ok64; cbn [negb].
        -- destruct (engine_try (cfg48 jc) cap now (ext48 a) (s_48 st)) as [e48 ok48] eqn:E48.
           destruct ok48; cbn [negb fst snd s_g s_64 s_48 s_24]; intros IHg IH64 IH48 IH24;
             cbn [traceG trace64 trace48 trace24 adm64 adm48 adm24 map passed_global passed_64 is_ok engine_run];
             rewrite ?EG, ?E64, ?E48, ?IHg, ?IH64, ?IH48; auto.
        -- cbn [negb fst snd s_g s_64 s_48 s_24]; intros IHg IH64 IH48 IH24;
             cbn [traceG trace64 trace48 trace24 adm64 adm48 adm24 map passed_global passed_64 is_ok engine_run];
             rewrite ?EG, ?E64, ?IHg, ?IH64; auto.
    + cbn [fst snd s_g s_64 s_48 s_24]; intros IHg IH64 IH48 IH24.
      destruct ip as [a|a];
        cbn [traceG trace64 trace48 trace24 adm64 adm48 adm24 map passed_global passed_64 is_ok engine_run];
        rewrite ?EG, ?IHg; auto.
Qed.

(* counting lemmas (pure list facts) *)
Lemma count64_le p tr : forall rs,
  count_ok (in64 p) tr rs <= ntrue (results_of p (trace64 tr rs) (adm64 tr rs)).
Proof.
  induction tr as [|[now ip] r IH]; intros [|x xs]; cbn [count_ok trace64 adm64 results_of ntrue]; try lia.
  specialize (IH xs). destruct ip as [a|a]; cbn [in64 andb].
  - lia.
  - destruct x; cbn [passed_global passed_64 is_ok results_of ntrue];
        destruct (ext64 a =? p); cbn [andb ntrue]; lia.
Qed.

Lemma count48_le p tr : forall rs,
  count_ok (in48 p) tr rs <= ntrue (results_of p (trace48 tr rs) (adm48 tr rs)).
Proof.
  induction tr as [|[now ip] r IH]; intros [|x xs]; cbn [count_ok trace48 adm48 results_of ntrue]; try lia.
  specialize (IH xs). destruct ip as [a|a]; cbn [in48 andb].
  - lia.
  - destruct x; cbn [passed_global passed_64 is_ok results_of ntrue];
        destruct (ext48 a =? p); cbn [andb ntrue]; lia.
Qed.

Lemma count24_le p tr : forall rs,
  count_ok (in24 p) tr rs <= ntrue (results_of p (trace24 tr rs) (adm24 tr rs)).
Proof.
  induction tr as [|[now ip] r IH]; intros [|x xs]; cbn [count_ok trace24 adm24 results_of ntrue]; try lia.
  specialize (IH xs). destruct ip as [a|a]; cbn [in24 andb].
  - destruct x; cbn [passed_global passed_64 is_ok results_of ntrue];
        destruct (ext24 a =? p); cbn [andb ntrue]; lia.
  - lia.
Qed.

Lemma count_any_le tr : forall rs,
  length rs = length tr ->
  count_ok anyaddr tr rs <= ntrue (map passed_global rs).
Proof.
  induction tr as [|[now ip] r IH]; intros [|x xs] HL; cbn [count_ok map ntrue]; try lia.
  cbn in HL. specialize (IH xs ltac:(lia)). unfold anyaddr at 1. cbn [andb].
  destruct x; cbn [is_ok passed_global]; lia.
Qed.

Lemma join_run_length jc cap tr : forall st, length (snd (join_run jc cap st tr)) = length tr.
Proof.
  induction tr as [|[now ip] r IH]; intro st; [reflexivity|].
  rewrite join_run_cons. cbn [snd length]. rewrite IH. reflexivity.
Qed.

Lemma trace64_times tr : forall rs, subl (map fst (trace64 tr rs)) (map fst tr).
Proof.
  induction tr as [|[now ip] r IH]; intros rs; [destruct rs; constructor|].
  destruct rs as [|x xs]; destruct ip as [a|a]; cbn [trace64 map fst]; try apply subl_nil.
  - apply subl_skip; apply IH.
  - destruct (passed_global x); cbn [map fst]; [apply subl_cons|apply subl_skip]; apply IH.
Qed.
Lemma trace48_times tr : forall rs, subl (map fst (trace48 tr rs)) (map fst tr).
Proof.
  induction tr as [|[now ip] r IH]; intros rs; [destruct rs; constructor|].
  destruct rs as [|x xs]; destruct ip as [a|a]; cbn [trace48 map fst]; try apply subl_nil.
  - apply subl_skip; apply IH.
  - destruct (passed_64 x); cbn [map fst]; [apply subl_cons|apply subl_skip]; apply IH.
Qed.
Lemma trace24_times tr : forall rs, subl (map fst (trace24 tr rs)) (map fst tr).
Proof.
  induction tr as [|[now ip] r IH]; intros rs; [destruct rs; constructor|].
  destruct rs as [|x xs]; destruct ip as [a|a]; cbn [trace24 map fst]; try apply subl_nil.
  - destruct (passed_global x); cbn [map fst]; [apply subl_cons|apply subl_skip]; apply IH.
  - apply subl_skip; apply IH.
Qed.
Lemma traceG_times tr : map fst (traceG tr) = map fst tr.
Proof. induction tr as [|[now ip] r IH]; cbn [traceG map fst]; [reflexivity|]. rewrite IH. reflexivity. Qed.

Lemma trace64_keys tr : forall rs x, In x (map snd (trace64 tr rs)) -> In x (map ext64 (v6s tr)).
Proof.
  induction tr as [|[now ip] r IH]; intros rs x; [destruct rs; cbn; tauto|].
  destruct rs as [|y ys]; destruct ip as [a|a]; cbn [trace64 map snd v6s In]; try tauto.
  - apply IH.
  - destruct (passed_global y); cbn [map snd In]; [intros [H|H]; [left; exact H|right; eapply IH; exact H]|].
    intro H. right. eapply IH. exact H.
Qed.
Lemma trace48_keys tr : forall rs x, In x (map snd (trace48 tr rs)) -> In x (map ext48 (v6s tr)).
Proof.
  induction tr as [|[now ip] r IH]; intros rs x; [destruct rs; cbn; tauto|].
  destruct rs as [|y ys]; destruct ip as [a|a]; cbn [trace48 map snd v6s In]; try tauto.
  - apply IH.
  - destruct (passed_64 y); cbn [map snd In]; [intros [H|H]; [left; exact H|right; eapply IH; exact H]|].
    intro H. right. eapply IH. exact H.
Qed.
Lemma trace24_keys tr : forall rs x, In x (map snd (trace24 tr rs)) -> In x (map ext24 (v4s tr)).
Proof.
  induction tr as [|[now ip] r IH]; intros rs x; [destruct rs; cbn; tauto|].
  destruct rs as [|y ys]; destruct ip as [a|a]; cbn [trace24 map snd v4s In]; try tauto.
  - destruct (passed_global y); cbn [map snd In]; [intros [H|H]; [left; exact H|right; eapply IH; exact H]|].
    intro H. right. eapply IH. exact H.
  - apply IH.
Qed.

(* generic: a key of an engine that starts empty and whose keys all lie in U *)
Lemma engine_key_bound_U c cap U tr k :
  (forall x, In x (map snd tr) -> In x U) -> N.of_nat (length U) <= cap ->
  ntrue (results_of k tr (snd (engine_run c cap [] tr))) * c_window c
  <= c_burst c * c_window c + c_max c * span (map fst tr).
Proof.
  intros HU Hc.
  destruct (engine_isolation c cap U tr [] k (EI_nil U) HU Hc) as [H1 _]. rewrite H1. cbn [e_find].
  pose proof (fresh_bound c (times_of k tr)) as HB.
  pose proof (span_subl _ _ (times_of_subl k tr)) as HS.
  assert (c_max c * span (times_of k tr) <= c_max c * span (map fst tr)) by (apply N.mul_le_mono_l; exact HS).
  lia.
Qed.

Lemma engine_key_window_U c cap U tr k t0 :
  (forall x, In x (map snd tr) -> In x U) -> N.of_nat (length U) <= cap ->
  Forall (fun t => t0 <= t /\ t <= t0 + c_window c) (map fst tr) ->
  ntrue (results_of k tr (snd (engine_run c cap [] tr))) <= c_max c.
Proof.
  intros HU Hc HF.
  destruct (engine_isolation c cap U tr [] k (EI_nil U) HU Hc) as [H1 _]. rewrite H1. cbn [e_find].
  apply fresh_window_bound.
  pose proof (Forall_subl _ _ _ (times_of_subl k tr) HF) as HF'.
  destruct (times_of k tr) as [|t r] eqn:E; [constructor|].
  cbn [hd]. pose proof (Forall_inv HF') as H0. cbn beta in H0.
  eapply Forall_impl; [|exact HF']. cbn beta. intros a Ha. lia.
Qed.

Definition distinct (l : list N) : N := N.of_nat (length (nodup N.eq_dec l)).

(* the LRU of every engine is large enough for the prefixes in play *)
Definition join_fits (cap : N) (tr : list (N * addr)) : Prop :=
  1 <= cap /\ distinct (map ext64 (v6s tr)) <= cap /\ distinct (map ext48 (v6s tr)) <= cap /\
  distinct (map ext24 (v4s tr)) <= cap.

Section JoinBounds.
  Variables (jc : jcfg) (cap : N) (tr : list (N * addr)).
  Hypothesis Hfit : join_fits cap tr.
  Let rs := snd (join_run jc cap js_init tr).
  Let T := span (map fst tr).

  Lemma join_bound_64 p : count_ok (in64 p) tr rs * W64 <= j_per64 jc * W64 + j_per64 jc * T.
  Proof.
    destruct Hfit as (_ & H64 & _ & _).
    destruct (join_engines jc cap tr js_init) as (_ & E64 & _ & _). cbn zeta in E64. fold rs in E64.
    cbn [js_init s_64] in E64.
    pose proof (count64_le p tr rs) as HC.
    pose proof (engine_key_bound_U (cfg64 jc) cap (nodup N.eq_dec (map ext64 (v6s tr))) (trace64 tr rs) p) as HB.
    rewrite E64 in HB. cbn [snd cfg64 c_window c_burst c_max] in HB.
    specialize (HB ltac:(intros x Hx; apply nodup_In; eapply trace64_keys; exact Hx) H64).
    pose proof (span_subl _ _ (trace64_times tr rs)) as HS. fold T in HS.
    assert (j_per64 jc * span (map fst (trace64 tr rs)) <= j_per64 jc * T) by (apply N.mul_le_mono_l; exact HS).
    assert (count_ok (in64 p) tr rs * W64 <= ntrue (results_of p (trace64 tr rs) (adm64 tr rs)) * W64)
      by (apply N.mul_le_mono_r; exact HC).
    lia.
  Qed.

  Lemma join_bound_48 p : count_ok (in48 p) tr rs * W48 <= j_per48 jc * W48 + j_per48 jc * T.
  Proof.
    destruct Hfit as (_ & _ & H48 & _).
    destruct (join_engines jc cap tr js_init) as (_ & _ & E48 & _). cbn zeta in E48. fold rs in E48.
    cbn [js_init s_48] in E48.
    pose proof (count48_le p tr rs) as HC.
    pose proof (engine_key_bound_U (cfg48 jc) cap (nodup N.eq_dec (map ext48 (v6s tr))) (trace48 tr rs) p) as HB.
    rewrite E48 in HB. cbn [snd cfg48 c_window c_burst c_max] in HB.
    specialize (HB ltac:(intros x Hx; apply nodup_In; eapply trace48_keys; exact Hx) H48).
    pose proof (span_subl _ _ (trace48_times tr rs)) as HS. fold T in HS.
    assert (j_per48 jc * span (map fst (trace48 tr rs)) <= j_per48 jc * T) by (apply N.mul_le_mono_l; exact HS).
    assert (count_ok (in48 p) tr rs * W48 <= ntrue (results_of p (trace48 tr rs) (adm48 tr rs)) * W48)
      by (apply N.mul_le_mono_r; exact HC).
    lia.
  Qed.

  Lemma join_bound_24 p : count_ok (in24 p) tr rs * W24 <= j_per24 jc * W24 + j_per24 jc * T.
  Proof.
    destruct Hfit as (_ & _ & _ & H24).
    destruct (join_engines jc cap tr js_init) as (_ & _ & _ & E24). cbn zeta in E24. fold rs in E24.
    cbn [js_init s_24] in E24.
    pose proof (count24_le p tr rs) as HC.
    pose proof (engine_key_bound_U (cfg24 jc) cap (nodup N.eq_dec (map ext24 (v4s tr))) (trace24 tr rs) p) as HB.
    rewrite E24 in HB. cbn [snd cfg24 c_window c_burst c_max] in HB.
    specialize (HB ltac:(intros x Hx; apply nodup_In; eapply trace24_keys; exact Hx) H24).
    pose proof (span_subl _ _ (trace24_times tr rs)) as HS. fold T in HS.
    assert (j_per24 jc * span (map fst (trace24 tr rs)) <= j_per24 jc * T) by (apply N.mul_le_mono_l; exact HS).
    assert (count_ok (in24 p) tr rs * W24 <= ntrue (results_of p (trace24 tr rs) (adm24 tr rs)) * W24)
      by (apply N.mul_le_mono_r; exact HC).
    lia.
  Qed.

  Lemma results_of_all0 tr0 : forall xs, length xs = length tr0 -> results_of 0 (traceG tr0) xs = xs.
  Proof.
    induction tr0 as [|[now ip] r IH]; intros [|x xs] HL; cbn in HL; try lia; [reflexivity|].
    cbn [traceG results_of]. rewrite N.eqb_refl. rewrite IH by lia. reflexivity.
  Qed.

  Lemma traceG_keys tr0 : forall x, In x (map snd (traceG tr0)) -> In x [0].
  Proof.
    induction tr0 as [|[now ip] r IH]; cbn [traceG map snd In]; [tauto|].
    intros x [H|H]; [left; exact H|apply IH; exact H].
  Qed.

  (* tokens taken from the global bucket (admitted or later denied by a subnet level) *)
  Lemma join_bound_global :
    ntrue (map passed_global rs) * WG <= j_gburst jc * WG + j_gmax jc * T.
  Proof.
    destruct Hfit as (H1 & _).
    destruct (join_engines jc cap tr js_init) as (EG & _). cbn zeta in EG. fold rs in EG.
    cbn [js_init s_g] in EG.
    pose proof (engine_key_bound_U (cfgG jc) cap [0] (traceG tr) 0 (traceG_keys tr)) as HB.
    rewrite EG in HB. cbn [snd cfgG c_window c_burst c_max length] in HB.
    specialize (HB ltac:(lia)).
    rewrite results_of_all0 in HB by (rewrite map_length; apply join_run_length).
    rewrite traceG_times in HB. exact HB.
  Qed.

  Lemma join_bound_total : count_ok anyaddr tr rs * WG <= j_gburst jc * WG + j_gmax jc * T.
  Proof.
    pose proof join_bound_global as HG.
    pose proof (count_any_le tr rs (join_run_length jc cap tr js_init)) as HC.
    assert (count_ok anyaddr tr rs * WG <= ntrue (map passed_global rs) * WG) by (apply N.mul_le_mono_r; exact HC).
    lia.
  Qed.
End JoinBounds.

(* ---- "per hour": inside one window of the first attempt from a prefix, at most the cap *)
Section JoinWindow.
  Variables (jc : jcfg) (cap : N) (tr : list (N * addr)) (t0 : N).
  Hypothesis Hfit : join_fits cap tr.
  Let rs := snd (join_run jc cap js_init tr).

  Lemma join_window_64 p :
    Forall (fun t => t0 <= t /\ t <= t0 + W64) (map fst tr) -> count_ok (in64 p) tr rs <= j_per64 jc.
  Proof.
    intro HF. destruct Hfit as (_ & H64 & _ & _).
    destruct (join_engines jc cap tr js_init) as (_ & E64 & _ & _). cbn zeta in E64. fold rs in E64.
    cbn [js_init s_64] in E64.
    pose proof (count64_le p tr rs) as HC.
    pose proof (engine_key_window_U (cfg64 jc) cap (nodup N.eq_dec (map ext64 (v6s tr))) (trace64 tr rs) p t0) as HB.
    rewrite E64 in HB. cbn [snd cfg64 c_window c_burst c_max] in HB.
    specialize (HB ltac:(intros x Hx; apply nodup_In; eapply trace64_keys; exact Hx) H64
                   (Forall_subl _ _ _ (trace64_times tr rs) HF)).
    lia.
  Qed.

  Lemma join_window_48 p :
    Forall (fun t => t0 <= t /\ t <= t0 + W48) (map fst tr) -> count_ok (in48 p) tr rs <= j_per48 jc.
  Proof.
    intro HF. destruct Hfit as (_ & _ & H48 & _).
    destruct (join_engines jc cap tr js_init) as (_ & _ & E48 & _). cbn zeta in E48. fold rs in E48.
    cbn [js_init s_48] in E48.
    pose proof (count48_le p tr rs) as HC.
    pose proof (engine_key_window_U (cfg48 jc) cap (nodup N.eq_dec (map ext48 (v6s tr))) (trace48 tr rs) p t0) as HB.
    rewrite E48 in HB. cbn [snd cfg48 c_window c_burst c_max] in HB.
    specialize (HB ltac:(intros x Hx; apply nodup_In; eapply trace48_keys; exact Hx) H48
                   (Forall_subl _ _ _ (trace48_times tr rs) HF)).
    lia.
  Qed.

  Lemma join_window_24 p :
    Forall (fun t => t0 <= t /\ t <= t0 + W24) (map fst tr) -> count_ok (in24 p) tr rs <= j_per24 jc.
  Proof.
    intro HF. destruct Hfit as (_ & _ & _ & H24).
    destruct (join_engines jc cap tr js_init) as (_ & _ & _ & E24). cbn zeta in E24. fold rs in E24.
    cbn [js_init s_24] in E24.
    pose proof (count24_le p tr rs) as HC.
    pose proof (engine_key_window_U (cfg24 jc) cap (nodup N.eq_dec (map ext24 (v4s tr))) (trace24 tr rs) p t0) as HB.
    rewrite E24 in HB. cbn [snd cfg24 c_window c_burst c_max] in HB.
    specialize (HB ltac:(intros x Hx; apply nodup_In; eapply trace24_keys; exact Hx) H24
                   (Forall_subl _ _ _ (trace24_times tr rs) HF)).
    lia.
  Qed.
End JoinWindow.

(* ================================================================== prefixes as bit arithmetic *)
Lemma zero_low_eq_iff d a b : zero_low d a = zero_low d b <-> N.shiftr a d = N.shiftr b d.
Proof.
  unfold zero_low. split; intro H; [|rewrite H; reflexivity].
  rewrite !N.shiftl_mul_pow2 in H. apply N.mul_cancel_r in H; [exact H|].
  apply N.pow_nonzero. discriminate.
Qed.

Lemma shiftr_eq_iff_bits d a b :
  N.shiftr a d = N.shiftr b d <-> (forall i, d <= i -> N.testbit a i = N.testbit b i).
Proof.
  split.
  - intros H i Hi. replace i with ((i - d) + d) by lia. rewrite <- !N.shiftr_spec by lia. rewrite H. reflexivity.
  - intro H. apply N.bits_inj. intro m. rewrite !N.shiftr_spec by lia. apply H. lia.
Qed.

Lemma zero_low_div d a : zero_low d a = (a / 2 ^ d) * 2 ^ d.
Proof. unfold zero_low. rewrite N.shiftl_mul_pow2, N.shiftr_div_pow2. reflexivity. Qed.

Lemma zero_low_sub d a : zero_low d a = a - a mod 2 ^ d.
Proof.
  rewrite zero_low_div.
  assert (Hp : 2 ^ d <> 0) by (apply N.pow_nonzero; discriminate).
  generalize dependent (2 ^ d). intros p Hp.
  pose proof (N.div_mod a p Hp) as H. rewrite (N.mul_comm p) in H.
  generalize dependent (a / p * p). intros m H. lia.
Qed.

Lemma zero_low_bits d a i : N.testbit (zero_low d a) i = if i <? d then false else N.testbit a i.
Proof.
  unfold zero_low. destruct (i <? d) eqn:E.
  - apply N.shiftl_spec_low. lia.
  - rewrite N.shiftl_spec_high' by lia. rewrite N.shiftr_spec by lia. f_equal. lia.
Qed.

Lemma zero_low_idem d a : zero_low d (zero_low d a) = zero_low d a.
Proof.
  apply N.bits_inj. intro i. rewrite !zero_low_bits. destruct (i <? d); reflexivity.
Qed.

(* same /64 <=> same /48 for coarser: a shared /64 implies a shared /48 *)
Lemma same64_same48 a b : ext64 a = ext64 b -> ext48 a = ext48 b.
Proof.
  unfold ext64, ext48. rewrite !zero_low_eq_iff, !shiftr_eq_iff_bits. intros H i Hi. apply H. lia.
Qed.

Lemma v4_mapped_64 x : x < 4294967296 -> ext64 (v4_mapped x) = 0.
Proof.
  intro H. unfold ext64, zero_low, v4_mapped. rewrite N.shiftr_div_pow2.
  change (2 ^ 64) with 18446744073709551616. rewrite N.div_small by lia. reflexivity.
Qed.
Lemma v4_mapped_48 x : x < 4294967296 -> ext48 (v4_mapped x) = 0.
Proof.
  intro H. unfold ext48, zero_low, v4_mapped. rewrite N.shiftr_div_pow2.
  change (2 ^ 80) with 1208925819614629174706176. rewrite N.div_small by lia. reflexivity.
Qed.

(* ================================================================== monotonicity in time (token part) *)
(* if every gap of timeline g' is at least the corresponding gap of g, then after every call the
   faster-clock run has admitted at least as many attempts *)
Lemma tb_run_cons c tok g r :
  tb_run c tok (g :: r) =
  (fst (tb_run c (fst (tb_step c g tok)) r), snd (tb_step c g tok) :: snd (tb_run c (fst (tb_step c g tok)) r)).
Proof.
  cbn [tb_run]. destruct (tb_step c g tok) as [t1 x]. cbn [fst snd].
  destruct (tb_run c t1 r) as [t2 xs]. reflexivity.
Qed.

Lemma tb_mono_step c g g' tok tok' d :
  g <= g' -> tok <= tok' + d * c_window c -> tok <= tok_cap c -> tok' <= tok_cap c ->
  let r := tb_step c g tok in let r' := tb_step c g' tok' in
  exists d', d' + (if snd r then 1 else 0) = d + (if snd r' then 1 else 0) /\
             fst r <= fst r' + d' * c_window c /\ fst r <= tok_cap c /\ fst r' <= tok_cap c.
Proof.
  intros Hg Ht Hc Hc'. cbn zeta. unfold tb_step.
  set (W := c_window c) in *. set (C := tok_cap c) in *.
  assert (HM : g * c_max c <= g' * c_max c) by (apply N.mul_le_mono_r; exact Hg).
  set (A := g * c_max c) in *. set (A' := g' * c_max c) in *.
  assert (H1 : N.min (tok + A) C <= N.min (tok' + A') C + d * W) by lia.
  set (t1 := N.min (tok + A) C) in *. set (t1' := N.min (tok' + A') C) in *.
  assert (Hc1 : t1 <= C) by lia. assert (Hc1' : t1' <= C) by lia.
  destruct (W <=? t1) eqn:E; destruct (W <=? t1') eqn:E'; cbn [fst snd].
  - exists d. repeat split; lia.
  - (* slow clock admits, fast clock does not: the fast run must be ahead *)
    assert (Hd : 1 <= d).
    { destruct (N.eq_dec d 0) as [->|]; [|lia]. rewrite N.mul_0_l in H1. lia. }
    exists (d - 1). repeat split; try lia; rewrite N.mul_sub_distr_r; lia.
  - exists (d + 1). repeat split; try lia; rewrite N.mul_add_distr_r; lia.
  - exists d. repeat split; lia.
Qed.

Lemma tb_mono c gs : forall gs' tok tok' d,
  Forall2 N.le gs gs' -> tok <= tok' + d * c_window c -> tok <= tok_cap c -> tok' <= tok_cap c ->
  forall n, ntrue (firstn n (snd (tb_run c tok gs))) <= d + ntrue (firstn n (snd (tb_run c tok' gs'))).
Proof.
  induction gs as [|g r IH]; intros gs' tok tok' d HF Ht Hc Hc' n.
  - inv HF. cbn. destruct n; cbn; lia.
  - inv HF. rewrite !tb_run_cons. cbn [snd].
    destruct n as [|n]; [cbn; lia|]. cbn [firstn ntrue].
    destruct (tb_mono_step c g y tok tok' d H1 Ht Hc Hc') as (d' & Hd & Hle & Hc1 & Hc1').
    specialize (IH l' _ _ d' H3 Hle Hc1 Hc1' n).
    destruct (snd (tb_step c g tok)); destruct (snd (tb_step c y tok')); lia.
Qed.

(* the full bucket coincides with its token part while the window counter cannot bind *)
Lemma tb_agrees c gs : forall b,
  Inv c b ->
  b_inwin b + N.of_nat (length gs) <= c_max c ->
  snd (bucket_run c b (times_from (b_last b) gs)) = snd (tb_run c (b_tok b) gs) /\
  b_tok (fst (bucket_run c b (times_from (b_last b) gs))) = fst (tb_run c (b_tok b) gs).
Proof.
  induction gs as [|g r IH]; intros b HI Hlen; [cbn; auto|].
  cbn [times_from]. rewrite bucket_run_cons, tb_run_cons. cbn [fst snd].
  cbn [length] in Hlen.
  assert (Hstep : snd (try_consume c (b_last b + g) b) = snd (tb_step c g (b_tok b)) /\
                  b_tok (fst (try_consume c (b_last b + g) b)) = fst (tb_step c g (b_tok b)) /\
                  b_inwin (fst (try_consume c (b_last b + g) b)) <= b_inwin b + 1).
  { unfold try_consume, tb_step, can_admit. cbn zeta.
    assert (Etok : b_tok (tick c (b_last b + g) b) = N.min (b_tok b + g * c_max c) (tok_cap c)).
    { unfold tick. cbn [b_tok]. f_equal. f_equal. f_equal. lia. }
    pose proof (tick_inwin_le c (b_last b + g) b) as Hiw.
    rewrite Etok.
    assert (Eiw : (b_inwin (tick c (b_last b + g) b) <? c_max c) = true) by lia.
    rewrite Eiw, andb_true_r.
    destruct (c_window c <=? N.min (b_tok b + g * c_max c) (tok_cap c)); cbn [fst snd consume b_tok b_inwin].
    - rewrite Etok. repeat split; lia.
    - rewrite Etok. repeat split; lia. }
  destruct Hstep as (E1 & E2 & E3).
  pose proof (inv_try c (b_last b + g) b HI) as HI'.
  pose proof (try_last c (b_last b + g) b) as HL.
  specialize (IH (fst (try_consume c (b_last b + g) b)) HI' ltac:(lia)).
  rewrite HL, E2 in IH. destruct IH as [IH1 IH2].
  rewrite IH1, IH2, E1. split; reflexivity.
Qed.

Lemma Forall2_len {A B} (R : A -> B -> Prop) l l' : Forall2 R l l' -> length l = length l'.
Proof. induction 1; cbn; congruence. Qed.

Lemma times_from_length t0 gs : length (times_from t0 gs) = length gs.
Proof. revert t0. induction gs as [|g r IH]; intro t0; cbn; [reflexivity|]. rewrite IH. reflexivity. Qed.

(* a fresh key, first used at t0, later calls after the given gaps; the window counter cannot
   bind because there are no more calls than max *)
Lemma fresh_monotone c t0 gs gs' :
  Forall2 N.le gs gs' -> N.of_nat (length gs) + 1 <= c_max c ->
  forall n, ntrue (firstn n (snd (obucket_run c None (t0 :: times_from t0 gs))))
            <= ntrue (firstn n (snd (obucket_run c None (t0 :: times_from t0 gs')))).
Proof.
  intros HF Hlen n. rewrite !obucket_run_none.
  pose proof (Forall2_len _ _ _ HF) as HL.
  assert (E : forall l, t0 :: times_from t0 l = times_from (b_last (bucket_new c t0)) (0 :: l)).
  { intro l. cbn [bucket_new b_last times_from]. rewrite N.add_0_r. reflexivity. }
  rewrite !E.
  destruct (tb_agrees c (0 :: gs) (bucket_new c t0) (inv_new c t0)) as [A1 _].
  { cbn [bucket_new b_inwin length]. lia. }
  destruct (tb_agrees c (0 :: gs') (bucket_new c t0) (inv_new c t0)) as [A2 _].
  { cbn [bucket_new b_inwin length]. lia. }
  rewrite A1, A2.
  pose proof (tb_mono c (0 :: gs) (0 :: gs') (b_tok (bucket_new c t0)) (b_tok (bucket_new c t0)) 0) as HM.
  specialize (HM ltac:(constructor; [lia|exact HF]) ltac:(lia)).
  cbn [bucket_new b_tok] in *. specialize (HM ltac:(lia) ltac:(lia) n). lia.
Qed.

(* ================================================================== denial at the engine level *)
Lemma engine_try_denied c cap now k e U :
  EI U e -> In k U -> N.of_nat (length U) <= cap ->
  snd (engine_try c cap now k e) = false ->
  e_find k (fst (engine_try c cap now k e)) =
    Some (tick c now (match e_find k e with Some b => b | None => bucket_new c now end)) /\
  (forall k', k' <> k -> e_find k' (fst (engine_try c cap now k e)) = e_find k' e).
Proof.
  intros HE Hk Hc Hd.
  destruct (engine_try_spec c cap now k e U HE Hk Hc) as (_ & Hres & Hfk & Hfo).
  split; [|exact Hfo]. rewrite Hfk. f_equal. unfold obucket_try in *.
  apply try_denied_is_tick. rewrite <- Hres. exact Hd.
Qed.

(* ================================================================== validation::RateLimiter *)
Definition ip_passed (r : ipres) : bool := negb (ipres_eqb r IpGlobal).
Definition ip_ok (r : ipres) : bool := ipres_eqb r IpOk.
Fixpoint ip_trace (tr : list (N * N)) (rs : list ipres) : list (N * N) :=
  match tr, rs with
  | (now, k) :: tr', x :: rs' => if ip_passed x then (now, k) :: ip_trace tr' rs' else ip_trace tr' rs'
  | _, _ => []
  end.
Fixpoint ip_adm (tr : list (N * N)) (rs : list ipres) : list bool :=
  match tr, rs with
  | (now, k) :: tr', x :: rs' => if ip_passed x then ip_ok x :: ip_adm tr' rs' else ip_adm tr' rs'
  | _, _ => []
  end.

Lemma ip_run_cons c cap st now k r :
  ip_run c cap st ((now, k) :: r) =
  (fst (ip_run c cap (fst (check_ip c cap now k st)) r),
   snd (check_ip c cap now k st) :: snd (ip_run c cap (fst (check_ip c cap now k st)) r)).
Proof.
  cbn [ip_run]. destruct (check_ip c cap now k st) as [s1 x]. cbn [fst snd].
  destruct (ip_run c cap s1 r) as [s2 xs]. reflexivity.
Qed.

Lemma ip_engines c cap tr : forall st,
  let st' := fst (ip_run c cap st tr) in
  let rs := snd (ip_run c cap st tr) in
  bucket_run c (fst st) (map fst tr) = (fst st', map ip_passed rs) /\
  engine_run c cap (snd st) (ip_trace tr rs) = (snd st', ip_adm tr rs).
Proof.
  induction tr as [|[now k] r IH]; intro st; cbn zeta.
  - cbn. destruct st; auto.
  - rewrite ip_run_cons. cbn [fst snd].
    specialize (IH (fst (check_ip c cap now k st))). cbn zeta in IH. destruct IH as [IHg IHk].
    revert IHg IHk. unfold check_ip. destruct st as [g e].
    destruct (try_consume c now g) as [g' okg] eqn:EG. destruct okg.
    + destruct (engine_try c cap now k e) as [e' okk] eqn:EK. cbn [fst snd]. intros IHg IHk.
      cbn [map fst bucket_run]. rewrite EG, IHg.
      destruct okk; cbn [map ip_passed ipres_eqb negb ip_trace ip_adm ip_ok engine_run];
        rewrite EK, IHk; auto.
    + cbn [fst snd]. intros IHg IHk.
      cbn [map fst bucket_run]. rewrite EG, IHg.
      cbn [map ip_passed ipres_eqb negb ip_trace ip_adm]. auto.
Qed.

Lemma ip_run_length c cap tr : forall st, length (snd (ip_run c cap st tr)) = length tr.
Proof.
  induction tr as [|[now k] r IH]; intro st; [reflexivity|].
  rewrite ip_run_cons. cbn [snd length]. rewrite IH. reflexivity.
Qed.

(* requests that pass the shared global bucket *)
Lemma ip_global_bound c cap t_create tr :
  ntrue (map ip_passed (snd (ip_run c cap (ip_init c t_create) tr))) * c_window c
  <= c_burst c * c_window c + c_max c * span_from t_create (map fst tr).
Proof.
  destruct (ip_engines c cap tr (ip_init c t_create)) as [EG _]. cbn zeta in EG.
  cbn [ip_init fst] in EG.
  pose proof (bucket_bound c (bucket_new c t_create) (map fst tr) (inv_new c t_create)) as HB.
  rewrite EG in HB. cbn [snd bucket_new b_last] in HB. exact HB.
Qed.

Lemma ip_trace_times tr : forall rs, subl (map fst (ip_trace tr rs)) (map fst tr).
Proof.
  induction tr as [|[now k] r IH]; intros rs; [destruct rs; constructor|].
  destruct rs as [|x xs]; cbn [ip_trace map fst]; [apply subl_nil|].
  destruct (ip_passed x); cbn [map fst]; [apply subl_cons|apply subl_skip]; apply IH.
Qed.
Lemma ip_trace_keys tr : forall rs x, In x (map snd (ip_trace tr rs)) -> In x (map snd tr).
Proof.
  induction tr as [|[now k] r IH]; intros rs x; [destruct rs; cbn; tauto|].
  destruct rs as [|y ys]; cbn [ip_trace map snd In]; [tauto|].
  destruct (ip_passed y); cbn [map snd In]; [intros [H|H]; [left; exact H|right; eapply IH; exact H]|].
  intro H. right. eapply IH. exact H.
Qed.
Lemma count_ip_le k tr : forall rs,
  count_ip k IpOk tr rs <= ntrue (results_of k (ip_trace tr rs) (ip_adm tr rs)).
Proof.
  induction tr as [|[now q] r IH]; intros [|x xs]; cbn [count_ip ip_trace ip_adm results_of ntrue]; try lia.
  specialize (IH xs).
  destruct x; cbn [ip_passed ipres_eqb negb ip_ok results_of ntrue andb];
    destruct (q =? k); cbn [andb ntrue]; lia.
Qed.

(* requests admitted for one IP *)
Lemma ip_key_bound c cap t_create tr k :
  distinct (map snd tr) <= cap ->
  count_ip k IpOk tr (snd (ip_run c cap (ip_init c t_create) tr)) * c_window c
  <= c_burst c * c_window c + c_max c * span (map fst tr).
Proof.
  intro Hd. set (rs := snd (ip_run c cap (ip_init c t_create) tr)).
  destruct (ip_engines c cap tr (ip_init c t_create)) as [_ EK]. cbn zeta in EK. fold rs in EK.
  cbn [ip_init snd] in EK.
  pose proof (engine_key_bound_U c cap (nodup N.eq_dec (map snd tr)) (ip_trace tr rs) k) as HB.
  rewrite EK in HB. cbn [snd] in HB.
  specialize (HB ltac:(intros x Hx; apply nodup_In; eapply ip_trace_keys; exact Hx) Hd).
  pose proof (count_ip_le k tr rs) as HC.
  pose proof (span_subl _ _ (ip_trace_times tr rs)) as HS.
  assert (c_max c * span (map fst (ip_trace tr rs)) <= c_max c * span (map fst tr)) by (apply N.mul_le_mono_l; exact HS).
  assert (count_ip k IpOk tr rs * c_window c <= ntrue (results_of k (ip_trace tr rs) (ip_adm tr rs)) * c_window c)
    by (apply N.mul_le_mono_r; exact HC).
  lia.
Qed.

(* ================================================================== zero-elapsed bursts *)
Lemma cancel_W x c W : 0 < W -> x * W <= c * W + c * 0 -> x <= c.
Proof. intros HW H. rewrite N.mul_0_r, N.add_0_r in H. apply N.mul_le_mono_pos_r in H; assumption. Qed.

Lemma W64_pos : 0 < W64. Proof. reflexivity. Qed.
Lemma W48_pos : 0 < W48. Proof. reflexivity. Qed.
Lemma W24_pos : 0 < W24. Proof. reflexivity. Qed.
Lemma WG_pos : 0 < WG. Proof. reflexivity. Qed.

Lemma join_burst jc cap tr :
  join_fits cap tr -> span (map fst tr) = 0 ->
  let rs := snd (join_run jc cap js_init tr) in
  (forall p, count_ok (in64 p) tr rs <= j_per64 jc) /\
  (forall p, count_ok (in48 p) tr rs <= j_per48 jc) /\
  (forall p, count_ok (in24 p) tr rs <= j_per24 jc) /\
  ntrue (map passed_global rs) <= j_gburst jc /\
  count_ok anyaddr tr rs <= j_gburst jc.
Proof.
  intros Hfit HT. cbn zeta. repeat split; intros.
  - pose proof (join_bound_64 jc cap tr Hfit p) as H. rewrite HT in H. exact (cancel_W _ _ _ W64_pos H).
  - pose proof (join_bound_48 jc cap tr Hfit p) as H. rewrite HT in H. exact (cancel_W _ _ _ W48_pos H).
  - pose proof (join_bound_24 jc cap tr Hfit p) as H. rewrite HT in H. exact (cancel_W _ _ _ W24_pos H).
  - pose proof (join_bound_global jc cap tr Hfit) as H. rewrite HT in H.
    rewrite N.mul_0_r, N.add_0_r in H. apply N.mul_le_mono_pos_r in H; [exact H|exact WG_pos].
  - pose proof (join_bound_total jc cap tr Hfit) as H. rewrite HT in H.
    rewrite N.mul_0_r, N.add_0_r in H. apply N.mul_le_mono_pos_r in H; [exact H|exact WG_pos].
Qed.

(* a clock that does not move: span = 0 *)
Lemma span_const t n : span (repeat t n) = 0.
Proof.
  destruct n as [|n]; [reflexivity|]. cbn [repeat span].
  induction n as [|n IH]; cbn [repeat span_from]; [reflexivity|]. rewrite IH. lia.
Qed.
