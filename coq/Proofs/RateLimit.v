(* Proofs about Model/RateLimit.v (C14). *)
From SV Require Import Lib.Base Gen.RateLimitConsts Model.RateLimit.
Local Open Scope N_scope.

(* ================================================================== bucket *)
Definition Inv (c : cfg) (b : bucket) : Prop :=
  b_tok b <= tok_cap c /\ b_inwin b <= c_max c /\ b_last b - b_wstart b <= c_window c.

Lemma inv_new c now : Inv c (bucket_new c now).
Proof. unfold Inv, bucket_new; cbn. lia. Qed.

Lemma inv_tick c now b : Inv c b -> Inv c (tick c now b).
Proof.
  unfold Inv, tick. intros (H1 & H2 & H3). cbn.
  destruct (c_window c <? now - b_wstart b) eqn:E; lia.
Qed.

Lemma inv_consume c b : Inv c b -> can_admit c b = true -> Inv c (consume c b).
Proof.
  unfold Inv, consume, can_admit. intros (H1 & H2 & H3) Ha. cbn.
  apply andb_true_iff in Ha. lia.
Qed.

Lemma inv_try c now b : Inv c b -> Inv c (fst (try_consume c now b)).
Proof.
  intro H. unfold try_consume. cbn zeta.
  destruct (can_admit c (tick c now b)) eqn:E; cbn [fst].
  - apply inv_consume; [apply inv_tick; exact H|exact E].
  - apply inv_tick; exact H.
Qed.

Lemma bucket_run_cons c b t r :
  bucket_run c b (t :: r) =
  (fst (bucket_run c (fst (try_consume c t b)) r),
   snd (try_consume c t b) :: snd (bucket_run c (fst (try_consume c t b)) r)).
Proof.
  cbn [bucket_run]. destruct (try_consume c t b) as [b1 x]. cbn [fst snd].
  destruct (bucket_run c b1 r) as [b2 xs]. reflexivity.
Qed.

Lemma inv_run c ts : forall b, Inv c b -> Inv c (fst (bucket_run c b ts)).
Proof.
  induction ts as [|t r IH]; intros b H; [exact H|].
  rewrite bucket_run_cons. cbn [fst]. apply IH. apply inv_try. exact H.
Qed.

Lemma bucket_run_app c pre seg : forall b,
  bucket_run c b (pre ++ seg) =
  (fst (bucket_run c (fst (bucket_run c b pre)) seg),
   snd (bucket_run c b pre) ++ snd (bucket_run c (fst (bucket_run c b pre)) seg)).
Proof.
  induction pre as [|t r IH]; intro b.
  - cbn [app bucket_run fst snd]. destruct (bucket_run c b seg); reflexivity.
  - cbn [app]. rewrite !bucket_run_cons. rewrite IH. cbn [fst snd]. reflexivity.
Qed.

(* ---- the token potential: one call *)
Lemma try_last c now b : b_last (fst (try_consume c now b)) = now.
Proof.
  unfold try_consume. cbn zeta. destruct (can_admit c (tick c now b)); reflexivity.
Qed.

Lemma try_potential c now b :
  b_tok (fst (try_consume c now b)) + (if snd (try_consume c now b) then c_window c else 0)
  <= b_tok b + (now - b_last b) * c_max c.
Proof.
  unfold try_consume. cbn zeta.
  destruct (can_admit c (tick c now b)) eqn:E; cbn [fst snd].
  - unfold can_admit in E. apply andb_true_iff in E. destruct E as [E _].
    unfold consume, tick in *. cbn in *. lia.
  - unfold tick. cbn. lia.
Qed.

Lemma run_potential c ts : forall b,
  ntrue (snd (bucket_run c b ts)) * c_window c + b_tok (fst (bucket_run c b ts))
  <= b_tok b + c_max c * span_from (b_last b) ts.
Proof.
  induction ts as [|t r IH]; intro b.
  - cbn. lia.
  - rewrite bucket_run_cons. cbn [fst snd ntrue span_from].
    specialize (IH (fst (try_consume c t b))). rewrite try_last in IH.
    pose proof (try_potential c t b) as HP.
    destruct (snd (try_consume c t b)); lia.
Qed.

(* admitted * window <= burst * window + max * elapsed, from any reachable state *)
Lemma bucket_bound c b ts :
  Inv c b ->
  ntrue (snd (bucket_run c b ts)) * c_window c
  <= c_burst c * c_window c + c_max c * span_from (b_last b) ts.
Proof.
  intros (H1 & _). pose proof (run_potential c ts b). unfold tok_cap in H1. lia.
Qed.

Lemma div_bound a bq W X : 0 < W -> a * W <= bq * W + X -> a <= bq + X / W.
Proof.
  intros HW H.
  assert (H1 : a * W <= (bq + X / W) * W + X mod W).
  { pose proof (N.div_mod X W ltac:(lia)). lia. }
  pose proof (N.mod_lt X W ltac:(lia)).
  destruct (N.le_gt_cases a (bq + X / W)) as [Hle|Hgt]; [exact Hle|exfalso].
  assert ((bq + X / W + 1) * W <= a * W) by (apply N.mul_le_mono_r; lia).
  lia.
Qed.

Lemma bucket_bound_div c b ts :
  Inv c b -> 0 < c_window c ->
  ntrue (snd (bucket_run c b ts)) <= c_burst c + (c_max c * span_from (b_last b) ts) / c_window c.
Proof.
  intros HI HW. apply div_bound; [exact HW|]. apply bucket_bound. exact HI.
Qed.

(* ---- the fixed-window counter *)
Lemma try_window_noreset c now b :
  now - b_wstart b <= c_window c ->
  b_wstart (fst (try_consume c now b)) = b_wstart b /\
  b_inwin (fst (try_consume c now b)) = b_inwin b + (if snd (try_consume c now b) then 1 else 0).
Proof.
  intro H. unfold try_consume. cbn zeta.
  assert (E : (c_window c <? now - b_wstart b) = false) by lia.
  destruct (can_admit c (tick c now b)); cbn [fst snd]; unfold consume, tick; cbn; rewrite E; split; lia.
Qed.

Lemma run_window_noreset c ts : forall b,
  Forall (fun t => t - b_wstart b <= c_window c) ts ->
  b_wstart (fst (bucket_run c b ts)) = b_wstart b /\
  b_inwin (fst (bucket_run c b ts)) = b_inwin b + ntrue (snd (bucket_run c b ts)).
Proof.
  induction ts as [|t r IH]; intros b HF.
  - cbn. split; lia.
  - inv HF. rewrite bucket_run_cons. cbn [fst snd ntrue].
    destruct (try_window_noreset c t b H1) as [Hw Hi].
    destruct (IH (fst (try_consume c t b))) as [Hw2 Hi2].
    { rewrite Hw. exact H2. }
    rewrite Hw2, Hi2, Hw, Hi. split; lia.
Qed.

(* as long as the window that is open in state b has not expired, the number admitted in it
   (before and after) never exceeds max *)
Lemma window_bound c b ts :
  Inv c b ->
  Forall (fun t => t - b_wstart b <= c_window c) ts ->
  b_inwin b + ntrue (snd (bucket_run c b ts)) <= c_max c.
Proof.
  intros HI HF. destruct (run_window_noreset c ts b HF) as [_ Hi].
  destruct (inv_run c ts b HI) as (_ & H2 & _). lia.
Qed.

(* ---- denial *)
Lemma try_denied_is_tick c now b :
  snd (try_consume c now b) = false -> fst (try_consume c now b) = tick c now b.
Proof.
  unfold try_consume. cbn zeta. destruct (can_admit c (tick c now b)); cbn [fst snd]; congruence.
Qed.

Lemma try_admitted_is_tick_consume c now b :
  snd (try_consume c now b) = true -> fst (try_consume c now b) = consume c (tick c now b).
Proof.
  unfold try_consume. cbn zeta. destruct (can_admit c (tick c now b)); cbn [fst snd]; congruence.
Qed.

Lemma tick_zero_elapsed c b : Inv c b -> tick c (b_last b) b = b.
Proof.
  intros (H1 & H2 & H3). unfold tick.
  assert (E : (c_window c <? b_last b - b_wstart b) = false) by lia.
  rewrite E. destruct b as [tok last iw ws]. cbn in *. f_equal. lia.
Qed.

Lemma tick_tok_le c now b : b_tok (tick c now b) <= b_tok b + (now - b_last b) * c_max c.
Proof. unfold tick; cbn. lia. Qed.

Lemma tick_inwin_le c now b : b_inwin (tick c now b) <= b_inwin b.
Proof. unfold tick; cbn. destruct (c_window c <? now - b_wstart b); lia. Qed.

(* ---- created-on-first-use buckets *)
Lemma obucket_run_cons c ob t r :
  obucket_run c ob (t :: r) =
  (fst (obucket_run c (Some (fst (obucket_try c t ob))) r),
   snd (obucket_try c t ob) :: snd (obucket_run c (Some (fst (obucket_try c t ob))) r)).
Proof.
  cbn [obucket_run]. destruct (obucket_try c t ob) as [b1 x]. cbn [fst snd].
  destruct (obucket_run c (Some b1) r) as [o2 xs]. reflexivity.
Qed.

Lemma obucket_run_some c ts : forall b,
  snd (obucket_run c (Some b) ts) = snd (bucket_run c b ts).
Proof.
  induction ts as [|t r IH]; intro b; [reflexivity|].
  rewrite obucket_run_cons, bucket_run_cons. cbn [snd]. unfold obucket_try. rewrite IH. reflexivity.
Qed.

Lemma obucket_run_none c t r :
  snd (obucket_run c None (t :: r)) = snd (bucket_run c (bucket_new c t) (t :: r)).
Proof.
  rewrite obucket_run_cons, bucket_run_cons. cbn [snd]. unfold obucket_try.
  rewrite obucket_run_some. reflexivity.
Qed.

Lemma span_from_self t r : span_from t (t :: r) = span_from t r.
Proof. cbn [span_from]. lia. Qed.

(* fresh key: admitted * window <= burst * window + max * (time since its first use) *)
Lemma fresh_bound c ts :
  ntrue (snd (obucket_run c None ts)) * c_window c <= c_burst c * c_window c + c_max c * span ts.
Proof.
  destruct ts as [|t r]; [cbn; lia|].
  rewrite obucket_run_none. unfold span.
  pose proof (bucket_bound c (bucket_new c t) (t :: r) (inv_new c t)) as H.
  cbn [bucket_new b_last] in H. rewrite span_from_self in H. exact H.
Qed.

Lemma fresh_window_bound c ts :
  Forall (fun t => t - hd 0 ts <= c_window c) ts ->
  ntrue (snd (obucket_run c None ts)) <= c_max c.
Proof.
  destruct ts as [|t r]; [cbn; lia|]. intro HF.
  rewrite obucket_run_none.
  pose proof (window_bound c (bucket_new c t) (t :: r) (inv_new c t)) as H.
  cbn [bucket_new b_wstart b_inwin hd] in *. specialize (H HF). lia.
Qed.

(* ---- span of a subsequence *)
Inductive subl {A} : list A -> list A -> Prop :=
| subl_nil : forall l, subl [] l
| subl_cons : forall a l1 l2, subl l1 l2 -> subl (a :: l1) (a :: l2)
| subl_skip : forall a l1 l2, subl l1 l2 -> subl l1 (a :: l2).

Lemma span_from_shift t0 t l : span_from t0 l <= (t - t0) + span_from t l.
Proof. destruct l as [|u r]; cbn [span_from]; lia. Qed.

Lemma span_from_subl l' l : subl l' l -> forall t0, span_from t0 l' <= span_from t0 l.
Proof.
  induction 1 as [l|a l1 l2 H IH|a l1 l2 H IH]; intro t0.
  - cbn. lia.
  - cbn [span_from]. specialize (IH a). lia.
  - cbn [span_from]. specialize (IH a). pose proof (span_from_shift t0 a l1). lia.
Qed.

Lemma span_le_span_from t0 l : span l <= span_from t0 l.
Proof. destruct l as [|u r]; cbn [span span_from]; lia. Qed.

Lemma span_subl l' l : subl l' l -> span l' <= span l.
Proof.
  induction 1 as [l|a l1 l2 H IH|a l1 l2 H IH].
  - cbn. lia.
  - cbn [span]. apply span_from_subl. exact H.
  - cbn [span]. pose proof (span_le_span_from a l2). lia.
Qed.

Lemma subl_refl {A} (l : list A) : subl l l.
Proof. induction l; constructor; assumption. Qed.

Lemma subl_in {A} (l' l : list A) x : subl l' l -> In x l' -> In x l.
Proof.
  induction 1; cbn [In]; intro Hin; [contradiction| |right; auto].
  destruct Hin; [left; assumption|right; auto].
Qed.

Lemma subl_trans {A} (l1 l2 l3 : list A) : subl l1 l2 -> subl l2 l3 -> subl l1 l3.
Proof.
  intros H12 H23. revert l1 H12.
  induction H23 as [l|a m1 m2 H IH|a m1 m2 H IH]; intros l1 H12.
  - inv H12. constructor.
  - inv H12; [constructor|constructor; apply IH; assumption|apply subl_skip; apply IH; assumption].
  - apply subl_skip. apply IH. exact H12.
Qed.

(* ---- a burst too short to earn one token behaves as if the clock were frozen *)
(* relation between the real bucket [b] and the frozen-clock bucket [f] *)
Definition near (c : cfg) (slack : N) (b f : bucket) : Prop :=
  exists j d, b_tok f = j * c_window c /\ j <= c_burst c /\ b_tok b = b_tok f + d /\ d <= slack /\
              b_inwin b = b_inwin f /\ b_wstart b = b_wstart f.

Lemma mult_ge j W d : W <= j * W + d -> d < W -> W <= j * W.
Proof.
  intros H Hd. destruct (N.eq_dec j 0) as [->|Hj]; [lia|].
  assert (1 * W <= j * W) by (apply N.mul_le_mono_r; lia). lia.
Qed.

Lemma near_step c slack b f now t0 :
  near c slack b f ->
  b_last f = t0 -> b_wstart f = t0 ->
  now - t0 <= c_window c ->
  slack + (now - b_last b) * c_max c < c_window c ->
  snd (try_consume c now b) = snd (try_consume c t0 f) /\
  near c (slack + (now - b_last b) * c_max c) (fst (try_consume c now b)) (fst (try_consume c t0 f)) /\
  b_last (fst (try_consume c t0 f)) = t0 /\ b_wstart (fst (try_consume c t0 f)) = t0.
Proof.
  intros (j & d & Hf & Hj & Hb & Hd & Hi & Hw) Hl Hws Hnow Hs.
  set (D := (now - b_last b) * c_max c) in *.
  assert (Ecap : tok_cap c = c_burst c * c_window c) by reflexivity.
  (* tick of the frozen bucket is the identity on tokens/inwin/wstart *)
  assert (Ef : tick c t0 f = f).
  { unfold tick. rewrite Hl, Hws. replace (t0 - t0) with 0 by lia.
    assert (E0 : (c_window c <? 0) = false) by lia. rewrite E0.
    assert (j * c_window c <= c_burst c * c_window c) by (apply N.mul_le_mono_r; exact Hj).
    destruct f as [tok last iw ws]. cbn in *. subst last ws. f_equal; lia. }
  (* tick of the real bucket *)
  assert (Er : (c_window c <? now - b_wstart b) = false) by (rewrite Hw, Hws; lia).
  assert (Hjc : j * c_window c <= c_burst c * c_window c) by (apply N.mul_le_mono_r; exact Hj).
  assert (Htick : exists d', b_tok (tick c now b) = b_tok f + d' /\ d' <= slack + D /\
                            b_inwin (tick c now b) = b_inwin f /\ b_wstart (tick c now b) = t0).
  { unfold tick. cbn. rewrite Er. fold D. rewrite Hb, Hi, Hw, Hws.
    destruct (N.le_gt_cases (b_tok f + d + D) (tok_cap c)) as [Hle|Hgt].
    - exists (d + D). repeat split; lia.
    - exists (tok_cap c - b_tok f). repeat split; lia. }
  destruct Htick as (d' & Ht & Hd' & Hi' & Hw').
  unfold try_consume. cbn zeta. rewrite Ef.
  assert (Eadm : can_admit c (tick c now b) = can_admit c f).
  { unfold can_admit. rewrite Ht, Hi'. f_equal.
    destruct (c_window c <=? b_tok f) eqn:E1.
    - lia.
    - destruct (c_window c <=? b_tok f + d') eqn:E2; [|reflexivity].
      exfalso. rewrite Hf in *. pose proof (mult_ge j (c_window c) d' ltac:(lia) ltac:(lia)). lia. }
  rewrite Eadm. destruct (can_admit c f) eqn:Ea; cbn [fst snd].
  - split; [reflexivity|]. split.
    + unfold can_admit in Ea. apply andb_true_iff in Ea. destruct Ea as [Ea _].
      assert (Hj1 : 1 <= j).
      { destruct (N.eq_dec j 0) as [Hj0|Hj0]; [|lia]. exfalso. rewrite Hj0, N.mul_0_l in Hf. lia. }
      exists (j - 1), d'. unfold consume. cbn [b_tok b_last b_inwin b_wstart]. rewrite Ht, Hi', Hw', Hws.
      repeat split; try lia. rewrite N.mul_sub_distr_r. lia.
    + unfold consume. cbn [b_tok b_last b_inwin b_wstart]. split; assumption.
  - split; [reflexivity|]. split.
    + exists j, d'. rewrite Hi', Hw', Hws. repeat split; try lia.
    + split; assumption.
Qed.

Lemma near_run c ts : forall slack b f t0,
  near c slack b f ->
  b_last f = t0 -> b_wstart f = t0 ->
  Forall (fun t => t - t0 <= c_window c) ts ->
  slack + c_max c * span_from (b_last b) ts < c_window c ->
  snd (bucket_run c b ts) = snd (bucket_run c f (map (fun _ => t0) ts)).
Proof.
  induction ts as [|t r IH]; intros slack b f t0 Hn Hl Hw HF Hs; [reflexivity|].
  pose proof (Forall_inv HF) as H1. pose proof (Forall_inv_tail HF) as H2. cbn beta in H1.
  cbn [map]. rewrite !bucket_run_cons. cbn [snd span_from] in *.
  destruct (near_step c slack b f t t0 Hn Hl Hw H1) as (E1 & Hn' & Hl' & Hw'); [lia|].
  f_equal; [exact E1|].
  eapply IH; try eassumption. rewrite try_last. lia.
Qed.

Lemma near_new c t : near c 0 (bucket_new c t) (bucket_new c t).
Proof.
  exists (c_burst c), 0. unfold bucket_new, tok_cap. cbn. repeat split; lia.
Qed.

(* the statement used by the correspondence check: if max * elapsed < window (less than one
   token can be earned) and the first window has not expired, every decision equals the
   decision of the run in which the clock stands still at the time of the first call *)
Lemma frozen_clock_exact c ts :
  Forall (fun t => t - hd 0 ts <= c_window c) ts ->
  c_max c * span ts < c_window c ->
  snd (obucket_run c None ts) = snd (obucket_run c None (map (fun _ => hd 0 ts) ts)).
Proof.
  destruct ts as [|t r]; [reflexivity|]. intros HF Hs.
  cbn [map hd] in *. rewrite !obucket_run_none.
  change (t :: map (fun _ => t) r) with (map (fun _ : N => t) (t :: r)).
  eapply near_run with (slack := 0); try reflexivity.
  - apply near_new.
  - exact HF.
  - cbn [bucket_new b_last]. rewrite span_from_self. unfold span in Hs. lia.
Qed.
