(* Lemmas about Model/Placement.v (C17): sort/top-k, sampler, rounds, validation, totality. *)
From Coq Require Import Floats QArith Permutation.
From SV Require Import Lib.Base Gen.PlacementConsts Model.Placement.

(* ---------------------------------------------------------------- small list facts *)
Lemma existsb_false {A} (f : A -> bool) l :
  existsb f l = false <-> (forall x, In x l -> f x = false).
Proof.
  induction l as [|a l IH]; cbn [existsb]; split; intros H.
  - intros x [].
  - reflexivity.
  - apply orb_false_iff in H as [Ha Hl]. intros x [<-|Hx]; [exact Ha|]. apply IH; assumption.
  - apply orb_false_iff. split; [apply H; left; reflexivity|]. apply IH. intros x Hx. apply H. right; exact Hx.
Qed.

Lemma in_combine_seq {A} (l : list A) s i a :
  In (i, a) (combine (seq s (length l)) l) <-> (s <= i /\ nth_error l (i - s) = Some a)%nat.
Proof.
  revert s. induction l as [|b l IH]; intros s; cbn [length seq combine].
  - split; [intros []|]. intros [_ H]. destruct (i - s)%nat; discriminate.
  - split.
    + intros [E|H].
      * inversion E; subst. split; [lia|]. replace (i - i)%nat with 0%nat by lia. reflexivity.
      * apply IH in H as [Hs Hn]. split; [lia|]. replace (i - s)%nat with (S (i - S s)) by lia. exact Hn.
    + intros [Hs Hn]. destruct (Nat.eq_dec i s) as [->|Hne].
      * replace (s - s)%nat with 0%nat in Hn by lia. cbn in Hn. inversion Hn; subst. left; reflexivity.
      * right. apply IH. split; [lia|]. replace (i - s)%nat with (S (i - S s)) in Hn by lia. exact Hn.
Qed.

Lemma in_indexed {A} (l : list A) i a : In (i, a) (indexed l) <-> nth_error l i = Some a.
Proof.
  unfold indexed. rewrite in_combine_seq. rewrite Nat.sub_0_r. split; [intros [_ H]; exact H|intros H; split; [lia|exact H]].
Qed.

(* ---------------------------------------------------------------- sort_desc / topk *)
Section SortFacts.
  Context {A : Type} (gt : A -> A -> bool).

  Lemma insert_desc_perm x l : Permutation (insert_desc gt x l) (x :: l).
  Proof.
    induction l as [|y t IH]; cbn [insert_desc]; [reflexivity|].
    destruct (gt y x); [|reflexivity].
    rewrite IH. apply perm_swap.
  Qed.

  Lemma sort_desc_perm l : Permutation (sort_desc gt l) l.
  Proof.
    induction l as [|x l IH]; cbn [sort_desc fold_right]; [reflexivity|].
    fold (sort_desc gt l). rewrite insert_desc_perm. constructor. exact IH.
  Qed.
End SortFacts.

Lemma firstn_incl {A} k (l : list A) : incl (firstn k l) l.
Proof.
  revert l. induction k as [|k IH]; intros [|a l]; cbn [firstn]; intros x Hx; try contradiction.
  destruct Hx as [<-|Hx]; [left; reflexivity|right; apply IH; exact Hx].
Qed.

Lemma firstn_NoDup {A} k (l : list A) : NoDup l -> NoDup (firstn k l).
Proof.
  revert l. induction k as [|k IH]; intros [|a l] H; cbn [firstn]; try constructor.
  - inv H. intro Hin. apply H2. eapply firstn_incl; exact Hin.
  - inv H. apply IH; assumption.
Qed.

Lemma NoDup_map_firstn {A B} (f : A -> B) k (l : list A) : NoDup (map f l) -> NoDup (map f (firstn k l)).
Proof. intros H. rewrite <- firstn_map. apply firstn_NoDup; exact H. Qed.

Lemma combine_snd_incl {A B} (a : list A) (b : list B) : incl (map snd (combine a b)) b.
Proof.
  revert b. induction a as [|x a IH]; intros [|y b]; cbn [combine map]; intros z Hz; try contradiction.
  destruct Hz as [<-|Hz]; [left; reflexivity|right; apply IH; exact Hz].
Qed.

Lemma combine_snd_NoDup {A B} (a : list A) (b : list B) : NoDup b -> NoDup (map snd (combine a b)).
Proof.
  revert b. induction a as [|x a IH]; intros [|y b] H; cbn [combine map]; try constructor.
  - inv H. intro Hin. apply H2. eapply combine_snd_incl; exact Hin.
  - inv H. apply IH; assumption.
Qed.

Lemma combine_snd_eq {A B} (a : list A) (b : list B) : length a = length b -> map snd (combine a b) = b.
Proof.
  revert b. induction a as [|x a IH]; intros [|y b] H; cbn in *; try discriminate; [reflexivity|].
  f_equal. apply IH. lia.
Qed.

Section TopK.
  Context {K I : Type} (gt : K -> K -> bool).

  Lemma topk_incl keys (ids : list I) k : incl (topk gt keys ids k) ids.
  Proof.
    unfold topk. intros x Hx. apply in_map_iff in Hx as [[kx x'] [E Hin]]. cbn in E; subst x'.
    apply firstn_incl in Hin.
    eapply Permutation_in in Hin; [|apply sort_desc_perm].
    apply (combine_snd_incl keys ids). apply in_map_iff. exists (kx, x). split; [reflexivity|exact Hin].
  Qed.

  Lemma topk_NoDup keys (ids : list I) k : NoDup ids -> NoDup (topk gt keys ids k).
  Proof.
    intros H. unfold topk. apply NoDup_map_firstn.
    eapply Permutation_NoDup; [apply Permutation_map; symmetry; apply sort_desc_perm|].
    apply combine_snd_NoDup; exact H.
  Qed.

  Lemma topk_length keys (ids : list I) k :
    length keys = length ids -> (k <= length ids)%nat -> length (topk gt keys ids k) = k.
  Proof.
    intros Hl Hk. unfold topk. rewrite map_length, firstn_length.
    rewrite (Permutation_length (sort_desc_perm _ _)), combine_length. lia.
  Qed.

  (* the chosen entries are distinct POSITIONS of the candidate list even when ids repeat *)
  Lemma topk_submultiset keys (ids : list I) k :
    exists rest, Permutation (topk gt keys ids k ++ rest) (map snd (combine keys ids)).
  Proof.
    unfold topk. set (s := sort_desc _ _).
    exists (map snd (skipn k s)). rewrite <- map_app, firstn_skipn.
    apply Permutation_map. apply sort_desc_perm.
  Qed.
End TopK.

(* ---------------------------------------------------------------- sampler *)
Lemma keys_of_length kf draw off ws : length (keys_of kf draw off ws) = length ws.
Proof. unfold keys_of. rewrite map_length, combine_length, seq_length. lia. Qed.

Lemma sample_keys_gen_ok bad cands keys k sel :
  sample_keys_gen bad cands keys k = Ok sel ->
  length keys = length cands ->
  length sel = k /\ incl sel (map fst cands) /\ (NoDup (map fst cands) -> NoDup sel)
  /\ ((0 < k)%nat -> forall c, In c cands -> bad (snd c) = false)
  /\ ((0 < k)%nat -> forall x, In x keys -> PrimFloat.is_nan x = false).
Proof.
  unfold sample_keys_gen. intros H Hl.
  destruct cands as [|c0 cands']; [discriminate|]. set (cands := c0 :: cands') in *.
  destruct (length cands <? k)%nat eqn:Ek; [discriminate|]. apply Nat.ltb_ge in Ek.
  destruct (k =? 0)%nat eqn:E0.
  - apply Nat.eqb_eq in E0. injection H as <-. subst k. split; [reflexivity|]. split; [intros x []|].
    split; [intros _; constructor|]. split; intros Hk; lia.
  - destruct (existsb (fun c => bad (snd c)) cands) eqn:Eb; [discriminate|].
    destruct (existsb PrimFloat.is_nan keys) eqn:En; [discriminate|].
    injection H as <-. repeat split.
    + assert (Hm : length (map fst cands) = length cands) by apply map_length.
      apply topk_length; [etransitivity; [exact Hl|symmetry; exact Hm]|].
      eapply Nat.le_trans; [exact Ek|]. apply Nat.eq_le_incl. symmetry; exact Hm.
    + apply topk_incl.
    + apply topk_NoDup.
    + intros _ c Hc. rewrite existsb_false in Eb. apply (Eb c Hc).
    + intros _ x Hx. rewrite existsb_false in En. apply (En x Hx).
Qed.

Lemma sample_nodes_ok kf draw off cands k sel :
  sample_nodes kf draw off cands k = Ok sel ->
  length sel = k /\ incl sel (map fst cands) /\ (NoDup (map fst cands) -> NoDup sel)
  /\ ((0 < k)%nat -> forall c, In c cands -> weight_bad (snd c) = false).
Proof.
  unfold sample_nodes, sample_keys. intros H.
  apply sample_keys_gen_ok in H; [|rewrite keys_of_length, map_length; reflexivity].
  tauto.
Qed.

(* the sampler picks distinct positions: with the rest it is a permutation of the listed ids *)
Lemma sample_nodes_submultiset kf draw off cands k sel :
  sample_nodes kf draw off cands k = Ok sel -> exists rest, Permutation (sel ++ rest) (map fst cands).
Proof.
  unfold sample_nodes, sample_keys, sample_keys_gen. intros H.
  destruct cands as [|c0 cands']; [discriminate|]. set (cands := c0 :: cands') in *.
  destruct (length cands <? k)%nat; [discriminate|].
  destruct (k =? 0)%nat.
  - injection H as <-. exists (map fst cands). reflexivity.
  - destruct (existsb _ cands); [discriminate|].
    destruct (existsb PrimFloat.is_nan _); [discriminate|]. injection H as <-.
    destruct (topk_submultiset fgt (keys_of kf draw off (map snd cands)) (map fst cands) k) as [rest Hr].
    exists rest. eapply Permutation_trans; [exact Hr|].
    rewrite combine_snd_eq; [reflexivity|]. rewrite keys_of_length, !map_length. reflexivity.
Qed.

(* no NaN key reaches the sort when the guard rejects NaN weights *)
Lemma keys_of_no_nan kf draw off ws :
  (forall u w, in_unit_open u = true -> weight_bad w = false -> PrimFloat.is_nan (kf u w) = false) ->
  (forall i, in_unit_open (draw i) = true) ->
  (forall w, In w ws -> weight_bad w = false) ->
  existsb PrimFloat.is_nan (keys_of kf draw off ws) = false.
Proof.
  intros Hkf Hd Hw. apply existsb_false. intros x Hx. unfold keys_of in Hx.
  apply in_map_iff in Hx as [[i w] [<- Hin]]. cbn [fst snd].
  apply Hkf; [apply Hd|]. apply Hw. apply in_combine_r in Hin. exact Hin.
Qed.

Lemma sample_nodes_no_panic kf draw off cands k :
  (forall u w, in_unit_open u = true -> weight_bad w = false -> PrimFloat.is_nan (kf u w) = false) ->
  (forall i, in_unit_open (draw i) = true) ->
  sample_nodes kf draw off cands k <> Panic.
Proof.
  intros Hkf Hd. unfold sample_nodes, sample_keys, sample_keys_gen.
  destruct cands as [|c0 cands']; [discriminate|]. set (cands := c0 :: cands') in *.
  destruct (length cands <? k)%nat; [discriminate|].
  destruct (k =? 0)%nat; [discriminate|].
  destruct (existsb (fun c => weight_bad (snd c)) cands) eqn:Eb; [discriminate|].
  rewrite keys_of_no_nan; [discriminate|exact Hkf|exact Hd|].
  intros w Hw. apply in_map_iff in Hw as [c [<- Hc]]. rewrite existsb_false in Eb. apply (Eb c Hc).
Qed.

(* ---------------------------------------------------------------- validation *)
Lemma validate_ok dist sel u :
  validate dist sel = Ok u ->
  geo_violation dist sel = false /\ region_violation sel = false /\ asn_violation sel = false.
Proof.
  unfold validate. destruct (geo_violation dist sel); [discriminate|].
  destruct (region_violation sel); [discriminate|].
  destruct (asn_violation sel); [discriminate|]. auto.
Qed.

Lemma validate_not_panic dist sel : validate dist sel <> Panic.
Proof.
  unfold validate. destruct (geo_violation dist sel); [discriminate|].
  destruct (region_violation sel); [discriminate|].
  destruct (asn_violation sel); discriminate.
Qed.

Lemma validate_err_kind dist sel e :
  validate dist sel = Err e -> e = EDivGeo \/ e = EDivRegion \/ e = EDivAsn.
Proof.
  unfold validate. destruct (geo_violation dist sel); [intros H; inv H; auto|].
  destruct (region_violation sel); [intros H; inv H; auto|].
  destruct (asn_violation sel); [intros H; inv H; auto|discriminate].
Qed.

Lemma count_region_absent r sel :
  (forall s, In s sel -> se_region s <> r) -> count_region r sel = 0%N.
Proof.
  intros H. unfold count_region.
  replace (filter (fun s => (se_region s =? r)%N) sel) with (@nil sel_entry); [reflexivity|].
  symmetry. induction sel as [|s sel IH]; [reflexivity|]. cbn [filter].
  destruct (se_region s =? r)%N eqn:E.
  - apply N.eqb_eq in E. exfalso. apply (H s); [left; reflexivity|exact E].
  - apply IH. intros s' Hs'. apply H. right; exact Hs'.
Qed.

Lemma count_asn_absent a sel :
  (forall s, In s sel -> se_asn s <> a) -> count_asn a sel = 0%N.
Proof.
  intros H. unfold count_asn.
  replace (filter (fun s => (se_asn s =? a)%N) sel) with (@nil sel_entry); [reflexivity|].
  symmetry. induction sel as [|s sel IH]; [reflexivity|]. cbn [filter].
  destruct (se_asn s =? a)%N eqn:E.
  - apply N.eqb_eq in E. exfalso. apply (H s); [left; reflexivity|exact E].
  - apply IH. intros s' Hs'. apply H. right; exact Hs'.
Qed.

Lemma region_ok_all sel r :
  region_violation sel = false -> (count_region r sel <= PLC_MAX_PER_REGION)%N.
Proof.
  intros H. unfold region_violation in H. rewrite existsb_false in H.
  destruct (in_dec N.eq_dec r (map se_region sel)) as [Hin|Hnin].
  - apply in_map_iff in Hin as [s [<- Hs]]. specialize (H s Hs). apply N.ltb_ge in H. exact H.
  - rewrite count_region_absent; [lia|]. intros s Hs E. apply Hnin. apply in_map_iff. exists s; auto.
Qed.

Lemma asn_ok_all sel a :
  asn_violation sel = false -> (count_asn a sel <= PLC_MAX_PER_ASN)%N.
Proof.
  intros H. unfold asn_violation in H. rewrite existsb_false in H.
  destruct (in_dec N.eq_dec a (map se_asn sel)) as [Hin|Hnin].
  - apply in_map_iff in Hin as [s [<- Hs]]. specialize (H s Hs). apply N.ltb_ge in H. exact H.
  - rewrite count_asn_absent; [lia|]. intros s Hs E. apply Hnin. apply in_map_iff. exists s; auto.
Qed.

Lemma geo_ok_pairs dist sel i j a b :
  geo_violation dist sel = false ->
  nth_error sel i = Some a -> nth_error sel j = Some b -> i <> j ->
  flt (dist (se_id a) (se_id b)) thr_geo = false.
Proof.
  intros H Ha Hb Hij. unfold geo_violation in H. rewrite existsb_false in H.
  specialize (H (i, a) (proj2 (in_indexed sel i a) Ha)). cbn beta in H.
  rewrite existsb_false in H. specialize (H (j, b) (proj2 (in_indexed sel j b) Hb)).
  cbn [fst snd] in H. apply andb_false_iff in H as [H|H]; [|exact H].
  apply negb_false_iff, Nat.eqb_eq in H. contradiction.
Qed.

Lemma thr_geo_is_50 : thr_geo = 50%float.
Proof. reflexivity. Qed.
Lemma max_region_is_2 : PLC_MAX_PER_REGION = 2%N. Proof. reflexivity. Qed.
Lemma max_asn_is_3 : PLC_MAX_PER_ASN = 3%N. Proof. reflexivity. Qed.

(* ---------------------------------------------------------------- rounds *)
(* chosen in its own round's candidate list, absent from every later round's list *)
Fixpoint without_replacement (ids : list N) (rems : list (list N)) : Prop :=
  match ids, rems with
  | [], [] => True
  | x :: ids', r :: rems' => In x r /\ Forall (fun r' => ~ In x r') rems' /\ without_replacement ids' rems'
  | _, _ => False
  end.

Lemma wr_length ids rems : without_replacement ids rems -> length ids = length rems.
Proof.
  revert rems. induction ids as [|x ids IH]; intros [|r rems] H; cbn in *; try contradiction; [reflexivity|].
  destruct H as (_ & _ & H). f_equal. apply IH; exact H.
Qed.

Lemma wr_in ids rems : without_replacement ids rems ->
  forall x, In x ids -> exists r, In r rems /\ In x r.
Proof.
  revert rems. induction ids as [|y ids IH]; intros [|r rems] H x Hx; cbn in *; try contradiction.
  destruct H as (Hy & _ & H). destruct Hx as [<-|Hx].
  - exists r; auto.
  - destruct (IH rems H x Hx) as [r' [Hr' Hx']]. exists r'; auto.
Qed.

Lemma wr_NoDup ids rems : without_replacement ids rems -> NoDup ids.
Proof.
  revert rems. induction ids as [|y ids IH]; intros [|r rems] H; cbn in *; try contradiction; [constructor|].
  destruct H as (Hy & Hlater & H). constructor; [|eapply IH; exact H].
  intro Hin. destruct (wr_in _ _ H y Hin) as [r' [Hr' Hy']].
  rewrite Forall_forall in Hlater. exact (Hlater r' Hr' Hy').
Qed.

(* positional reading *)
Lemma wr_nth ids rems : without_replacement ids rems ->
  forall i j x r, nth_error ids i = Some x -> nth_error rems j = Some r ->
    (i = j -> In x r) /\ ((i < j)%nat -> ~ In x r).
Proof.
  revert rems. induction ids as [|y ids IH]; intros [|r0 rems] H i j x r Hi Hj; cbn in H; try contradiction.
  - destruct i; discriminate.
  - destruct H as (Hy & Hlater & H).
    destruct i as [|i], j as [|j]; cbn in Hi, Hj.
    + inv Hi; inv Hj. split; [auto|lia].
    + inv Hi. split; [lia|]. intros _. rewrite Forall_forall in Hlater. apply Hlater.
      eapply nth_error_In; exact Hj.
    + split; lia.
    + destruct (IH rems H i j x r Hi Hj) as [A B]. split; [intros E; apply A; lia|intros L; apply B; lia].
Qed.

Section StrategyFacts.
  Variable kf pf : float -> float -> float.
  Variable dist : N -> N -> float.
  Variable md : N -> option (N * N).
  Variable cf : cfg.
  Variable draw : nat -> float.

  Lemma weights_of_ids selected rem ws :
    weights_of pf dist md cf selected rem = Ok ws -> map fst ws = rem.
  Proof.
    revert ws. induction rem as [|c t IH]; intros ws H; cbn [weights_of] in H.
    - inv H. reflexivity.
    - destruct (md c) as [ra|]; [|discriminate].
      destruct (calc_weight _ _ _ _ _ _ _ _) as [w| |]; try discriminate.
      destruct (weights_of pf dist md cf selected t) as [l| |]; try discriminate.
      inv H. cbn. f_equal. apply IH. reflexivity.
  Qed.

  Lemma calc_weight_not_panic t s c d a b g : calc_weight pf t s c d a b g <> Panic.
  Proof.
    unfold calc_weight.
    repeat match goal with |- context [if ?x then _ else _] => destruct x end; discriminate.
  Qed.

  Lemma weights_of_not_panic selected rem : weights_of pf dist md cf selected rem <> Panic.
  Proof.
    induction rem as [|c t IH]; cbn [weights_of]; [discriminate|].
    destruct (md c) as [ra|]; [|discriminate].
    destruct (calc_weight _ _ _ _ _ _ _ _) as [w| |] eqn:E; try discriminate.
    - destruct (weights_of pf dist md cf selected t) as [l| |]; try discriminate. contradiction.
    - exfalso. eapply calc_weight_not_panic; exact E.
  Qed.

  Lemma remove_id_in x y l : In y (remove_id x l) <-> In y l /\ y <> x.
  Proof.
    unfold remove_id. rewrite filter_In. split; intros [A B]; split; auto.
    - apply negb_true_iff, N.eqb_neq in B. exact B.
    - apply negb_true_iff, N.eqb_neq. exact B.
  Qed.

  Lemma rounds_spec todo : forall off selected hist rem sel' hist',
    rounds kf pf dist md cf draw todo off selected hist rem = Ok (sel', hist') ->
    exists added rems,
      sel' = selected ++ added /\ hist' = hist ++ rems /\
      length added = todo /\
      Forall (fun e => md (se_id e) = Some (snd e)) added /\
      Forall (fun r => incl r rem) rems /\
      without_replacement (map se_id added) rems.
  Proof.
    induction todo as [|todo IH]; intros off selected hist rem sel' hist' H; cbn [rounds] in H.
    - inv H. exists [], []. rewrite !app_nil_r. repeat split; constructor.
    - destruct rem as [|c0 rem0]; [discriminate|]. set (rem := c0 :: rem0) in *.
      destruct (weights_of pf dist md cf selected rem) as [ws| |] eqn:Ew; try discriminate.
      set (ws' := sort_desc _ ws) in *.
      destruct (sample_nodes kf draw off ws' 1) as [[|x xs]| |] eqn:Es; try discriminate.
      destruct (md x) as [ra|] eqn:Em; [|discriminate].
      apply IH in H as (added & rems & -> & -> & Hlen & Hmd & Hincl & Hwr).
      assert (Hx : In x rem).
      { apply sample_nodes_ok in Es as (_ & Hin & _).
        specialize (Hin x (or_introl eq_refl)).
        apply in_map_iff in Hin as [p [<- Hp]].
        eapply Permutation_in in Hp; [|apply sort_desc_perm].
        rewrite <- (weights_of_ids _ _ _ Ew). apply in_map. exact Hp. }
      exists ((x, ra) :: added), (rem :: rems).
      rewrite <- !app_assoc. cbn [app].
      split; [reflexivity|]. split; [reflexivity|].
      split; [cbn [length]; lia|].
      split; [constructor; [exact Em|exact Hmd]|].
      split.
      + constructor; [apply incl_refl|].
        rewrite Forall_forall in *. intros r Hr y Hy. specialize (Hincl r Hr y Hy).
        apply remove_id_in in Hincl. tauto.
      + cbn [map without_replacement se_id fst]. split; [exact Hx|]. split; [|exact Hwr].
        rewrite Forall_forall in *. intros r Hr Hin. specialize (Hincl r Hr x Hin).
        apply remove_id_in in Hincl. tauto.
  Qed.

  Lemma rounds_not_panic
    (Hkf : forall u w, in_unit_open u = true -> weight_bad w = false -> PrimFloat.is_nan (kf u w) = false)
    (Hd : forall i, in_unit_open (draw i) = true) todo :
    forall off selected hist rem, rounds kf pf dist md cf draw todo off selected hist rem <> Panic.
  Proof.
    induction todo as [|todo IH]; intros off selected hist rem; cbn [rounds]; [discriminate|].
    destruct rem as [|c0 rem0]; [discriminate|]. set (rem := c0 :: rem0).
    destruct (weights_of pf dist md cf selected rem) as [ws| |] eqn:Ew; try discriminate.
    - destruct (sample_nodes kf draw off _ 1) as [[|x xs]| |] eqn:Es; try discriminate.
      + destruct (md x); [apply IH|discriminate].
      + exfalso. eapply sample_nodes_no_panic; eauto.
    - exfalso. eapply weights_of_not_panic; exact Ew.
  Qed.

  (* entry list versus id list *)
  Lemma count_region_ids (sel : list sel_entry) r :
    Forall (fun e => md (se_id e) = Some (snd e)) sel ->
    count_region r sel =
    N.of_nat (length (filter (fun x => match md x with Some ra => (fst ra =? r)%N | None => false end) (map se_id sel))).
  Proof.
    intros H. unfold count_region. f_equal.
    induction H as [|e sel He _ IH]; [reflexivity|]. cbn [map filter].
    rewrite He. change (fst (snd e)) with (se_region e). destruct (se_region e =? r)%N; cbn [length]; rewrite IH; reflexivity.
  Qed.

  Lemma count_asn_ids (sel : list sel_entry) a :
    Forall (fun e => md (se_id e) = Some (snd e)) sel ->
    count_asn a sel =
    N.of_nat (length (filter (fun x => match md x with Some ra => (snd ra =? a)%N | None => false end) (map se_id sel))).
  Proof.
    intros H. unfold count_asn. f_equal.
    induction H as [|e sel He _ IH]; [reflexivity|]. cbn [map filter].
    rewrite He. change (snd (snd e)) with (se_asn e). destruct (se_asn e =? a)%N; cbn [length]; rewrite IH; reflexivity.
  Qed.

  Definition region_count (r : N) (sel : list N) : nat :=
    length (filter (fun x => match md x with Some ra => (fst ra =? r)%N | None => false end) sel).
  Definition asn_count (a : N) (sel : list N) : nat :=
    length (filter (fun x => match md x with Some ra => (snd ra =? a)%N | None => false end) sel).

  Lemma select_trace_spec cands k sel hist :
    select_trace kf pf dist md cf draw cands k = Ok (sel, hist) ->
    length sel = k /\ NoDup sel /\ incl sel cands /\
    (forall x, In x sel -> md x <> None) /\
    (forall r, (region_count r sel <= 2)%nat) /\
    (forall a, (asn_count a sel <= 3)%nat) /\
    (forall x y, In x sel -> In y sel -> x <> y -> PrimFloat.ltb (dist x y) 50 = false) /\
    (k <= length cands)%nat /\
    without_replacement sel hist /\ Forall (fun r => incl r cands) hist.
  Proof.
    unfold select_trace. intros H.
    destruct cands as [|c0 cands0]; [discriminate|]. set (cands := c0 :: cands0) in *.
    destruct (length cands <? k)%nat eqn:Ek; [discriminate|]. apply Nat.ltb_ge in Ek.
    destruct (rounds kf pf dist md cf draw k 0 [] [] cands) as [[sel0 hist0]| |] eqn:Er; try discriminate.
    destruct (validate dist sel0) as [u| |] eqn:Ev; try discriminate. inv H.
    apply rounds_spec in Er as (added & rems & E1 & E2 & Hlen & Hmd & Hincl & Hwr).
    cbn [app] in E1, E2. subst sel0 hist.
    apply validate_ok in Ev as (Hg & Hr & Ha).
    assert (Hnd : NoDup (map se_id added)) by (eapply wr_NoDup; exact Hwr).
    repeat split.
    - rewrite map_length. exact Hlen.
    - exact Hnd.
    - intros x Hx. destruct (wr_in _ _ Hwr x Hx) as [r [Hr' Hxr]].
      rewrite Forall_forall in Hincl. exact (Hincl r Hr' x Hxr).
    - intros x Hx. apply in_map_iff in Hx as [e [<- He]]. rewrite Forall_forall in Hmd.
      rewrite (Hmd e He). discriminate.
    - intros r. unfold region_count.
      pose proof (region_ok_all added r Hr) as Hc. rewrite (count_region_ids added r Hmd), max_region_is_2 in Hc. lia.
    - intros a. unfold asn_count.
      pose proof (asn_ok_all added a Ha) as Hc. rewrite (count_asn_ids added a Hmd), max_asn_is_3 in Hc. lia.
    - intros x y Hx Hy Hxy.
      apply In_nth_error in Hx as [i Hi]. apply In_nth_error in Hy as [j Hj].
      rewrite nth_error_map in Hi, Hj.
      destruct (nth_error added i) as [ea|] eqn:Ei; [|discriminate].
      destruct (nth_error added j) as [eb|] eqn:Ej; [|discriminate].
      cbn in Hi, Hj. inv Hi; inv Hj.
      assert (i <> j) by (intros ->; rewrite Ei in Ej; inv Ej; contradiction).
      pose proof (geo_ok_pairs dist added i j ea eb Hg Ei Ej H) as Hp.
      rewrite thr_geo_is_50 in Hp. exact Hp.
    - exact Ek.
    - exact Hwr.
    - exact Hincl.
  Qed.

  Lemma select_trace_not_panic
    (Hkf : forall u w, in_unit_open u = true -> weight_bad w = false -> PrimFloat.is_nan (kf u w) = false)
    (Hd : forall i, in_unit_open (draw i) = true) cands k :
    select_trace kf pf dist md cf draw cands k <> Panic.
  Proof.
    unfold select_trace. destruct cands as [|c0 cands0]; [discriminate|].
    destruct (length (c0 :: cands0) <? k)%nat; [discriminate|].
    destruct (rounds _ _ _ _ _ _ _ _ _ _ _) as [[sel0 hist0]| |] eqn:Er; try discriminate.
    - destruct (validate dist sel0) as [u| |] eqn:Ev; try discriminate.
      exfalso. eapply validate_not_panic; exact Ev.
    - exfalso. eapply rounds_not_panic; eauto.
  Qed.

  Lemma select_nodes_trace cands k sel :
    select_nodes kf pf dist md cf draw cands k = Ok sel ->
    exists hist, select_trace kf pf dist md cf draw cands k = Ok (sel, hist).
  Proof.
    unfold select_nodes. destruct (select_trace _ _ _ _ _ _ _ _) as [[s h]| |]; try discriminate.
    intros H. inv H. exists h. reflexivity.
  Qed.

  Lemma engine_select_ok rf_min bft_req cands k sel :
    engine_select kf pf dist md cf draw rf_min bft_req cands k = Ok sel ->
    select_nodes kf pf dist md cf draw cands k = Ok sel /\
    (rf_min <= N.of_nat k)%N /\ (rf_min <= N.of_nat (length sel))%N /\ (bft_req <= N.of_nat (length sel))%N.
  Proof.
    unfold engine_select. destruct cands as [|c0 cands0]; [discriminate|].
    destruct (N.of_nat k <? rf_min)%N eqn:E1; [discriminate|]. apply N.ltb_ge in E1.
    destruct (select_nodes _ _ _ _ _ _ _ _) as [s| |]; try discriminate.
    destruct (N.of_nat (length s) <? rf_min)%N eqn:E2; [discriminate|]. apply N.ltb_ge in E2.
    destruct (N.of_nat (length s) <? bft_req)%N eqn:E3; [discriminate|]. apply N.ltb_ge in E3.
    destruct (flt _ _); [discriminate|]. intros H. inv H. auto.
  Qed.
End StrategyFacts.

(* ---------------------------------------------------------------- misc facts used by Props *)
Lemma calc_weight_ok_finite_pos pf t s c d a b g w :
  calc_weight pf t s c d a b g = Ok w -> PrimFloat.is_finite w = true /\ PrimFloat.leb w 0 = false.
Proof.
  unfold calc_weight.
  destruct (negb (in_unit t)); [discriminate|]. destruct (negb (in_unit s)); [discriminate|].
  destruct (flt c fzero); [discriminate|]. destruct (flt d fzero); [discriminate|].
  match goal with |- context [negb (PrimFloat.is_finite ?x)] => set (w0 := x) end.
  destruct (PrimFloat.is_finite w0) eqn:Ef; cbn [negb orb]; [|discriminate].
  destruct (fle w0 fzero) eqn:El; [discriminate|]. intros H. injection H as <-. split; [exact Ef|exact El].
Qed.

Lemma rf_new_ok_iff mn df mx : rf_new_ok mn df mx = true <-> (1 <= mn /\ mn <= df /\ df <= mx)%N.
Proof.
  unfold rf_new_ok. rewrite !andb_true_iff, negb_true_iff, N.eqb_neq, !N.leb_le. lia.
Qed.

Fixpoint sumf (f : N -> nat) (rs : list N) : nat := match rs with [] => 0%nat | r :: t => (f r + sumf f t)%nat end.

Lemma sumf_le f g rs : (forall r, (f r <= g r)%nat) -> (sumf f rs <= sumf g rs)%nat.
Proof. intros H. induction rs as [|r t IH]; cbn [sumf]; [lia|]. specialize (H r). lia. Qed.

Lemma sumf_lt f g rs r0 : (forall r, (f r <= g r)%nat) -> In r0 rs -> (f r0 < g r0)%nat -> (sumf f rs < sumf g rs)%nat.
Proof.
  intros H Hin Hlt. induction rs as [|r t IH]; [contradiction|]. cbn [sumf].
  destruct Hin as [->|Hin].
  - pose proof (sumf_le f g t H). lia.
  - specialize (IH Hin). specialize (H r). lia.
Qed.

Lemma sumf_bound f rs c : (forall r, (f r <= c)%nat) -> (sumf f rs <= c * length rs)%nat.
Proof. intros H. induction rs as [|r t IH]; cbn [sumf length]; [lia|]. specialize (H r). lia. Qed.

Lemma length_le_sumf (P : N -> N -> bool) rs l :
  (forall x, In x l -> exists r, In r rs /\ P r x = true) ->
  (length l <= sumf (fun r => length (filter (P r) l)) rs)%nat.
Proof.
  induction l as [|x l IH]; intros H; [cbn; lia|].
  assert (IH' := IH (fun y Hy => H y (or_intror Hy))).
  destruct (H x (or_introl eq_refl)) as [r0 [Hr0 HP]].
  assert (Hlt : (sumf (fun r => length (filter (P r) l)) rs < sumf (fun r => length (filter (P r) (x :: l))) rs)%nat).
  { apply sumf_lt with (r0 := r0); [|exact Hr0|].
    - intros r. cbn [filter]. destruct (P r x); cbn [length]; lia.
    - cbn [filter]. rewrite HP. cbn [length]. lia. }
  cbn [length]. lia.
Qed.

Lemma select_le_16 kf pf dist md cf draw cands k sel :
  (forall x ra, md x = Some ra -> (fst ra < 8)%N) ->
  select_nodes kf pf dist md cf draw cands k = Ok sel -> (k <= 16)%nat.
Proof.
  intros Hreg H. destruct (select_nodes_trace _ _ _ _ _ _ _ _ _ H) as [hist Ht].
  pose proof (select_trace_spec _ _ _ _ _ _ _ _ _ _ Ht) as (Hl & _ & _ & Hmd & Hr & _).
  rewrite <- Hl.
  pose proof (length_le_sumf (fun r x => match md x with Some ra => (fst ra =? r)%N | None => false end)
                             [0; 1; 2; 3; 4; 5; 6; 7]%N sel) as Hs.
  assert (Hb := sumf_bound (fun r => region_count md r sel) [0; 1; 2; 3; 4; 5; 6; 7]%N 2 Hr).
  cbn [length] in Hb. unfold region_count in Hb.
  eapply Nat.le_trans; [apply Hs|exact Hb].
  intros x Hx. specialize (Hmd x Hx). destruct (md x) as [ra|] eqn:E; [|contradiction].
  exists (fst ra). split; [|apply N.eqb_refl].
  specialize (Hreg x ra E).
  assert (Hc : (fst ra = 0 \/ fst ra = 1 \/ fst ra = 2 \/ fst ra = 3 \/ fst ra = 4 \/ fst ra = 5 \/ fst ra = 6 \/ fst ra = 7)%N) by lia.
  cbn [In]. destruct Hc as [->|[->|[->|[->|[->|[->|[->| ->]]]]]]]; tauto.
Qed.
