(* Proofs about Model/Counter.v (C12). *)
From SV Require Import Lib.Base Gen.CounterConsts Model.Counter.

Local Open Scope N_scope.

(* every remembered entry is at or below [last] *)
Definition Inv (c : pc) : Prop := Forall (fun e => e_seq e <= pc_last c) (pc_hist c).
Definition InvS (st : store) : Prop := forall p, Inv (st p).

Lemma inv_new : Inv pc_new.
Proof. constructor. Qed.

Lemma invS_init : InvS st_init.
Proof. intro p; apply inv_new. Qed.

Lemma has_seen_le c seq h : Inv c -> has_seen c seq h = true -> seq <= pc_last c.
Proof.
  unfold Inv, has_seen. intros HI HS.
  apply existsb_exists in HS. destruct HS as [e [Hin He]].
  rewrite Forall_forall in HI. specialize (HI e Hin).
  apply andb_true_iff in He. destruct He as [He _]. apply N.eqb_eq in He. lia.
Qed.

(* The decision, written without the history. *)
Definition in_window (now ts : N) : bool :=
  negb (now + CTR_FUTURE_SKEW_SECS <? ts) && negb (ts <? now - CTR_MAX_SEQUENCE_AGE_SECS).

Definition decide (now last seq ts : N) : vres :=
  if now + CTR_FUTURE_SKEW_SECS <? ts then FromFuture
  else if ts <? now - CTR_MAX_SEQUENCE_AGE_SECS then TooOld
  else if last + 1 <? seq then Gap (last + 1) seq
  else if seq <=? last then Replay
  else Valid.

Lemma validate_decide now c seq h ts :
  Inv c -> validate now c seq h ts = decide now (pc_last c) seq ts.
Proof.
  intro HI. unfold validate, decide.
  destruct (now + CTR_FUTURE_SKEW_SECS <? ts); [reflexivity|].
  destruct (ts <? now - CTR_MAX_SEQUENCE_AGE_SECS); [reflexivity|].
  destruct (has_seen c seq h) eqn:HS; [|reflexivity].
  apply has_seen_le in HS; [|exact HI].
  destruct (pc_last c + 1 <? seq) eqn:E1; [lia|].
  destruct (seq <=? pc_last c) eqn:E2; [reflexivity|lia].
Qed.

Lemma validate_valid_iff now c seq h ts :
  Inv c ->
  (validate now c seq h ts = Valid <->
   ts <= now + CTR_FUTURE_SKEW_SECS /\ now - CTR_MAX_SEQUENCE_AGE_SECS <= ts /\ seq = pc_last c + 1).
Proof.
  intro HI. rewrite validate_decide by exact HI. unfold decide.
  destruct (now + CTR_FUTURE_SKEW_SECS <? ts) eqn:E1;
  [split; [discriminate|lia]|].
  destruct (ts <? now - CTR_MAX_SEQUENCE_AGE_SECS) eqn:E2;
  [split; [discriminate|lia]|].
  destruct (pc_last c + 1 <? seq) eqn:E3;
  [split; [discriminate|lia]|].
  destruct (seq <=? pc_last c) eqn:E4;
  [split; [discriminate|lia]|].
  split; [lia|reflexivity].
Qed.

Lemma Forall_tl {A} (P : A -> Prop) l : Forall P l -> Forall P (tl l).
Proof. destruct l; simpl; [auto|]. intro H; inversion H; assumption. Qed.

Lemma inv_apply c seq h ts : Inv c -> pc_last c <= seq -> Inv (apply_update c seq h ts).
Proof.
  unfold Inv, apply_update. intros HI Hle. cbn [pc_last pc_hist].
  assert (HF : Forall (fun e => e_seq e <= seq) (pc_hist c ++ [mkE seq ts h])).
  { apply Forall_app. split.
    - eapply Forall_impl; [|exact HI]. cbn beta. intros e He. lia.
    - constructor; [cbn; lia|constructor]. }
  destruct (CTR_MAX_SEQUENCE_HISTORY <? _); [apply Forall_tl|]; exact HF.
Qed.

Lemma inv_cleanup cutoff c : Inv c -> Inv (cleanup cutoff c).
Proof.
  unfold Inv, cleanup. cbn [pc_last pc_hist]. intro HI.
  rewrite Forall_forall in *. intros e He. apply filter_In in He. apply HI. tauto.
Qed.

Lemma upd_same st p c : upd st p c p = c.
Proof. unfold upd. rewrite N.eqb_refl. reflexivity. Qed.

Lemma upd_other st p c q : q <> p -> upd st p c q = st q.
Proof. unfold upd. intro H. apply N.eqb_neq in H. rewrite H. reflexivity. Qed.

Lemma invS_step st o : InvS st -> InvS (fst (step st o)).
Proof.
  intros HI. destruct o as [now p seq h ts|cutoff]; cbn [step fst].
  - destruct (validate now (st p) seq h ts) eqn:EV; try exact HI.
    intro q. unfold upd. destruct (q =? p) eqn:E; [|apply HI].
    apply inv_apply; [apply HI|].
    apply validate_valid_iff in EV; [|apply HI]. lia.
  - intro q. apply inv_cleanup, HI.
Qed.

(* ---- one step, seen from one peer ---- *)

Lemma step_last_mono st o q : InvS st -> pc_last (st q) <= pc_last (fst (step st o) q).
Proof.
  intro HI. destruct o as [now p seq h ts|cutoff]; cbn [step fst].
  - destruct (validate now (st p) seq h ts) eqn:EV; try lia.
    unfold upd. destruct (q =? p) eqn:E; [|lia].
    apply N.eqb_eq in E. subst q. cbn [apply_update pc_last].
    apply validate_valid_iff in EV; [|apply HI]. lia.
  - cbn [cleanup pc_last]. lia.
Qed.

Lemma step_reject_unchanged st now p seq h ts :
  validate now (st p) seq h ts <> Valid ->
  fst (step st (Submit now p seq h ts)) = st.
Proof.
  intro H. cbn [step fst]. destruct (validate now (st p) seq h ts); try reflexivity. congruence.
Qed.

Lemma step_other_peer st now p seq h ts q :
  q <> p -> fst (step st (Submit now p seq h ts)) q = st q.
Proof.
  intro H. cbn [step fst]. destruct (validate now (st p) seq h ts); try reflexivity.
  apply upd_other; exact H.
Qed.

(* ---- runs ---- *)

Lemma run_cons st o ops :
  run st (o :: ops) =
  (fst (run (fst (step st o)) ops), snd (step st o) :: snd (run (fst (step st o)) ops)).
Proof.
  cbn [run]. destruct (step st o) as [st1 r]. cbn [fst snd].
  destruct (run st1 ops) as [st2 rs]. reflexivity.
Qed.

Lemma invS_run ops : forall st, InvS st -> InvS (fst (run st ops)).
Proof.
  induction ops as [|o ops IH]; intros st HI; [exact HI|].
  rewrite run_cons. cbn [fst]. apply IH, invS_step, HI.
Qed.

Lemma run_last_mono ops : forall st q, InvS st -> pc_last (st q) <= pc_last (fst (run st ops) q).
Proof.
  induction ops as [|o ops IH]; intros st q HI; [cbn; lia|].
  rewrite run_cons. cbn [fst].
  pose proof (step_last_mono st o q HI).
  pose proof (IH (fst (step st o)) q (invS_step _ _ HI)). lia.
Qed.

Lemma Nseq_app a n m : Nseq a (n + m) = Nseq a n ++ Nseq (a + N.of_nat n) m.
Proof.
  revert a. induction n as [|n IH]; intro a; cbn [Nseq Nat.add app].
  - f_equal. lia.
  - f_equal. rewrite IH. f_equal. f_equal. lia.
Qed.

Lemma Nseq_In a n x : In x (Nseq a n) <-> a <= x < a + N.of_nat n.
Proof.
  revert a. induction n as [|n IH]; intro a; cbn [Nseq In].
  - lia.
  - rewrite IH. lia.
Qed.

Lemma Nseq_NoDup a n : NoDup (Nseq a n).
Proof.
  revert a. induction n as [|n IH]; intro a; cbn [Nseq]; constructor.
  - rewrite Nseq_In. lia.
  - apply IH.
Qed.

(* The accepted sequence numbers of a peer are exactly last0+1, last0+2, ..., last_final. *)
Lemma accepted_is_seq ops : forall st p, InvS st ->
  let r := run st ops in
  accepted p ops (snd r) =
    Nseq (pc_last (st p) + 1) (N.to_nat (pc_last (fst r p) - pc_last (st p))).
Proof.
  induction ops as [|o ops IH]; intros st p HI.
  - cbn. rewrite N.sub_diag. reflexivity.
  - cbn zeta. rewrite run_cons. cbn [fst snd].
    pose proof (invS_step st o HI) as HI1.
    specialize (IH (fst (step st o)) p HI1). cbn zeta in IH.
    pose proof (run_last_mono ops (fst (step st o)) p HI1) as Hmono.
    destruct o as [now q seq h ts|cutoff].
    + cbn [step fst snd] in *. cbn [accepted].
      destruct (validate now (st q) seq h ts) eqn:EV; try exact IH.
      destruct (q =? p) eqn:E.
      * apply N.eqb_eq in E. subst q.
        apply validate_valid_iff in EV; [|apply HI]. destruct EV as [_ [_ Hseq]].
        rewrite upd_same in *. cbn [apply_update pc_last] in *.
        rewrite IH.
        replace (N.to_nat (pc_last (fst (run (upd st p (apply_update (st p) seq h ts)) ops) p) - pc_last (st p)))
          with (1 + N.to_nat (pc_last (fst (run (upd st p (apply_update (st p) seq h ts)) ops) p) - seq))%nat by lia.
        cbn [Nseq Nat.add]. subst seq. reflexivity.
      * apply N.eqb_neq in E.
        rewrite upd_other in * by congruence. exact IH.
    + cbn [step fst snd] in *. cbn [accepted]. exact IH.
Qed.

Lemma accepted_from_init ops p :
  let r := run st_init ops in
  accepted p ops (snd r) = Nseq 1 (N.to_nat (pc_last (fst r p))).
Proof.
  cbn zeta. pose proof (accepted_is_seq ops st_init p invS_init) as H. cbn zeta in H.
  rewrite H. cbn [st_init pc_new pc_last]. rewrite N.sub_0_r. reflexivity.
Qed.

Lemma accepted_nodup ops st p : InvS st -> NoDup (accepted p ops (snd (run st ops))).
Proof. intro HI. rewrite (accepted_is_seq ops st p HI). apply Nseq_NoDup. Qed.

(* Once [last] has reached n, nothing <= n is ever accepted again. *)
Lemma accepted_above ops st p x :
  InvS st -> In x (accepted p ops (snd (run st ops))) -> pc_last (st p) < x.
Proof.
  intros HI Hin. rewrite (accepted_is_seq ops st p HI) in Hin.
  apply Nseq_In in Hin. lia.
Qed.

(* ---- isolation ---- *)

Lemma run_isolation ops : forall st st' p,
  st p = st' p ->
  let r := run st ops in
  let r' := run st' (filter (for_peer p) ops) in
  fst r p = fst r' p /\
  results_of p ops (snd r) = snd r'.
Proof.
  induction ops as [|o ops IH]; intros st st' p Heq; [cbn; auto|].
  cbn zeta. rewrite run_cons. cbn [filter fst snd results_of].
  destruct o as [now q seq h ts|cutoff]; cbn [for_peer].
  - destruct (q =? p) eqn:E.
    + apply N.eqb_eq in E. subst q. rewrite run_cons. cbn [fst snd step].
      rewrite <- Heq.
      assert (Hst : (match validate now (st p) seq h ts with
                     | Valid => upd st p (apply_update (st p) seq h ts) | _ => st end) p =
                    (match validate now (st p) seq h ts with
                     | Valid => upd st' p (apply_update (st p) seq h ts) | _ => st' end) p).
      { destruct (validate now (st p) seq h ts); try exact Heq. rewrite !upd_same. reflexivity. }
      destruct (IH _ _ p Hst) as [H1 H2]. cbn zeta in H1, H2.
      split; [exact H1|]. f_equal. exact H2.
    + apply N.eqb_neq in E.
      assert (Hst : fst (step st (Submit now q seq h ts)) p = st' p).
      { rewrite step_other_peer by congruence. exact Heq. }
      destruct (IH _ _ p Hst) as [H1 H2]. cbn zeta in H1, H2. split; assumption.
  - rewrite run_cons. cbn [fst snd step].
    assert (Hst : cleanup cutoff (st p) = cleanup cutoff (st' p)) by (rewrite Heq; reflexivity).
    destruct (IH (fun q => cleanup cutoff (st q)) (fun q => cleanup cutoff (st' q)) p Hst) as [H1 H2].
    cbn zeta in H1, H2. split; [exact H1|]. f_equal. exact H2.
Qed.

(* ---- no overflow: [last] counts acceptances ---- *)

Lemma run_last_bound ops : forall st p, InvS st ->
  pc_last (fst (run st ops) p) <= pc_last (st p) + N.of_nat (length ops).
Proof.
  induction ops as [|o ops IH]; intros st p HI; [cbn; lia|].
  rewrite run_cons. cbn [fst length].
  pose proof (IH (fst (step st o)) p (invS_step _ _ HI)) as H.
  assert (Hs : pc_last (fst (step st o) p) <= pc_last (st p) + 1).
  { destruct o as [now q seq h ts|cutoff]; cbn [step fst].
    - destruct (validate now (st q) seq h ts) eqn:EV; try lia.
      unfold upd. destruct (p =? q) eqn:E; [|lia].
      apply N.eqb_eq in E. subst q. cbn [apply_update pc_last].
      apply validate_valid_iff in EV; [|apply HI]. lia.
    - cbn [cleanup pc_last]. lia. }
  lia.
Qed.

(* ---- history bound ---- *)
Definition HistBound (c : pc) : Prop := N.of_nat (length (pc_hist c)) <= CTR_MAX_SEQUENCE_HISTORY.

Lemma length_tl {A} (l : list A) : length (tl l) = (length l - 1)%nat.
Proof. destruct l; simpl; lia. Qed.

Lemma hist_bound_apply c seq h ts : HistBound c -> HistBound (apply_update c seq h ts).
Proof.
  unfold HistBound, apply_update. cbn [pc_hist]. intro H.
  destruct (CTR_MAX_SEQUENCE_HISTORY <? _) eqn:E.
  - rewrite length_tl, app_length in *. cbn [length] in *. lia.
  - lia.
Qed.
