(* Lemmas for C15 (Model/CloseGroup.v). *)
From SV Require Import Lib.Base Gen.CloseGroupConsts Model.CloseGroup.
From Coq Require Import QArith Lqa Permutation.
Local Open Scope Q_scope.

(* ------------------------------------------------------------------ Q helpers *)
Lemma Qle_bool_proper a a' b b' : a == a' -> b == b' -> Qle_bool a b = Qle_bool a' b'.
Proof.
  intros Ha Hb. apply Bool.eq_iff_eq_true. rewrite !Qle_bool_iff, Ha, Hb. tauto.
Qed.

Lemma Qltb_proper a a' b b' : a == a' -> b == b' -> Qltb a b = Qltb a' b'.
Proof. intros Ha Hb. unfold Qltb. f_equal. apply Qle_bool_proper; assumption. Qed.

Lemma Qltb_iff a b : Qltb a b = true <-> a < b.
Proof.
  unfold Qltb. rewrite Bool.negb_true_iff. split.
  - intro H. apply Qnot_le_lt. intro L. apply Qle_bool_iff in L. congruence.
  - intro H. destruct (Qle_bool b a) eqn:E; auto. apply Qle_bool_iff in E. exfalso. revert E. apply Qlt_not_le, H.
Qed.

Lemma Qltb_false_iff a b : Qltb a b = false <-> b <= a.
Proof.
  unfold Qltb. rewrite Bool.negb_false_iff. apply Qle_bool_iff.
Qed.

Lemma Qle_div_iff a b c : 0 < c -> (a <= b / c <-> a * c <= b).
Proof.
  intro Hc. split; intro H.
  - apply (Qmult_le_r _ _ c Hc) in H. setoid_replace (b / c * c) with b in H; auto.
    field. intro E. rewrite E in Hc. discriminate.
  - apply Qle_shift_div_l; assumption.
Qed.

Lemma QofN_nonneg n : 0 <= QofN n.
Proof. unfold QofN. change 0 with (inject_Z 0). rewrite <- Zle_Qle. lia. Qed.

Lemma QofN_pos n : (0 < n)%N -> 0 < QofN n.
Proof. intro H. unfold QofN. change 0 with (inject_Z 0). rewrite <- Zlt_Qlt. lia. Qed.

Lemma QofN_le a b : QofN a <= QofN b <-> (a <= b)%N.
Proof. unfold QofN. rewrite <- Zle_Qle. lia. Qed.

Lemma QofN_add a b : QofN (a + b) == QofN a + QofN b.
Proof. unfold QofN. rewrite N2Z.inj_add, inject_Z_plus. reflexivity. Qed.

Lemma QofN_mul a b : QofN (a * b) == QofN a * QofN b.
Proof. unfold QofN. rewrite N2Z.inj_mul, inject_Z_mult. reflexivity. Qed.

(* ------------------------------------------------------------------ list helpers *)
Lemma lenN_filter_le {A} (p : A -> bool) l : (lenN (filter p l) <= lenN l)%N.
Proof.
  unfold lenN. induction l as [|x l IH]; cbn [filter length]. lia.
  destruct (p x); cbn [length]; lia.
Qed.

Lemma lenN_cons {A} (x : A) l : lenN (x :: l) = (lenN l + 1)%N.
Proof. unfold lenN. cbn [length]. lia. Qed.

Lemma nodup_incl_length (l1 l2 : list N) :
  incl l1 l2 -> (length (nodup N.eq_dec l1) <= length (nodup N.eq_dec l2))%nat.
Proof.
  intro H. apply NoDup_incl_length. apply NoDup_nodup.
  intros x Hx. apply nodup_In. apply H. apply nodup_In in Hx. exact Hx.
Qed.

(* ------------------------------------------------------------------ sums *)
Lemma fold_total rs : forall a, fold_left (fun acc r => acc + weight_of r) rs a == a + sumQ (map weight_of rs).
Proof.
  induction rs as [|r rs IH]; intro a; cbn [fold_left map sumQ].
  - ring.
  - rewrite IH. ring.
Qed.

Lemma fold_confirming rs : forall a,
  fold_left (fun acc r => if r_confirms r then acc + weight_of r else acc) rs a
  == a + sumQ (map weight_of (filter r_confirms rs)).
Proof.
  induction rs as [|r rs IH]; intro a; cbn [fold_left filter].
  - cbn. ring.
  - rewrite IH. destruct (r_confirms r); cbn [map sumQ]; ring.
Qed.

Lemma total_weight_sum rs : total_weight rs == sumQ (map weight_of rs).
Proof. unfold total_weight. rewrite fold_total. ring. Qed.

Lemma confirming_weight_sum rs : confirming_weight rs == sumQ (map weight_of (filter r_confirms rs)).
Proof. unfold confirming_weight. rewrite fold_confirming. ring. Qed.

Lemma weight_nonneg r : 0 <= weight_of r.
Proof.
  unfold weight_of. destruct (Qle_bool 0 _) eqn:E.
  - destruct (Qle_bool _ 1); [apply Qle_bool_iff, E | discriminate].
  - apply Qle_refl.
Qed.

Lemma weight_le_one r : weight_of r <= 1.
Proof.
  unfold weight_of. destruct (Qle_bool 0 _) eqn:E.
  - destruct (Qle_bool _ 1) eqn:F; [apply Qle_bool_iff, F | apply Qle_refl].
  - discriminate.
Qed.

Lemma sum_weights_nonneg rs : 0 <= sumQ (map weight_of rs).
Proof.
  induction rs as [|r rs IH]; cbn [map sumQ]. apply Qle_refl.
  pose proof (weight_nonneg r). lra.
Qed.

(* the confirming weight never exceeds the total weight *)
Lemma confirming_le_total rs : sumQ (map weight_of (filter r_confirms rs)) <= sumQ (map weight_of rs).
Proof.
  induction rs as [|r rs IH]; cbn [filter map sumQ]. apply Qle_refl.
  pose proof (weight_nonneg r). destruct (r_confirms r); cbn [map sumQ]; lra.
Qed.

(* ------------------------------------------------------------------ ratio test *)
Lemma ge_thr_nratio a n thr :
  ge_thr (nratio a n) thr = (0 <? n)%N && Qle_bool (thr * QofN n) (QofN a).
Proof.
  unfold nratio, ge_thr. destruct (n =? 0)%N eqn:E.
  - apply N.eqb_eq in E. subst. reflexivity.
  - apply N.eqb_neq in E. assert (P : (0 < n)%N) by lia.
    assert (B : (0 <? n)%N = true) by (apply N.ltb_lt; exact P). rewrite B. cbn [andb].
    apply Bool.eq_iff_eq_true. rewrite !Qle_bool_iff. apply Qle_div_iff, QofN_pos, P.
Qed.

(* ------------------------------------------------------------------ the decision is the specification *)
Lemma valid_bft_spec c rs cand :
  v_valid (validate_membership c true rs cand) = bft_accept_spec c rs cand.
Proof.
  unfold validate_membership, bft_accept_spec, gates_ok.
  rewrite (N.ltb_antisym (c_min_peers c) (lenN rs)).
  destruct (c_min_peers c <=? lenN rs)%N; cbn [negb andb v_valid]; [|reflexivity].
  destruct (candidate_low c cand); cbn [negb andb v_valid]; [reflexivity|].
  unfold validate_bft.
  rewrite (N.ltb_antisym (c_min_peers c) (lenN (trusted c rs))).
  destruct (c_min_peers c <=? lenN (trusted c rs))%N; cbn [negb andb v_valid];
    [|destruct (count_confirming_regions rs <? c_min_regions c)%N; reflexivity].
  rewrite ge_thr_nratio.
  rewrite (N.ltb_antisym (c_min_regions c) (count_confirming_regions rs)).
  destruct (detect_collusion (map r_latency (trusted c rs))); cbn [negb andb v_valid].
  - rewrite !Bool.andb_false_r. reflexivity.
  - destruct ((0 <? lenN (trusted c rs))%N && Qle_bool _ _);
      destruct (c_min_regions c <=? count_confirming_regions rs)%N; reflexivity.
Qed.

Lemma valid_weighted_spec c rs cand :
  v_valid (validate_membership c false rs cand) = weighted_accept_spec c rs cand.
Proof.
  unfold validate_membership, weighted_accept_spec, gates_ok.
  rewrite (N.ltb_antisym (c_min_peers c) (lenN rs)).
  destruct (c_min_peers c <=? lenN rs)%N; cbn [negb andb v_valid]; [|reflexivity].
  destruct (candidate_low c cand); cbn [negb andb v_valid]; [reflexivity|].
  unfold validate_weighted. rewrite Bool.andb_false_r. cbn [v_valid].
  rewrite (Qltb_proper 0 0 (total_weight rs) (sumQ (map weight_of rs)) (Qeq_refl 0) (total_weight_sum rs)).
  destruct (Qltb 0 (sumQ (map weight_of rs))) eqn:E; cbn [ge_thr].
  - apply Qltb_iff in E. apply Bool.eq_iff_eq_true. rewrite !Qle_bool_iff.
    rewrite (confirming_weight_sum rs), (total_weight_sum rs). apply Qle_div_iff, E.
  - reflexivity.
Qed.

Lemma valid_spec c attack rs cand :
  v_valid (validate_membership c attack rs cand) = accept_spec c attack rs cand.
Proof. destruct attack; [apply valid_bft_spec | apply valid_weighted_spec]. Qed.

Lemma used_bft_flag c attack rs cand :
  v_bft (validate_membership c attack rs cand) = attack && gates_ok c rs cand.
Proof.
  unfold validate_membership, gates_ok. rewrite (N.ltb_antisym (c_min_peers c) (lenN rs)).
  destruct (c_min_peers c <=? lenN rs)%N; cbn [negb andb v_bft]; [|now rewrite Bool.andb_false_r].
  destruct (candidate_low c cand); cbn [negb andb v_bft]; [now rewrite Bool.andb_false_r|].
  destruct (if attack then validate_bft c rs else validate_weighted c rs) as [[[ok ra] we] fa].
  cbn [v_bft]. now rewrite Bool.andb_true_r.
Qed.

(* the specification unfolded into propositions *)
Lemma bft_accept_spec_iff c rs cand :
  bft_accept_spec c rs cand = true <->
  ((c_min_peers c <= lenN rs)%N /\ candidate_low c cand = false
   /\ (c_min_peers c <= lenN (trusted c rs))%N /\ (0 < lenN (trusted c rs))%N
   /\ c_thr_bft c * QofN (lenN (trusted c rs)) <= QofN (confirmations (trusted c rs))
   /\ (c_min_regions c <= count_confirming_regions rs)%N
   /\ detect_collusion (map r_latency (trusted c rs)) = false).
Proof.
  unfold bft_accept_spec, gates_ok.
  rewrite !Bool.andb_true_iff, !Bool.negb_true_iff, !N.leb_le, N.ltb_lt, Qle_bool_iff. tauto.
Qed.

Lemma weighted_accept_spec_iff c rs cand :
  weighted_accept_spec c rs cand = true <->
  ((c_min_peers c <= lenN rs)%N /\ candidate_low c cand = false
   /\ let tw := sumQ (map weight_of rs) in
      let cw := sumQ (map weight_of (filter r_confirms rs)) in
      (0 < tw /\ c_thr_weighted c * tw <= cw) \/ (tw <= 0 /\ c_thr_weighted c <= 0)).
Proof.
  unfold weighted_accept_spec, gates_ok. cbv zeta.
  rewrite !Bool.andb_true_iff, !Bool.negb_true_iff, N.leb_le.
  destruct (Qltb 0 (sumQ (map weight_of rs))) eqn:E; rewrite Qle_bool_iff.
  - apply Qltb_iff in E. split; [intros [[A B] C]; repeat split; auto | intros (A & B & [[C D]|[C D]]); auto].
    exfalso. revert C. apply Qlt_not_le, E.
  - apply Qltb_false_iff in E. split; [intros [[A B] C]; repeat split; auto | intros (A & B & [[C D]|[C D]]); auto].
    exfalso. revert E. apply Qlt_not_le, C.
Qed.

(* ------------------------------------------------------------------ fewer than a third cannot force acceptance *)
Lemma bft_minority_rejected c rs cand :
  (1 # 3) <= c_thr_bft c ->
  (3 * confirmations (trusted c rs) < lenN (trusted c rs))%N ->
  bft_accept_spec c rs cand = false.
Proof.
  intros Hthr Hmin. destruct (bft_accept_spec c rs cand) eqn:E; [|reflexivity]. exfalso.
  apply bft_accept_spec_iff in E. destruct E as (_ & _ & _ & Hpos & Hq & _).
  set (n := lenN (trusted c rs)) in *. set (k := confirmations (trusted c rs)) in *.
  assert (H1 : (1 # 3) * QofN n <= c_thr_bft c * QofN n).
  { apply Qmult_le_compat_r; [exact Hthr | apply QofN_nonneg]. }
  assert (H2 : QofN n <= 3 * QofN k) by lra.
  assert (H3 : QofN n <= QofN (3 * k)).
  { rewrite QofN_mul. exact H2. }
  apply QofN_le in H3. lia.
Qed.

Lemma f_liars_rejected c rs cand f :
  (1 # 3) <= c_thr_bft c ->
  lenN (trusted c rs) = (3 * f + 1)%N ->
  (confirmations (trusted c rs) <= f)%N ->
  v_valid (validate_membership c true rs cand) = false.
Proof.
  intros Hthr Hn Hk. rewrite valid_bft_spec. apply bft_minority_rejected; [exact Hthr | lia].
Qed.

(* ------------------------------------------------------------------ turning confirmations into denials *)
Lemma flipped_length rs' rs : flipped rs' rs -> length rs' = length rs.
Proof. induction 1; cbn [length]; congruence. Qed.

Lemma flipped_trusted c rs' rs : flipped rs' rs -> flipped (trusted c rs') (trusted c rs).
Proof.
  induction 1 as [|r' r rs' rs H _ IH]; cbn [trusted filter]. constructor.
  assert (E : is_trusted c r' = is_trusted c r).
  { unfold is_trusted. destruct H as (Ht & _). rewrite Ht. reflexivity. }
  rewrite E. destruct (is_trusted c r); [constructor; assumption | exact IH].
Qed.

Lemma flipped_latency rs' rs : flipped rs' rs -> map r_latency rs' = map r_latency rs.
Proof.
  induction 1 as [|r' r rs' rs H _ IH]; cbn [map]. reflexivity.
  destruct H as (_ & _ & Hl & _). rewrite Hl, IH. reflexivity.
Qed.

Lemma flipped_weights rs' rs : flipped rs' rs -> map weight_of rs' = map weight_of rs.
Proof.
  induction 1 as [|r' r rs' rs H _ IH]; cbn [map]. reflexivity.
  destruct H as (Ht & _). unfold weight_of at 1 3. rewrite Ht, IH. reflexivity.
Qed.

Lemma flipped_confirmations rs' rs : flipped rs' rs -> (confirmations rs' <= confirmations rs)%N.
Proof.
  unfold confirmations.
  induction 1 as [|r' r rs' rs H _ IH]; cbn [filter]. lia.
  destruct H as (_ & _ & _ & Hc).
  destruct (r_confirms r') eqn:E'.
  - rewrite (Hc eq_refl). rewrite !lenN_cons. lia.
  - destruct (r_confirms r); [rewrite lenN_cons|]; lia.
Qed.

Lemma flipped_regions_incl rs' rs : flipped rs' rs -> incl (confirming_regions rs') (confirming_regions rs).
Proof.
  unfold confirming_regions.
  induction 1 as [|r' r rs' rs H _ IH]; cbn [flat_map]. apply incl_refl.
  destruct H as (_ & Hg & _ & Hc).
  destruct (r_confirms r') eqn:E'.
  - rewrite (Hc eq_refl), Hg. apply incl_app_app; [apply incl_refl | exact IH].
  - cbn [app]. apply incl_appr, IH.
Qed.

Lemma flipped_region_count rs' rs : flipped rs' rs -> (count_confirming_regions rs' <= count_confirming_regions rs)%N.
Proof.
  intro H. unfold count_confirming_regions, lenN.
  pose proof (nodup_incl_length _ _ (flipped_regions_incl _ _ H)). lia.
Qed.

Lemma flipped_confirming_weight rs' rs : flipped rs' rs ->
  sumQ (map weight_of (filter r_confirms rs')) <= sumQ (map weight_of (filter r_confirms rs)).
Proof.
  induction 1 as [|r' r rs' rs H _ IH]; cbn [filter]. apply Qle_refl.
  assert (W : weight_of r' = weight_of r).
  { destruct H as (Ht & _). unfold weight_of. rewrite Ht. reflexivity. }
  destruct H as (_ & _ & _ & Hc). pose proof (weight_nonneg r) as P.
  destruct (r_confirms r') eqn:E'.
  - rewrite (Hc eq_refl). cbn [map sumQ]. rewrite W. lra.
  - destruct (r_confirms r); cbn [map sumQ]; lra.
Qed.

Lemma flipped_gates c rs' rs cand : flipped rs' rs -> gates_ok c rs' cand = gates_ok c rs cand.
Proof. intro H. unfold gates_ok, lenN. rewrite (flipped_length _ _ H). reflexivity. Qed.

Lemma flip_monotone_bft c rs' rs cand : flipped rs' rs ->
  bft_accept_spec c rs' cand = true -> bft_accept_spec c rs cand = true.
Proof.
  intros H A. apply bft_accept_spec_iff in A. apply bft_accept_spec_iff.
  destruct A as (A1 & A2 & A3 & A4 & A5 & A6 & A7).
  pose proof (flipped_trusted c _ _ H) as HT.
  assert (L : lenN (trusted c rs') = lenN (trusted c rs)) by (unfold lenN; rewrite (flipped_length _ _ HT); reflexivity).
  assert (L0 : lenN rs' = lenN rs) by (unfold lenN; rewrite (flipped_length _ _ H); reflexivity).
  rewrite <- L0, <- L, <- (flipped_latency _ _ HT).
  repeat split; auto.
  - eapply Qle_trans; [exact A5|]. apply QofN_le, flipped_confirmations, HT.
  - pose proof (flipped_region_count _ _ H). lia.
Qed.

Lemma flip_monotone_weighted c rs' rs cand : flipped rs' rs ->
  weighted_accept_spec c rs' cand = true -> weighted_accept_spec c rs cand = true.
Proof.
  intros H A. apply weighted_accept_spec_iff in A. apply weighted_accept_spec_iff.
  destruct A as (A1 & A2 & A3). cbv zeta in *.
  assert (L0 : lenN rs' = lenN rs) by (unfold lenN; rewrite (flipped_length _ _ H); reflexivity).
  rewrite <- L0, <- (flipped_weights _ _ H).
  repeat split; auto.
  destruct A3 as [[B C]|[B C]]; [left|right]; split; auto.
  eapply Qle_trans; [exact C|]. apply flipped_confirming_weight, H.
Qed.

Lemma flip_monotone c attack rs' rs cand : flipped rs' rs ->
  v_valid (validate_membership c attack rs' cand) = true ->
  v_valid (validate_membership c attack rs cand) = true.
Proof.
  rewrite !valid_spec. destruct attack; cbn [accept_spec].
  - apply flip_monotone_bft.
  - apply flip_monotone_weighted.
Qed.

Lemma flip_at_flipped i : forall rs, flipped (flip_at i rs) rs.
Proof.
  assert (R : forall rs, flipped rs rs).
  { induction rs; constructor; auto. repeat split; auto. }
  induction i as [|i IH]; intros [|r rs]; cbn [flip_at].
  - constructor.
  - constructor; [|apply R]. repeat split; auto. cbn. discriminate.
  - constructor.
  - constructor; [|apply IH]. repeat split; auto.
Qed.

Lemma flip_one c attack i rs cand :
  v_valid (validate_membership c attack rs cand) = false ->
  v_valid (validate_membership c attack (flip_at i rs) cand) = false.
Proof.
  intros H.
  destruct (v_valid (validate_membership c attack (flip_at i rs) cand)) eqn:E; [|reflexivity].
  rewrite (flip_monotone c attack _ _ cand (flip_at_flipped i rs) E) in H. discriminate.
Qed.

(* ------------------------------------------------------------------ unanimous confirmation *)
Lemma filter_all {A} (p : A -> bool) l : Forall (fun x => p x = true) l -> filter p l = l.
Proof. induction 1 as [|x l H _ IH]; cbn [filter]; [reflexivity | rewrite H, IH; reflexivity]. Qed.

Lemma Forall_filter {A} (P : A -> Prop) (p : A -> bool) l : Forall P l -> Forall P (filter p l).
Proof. induction 1; cbn [filter]; [constructor | destruct (p x); [constructor|]; assumption]. Qed.

Lemma unanimous_bft c rs cand :
  Forall (fun r => r_confirms r = true) rs ->
  (c_min_peers c <= lenN rs)%N -> candidate_low c cand = false ->
  (c_min_peers c <= lenN (trusted c rs))%N -> (0 < lenN (trusted c rs))%N ->
  c_thr_bft c <= 1 ->
  (c_min_regions c <= count_confirming_regions rs)%N ->
  detect_collusion (map r_latency (trusted c rs)) = false ->
  v_valid (validate_membership c true rs cand) = true.
Proof.
  intros Hall H1 H2 H3 H4 H5 H6 H7. rewrite valid_bft_spec. apply bft_accept_spec_iff.
  repeat split; auto.
  unfold confirmations, trusted. rewrite (filter_all _ _ (Forall_filter _ (is_trusted c) _ Hall)).
  fold (trusted c rs).
  pose proof (QofN_nonneg (lenN (trusted c rs))) as P.
  setoid_replace (QofN (lenN (trusted c rs))) with (1 * QofN (lenN (trusted c rs))) at 2 by ring.
  apply Qmult_le_compat_r; assumption.
Qed.

Lemma unanimous_weighted c rs cand :
  Forall (fun r => r_confirms r = true) rs ->
  (c_min_peers c <= lenN rs)%N -> candidate_low c cand = false ->
  0 < sumQ (map weight_of rs) -> c_thr_weighted c <= 1 ->
  v_valid (validate_membership c false rs cand) = true.
Proof.
  intros Hall H1 H2 H3 H4. rewrite valid_weighted_spec. apply weighted_accept_spec_iff.
  repeat split; auto. cbv zeta. left. split; auto.
  rewrite (filter_all _ _ Hall).
  pose proof (Qlt_le_weak _ _ H3) as P.
  setoid_replace (sumQ (map weight_of rs)) with (1 * sumQ (map weight_of rs)) at 2 by ring.
  apply Qmult_le_compat_r; assumption.
Qed.

(* ------------------------------------------------------------------ collusion heuristic *)
(* response times pairwise at least the window apart *)

Lemma apart_sym w a b : apart w a b -> apart w b a.
Proof. unfold apart. tauto. Qed.

Lemma insert_in x l y : In y (insert x l) <-> y = x \/ In y l.
Proof.
  induction l as [|z l IH]; cbn [insert In]. intuition congruence.
  destruct (x <=? z)%N; cbn [In]; rewrite ?IH; intuition congruence.
Qed.

Lemma insert_pa w x l : Forall (apart w x) l -> pairwise_apart w l -> pairwise_apart w (insert x l).
Proof.
  unfold pairwise_apart. induction l as [|z l IH]; intros F P; cbn [insert].
  - constructor; constructor.
  - destruct (x <=? z)%N.
    + constructor; assumption.
    + inversion F; subst. inversion P; subst. constructor.
      * apply Forall_forall. intros y Hy. apply (proj1 (insert_in _ _ _)) in Hy. destruct Hy as [->|Hy].
        -- apply apart_sym. assumption.
        -- match goal with HF : Forall (apart w z) l |- _ => rewrite Forall_forall in HF; apply HF, Hy end.
      * apply IH; assumption.
Qed.

Lemma isort_in l y : In y (isort l) <-> In y l.
Proof.
  induction l as [|x l IH]; cbn [isort fold_right In]. tauto.
  fold (isort l). rewrite insert_in, IH. intuition congruence.
Qed.

Lemma isort_pa w l : pairwise_apart w l -> pairwise_apart w (isort l).
Proof.
  unfold pairwise_apart. induction 1 as [|x l F P IH]; cbn [isort fold_right]. constructor.
  fold (isort l). apply insert_pa; [|exact IH].
  apply Forall_forall. intros y Hy. apply (proj1 (isort_in _ _)) in Hy. rewrite Forall_forall in F. apply F, Hy.
Qed.

Fixpoint sortedN (l : list N) : Prop :=
  match l with a :: t => match t with b :: _ => (a <= b)%N | [] => True end /\ sortedN t | [] => True end.

Lemma insert_sorted x l : sortedN l -> sortedN (insert x l).
Proof.
  induction l as [|z l IH]; intro S; cbn [insert]. cbn; auto.
  destruct (x <=? z)%N eqn:E.
  - apply N.leb_le in E. cbn [sortedN] in *. auto.
  - apply N.leb_gt in E. cbn [sortedN] in S. destruct S as [S1 S2].
    specialize (IH S2). cbn [sortedN]. split; [|exact IH].
    destruct l as [|u l]; cbn [insert] in *. lia.
    destruct (x <=? u)%N; lia.
Qed.

Lemma isort_sorted l : sortedN (isort l).
Proof. induction l as [|x l IH]; cbn [isort fold_right]. exact I. apply insert_sorted, IH. Qed.

Lemma similar_count_apart w l : (0 < w)%N -> sortedN l -> pairwise_apart w l -> similar_count w l = 0%N.
Proof.
  intros Hw. unfold pairwise_apart. induction l as [|a t IH]; intros S P; cbn [similar_count]. reflexivity.
  inversion P; subst. cbn [sortedN] in S. destruct S as [S1 S2]. rewrite (IH S2 H2).
  destruct t as [|b t]; [reflexivity|].
  inversion H1; subst. unfold apart in H3.
  assert (E : (b - a <? w)%N = false) by (apply N.ltb_ge; lia). rewrite E. reflexivity.
Qed.

Lemma no_collusion_when_apart lats :
  pairwise_apart collusion_window_ns lats -> detect_collusion lats = false.
Proof.
  intro P. unfold detect_collusion. destruct (lenN lats <? CG_COLLUSION_MIN_RESPONSES)%N; [reflexivity|].
  rewrite (similar_count_apart collusion_window_ns (isort lats)).
  - apply N.ltb_ge. apply N.le_0_l.
  - reflexivity.
  - apply isort_sorted.
  - apply isort_pa, P.
Qed.

(* fewer than three trusted answers never raise the flag *)
Lemma no_collusion_when_few lats : (lenN lats < CG_COLLUSION_MIN_RESPONSES)%N -> detect_collusion lats = false.
Proof. intro H. unfold detect_collusion. apply N.ltb_lt in H. rewrite H. reflexivity. Qed.

(* ------------------------------------------------------------------ failure reasons *)
Lemma rejected_has_reason c attack rs cand :
  v_valid (validate_membership c attack rs cand) = false -> v_fail (validate_membership c attack rs cand) <> [].
Proof.
  unfold validate_membership.
  destruct (lenN rs <? c_min_peers c)%N; cbn [v_valid v_fail]; [discriminate|].
  destruct (candidate_low c cand); cbn [v_valid v_fail]; [discriminate|].
  destruct attack.
  - unfold validate_bft.
    destruct (lenN (trusted c rs) <? c_min_peers c)%N;
      [| destruct (detect_collusion (map r_latency (trusted c rs)));
         destruct (ge_thr (nratio (confirmations (trusted c rs)) (lenN (trusted c rs))) (c_thr_bft c)) ];
      destruct (count_confirming_regions rs <? c_min_regions c)%N; cbn; intros; congruence.
  - unfold validate_weighted.
    destruct (ge_thr _ (c_thr_weighted c));
      destruct (count_confirming_regions rs <? c_min_regions c)%N; cbn; intros; congruence.
Qed.

(* ------------------------------------------------------------------ enforcement wrappers *)
Lemma validate_cached_strict c v : c_strict c = true -> validate_cached c (Some v) = v.
Proof. intro H. unfold validate_cached. rewrite H, Bool.andb_false_r. reflexivity. Qed.

Lemma validate_cached_logonly c o : c_strict c = false -> validate_cached c o = true.
Proof. intro H. unfold validate_cached. rewrite H. destruct o as [[|]|]; reflexivity. Qed.

(* ------------------------------------------------------------------ witness counters *)
Lemma nv_run_app ops o : nv_run (ops ++ [o]) = nv_step (nv_run ops) o.
Proof. unfold nv_run. rewrite fold_left_app. reflexivity. Qed.

Lemma nv_inv ops : let s := nv_run ops in
  (nv_conf s + nv_deny s <= nv_total s)%N /\ nv_total s = lenN ops
  /\ nv_conf s = lenN (filter (fun o => match o with RecConfirm => true | _ => false end) ops).
Proof.
  induction ops as [|o ops IH] using rev_ind; cbv zeta.
  - cbn. repeat split; lia.
  - rewrite nv_run_app. cbv zeta in IH. destruct IH as (A & B & C).
    rewrite filter_app. unfold lenN in *. rewrite !app_length. cbn [length filter].
    destruct o; cbn [nv_step nv_conf nv_deny nv_total length]; rewrite ?app_nil_r; cbn [length]; repeat split; lia.
Qed.

Lemma nv_is_valid_iff ops : nv_is_valid (nv_run ops) = true <-> (nv_total (nv_run ops) < 2 * nv_conf (nv_run ops))%N.
Proof.
  destruct (nv_inv ops) as (A & _ & _). unfold nv_is_valid. change NV_MAJORITY_DIV with 2%N.
  rewrite Bool.andb_true_iff, !N.ltb_lt. lia.
Qed.

Lemma nv_is_valid_bft_iff f s : nv_is_valid_bft f s = true <-> (2 * f + 1 <= nv_conf s)%N.
Proof. unfold nv_is_valid_bft, required_confirmations. change MC_CONF_MUL with 2%N. change MC_CONF_ADD with 1%N. apply N.leb_le. Qed.

Lemma nv_sufficient_iff f s : nv_sufficient f s = true <-> (3 * f + 1 <= nv_total s)%N.
Proof. unfold nv_sufficient, minimum_witnesses. change MC_WIT_MUL with 3%N. change MC_WIT_ADD with 1%N. apply N.leb_le. Qed.

Lemma nv_counters ops f : let s := nv_run ops in
  (nv_is_valid s = true <-> (nv_total s < 2 * nv_conf s)%N)
  /\ (nv_is_valid_bft f s = true <-> (2 * f + 1 <= nv_conf s)%N)
  /\ (nv_sufficient f s = true <-> (3 * f + 1 <= nv_total s)%N)
  /\ (nv_conf s + nv_deny s <= nv_total s)%N /\ nv_total s = lenN ops.
Proof.
  cbv zeta. destruct (nv_inv ops) as (A & B & _).
  repeat split; try apply nv_is_valid_iff; try apply nv_is_valid_bft_iff; try apply nv_sufficient_iff; assumption.
Qed.

(* with exactly 3f+1 witnesses recorded, f confirming ones never reach the BFT count, and if all
   but f confirm the count is reached *)
Lemma nv_f_liars ops f : let s := nv_run ops in
  nv_total s = (3 * f + 1)%N ->
  ((nv_conf s <= f)%N -> nv_is_valid_bft f s = false)
  /\ ((nv_total s - nv_conf s <= f)%N -> nv_is_valid_bft f s = true /\ nv_is_valid s = true).
Proof.
  cbv zeta. intro T. destruct (nv_inv ops) as (A & _ & _). split; intro H.
  - destruct (nv_is_valid_bft f (nv_run ops)) eqn:E; [|reflexivity]. apply nv_is_valid_bft_iff in E. lia.
  - split; [apply nv_is_valid_bft_iff | apply nv_is_valid_iff]; lia.
Qed.

(* combined statements used by Props/C15.v *)
Lemma bft_quorum_iff c rs cand :
  v_valid (validate_membership c true rs cand) = true <->
  ((c_min_peers c <= lenN rs)%N /\ candidate_low c cand = false
   /\ (c_min_peers c <= lenN (trusted c rs))%N /\ (0 < lenN (trusted c rs))%N
   /\ c_thr_bft c * QofN (lenN (trusted c rs)) <= QofN (confirmations (trusted c rs))
   /\ (c_min_regions c <= count_confirming_regions rs)%N
   /\ detect_collusion (map r_latency (trusted c rs)) = false).
Proof. rewrite valid_bft_spec. apply bft_accept_spec_iff. Qed.

Lemma weighted_iff c rs cand :
  v_valid (validate_membership c false rs cand) = true <->
  ((c_min_peers c <= lenN rs)%N /\ candidate_low c cand = false
   /\ let tw := sumQ (map weight_of rs) in
      let cw := sumQ (map weight_of (filter r_confirms rs)) in
      (0 < tw /\ c_thr_weighted c * tw <= cw) \/ (tw <= 0 /\ c_thr_weighted c <= 0)).
Proof. rewrite valid_weighted_spec. apply weighted_accept_spec_iff. Qed.

Lemma minority_rejected c rs cand :
  (1 # 3) <= c_thr_bft c ->
  (3 * confirmations (trusted c rs) < lenN (trusted c rs))%N ->
  v_valid (validate_membership c true rs cand) = false.
Proof. intros. rewrite valid_bft_spec. apply bft_minority_rejected; assumption. Qed.

Lemma default_thr_third : (1 # 3) <= CG_THR_BFT.
Proof. unfold CG_THR_BFT, Qle. cbn. lia. Qed.

Lemma f_liars_rejected_default c rs cand f :
  c_thr_bft c == CG_THR_BFT ->
  lenN (trusted c rs) = (3 * f + 1)%N ->
  (confirmations (trusted c rs) <= f)%N ->
  v_valid (validate_membership c true rs cand) = false.
Proof. intros E. apply f_liars_rejected. rewrite E. apply default_thr_third. Qed.

(* from_maintenance_config: with exactly 3f+1 trusted answers the ratio test is "at least 2f+1 confirm" *)
Lemma maintenance_quorum f rs cand : let c := cfg_from_maintenance f in
  lenN (trusted c rs) = (3 * f + 1)%N ->
  v_valid (validate_membership c true rs cand) = true -> (2 * f + 1 <= confirmations (trusted c rs))%N.
Proof.
  cbv zeta. intros Hn V. apply bft_quorum_iff in V. destruct V as (_ & _ & _ & _ & Hq & _).
  rewrite Hn in Hq. cbn [c_thr_bft cfg_from_maintenance] in Hq.
  unfold required_confirmations, minimum_witnesses in Hq.
  change MC_CONF_MUL with 2%N in Hq. change MC_CONF_ADD with 1%N in Hq.
  change MC_WIT_MUL with 3%N in Hq. change MC_WIT_ADD with 1%N in Hq.
  assert (P : 0 < QofN (3 * f + 1)) by (apply QofN_pos; lia).
  assert (E : QofN (2 * f + 1) / QofN (3 * f + 1) * QofN (3 * f + 1) == QofN (2 * f + 1)).
  { field. intro Z. rewrite Z in P. discriminate. }
  rewrite E in Hq. apply QofN_le in Hq. exact Hq.
Qed.

(* raw (unclamped) weights: the reason for the clamp in weight_of *)

Lemma raw_weights_not_monotone :
  exists rs' rs, flipped rs' rs /\ weighted_accept_raw cfg_default rs' None = true
                 /\ weighted_accept_raw cfg_default rs None = false.
Proof.
  pose (w := fun (b : bool) (t : Z) => mkResp b (Some (t # 4)) None 0).
  exists [w false (-2)%Z; w true 3%Z; w true 3%Z; w false 1%Z; w false 1%Z],
         [w true (-2)%Z; w true 3%Z; w true 3%Z; w false 1%Z; w false 1%Z].
  split; [|split; vm_compute; reflexivity].
  constructor; [repeat split; cbn; discriminate|].
  repeat (constructor; [repeat split; auto|]). constructor.
Qed.

Lemma enforcement c attack rs cand :
  let v := v_valid (validate_membership c attack rs cand) in
  (c_strict c = true -> validate_cached c (Some v) = v)
  /\ (c_strict c = false -> validate_cached c (Some v) = true)
  /\ validate_cached c None = negb (c_strict c).
Proof.
  cbv zeta. split; [apply validate_cached_strict | split; [apply validate_cached_logonly | reflexivity]].
Qed.
