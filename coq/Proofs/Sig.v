(* Lemmas for C08 (Model/Sig.v). *)
From SV Require Import Lib.Base Lib.ListAux Gen.SigConsts Model.Sig.
Local Open Scope N_scope.

(* ---------------------------------------------------------------- bytes *)
Lemma bytes_eqb_eq a b : bytes_eqb a b = true <-> a = b.
Proof.
  revert b. induction a as [|x a IH]; intros [|y b]; cbn [bytes_eqb]; split; intro E;
    try reflexivity; try discriminate.
  - apply andb_true_iff in E. destruct E as [E1 E2]. apply N.eqb_eq in E1. apply IH in E2. congruence.
  - inv E. apply andb_true_iff. split; [apply N.eqb_refl|apply IH; reflexivity].
Qed.
Lemma bytes_eqb_refl a : bytes_eqb a a = true.
Proof. apply bytes_eqb_eq. reflexivity. Qed.
Lemma bytes_eqb_neq a b : bytes_eqb a b = false <-> a <> b.
Proof.
  split.
  - intros E F. apply bytes_eqb_eq in F. congruence.
  - intro F. destruct (bytes_eqb a b) eqn:E; [|reflexivity]. apply bytes_eqb_eq in E. contradiction.
Qed.

Lemma app_inj_len {A} (a a' b b' : list A) :
  length a = length a' -> a ++ b = a' ++ b' -> a = a' /\ b = b'.
Proof.
  revert a'. induction a as [|x a IH]; intros [|y a'] L E; cbn in *; try discriminate.
  - split; [reflexivity|exact E].
  - inv E. injection L as L. destruct (IH a' L H1) as [-> ->]. split; reflexivity.
Qed.
Lemma app_inj_len_r {A} (a a' b b' : list A) :
  length b = length b' -> a ++ b = a' ++ b' -> a = a' /\ b = b'.
Proof.
  intros L E. apply app_inj_len; [|exact E].
  apply (f_equal (@length A)) in E. rewrite !app_length in E. lia.
Qed.

Lemma le_length w n : length (le w n) = w.
Proof. revert n. induction w as [|w IH]; intro n; cbn [le length]; [reflexivity|]. rewrite IH. reflexivity. Qed.

Lemma le_inj w : forall n m, n < 256 ^ N.of_nat w -> m < 256 ^ N.of_nat w -> le w n = le w m -> n = m.
Proof.
  induction w as [|w IH]; intros n m Hn Hm E.
  - cbn in Hn, Hm. lia.
  - cbn [le] in E. inv E.
    rewrite Nat2N.inj_succ, N.pow_succ_r' in Hn, Hm.
    assert (n / 256 = m / 256) as Q.
    { apply IH; [| |assumption].
      - apply N.div_lt_upper_bound; lia.
      - apply N.div_lt_upper_bound; lia. }
    rewrite (N.div_mod n 256), (N.div_mod m 256) by lia. rewrite Q, H0. reflexivity.
Qed.

(* ---------------------------------------------------------------- identities *)
Section Identity.
  Variable keygen : bytes -> ident.
  Variable kdf : bytes -> option bytes -> bytes -> nat -> bytes.
  Variable sign : bytes -> bytes -> bytes -> bytes.
  Variable vs3 : bytes -> bytes -> bytes -> verdict.

  Lemma import_export : keygen_sized keygen -> forall i, pair keygen i -> id_import (id_export i) = Some i.
  Proof.
    intros Hs i [xi <-]. destruct (Hs xi) as [Hp Hk]. unfold id_import, id_export. cbn [fst snd].
    rewrite Hp, Hk. cbn. destruct (keygen xi); reflexivity.
  Qed.

  Lemma import_export_id : forall i j, id_import (id_export i) = Some j -> j = i.
  Proof.
    intros [pk sk] j. unfold id_import, id_export. cbn [fst snd].
    destruct (sk_ok sk && pk_ok pk); intro E; [inv E; reflexivity|discriminate].
  Qed.

  Lemma constructed_pair : forall i, constructed keygen kdf i -> pair keygen i.
  Proof.
    intros i C. induction C.
    - eexists; reflexivity.
    - apply import_export_id in H. subst j. exact IHC.
    - eexists; reflexivity.
    - eexists; reflexivity.
  Qed.

  (* every identity the library constructs signs verifiably under its own public key *)
  Lemma identity_roundtrip : sig_correct keygen sign vs3 ->
    forall i, constructed keygen kdf i -> forall m r, vs3 (fst i) m (sign (snd i) m r) = VTrue.
  Proof.
    intros Hc i C m r. destruct (constructed_pair i C) as [xi <-]. apply Hc.
  Qed.

  (* restoring an exported generated identity succeeds (sizes) and yields the same identity *)
  Lemma import_restores : keygen_sized keygen -> forall i, constructed keygen kdf i ->
    id_import (id_export i) = Some i.
  Proof. intros Hs i C. apply import_export; [exact Hs|]. apply constructed_pair; exact C. Qed.

  (* F08a, general form: the pre-repair constructions cut HKDF output into key bytes, so whatever
     pair of byte strings of the right sizes is not a key pair comes out of it for a suitable KDF *)
  Lemma from_seed_old_any : forall pk sk, len pk = PUB_LEN ->
    forall seed, id_from_seed_old (fun _ _ _ _ => pk ++ sk) seed = (pk, sk).
  Proof.
    intros pk sk L seed. unfold id_from_seed_old, split_at, len in *.
    rewrite <- L, Nat2N.id. rewrite firstn_app, skipn_app, Nat.sub_diag, firstn_all, skipn_all. cbn.
    rewrite app_nil_r. reflexivity.
  Qed.
  Lemma derive_path_old_any : forall pk sk, len pk = PUB_LEN ->
    forall master path, id_derive_path_old (fun _ _ _ _ => pk ++ sk) master path = (pk, sk).
  Proof.
    intros pk sk L master path. unfold id_derive_path_old, split_at, len in *.
    rewrite <- L, Nat2N.id. rewrite firstn_app, skipn_app, Nat.sub_diag, firstn_all, skipn_all. cbn.
    rewrite app_nil_r. reflexivity.
  Qed.
End Identity.

Lemma from_seed_old_not_pair : forall keygen pk sk, len pk = PUB_LEN -> ~ pair keygen (pk, sk) ->
  exists kdf, forall seed master path,
    ~ pair keygen (id_from_seed_old kdf seed) /\ ~ pair keygen (id_derive_path_old kdf master path).
Proof.
  intros keygen pk sk L Hn. exists (fun _ _ _ _ => pk ++ sk). intros seed master path.
  rewrite from_seed_old_any, derive_path_old_any by exact L. split; exact Hn.
Qed.

Lemma toy_correct : sig_correct toy_keygen toy_sign toy_vs3.
Proof.
  intros xi m r. unfold toy_keygen, toy_sign, toy_vs3. cbn [fst snd nth].
  rewrite !bytes_eqb_refl. reflexivity.
Qed.

(* concrete witness: a correct scheme, yet the pre-repair seed / path identities do not verify their own signatures *)
Lemma from_seed_old_fails :
  sig_correct toy_keygen toy_sign toy_vs3 /\
  (let i := id_from_seed_old toy_kdf [1; 2; 3] in toy_vs3 (fst i) [5] (toy_sign (snd i) [5] []) <> VTrue) /\
  (let i := id_derive_path_old toy_kdf [1; 2; 3] [0; 1] in toy_vs3 (fst i) [5] (toy_sign (snd i) [5] []) <> VTrue) /\
  (let i := id_from_seed toy_keygen toy_kdf [1; 2; 3] in toy_vs3 (fst i) [5] (toy_sign (snd i) [5] []) = VTrue) /\
  (let i := id_derive_path toy_keygen toy_kdf [1; 2; 3] [0; 1] in toy_vs3 (fst i) [5] (toy_sign (snd i) [5] []) = VTrue).
Proof.
  split; [exact toy_correct|].
  split; [vm_compute; discriminate|]. split; [vm_compute; discriminate|].
  split; vm_compute; reflexivity.
Qed.

(* ---------------------------------------------------------------- only exact *)
Section Exact.
  Variable vs3 : bytes -> bytes -> bytes -> verdict.
  Variable issued : bytes -> bytes -> bytes -> Prop.
  Hypothesis ideal : ideal_sig vs3 issued.

  Lemma only_exact : forall pk (G : list (bytes * bytes)),
    (forall m s, issued pk m s -> In (m, s) G) ->
    forall m s, ~ In (m, s) G -> vs3 pk m s <> VTrue.
  Proof. intros pk G HG m s Hn E. apply Hn, HG, ideal, E. Qed.

  (* the owner of pk issued exactly one signature s on m (and nothing else is in play) *)
  Lemma wrong_message : forall pk m s m', (forall x y, issued pk x y -> x = m /\ y = s) ->
    m' <> m -> vs3 pk m' s <> VTrue.
  Proof. intros pk m s m' Hi Hn E. apply ideal in E. apply Hi in E. tauto. Qed.
  Lemma wrong_signature : forall pk m s s', (forall x y, issued pk x y -> x = m /\ y = s) ->
    s' <> s -> vs3 pk m s' <> VTrue.
  Proof. intros pk m s s' Hi Hn E. apply ideal in E. apply Hi in E. tauto. Qed.
  (* any other key -- a bit-flipped one or another identity's -- whose holder did not issue (m, s) *)
  Lemma wrong_key : forall pk' m s, ~ issued pk' m s -> vs3 pk' m s <> VTrue.
  Proof. intros pk' m s Hn E. apply Hn, ideal, E. Qed.
End Exact.

(* ---------------------------------------------------------------- address-bound node id *)
Lemma ip_message_inj : forall ip1 pk1 s1 t1 ip2 pk2 s2 t2,
  length ip1 = length ip2 -> length pk1 = length pk2 -> t1 < 2 ^ 64 -> t2 < 2 ^ 64 ->
  ip_message ip1 pk1 s1 t1 = ip_message ip2 pk2 s2 t2 ->
  ip1 = ip2 /\ pk1 = pk2 /\ s1 = s2 /\ t1 = t2.
Proof.
  intros ip1 pk1 s1 t1 ip2 pk2 s2 t2 L1 L2 B1 B2 E. unfold ip_message in E.
  apply app_inj_len in E; [|exact L1]. destruct E as [-> E].
  apply app_inj_len in E; [|exact L2]. destruct E as [-> E].
  apply app_inj_len_r in E; [|rewrite !le_length; reflexivity]. destruct E as [-> E].
  repeat split. apply (le_inj 8); [exact B1|exact B2|exact E].
Qed.

(* across address families the same key can only be bound twice by one message if it repeats
   itself with the period of the width difference (12 = 16 - 4 for IPv4 / IPv6) *)
Lemma ip_message_cross : forall d ip1 ip2 pk s1 t1 s2 t2,
  length ip2 = (length ip1 + d)%nat ->
  ip_message ip1 pk s1 t1 = ip_message ip2 pk s2 t2 ->
  forall i, (i + d < length pk)%nat -> nth (i + d) pk 0 = nth i pk 0.
Proof.
  intros d ip1 ip2 pk s1 t1 s2 t2 L E i Hi. unfold ip_message in E.
  assert (ip2 = firstn (length ip1) ip2 ++ skipn (length ip1) ip2) as S by (symmetry; apply firstn_skipn).
  rewrite S, <- app_assoc in E.
  apply app_inj_len in E; [|rewrite firstn_length; lia]. destruct E as [_ E].
  set (x := skipn (length ip1) ip2) in *.
  assert (length x = d) as Lx by (unfold x; rewrite skipn_length; lia).
  apply (f_equal (fun l => nth (i + d) l 0)) in E.
  rewrite app_nth1 in E by lia.
  rewrite (app_nth2 x) in E by lia. rewrite Lx in E.
  replace (i + d - d)%nat with i in E by lia.
  rewrite app_nth1 in E by lia. exact E.
Qed.

Lemma ip_message_cross_witness :
  exists ip4 ip6 pk s4 s6 ts,
    length ip4 = 4%nat /\ length ip6 = 16%nat /\ pk_ok pk = true /\ len s4 = SIG_IP_SALT_LEN /\
    ip_message ip4 pk s4 ts = ip_message ip6 pk s6 ts.
Proof.
  exists (repeat 0 4), (repeat 0 16), (repeat 0 (N.to_nat PUB_LEN)), (repeat 0 16), (repeat 0 4), 1700000000.
  vm_compute. repeat split; reflexivity.
Qed.

Section Glue.
  Variable H : bytes -> bytes.
  Variable vs3 : bytes -> bytes -> bytes -> verdict.
  Variable b64 : bytes -> option bytes.

  Lemma ipnode_verify_iff : forall n,
    ipnode_verify H vs3 n = VTrue <->
    H (node_message n) = n_id n /\ pk_ok (n_pk n) = true /\ len (n_sig n) = SIG_IP_SIG_LEN /\
    vs3 (n_pk n) (node_message n) (n_sig n) = VTrue.
  Proof.
    intro n. unfold ipnode_verify.
    destruct (bytes_eqb (H (node_message n)) (n_id n)) eqn:E1; cbn [negb].
    2:{ apply bytes_eqb_neq in E1. split; [discriminate|tauto]. }
    apply bytes_eqb_eq in E1.
    destruct (pk_ok (n_pk n)) eqn:E2; cbn [negb]; [|split; [discriminate|intros (_ & F & _); discriminate]].
    destruct (len (n_sig n) =? SIG_IP_SIG_LEN) eqn:E3; cbn [negb].
    - apply N.eqb_eq in E3. tauto.
    - apply N.eqb_neq in E3. split; [discriminate|tauto].
  Qed.

  (* what the key owner ever signed as address bindings: (ip, salt, timestamp, signature) *)
  Definition binding := (bytes * bytes * N * bytes)%type.
  Definition b_ip (g : binding) := fst (fst (fst g)).
  Definition b_salt (g : binding) := snd (fst (fst g)).
  Definition b_ts (g : binding) := snd (fst g).
  Definition b_sig (g : binding) := snd g.

  Lemma ipnode_only_exact : forall issued, ideal_sig vs3 issued -> forall n (G : list binding),
    (forall m s, issued (n_pk n) m s ->
       exists g, In g G /\ m = ip_message (b_ip g) (n_pk n) (b_salt g) (b_ts g) /\ s = b_sig g) ->
    (forall g, In g G -> length (b_ip g) = length (n_ip n) /\ b_ts g < 2 ^ 64) -> n_ts n < 2 ^ 64 ->
    ipnode_verify H vs3 n = VTrue ->
    n_id n = H (node_message n) /\
    exists g, In g G /\ n_ip n = b_ip g /\ n_salt n = b_salt g /\ n_ts n = b_ts g /\ n_sig n = b_sig g.
  Proof.
    intros issued ideal n G HG HW Ht V. apply ipnode_verify_iff in V. destruct V as (E1 & _ & _ & E4).
    split; [symmetry; exact E1|].
    apply ideal, HG in E4. destruct E4 as (g & Hin & Em & Es). exists g. split; [exact Hin|].
    destruct (HW g Hin) as [Lw Lt]. unfold node_message in Em.
    apply ip_message_inj in Em; [|symmetry; exact Lw|reflexivity|exact Ht|exact Lt].
    destruct Em as (A & _ & B & C). repeat split; assumption.
  Qed.

  (* ---- update packages *)
  Lemma key_valid_iff : forall k now,
    key_valid k now = true <-> k_from k <= now /\ (k_until k = 0 \/ now < k_until k).
  Proof.
    intros k now. unfold key_valid. change SIG_NO_EXPIRY with 0.
    rewrite andb_true_iff, orb_true_iff, N.leb_le, N.eqb_eq, N.ltb_lt. reflexivity.
  Qed.

  Lemma find_key_some : forall keys id k, find_key keys id = Some k -> In k keys /\ k_id k = id.
  Proof using.
    intros keys id k E. unfold find_key in E. apply find_some in E. destruct E as [Hin E].
    apply in_rev in Hin. apply bytes_eqb_eq in E. split; assumption.
  Qed.

  Definition sig_conjuncts keys now key_id msg sig : Prop :=
    exists k pkb sb, find_key keys key_id = Some k /\ key_valid k now = true /\
      b64 (k_pub k) = Some pkb /\ b64 sig = Some sb /\ pk_ok pkb = true /\ sig_ok sb = true /\
      vs3 pkb msg sb = VTrue.

  Lemma verify_signature_iff : forall keys now key_id msg sig,
    verify_signature vs3 b64 keys now key_id msg sig = SOk true <-> sig_conjuncts keys now key_id msg sig.
  Proof.
    intros keys now key_id msg sig. unfold verify_signature, sig_conjuncts. split.
    - destruct (find_key keys key_id) as [k|] eqn:E4; [|discriminate].
      destruct (key_valid k now) eqn:E5; cbn [negb]; [|discriminate].
      destruct (b64 (k_pub k)) as [pkb|] eqn:E6; [|discriminate].
      destruct (b64 sig) as [sb|] eqn:E7; [|discriminate].
      destruct (pk_ok pkb) eqn:E1; cbn [negb]; [|discriminate].
      destruct (sig_ok sb) eqn:E2; cbn [negb]; [|discriminate].
      destruct (vs3 pkb msg sb) eqn:E3; try discriminate. intros _.
      exists k, pkb, sb. repeat split; assumption.
    - intros (k & pkb & sb & -> & -> & -> & -> & -> & -> & ->). reflexivity.
  Qed.

  Lemma verify_file_iff : forall keys now contents expected key_id sig,
    verify_file H vs3 b64 keys now contents expected key_id sig = UAccept <->
    hex (H contents) = map ascii_lower expected /\ sig_conjuncts keys now key_id contents sig.
  Proof using H vs3 b64.
    intros. unfold verify_file, verify_checksum.
    destruct (bytes_eqb (hex (H contents)) (map ascii_lower expected)) eqn:E; cbn [negb].
    - apply bytes_eqb_eq in E. rewrite <- verify_signature_iff.
      destruct (verify_signature vs3 b64 keys now key_id contents sig) as [[|]| |]; split;
        try discriminate; try tauto; intros [_ F]; discriminate.
    - apply bytes_eqb_neq in E. split; [discriminate|tauto].
  Qed.

  Lemma update_only_exact : forall issued, ideal_sig vs3 issued -> forall keys now contents expected key_id sig,
    verify_file H vs3 b64 keys now contents expected key_id sig = UAccept ->
    hex (H contents) = map ascii_lower expected /\
    exists k pkb sb, In k keys /\ k_id k = key_id /\
      k_from k <= now /\ (k_until k = 0 \/ now < k_until k) /\
      b64 (k_pub k) = Some pkb /\ b64 sig = Some sb /\ issued pkb contents sb.
  Proof.
    intros issued ideal keys now contents expected key_id sig V. apply verify_file_iff in V.
    destruct V as [Hc (k & pkb & sb & F & Kv & B1 & B2 & _ & _ & Vs)]. split; [exact Hc|].
    apply find_key_some in F. apply key_valid_iff in Kv. apply ideal in Vs.
    exists k, pkb, sb. tauto.
  Qed.

End Glue.

(* ---- write authorisation *)
Section GlueAuth.
  Variable vs3 : bytes -> bytes -> bytes -> verdict.
  Section Auth.
    Variable record : bytes.
    Variable sigs : list bytes.
    Notation signs := (signs vs3 record sigs).
    Notation authorised := (authorised vs3 record sigs).

    Lemma single_iff : forall pk,
      single_verify vs3 record sigs pk = VTrue <->
      exists s r, sigs = s :: r /\ pk_ok pk = true /\ len s = SIG_AUTH_SINGLE_SIG_LEN /\ vs3 pk record s = VTrue.
    Proof.
      intro pk. unfold single_verify. destruct sigs as [|s r].
      - split; [discriminate|]. intros (s & r & E & _). discriminate.
      - destruct (pk_ok pk) eqn:E1; cbn [negb].
        2:{ split; [discriminate|]. intros (s' & r' & _ & F & _). discriminate. }
        destruct (len s =? SIG_AUTH_SINGLE_SIG_LEN) eqn:E2; cbn [negb].
        + apply N.eqb_eq in E2. split.
          * intro V. exists s, r. tauto.
          * intros (s' & r' & E & _ & _ & V). inv E. exact V.
        + apply N.eqb_neq in E2. split; [discriminate|].
          intros (s' & r' & E & _ & F & _). inv E. contradiction.
    Qed.

    Lemma delegated_iff : forall ks,
      delegated_verify vs3 record sigs ks = VTrue <->
      exists s r ak, sigs = s :: r /\ len s = SIG_AUTH_DELEG_SIG_LEN /\ In ak ks /\ pk_ok ak = true /\
                     vs3 ak record s = VTrue.
    Proof.
      intro ks. unfold delegated_verify. destruct sigs as [|s r].
      - split; [discriminate|]. intros (s & r & ak & E & _). discriminate.
      - destruct ks as [|k0 ks'].
        + split; [discriminate|]. intros (s' & r' & ak & _ & _ & [] & _).
        + remember (k0 :: ks') as ks eqn:Eks. clear Eks.
          destruct (len s =? SIG_AUTH_DELEG_SIG_LEN) eqn:E2; cbn [negb].
          * apply N.eqb_eq in E2.
            destruct (existsb (fun ak => pk_ok ak && is_true (vs3 ak record s)) ks) eqn:E3.
            -- apply existsb_exists in E3. destruct E3 as (ak & Hin & E3). apply andb_true_iff in E3.
               destruct E3 as [P V]. destruct (vs3 ak record s) eqn:V'; try discriminate.
               split; [intros _|reflexivity]. exists s, r, ak. tauto.
            -- split; [discriminate|]. intros (s' & r' & ak & E & _ & Hin & P & V). inv E.
               assert (existsb (fun ak => pk_ok ak && is_true (vs3 ak record s')) ks = true) as F.
               { apply existsb_exists. exists ak. split; [exact Hin|]. rewrite P, V. reflexivity. }
               congruence.
          * apply N.eqb_neq in E2. split; [discriminate|].
            intros (s' & r' & ak & E & F & _). inv E. contradiction.
    Qed.

    Lemma in_dedup : forall l x, In x (dedup l) -> In x l.
    Proof.
      induction l as [|a l IH]; intros x Hx; cbn [dedup] in Hx; [exact Hx|].
      destruct (existsb (bytes_eqb a) l); [right; apply IH; exact Hx|].
      destruct Hx as [->|Hx]; [left; reflexivity|right; apply IH; exact Hx].
    Qed.
    Lemma nodup_dedup : forall l, NoDup (dedup l).
    Proof.
      induction l as [|a l IH]; cbn [dedup]; [constructor|].
      destruct (existsb (bytes_eqb a) l) eqn:E; [exact IH|]. constructor; [|exact IH].
      intro Hin. apply in_dedup in Hin.
      assert (existsb (bytes_eqb a) l = true) as F.
      { apply existsb_exists. exists a. split; [exact Hin|apply bytes_eqb_refl]. }
      congruence.
    Qed.

    Lemma has_valid_sig_signs : forall k, has_valid_sig vs3 record sigs k = true -> signs k.
    Proof.
      intros k Hv. unfold has_valid_sig in Hv. apply andb_true_iff in Hv. destruct Hv as [_ Hv].
      apply existsb_exists in Hv. destruct Hv as (s & Hin & Hv). apply andb_true_iff in Hv.
      destruct Hv as [_ Hv]. destruct (vs3 k record s) eqn:V; try discriminate. exists s. tauto.
    Qed.

    (* the repaired threshold rule accepts only with t distinct listed keys that each signed *)
    Lemma thr_spec_sound : forall t total ks,
      thr_spec vs3 record sigs t total ks = VTrue -> authorised (WThreshold t total ks).
    Proof.
      intros t total ks V. unfold thr_spec in V.
      destruct ((1 <=? t) && (t <=? len (valid_signers vs3 record sigs ks))) eqn:E; [|discriminate].
      apply andb_true_iff in E. destruct E as [E1 E2]. apply N.leb_le in E1, E2.
      cbn [Sig.authorised]. exists (valid_signers vs3 record sigs ks).
      split; [unfold valid_signers; apply NoDup_filter, nodup_dedup|].
      split; [exact E1|]. split; [exact E2|].
      intros k Hk. unfold valid_signers in Hk. apply filter_In in Hk. destruct Hk as [Hk Hv].
      split; [apply in_dedup; exact Hk|apply has_valid_sig_signs; exact Hv].
    Qed.
  End Auth.
End GlueAuth.

(* ---------------------------------------------------------------- write authorisation trees *)
Section WauthInd.
  Variable P : wauth -> Prop.
  Hypothesis HS : forall pk, P (WSingle pk).
  Hypothesis HD : forall ks, P (WDelegated ks).
  Hypothesis HT : forall t total ks, P (WThreshold t total ks).
  Hypothesis HC : forall all l, Forall P l -> P (WComposite all l).
  Fixpoint wauth_ind' (a : wauth) : P a :=
    match a with
    | WSingle pk => HS pk
    | WDelegated ks => HD ks
    | WThreshold t total ks => HT t total ks
    | WComposite all l =>
        HC all l ((fix go (l : list wauth) : Forall P l :=
                     match l with
                     | [] => Forall_nil P
                     | x :: r => Forall_cons x (wauth_ind' x) (go r)
                     end) l)
    end.
End WauthInd.

Lemma all_v_true {A} (f : A -> verdict) l : all_v f l = VTrue <-> forall x, In x l -> f x = VTrue.
Proof.
  induction l as [|a l IH]; cbn [all_v In].
  - split; [intros _ x []|reflexivity].
  - destruct (f a) eqn:E.
    + rewrite IH. split.
      * intros Hl x [<-|Hx]; [exact E|apply Hl; exact Hx].
      * intros Hl x Hx. apply Hl. right; exact Hx.
    + split; [discriminate|]. intro Hl. rewrite (Hl a) in E by (left; reflexivity). discriminate.
    + split; [discriminate|]. intro Hl. rewrite (Hl a) in E by (left; reflexivity). discriminate.
Qed.

Lemma any_v_true {A} (f : A -> verdict) l : any_v f l = VTrue -> exists x, In x l /\ f x = VTrue.
Proof.
  induction l as [|a l IH]; cbn [any_v In]; [discriminate|].
  destruct (f a) eqn:E; intro V.
  - exists a. tauto.
  - destruct (IH V) as (x & Hx & Fx). exists x. tauto.
  - discriminate.
Qed.
(* ... and conversely when no member before the accepting one reports an error *)
Lemma any_v_complete {A} (f : A -> verdict) l :
  (forall x, In x l -> f x <> VErr) -> (exists x, In x l /\ f x = VTrue) -> any_v f l = VTrue.
Proof.
  induction l as [|a l IH]; cbn [any_v In]; intros Hn (x & Hx & Fx); [contradiction|].
  destruct (f a) eqn:E; [reflexivity| |exfalso; apply (Hn a); [left; reflexivity|exact E]].
  apply IH; [intros y Hy; apply Hn; right; exact Hy|].
  destruct Hx as [<-|Hx]; [congruence|]. exists x. tauto.
Qed.

Section AuthTree.
  Variable vs3 : bytes -> bytes -> bytes -> verdict.
  Variable record : bytes.
  Variable sigs : list bytes.
  Notation authorised := (authorised vs3 record sigs).

  Lemma authorised_all : forall l,
    authorised (WComposite true l) <-> forall x, In x l -> authorised x.
  Proof.
    intro l. cbn [Sig.authorised]. induction l as [|a l IH]; cbn [In].
    - split; [intros _ x []|intros _; exact I].
    - rewrite IH. split.
      + intros [Ha Hl] x [<-|Hx]; [exact Ha|apply Hl; exact Hx].
      + intro Hl. split; [apply Hl; left; reflexivity|intros x Hx; apply Hl; right; exact Hx].
  Qed.
  Lemma authorised_any : forall l,
    authorised (WComposite false l) <-> exists x, In x l /\ authorised x.
  Proof.
    intro l. cbn [Sig.authorised]. induction l as [|a l IH]; cbn [In].
    - split; [intros []|intros (x & [] & _)].
    - rewrite IH. split.
      + intros [Ha|(x & Hx & Hax)]; [exists a; tauto|exists x; tauto].
      + intros (x & [<-|Hx] & Hax); [left; exact Hax|right; exists x; tauto].
  Qed.

  (* soundness of the tree walk for any sound threshold rule *)
  Lemma wverify_sound : forall thr,
    (forall t total ks, thr t total ks = VTrue -> authorised (WThreshold t total ks)) ->
    forall a, wverify vs3 record sigs thr a = VTrue -> authorised a.
  Proof.
    intros thr Hthr. induction a as [pk|ks|t total ks|all l IH] using wauth_ind'; intro V.
    - cbn [wverify] in V. apply single_iff in V. destruct V as (s & r & E & _ & _ & V).
      cbn [Sig.authorised]. exists s. split; [rewrite E; left; reflexivity|exact V].
    - cbn [wverify] in V. apply delegated_iff in V. destruct V as (s & r & ak & E & _ & Hin & _ & V).
      cbn [Sig.authorised]. exists ak. split; [exact Hin|]. exists s. split; [rewrite E; left; reflexivity|exact V].
    - apply Hthr. exact V.
    - rewrite Forall_forall in IH. destruct all; cbn [wverify] in V.
      + apply authorised_all. rewrite all_v_true in V. intros x Hx. apply IH; [exact Hx|apply V; exact Hx].
      + apply authorised_any. apply any_v_true in V. destruct V as (x & Hx & V). exists x.
        split; [exact Hx|apply IH; assumption].
  Qed.

  Lemma wverify_spec_sound : forall a, wverify_spec vs3 record sigs a = VTrue -> authorised a.
  Proof. apply wverify_sound. apply thr_spec_sound. Qed.

  (* the code as it is: the threshold rule is irrelevant for trees without a threshold node *)
  Lemma wverify_thr_irrelevant : forall thr1 thr2 a, has_threshold a = false ->
    wverify vs3 record sigs thr1 a = wverify vs3 record sigs thr2 a.
  Proof.
    intros thr1 thr2. induction a as [pk|ks|t total ks|all l IH] using wauth_ind'; intro Hn;
      cbn [wverify]; try reflexivity; [discriminate|].
    cbn [has_threshold] in Hn. rewrite Forall_forall in IH.
    assert (forall x, In x l -> wverify vs3 record sigs thr1 x = wverify vs3 record sigs thr2 x) as Q.
    { intros x Hx. apply IH; [exact Hx|]. destruct (has_threshold x) eqn:E; [|reflexivity].
      assert (existsb has_threshold l = true) as F by (apply existsb_exists; exists x; tauto). congruence. }
    clear IH Hn. destruct all.
    - induction l as [|a l IHl]; cbn [all_v]; [reflexivity|].
      rewrite (Q a) by (left; reflexivity). rewrite IHl by (intros x Hx; apply Q; right; exact Hx). reflexivity.
    - induction l as [|a l IHl]; cbn [any_v]; [reflexivity|].
      rewrite (Q a) by (left; reflexivity). rewrite IHl by (intros x Hx; apply Q; right; exact Hx). reflexivity.
  Qed.

  Lemma wverify_code_sound : forall a, has_threshold a = false ->
    wverify_code vs3 record sigs a = VTrue -> authorised a.
  Proof.
    intros a Hn V. apply wverify_spec_sound. unfold wverify_spec, wverify_code in *.
    rewrite (wverify_thr_irrelevant _ (thr_code sigs) a Hn). exact V.
  Qed.

  (* under the ideal scheme every accepted leaf is a signature the listed key's holder issued on this record *)
  Lemma signs_issued : forall issued, ideal_sig vs3 issued -> forall k, signs vs3 record sigs k ->
    exists s, In s sigs /\ issued k record s.
  Proof. intros issued ideal k (s & Hin & V). exists s. split; [exact Hin|apply ideal; exact V]. Qed.
End AuthTree.

(* F08b: the count-only placeholder accepts byte strings nobody signed *)
Lemma thr_code_refuted :
  exists (vs3 : bytes -> bytes -> bytes -> verdict) record sigs a,
    (forall pk m s, vs3 pk m s <> VTrue) /\
    has_threshold a = true /\
    wverify_code vs3 record sigs a = VTrue /\ ~ authorised vs3 record sigs a /\
    wverify_spec vs3 record sigs a = VFalse.
Proof.
  exists (fun _ _ _ => VFalse), [1], [[1]; [2]], (WThreshold 2 3 [[1]; [2]; [3]]).
  split; [intros; discriminate|]. split; [reflexivity|]. split; [vm_compute; reflexivity|].
  split; [|vm_compute; reflexivity].
  cbn [authorised]. intros (signers & _ & _ & Hl & Hs).
  destruct signers as [|k r]; [vm_compute in Hl; apply Hl; reflexivity|].
  destruct (Hs k (or_introl eq_refl)) as [_ (s & _ & F)]. discriminate.
Qed.

(* ---------------------------------------------------------------- update conjuncts: none is implied by the others *)
Definition toy_key (from until : N) : pinned := mkPinned [107] (61 :: [7; 1]) from until.
Definition toy_sigtext : bytes := 61 :: [1; 1; 42].       (* "base64" of the toy signature of [42] under key 1 *)
(* sizes of the toy scheme are not ML-DSA's, so the witnesses are stated on the conjuncts *)
Definition upd_conj (H : bytes -> bytes) (vs3 : bytes -> bytes -> bytes -> verdict) (b64 : bytes -> option bytes)
  (keys : list pinned) (now : N) (contents expected key_id sig : bytes) : bool * bool * bool * bool :=
  (verify_checksum H contents expected,
   match find_key keys key_id with Some _ => true | None => false end,
   match find_key keys key_id with Some k => key_valid k now | None => false end,
   match find_key keys key_id with
   | Some k => match b64 (k_pub k), b64 sig with
               | Some pkb, Some sb => is_true (vs3 pkb contents sb)
               | _, _ => false
               end
   | None => false
   end).

Lemma update_conjuncts_independent :
  let ok := hex [42] in
  (* all four hold *)
  upd_conj toy_H toy_vs3 toy_b64 [toy_key 10 20] 15 [42] ok [107] toy_sigtext = (true, true, true, true) /\
  (* wrong checksum only *)
  upd_conj toy_H toy_vs3 toy_b64 [toy_key 10 20] 15 [42] (hex [43]) [107] toy_sigtext = (false, true, true, true) /\
  (* key not pinned only (the signature is fine under the key the attacker names) *)
  upd_conj toy_H toy_vs3 toy_b64 [toy_key 10 20] 15 [42] ok [108] toy_sigtext = (true, false, false, false) /\
  (* outside the validity window only: expired exactly at valid_until, not yet valid one second early *)
  upd_conj toy_H toy_vs3 toy_b64 [toy_key 10 20] 20 [42] ok [107] toy_sigtext = (true, true, false, true) /\
  upd_conj toy_H toy_vs3 toy_b64 [toy_key 10 20] 9 [42] ok [107] toy_sigtext = (true, true, false, true) /\
  upd_conj toy_H toy_vs3 toy_b64 [toy_key 10 20] 19 [42] ok [107] toy_sigtext = (true, true, true, true) /\
  upd_conj toy_H toy_vs3 toy_b64 [toy_key 10 20] 10 [42] ok [107] toy_sigtext = (true, true, true, true) /\
  upd_conj toy_H toy_vs3 toy_b64 [toy_key 10 0] 1000000 [42] ok [107] toy_sigtext = (true, true, true, true) /\
  (* signature of other contents only *)
  upd_conj toy_H toy_vs3 toy_b64 [toy_key 10 20] 15 [42] ok [107] (61 :: [1; 1; 43]) = (true, true, true, false).
Proof. vm_compute. repeat split; reflexivity. Qed.

(* whatever the primitives, a failing conjunct alone makes verify_file refuse *)
Lemma update_conjunct_necessary : forall H vs3 b64 keys now contents expected key_id sig,
  (verify_checksum H contents expected = false \/
   find_key keys key_id = None \/
   (exists k, find_key keys key_id = Some k /\ key_valid k now = false) \/
   (forall pkb sb, vs3 pkb contents sb <> VTrue)) ->
  verify_file H vs3 b64 keys now contents expected key_id sig <> UAccept.
Proof.
  intros H vs3 b64 keys now contents expected key_id sig Hc V. apply verify_file_iff in V.
  destruct V as [E (k & pkb & sb & F & Kv & _ & _ & _ & _ & Vs)].
  destruct Hc as [C|[C|[(k' & C1 & C2)|C]]].
  - unfold verify_checksum in C. apply bytes_eqb_neq in C. contradiction.
  - congruence.
  - congruence.
  - apply (C pkb sb). exact Vs.
Qed.
