(* Proofs about Model/Store.v (C03): put / get / remote PUT over per-node stores. *)
From SV Require Import Lib.Base Lib.ListAux Gen.LookupConsts Model.Lookup Model.Store Proofs.Lookup.
Local Open Scope N_scope.

(* ---------- the constants the property text names ---------- *)
Lemma size_caps_equal : MGR_MAX_VALUE_SIZE = CORE_MAX_DHT_VALUE_SIZE.
Proof. reflexivity. Qed.

Lemma store_constants :
  MGR_MAX_VALUE_SIZE = 512 /\ CORE_MAX_DHT_VALUE_SIZE = 512 /\
  MGR_MAX_VALUE_SIZE = CORE_MAX_DHT_VALUE_SIZE /\
  GET_ALPHA = 3 /\ GET_MAX_ITERATIONS = 20 /\ 0 < GET_ALPHA.
Proof. repeat split; reflexivity. Qed.

Lemma get_alpha_pos : (0 < N.to_nat GET_ALPHA)%nat.
Proof. vm_compute. lia. Qed.

(* ---------- association-list stores ---------- *)
Lemma sget_sput s k v k' : sget (sput s k v) k' = if k =? k' then Some v else sget s k'.
Proof. reflexivity. Qed.

Lemma node_store_set ss p s q :
  node_store (set_store ss p s) q = if p =? q then s else node_store ss q.
Proof. reflexivity. Qed.

Lemma held_set_same ss p s k : held (set_store ss p s) p k = sget s k.
Proof. unfold held. rewrite node_store_set, N.eqb_refl. reflexivity. Qed.

Lemma held_set_other ss p s q k : q <> p -> held (set_store ss p s) q k = held ss q k.
Proof.
  intro H. unfold held. rewrite node_store_set.
  destruct (p =? q) eqn:E; [apply N.eqb_eq in E; congruence|reflexivity].
Qed.

Lemma sget_sput_same s k v : sget (sput s k v) k = Some v.
Proof. rewrite sget_sput, N.eqb_refl. reflexivity. Qed.

Lemma sget_sput_other s k v k' : k' <> k -> sget (sput s k v) k' = sget s k'.
Proof.
  intro H. rewrite sget_sput. destruct (k =? k') eqn:E; [apply N.eqb_eq in E; congruence|reflexivity].
Qed.

Lemma held_empty p k : held [] p k = None.
Proof. reflexivity. Qed.

(* writing (k, v) into node p's store changes exactly the binding (p, k) *)
Lemma held_write ss p k v q k' :
  held (set_store ss p (sput (node_store ss p) k v)) q k' =
  if (p =? q) && (k =? k') then Some v else held ss q k'.
Proof.
  unfold held. rewrite node_store_set. destruct (p =? q) eqn:E; cbn [andb]; [|reflexivity].
  apply N.eqb_eq in E. subst q. rewrite sget_sput. reflexivity.
Qed.

(* ---------- core_store / handle_put ---------- *)
Lemma core_store_true ss p k v ss' : core_store ss p k v = (ss', true) ->
  vlen v <= CORE_MAX_DHT_VALUE_SIZE /\
  forall q k', held ss' q k' = if (p =? q) && (k =? k') then Some v else held ss q k'.
Proof.
  unfold core_store. destruct (CORE_MAX_DHT_VALUE_SIZE <? vlen v) eqn:E; intro H; inv H.
  split; [lia|]. intros q k'. apply held_write.
Qed.

Lemma core_store_false ss p k v ss' : core_store ss p k v = (ss', false) ->
  ss' = ss /\ CORE_MAX_DHT_VALUE_SIZE < vlen v.
Proof.
  unfold core_store. destruct (CORE_MAX_DHT_VALUE_SIZE <? vlen v) eqn:E; intro H; inv H.
  split; [reflexivity|lia].
Qed.

Lemma core_store_small ss p k v : vlen v <= CORE_MAX_DHT_VALUE_SIZE ->
  core_store ss p k v = (set_store ss p (sput (node_store ss p) k v), true).
Proof.
  intro H. unfold core_store. destruct (CORE_MAX_DHT_VALUE_SIZE <? vlen v) eqn:E; [lia|reflexivity].
Qed.

Lemma core_store_big ss p k v : CORE_MAX_DHT_VALUE_SIZE < vlen v -> core_store ss p k v = (ss, false).
Proof.
  intro H. unfold core_store. destruct (CORE_MAX_DHT_VALUE_SIZE <? vlen v) eqn:E; [reflexivity|lia].
Qed.

Lemma handle_put_true ss p k v ss' : handle_put ss p k v = (ss', true) ->
  vlen v <= MGR_MAX_VALUE_SIZE /\
  forall q k', held ss' q k' = if (p =? q) && (k =? k') then Some v else held ss q k'.
Proof.
  unfold handle_put. destruct (MGR_MAX_VALUE_SIZE <? vlen v) eqn:E; intro H; [inv H|].
  apply core_store_true in H. split; [lia|tauto].
Qed.

Lemma handle_put_false ss p k v ss' : handle_put ss p k v = (ss', false) ->
  ss' = ss /\ MGR_MAX_VALUE_SIZE < vlen v.
Proof.
  unfold handle_put. destruct (MGR_MAX_VALUE_SIZE <? vlen v) eqn:E; intro H.
  - inv H. split; [reflexivity|lia].
  - apply core_store_false in H. rewrite size_caps_equal. exact H.
Qed.

Lemma handle_put_small ss p k v : vlen v <= MGR_MAX_VALUE_SIZE ->
  handle_put ss p k v = (set_store ss p (sput (node_store ss p) k v), true).
Proof.
  intro H. unfold handle_put. destruct (MGR_MAX_VALUE_SIZE <? vlen v) eqn:E; [lia|].
  apply core_store_small. rewrite <- size_caps_equal. exact H.
Qed.

Lemma handle_put_big ss p k v : MGR_MAX_VALUE_SIZE < vlen v -> handle_put ss p k v = (ss, false).
Proof.
  intro H. unfold handle_put. destruct (MGR_MAX_VALUE_SIZE <? vlen v) eqn:E; [reflexivity|lia].
Qed.

(* ---------- store-wide predicates ---------- *)
(* every binding of every node satisfies P *)
Definition AllP (P : N -> value -> Prop) (ss : stores) : Prop :=
  forall p k v, held ss p k = Some v -> P k v.

Definition AllSmall (ss : stores) : Prop :=
  forall p k v, held ss p k = Some v -> vlen v <= MGR_MAX_VALUE_SIZE.

Lemma AllSmall_AllP ss : AllSmall ss <-> AllP (fun _ v => vlen v <= MGR_MAX_VALUE_SIZE) ss.
Proof. reflexivity. Qed.

Lemma AllP_empty (P : N -> value -> Prop) : AllP P [].
Proof. intros p k v H. discriminate. Qed.

Lemma AllP_mono (P Q : N -> value -> Prop) ss : (forall k v, P k v -> Q k v) -> AllP P ss -> AllP Q ss.
Proof. intros H HA p k v Hh. apply H. eapply HA; exact Hh. Qed.

Lemma core_store_AllP (P : N -> value -> Prop) ss p k v :
  (vlen v <= CORE_MAX_DHT_VALUE_SIZE -> P k v) -> AllP P ss -> AllP P (fst (core_store ss p k v)).
Proof.
  intros HP HA. destruct (core_store ss p k v) as [ss' ok] eqn:E. cbn [fst]. destruct ok.
  - apply core_store_true in E. destruct E as [Hl Hh]. intros q k' w Hw. rewrite Hh in Hw.
    destruct ((p =? q) && (k =? k')) eqn:Eb.
    + inv Hw. apply andb_true_iff in Eb. destruct Eb as [_ Ek]. apply N.eqb_eq in Ek. subst k'.
      apply HP, Hl.
    + eapply HA; exact Hw.
  - apply core_store_false in E. destruct E as [-> _]. exact HA.
Qed.

Lemma handle_put_AllP (P : N -> value -> Prop) ss p k v :
  (vlen v <= MGR_MAX_VALUE_SIZE -> P k v) -> AllP P ss -> AllP P (fst (handle_put ss p k v)).
Proof.
  intros HP HA. unfold handle_put. destruct (MGR_MAX_VALUE_SIZE <? vlen v) eqn:E; [exact HA|].
  apply core_store_AllP; [|exact HA]. intros _. apply HP. lia.
Qed.

(* ---------- replicate ---------- *)
(* is (q, true) among the outcomes *)
Definition has_true (q : pid) (outs : list (pid * bool)) : bool :=
  existsb (fun o => (fst o =? q) && snd o) outs.

Lemma has_true_In q outs : has_true q outs = true <-> In (q, true) outs.
Proof.
  unfold has_true. rewrite existsb_exists. split.
  - intros [[p b] [Hin Hb]]. cbn [fst snd] in Hb. apply andb_true_iff in Hb. destruct Hb as [Hp Hb].
    apply N.eqb_eq in Hp. subst. exact Hin.
  - intro Hin. exists (q, true). split; [exact Hin|]. cbn [fst snd]. rewrite N.eqb_refl. reflexivity.
Qed.

Lemma has_true_false q outs : has_true q outs = false <-> ~ In (q, true) outs.
Proof. rewrite <- has_true_In. destruct (has_true q outs); intuition congruence. Qed.

Lemma filter_len_le {A} (f : A -> bool) l : (length (filter f l) <= length l)%nat.
Proof. induction l as [|a l IH]; cbn [filter length]; [lia|]. destruct (f a); cbn [length]; lia. Qed.

Section PutProofs.
  Variable keyof : pid -> N.
  Variable reply : pid -> option (list pid).
  Variable responsive : pid -> bool.
  Variable self : pid.
  Variable selfs_marked selfs_all : list pid.
  Variable repl : nat.

  Local Notation replicate := (Model.Store.replicate responsive).
  Local Notation put := (Model.Store.put keyof reply responsive self selfs_marked selfs_all repl).
  Local Notation lookup := (Model.Lookup.lookup keyof reply self selfs_marked selfs_all).

  Lemma replicate_AllP (P : N -> value -> Prop) k v : (vlen v <= MGR_MAX_VALUE_SIZE -> P k v) ->
    forall ts ss, AllP P ss -> AllP P (fst (replicate ss ts k v)).
  Proof.
    intro HP. induction ts as [|p ts IH]; intros ss HA; cbn [Model.Store.replicate]; [exact HA|].
    destruct (if responsive p then handle_put ss p k v else (ss, false)) as [ss1 ok] eqn:E1.
    assert (H1 : AllP P ss1).
    { destruct (responsive p); [|inv E1; exact HA].
      replace ss1 with (fst (handle_put ss p k v)) by (rewrite E1; reflexivity).
      apply handle_put_AllP; assumption. }
    specialize (IH ss1 H1). destruct (replicate ss1 ts k v) as [ss2 outs]. exact IH.
  Qed.

  (* the exact effect of the PUT fan-out *)
  Lemma replicate_spec k v : forall ts ss ss' outs,
    replicate ss ts k v = (ss', outs) ->
    map fst outs = ts /\
    (forall p b, In (p, b) outs -> b = responsive p && (vlen v <=? MGR_MAX_VALUE_SIZE)) /\
    (forall q k', held ss' q k' = if (k =? k') && has_true q outs then Some v else held ss q k').
  Proof.
    induction ts as [|p ts IH]; intros ss ss' outs H; cbn [Model.Store.replicate] in H.
    - inv H. split; [reflexivity|]. split; [intros p b []|]. intros q k'.
      rewrite andb_false_r. reflexivity.
    - destruct (if responsive p then handle_put ss p k v else (ss, false)) as [ss1 ok] eqn:E1.
      destruct (replicate ss1 ts k v) as [ss2 outs'] eqn:E2. inv H.
      destruct (IH _ _ _ E2) as [I1 [I2 I3]].
      assert (Hok : ok = responsive p && (vlen v <=? MGR_MAX_VALUE_SIZE) /\
                    forall q k', held ss1 q k' = if ok && (p =? q) && (k =? k') then Some v else held ss q k').
      { destruct (responsive p); [|inv E1; cbn [andb]; auto].
        destruct ok.
        - apply handle_put_true in E1. destruct E1 as [Hl Hh]. split; [cbn [andb]; lia|].
          intros q k'. rewrite Hh. reflexivity.
        - apply handle_put_false in E1. destruct E1 as [-> Hl]. split; [cbn [andb]; lia|].
          intros q k'. reflexivity. }
      destruct Hok as [Hok Hh1].
      split; [cbn [map fst]; rewrite I1; reflexivity|]. split.
      + intros q b [Hq|Hq]; [inv Hq; reflexivity|apply I2, Hq].
      + intros q k'. rewrite I3, Hh1. unfold has_true. cbn [existsb fst snd].
        fold (has_true q outs').
        destruct (k =? k'), (p =? q), ok, (has_true q outs'); reflexivity.
  Qed.

  (* ---------- put ---------- *)
  Lemma put_refused ss k v init : MGR_MAX_VALUE_SIZE < vlen v -> put ss k v init = (ss, PutRefused, []).
  Proof.
    intro H. unfold Model.Store.put. destruct (MGR_MAX_VALUE_SIZE <? vlen v) eqn:E; [reflexivity|lia].
  Qed.

  (* the only refusal is the size refusal, and it is total *)
  Lemma put_refused_inv ss k v init ss' reqs : put ss k v init = (ss', PutRefused, reqs) ->
    MGR_MAX_VALUE_SIZE < vlen v /\ ss' = ss /\ reqs = [].
  Proof.
    unfold Model.Store.put. destruct (MGR_MAX_VALUE_SIZE <? vlen v) eqn:E; intro H.
    - inv H. split; [lia|auto].
    - exfalso. rewrite core_store_small in H by (rewrite <- size_caps_equal; lia). cbn [negb] in H.
      destruct (replicate _ _ k v) as [ss2 outs]. inv H.
  Qed.

  Lemma put_accepted ss k v init : vlen v <= MGR_MAX_VALUE_SIZE ->
    exists ss' n outs reqs, put ss k v init = (ss', PutDone n outs, reqs).
  Proof.
    intro Hl. unfold Model.Store.put. destruct (MGR_MAX_VALUE_SIZE <? vlen v) eqn:E; [lia|].
    rewrite core_store_small by (rewrite <- size_caps_equal; lia). cbn [negb].
    destruct (replicate _ _ k v) as [ss2 outs]. eauto.
  Qed.

  Lemma put_done ss k v init ss' n outs reqs : put ss k v init = (ss', PutDone n outs, reqs) ->
    let s := lookup k repl init in
    vlen v <= MGR_MAX_VALUE_SIZE /\
    map fst outs = filter (fun p => negb (mem p selfs_all)) (best s) /\
    reqs = rev (sent s) /\
    n = 1 + N.of_nat (length (filter (fun o => snd o) outs)) /\
    (forall p b, In (p, b) outs -> b = responsive p) /\
    (forall q k', held ss' q k' =
       if (k =? k') && ((self =? q) || has_true q outs) then Some v else held ss q k').
  Proof.
    unfold Model.Store.put. cbv zeta. destruct (MGR_MAX_VALUE_SIZE <? vlen v) eqn:E; intro H; [inv H|].
    assert (Hl : vlen v <= MGR_MAX_VALUE_SIZE) by lia.
    destruct (core_store ss self k v) as [ss1 okl] eqn:E1. destruct okl; cbn [negb] in H; [|inv H].
    apply core_store_true in E1. destruct E1 as [_ Hh1].
    destruct (replicate ss1 _ k v) as [ss2 outs2] eqn:E2. inv H.
    apply replicate_spec in E2. destruct E2 as [R1 [R2 R3]].
    split; [exact Hl|]. split; [exact R1|]. split; [reflexivity|]. split; [reflexivity|]. split.
    - intros p b Hin. rewrite (R2 p b Hin). replace (vlen v <=? MGR_MAX_VALUE_SIZE) with true by lia.
      apply andb_true_r.
    - intros q k'. rewrite R3, Hh1.
      destruct (k =? k'), (self =? q), (has_true q outs); reflexivity.
  Qed.

  Lemma put_AllP (P : N -> value -> Prop) ss k v init : (vlen v <= MGR_MAX_VALUE_SIZE -> P k v) ->
    AllP P ss -> AllP P (fst (fst (put ss k v init))).
  Proof.
    intros HP HA. unfold Model.Store.put. cbv zeta.
    destruct (MGR_MAX_VALUE_SIZE <? vlen v) eqn:E; [exact HA|].
    destruct (core_store ss self k v) as [ss1 okl] eqn:E1. destruct okl; cbn [negb]; [|exact HA].
    assert (H1 : AllP P ss1).
    { replace ss1 with (fst (core_store ss self k v)) by (rewrite E1; reflexivity).
      apply core_store_AllP; [|exact HA]. intros _. apply HP. lia. }
    pose proof (replicate_AllP P k v HP (filter (fun p => negb (mem p selfs_all)) (best (lookup k repl init))) ss1 H1) as H2.
    destruct (replicate ss1 _ k v) as [ss2 outs]. exact H2.
  Qed.

  (* the statement of Props/C03.v, item 3 *)
  Lemma put_replicas ss k v init ss' n outs reqs : put ss k v init = (ss', PutDone n outs, reqs) ->
    let s := lookup k repl init in
    vlen v <= MGR_MAX_VALUE_SIZE /\
    held ss' self k = Some v /\
    (forall p, In (p, true) outs -> held ss' p k = Some v) /\
    map fst outs = filter (fun p => negb (mem p selfs_all)) (best s) /\
    reqs = rev (sent s) /\
    (forall p, In p (map fst outs) -> ~ In p selfs_all) /\
    (forall p b, In (p, b) outs -> b = responsive p) /\
    n = 1 + N.of_nat (length (filter (fun o => snd o) outs)) /\
    (forall p k', p <> self -> ~ In (p, true) outs -> held ss' p k' = held ss p k') /\
    (forall p k', k' <> k -> held ss' p k' = held ss p k').
  Proof.
    intro H. apply put_done in H. cbv zeta in *. destruct H as [H1 [H2 [H3 [H4 [H5 H6]]]]].
    split; [exact H1|]. split.
    { rewrite H6, !N.eqb_refl. reflexivity. }
    split.
    { intros p Hp. rewrite H6, N.eqb_refl. apply has_true_In in Hp. rewrite Hp, orb_true_r. reflexivity. }
    split; [exact H2|]. split; [exact H3|]. split.
    { intros p Hp. rewrite H2 in Hp. apply filter_In in Hp. destruct Hp as [_ Hp].
      apply negb_true_iff in Hp. apply mem_false in Hp. exact Hp. }
    split; [exact H5|]. split; [exact H4|]. split.
    - intros p k' Hp Hn. rewrite H6. apply has_true_false in Hn. rewrite Hn.
      destruct (self =? p) eqn:E; [apply N.eqb_eq in E; congruence|]. rewrite andb_false_r. reflexivity.
    - intros p k' Hk. rewrite H6. destruct (k =? k') eqn:E; [apply N.eqb_eq in E; congruence|]. reflexivity.
  Qed.

  (* with the side conditions of C01 the targets are distinct remote peers that answered the lookup *)
  Lemma put_targets_wf ss k v init ss' n outs reqs :
    NoDup init -> (forall p, In p init -> ~ In p selfs_all) ->
    incl selfs_marked selfs_all -> In self selfs_marked ->
    put ss k v init = (ss', PutDone n outs, reqs) ->
    NoDup (map fst outs) /\ (length outs <= repl)%nat /\
    forall p, In p (map fst outs) -> p <> self /\ In p reqs /\ reply p <> None.
  Proof.
    intros Hnd Hi Hm Hs H. apply put_done in H. cbv zeta in H. destruct H as [_ [H2 [H3 _]]].
    pose proof (lookup_result_wf keyof reply self selfs_marked selfs_all k repl init Hnd Hi Hm Hs) as Hwf.
    cbv zeta in Hwf. destruct Hwf as [W1 [W2 [_ W4]]].
    split; [rewrite H2; apply NoDup_filter, W2|]. split.
    - rewrite <- (map_length fst), H2. eapply Nat.le_trans; [apply filter_len_le|exact W1].
    - intros p Hp. rewrite H2 in Hp. apply filter_In in Hp. destruct Hp as [Hb Hp].
      apply negb_true_iff in Hp. apply mem_false in Hp.
      destruct (W4 p Hb) as [->|[Hsent Hr]]; [exfalso; apply Hp, Hm, Hs|].
      split; [intros ->; apply Hp, Hm, Hs|]. split; [|exact Hr].
      rewrite H3. apply in_rev in Hsent. exact Hsent.
  Qed.
End PutProofs.

(* ---------- get ---------- *)
Definition is_fail (r : fv_reply) : bool := match r with FVFail => true | _ => false end.

Section GetProofs.
  Variable nodes_reply : pid -> fv_reply.
  Variable self : pid.
  Variable selfs_marked selfs_all : list pid.
  Variable key : N.
  Variable ss : stores.

  Local Notation fv_answer := (Model.Store.fv_answer nodes_reply key ss).
  Local Notation gconsider := (Model.Store.gconsider selfs_all).
  Local Notation gprocess := (Model.Store.gprocess nodes_reply selfs_all key ss).
  Local Notation gloop := (fun fuel => Model.Store.gloop nodes_reply selfs_all key fuel ss).
  Local Notation get := (Model.Store.get nodes_reply self selfs_marked selfs_all key ss).

  (* a peer answers with bytes exactly when it responds at all and holds the key *)
  Lemma fv_answer_cases p :
    (exists v, fv_answer p = inl (Some v) /\ held ss p key = Some v /\ nodes_reply p <> FVFail) \/
    (fv_answer p = inr (nodes_reply p) /\ (nodes_reply p = FVFail \/ held ss p key = None)).
  Proof.
    unfold Model.Store.fv_answer. destruct (nodes_reply p) eqn:E.
    - right. auto.
    - destruct (held ss p key) as [v|] eqn:H; [left; exists v; repeat split; congruence|right; auto].
    - destruct (held ss p key) as [v|] eqn:H; [left; exists v; repeat split; congruence|right; auto].
  Qed.

  (* ---------- gpop ---------- *)
  Lemma gpop_spec qd : forall c ql batch c' ql' batch',
    gpop qd c ql batch = (c', ql', batch') ->
    exists pre, c = pre ++ c' /\ (forall y, In y ql' <-> In y ql /\ ~ In y pre) /\
                batch' = batch ++ filter (fun x => negb (mem x qd)) pre.
  Proof.
    induction c as [|x c IH]; intros ql batch c' ql' batch' H; cbn [gpop] in H.
    - inv H. exists []. cbn. rewrite app_nil_r. intuition.
    - destruct (N.to_nat GET_ALPHA <=? length batch)%nat eqn:E.
      + inv H. exists []. cbn. rewrite app_nil_r. intuition.
      + change (existsb (N.eqb x) qd) with (mem x qd) in H.
        change (filter (fun y => negb (y =? x)) ql) with (remove_pid x ql) in H.
        destruct (mem x qd) eqn:E0;
          apply IH in H; destruct H as [pre [H1 [H2 H3]]]; exists (x :: pre); subst c.
        * split; [reflexivity|]. split.
          -- intro y. rewrite H2, remove_pid_In. cbn [In]. intuition congruence.
          -- cbn [filter]. rewrite E0. cbn [negb]. exact H3.
        * split; [reflexivity|]. split.
          -- intro y. rewrite H2, remove_pid_In. cbn [In]. intuition congruence.
          -- cbn [filter]. rewrite E0. cbn [negb]. rewrite H3, <- app_assoc. reflexivity.
  Qed.

  Lemma gpop_len qd : forall c ql batch c' ql' batch',
    gpop qd c ql batch = (c', ql', batch') ->
    (length batch' <= Nat.max (length batch) (N.to_nat GET_ALPHA))%nat.
  Proof.
    induction c as [|x c IH]; intros ql batch c' ql' batch' H; cbn [gpop] in H.
    - inv H. lia.
    - destruct (N.to_nat GET_ALPHA <=? length batch)%nat eqn:E.
      + inv H. lia.
      + destruct (existsb (N.eqb x) qd); apply IH in H.
        * lia.
        * rewrite app_length in H. cbn [length] in H. lia.
  Qed.

  Lemma gpop_nil qd : forall c ql batch c' ql',
    gpop qd c ql batch = (c', ql', []) -> c' = [].
  Proof.
    pose proof get_alpha_pos as HA.
    induction c as [|x c IH]; intros ql batch c' ql' H; cbn [gpop] in H.
    - inv H. reflexivity.
    - destruct (N.to_nat GET_ALPHA <=? length batch)%nat eqn:E.
      + inv H. cbn [length] in E. lia.
      + destruct (existsb (N.eqb x) qd); eapply IH; exact H.
  Qed.

  (* ---------- gconsider ---------- *)
  Lemma gconsider_fixed s n :
    g_queried (gconsider s n) = g_queried s /\ g_sent (gconsider s n) = g_sent s /\
    g_failed (gconsider s n) = g_failed s.
  Proof. unfold Model.Store.gconsider. repeat case_if; repeat split; reflexivity. Qed.

  Lemma fold_gconsider_fixed l : forall s,
    g_queried (fold_left gconsider l s) = g_queried s /\ g_sent (fold_left gconsider l s) = g_sent s /\
    g_failed (fold_left gconsider l s) = g_failed s.
  Proof.
    induction l as [|n l IH]; intro s; cbn [fold_left]; [auto|].
    destruct (IH (gconsider s n)) as [H1 [H2 H3]]. destruct (gconsider_fixed s n) as [G1 [G2 G3]].
    rewrite H1, H2, H3, G1, G2, G3. auto.
  Qed.

  Lemma gconsider_cut s n : g_cut (gconsider s n) = false -> g_cut s = false.
  Proof.
    unfold Model.Store.gconsider. repeat case_if; cbn [g_cut]; intro H; try exact H; discriminate.
  Qed.

  Lemma fold_gconsider_cut l : forall s, g_cut (fold_left gconsider l s) = false -> g_cut s = false.
  Proof.
    induction l as [|n l IH]; intros s H; cbn [fold_left] in H; [exact H|].
    apply (gconsider_cut s n), IH, H.
  Qed.

  (* everything marked queued is in the queue *)
  Definition QC (s : gst) : Prop := incl (g_queued s) (g_cand s).

  Lemma gconsider_qc s n : QC s -> QC (gconsider s n).
  Proof.
    unfold QC, Model.Store.gconsider. intro H. repeat case_if; cbn [g_queued g_cand]; try exact H.
    intros y [<-|Hy]; apply in_or_app; [right; left; reflexivity|left; apply H, Hy].
  Qed.

  Lemma fold_gconsider_qc l : forall s, QC s -> QC (fold_left gconsider l s).
  Proof.
    induction l as [|n l IH]; intros s H; cbn [fold_left]; [exact H|]. apply IH, gconsider_qc, H.
  Qed.

  (* ---------- gprocess ---------- *)
  (* the state after peer p's answer (not a value) has been handled *)
  Definition gafter (s : gst) (p : pid) : gst :=
    let s1 := mkG (g_cand s) (p :: g_queried s) (g_queued s) (g_sent s) (g_failed s) (g_cut s) in
    match nodes_reply p with
    | FVFail => mkG (g_cand s) (p :: g_queried s) (g_queued s) (g_sent s) (g_failed s + 1) (g_cut s)
    | FVNodes l => fold_left gconsider l s1
    | FVNotFound => s1
    end.

  Lemma gprocess_cons s p rest :
    gprocess s (p :: rest) =
    match held ss p key with
    | Some v => if is_fail (nodes_reply p) then gprocess (gafter s p) rest
                else (mkG (g_cand s) (p :: g_queried s) (g_queued s) (g_sent s) (g_failed s) (g_cut s), Some (v, p))
    | None => gprocess (gafter s p) rest
    end.
  Proof.
    cbn [Model.Store.gprocess]. unfold Model.Store.fv_answer, gafter.
    destruct (nodes_reply p); cbn [is_fail]; destruct (held ss p key); reflexivity.
  Qed.

  Lemma gafter_fixed s p :
    g_queried (gafter s p) = p :: g_queried s /\ g_sent (gafter s p) = g_sent s /\
    g_failed (gafter s p) = g_failed s + (if is_fail (nodes_reply p) then 1 else 0).
  Proof.
    unfold gafter. destruct (nodes_reply p) as [|l|]; cbn [is_fail g_queried g_sent g_failed];
      try (repeat split; try reflexivity; lia).
    match goal with |- context [fold_left _ l ?s1] => destruct (fold_gconsider_fixed l s1) as [G1 [G2 G3]] end.
    rewrite G1, G2, G3. cbn [g_queried g_sent g_failed]. repeat split; try reflexivity; lia.
  Qed.

  Lemma gafter_qc s p : QC s -> QC (gafter s p).
  Proof.
    intro H. unfold gafter. destruct (nodes_reply p) as [|l|]; try exact H.
    apply fold_gconsider_qc. exact H.
  Qed.

  Lemma gafter_cut s p : g_cut (gafter s p) = false -> g_cut s = false.
  Proof.
    unfold gafter. destruct (nodes_reply p) as [|l|]; try (intro H; exact H).
    intro H. apply fold_gconsider_cut in H. exact H.
  Qed.

  Lemma gprocess_sent : forall batch s, g_sent (fst (gprocess s batch)) = g_sent s.
  Proof.
    induction batch as [|p batch IH]; intro s; [reflexivity|]. rewrite gprocess_cons.
    destruct (gafter_fixed s p) as [_ [G2 _]].
    destruct (held ss p key); [destruct (is_fail (nodes_reply p))|]; rewrite ?IH, ?G2; reflexivity.
  Qed.

  Lemma gprocess_qc : forall batch s, QC s -> QC (fst (gprocess s batch)).
  Proof.
    induction batch as [|p batch IH]; intros s H; [exact H|]. rewrite gprocess_cons.
    destruct (held ss p key); [destruct (is_fail (nodes_reply p))|];
      try (apply IH, gafter_qc, H). exact H.
  Qed.

  Lemma gprocess_cut : forall batch s, g_cut (fst (gprocess s batch)) = false -> g_cut s = false.
  Proof.
    induction batch as [|p batch IH]; intros s H; [exact H|]. rewrite gprocess_cons in H.
    destruct (held ss p key); [destruct (is_fail (nodes_reply p))|];
      try (apply IH, gafter_cut in H; exact H). exact H.
  Qed.

  Lemma gprocess_found : forall batch s s1 v p, gprocess s batch = (s1, Some (v, p)) ->
    held ss p key = Some v /\ In p batch /\ nodes_reply p <> FVFail.
  Proof.
    induction batch as [|p0 batch IH]; intros s s1 v p H; [discriminate|]. rewrite gprocess_cons in H.
    destruct (held ss p0 key) as [v0|] eqn:Eh; [destruct (is_fail (nodes_reply p0)) eqn:Ef|].
    - apply IH in H. destruct H as [H1 [H2 H3]]. split; [exact H1|]. split; [right; exact H2|exact H3].
    - inv H. split; [exact Eh|]. split; [left; reflexivity|]. intro E. rewrite E in Ef. discriminate.
    - apply IH in H. destruct H as [H1 [H2 H3]]. split; [exact H1|]. split; [right; exact H2|exact H3].
  Qed.

  Lemma gprocess_none : forall batch s s1, gprocess s batch = (s1, None) ->
    g_queried s1 = rev batch ++ g_queried s /\
    g_failed s1 = g_failed s + N.of_nat (length (filter (fun p => is_fail (nodes_reply p)) batch)) /\
    (forall p, In p batch -> nodes_reply p = FVFail \/ held ss p key = None).
  Proof.
    induction batch as [|p0 batch IH]; intros s s1 H.
    - inv H. cbn [rev app filter length]. split; [reflexivity|]. split; [lia|intros p []].
    - rewrite gprocess_cons in H.
      assert (Hp0 : nodes_reply p0 = FVFail \/ held ss p0 key = None /\ gprocess (gafter s p0) batch = (s1, None)).
      { destruct (held ss p0 key) as [v0|]; [|right; auto].
        destruct (nodes_reply p0); cbn [is_fail] in H; try discriminate. left; reflexivity. }
      assert (H' : gprocess (gafter s p0) batch = (s1, None)).
      { destruct (held ss p0 key) as [v0|]; [|exact H].
        destruct (is_fail (nodes_reply p0)); [exact H|discriminate]. }
      apply IH in H'. destruct H' as [I1 [I2 I3]]. destruct (gafter_fixed s p0) as [G1 [_ G3]].
      rewrite G1 in I1. rewrite G3 in I2. split; [|split].
      + rewrite I1. cbn [rev]. rewrite <- app_assoc. reflexivity.
      + rewrite I2. cbn [filter]. destruct (is_fail (nodes_reply p0)); cbn [length]; lia.
      + intros p [<-|Hp]; [|apply I3, Hp]. destruct Hp0 as [?|[? _]]; auto.
  Qed.

  (* ---------- completeness invariant ---------- *)
  (* x was learned: an initial candidate, or named by a processed peer's NodesFound reply *)
  Definition Learned (init done : list pid) (x : pid) : Prop :=
    In x init \/ exists r l, In r done /\ nodes_reply r = FVNodes l /\ In x l.

  (* where a learned peer can be: queried, a local id, still in the queue, or in the batch being processed *)
  Definition Cov (s : gst) (extra : list pid) (x : pid) : Prop :=
    In x (g_queried s) \/ In x selfs_all \/ In x (g_cand s) \/ In x extra.

  Definition LInv (init : list pid) (s : gst) (done extra : list pid) : Prop :=
    forall x, Learned init done x -> Cov s extra x.

  Lemma gconsider_cov s n extra x : QC s -> g_cut (gconsider s n) = false ->
    Cov s (n :: extra) x -> Cov (gconsider s n) extra x.
  Proof.
    intros HQ Hb Hc. unfold Cov in *.
    destruct (gconsider_fixed s n) as [G1 _]. rewrite G1. clear G1.
    revert Hb. unfold Model.Store.gconsider.
    change (existsb (N.eqb n) (g_queried s)) with (mem n (g_queried s)).
    change (existsb (N.eqb n) (g_queued s)) with (mem n (g_queued s)).
    change (existsb (N.eqb n) selfs_all) with (mem n selfs_all).
    destruct (mem n (g_queried s) || mem n (g_queued s) || mem n selfs_all) eqn:E.
    - intros _. destruct Hc as [H|[H|[H|[<-|H]]]]; try tauto.
      apply orb_true_iff in E. destruct E as [E|E]; [apply orb_true_iff in E; destruct E as [E|E]|];
        apply mem_In in E.
      + left; exact E.
      + right; right; left. apply HQ, E.
      + right; left; exact E.
    - destruct (N.to_nat LK_MAX_CANDIDATE_NODES <=? length (g_cand s))%nat; cbn [g_cut g_cand];
        [discriminate|]. intros _.
      destruct Hc as [H|[H|[H|[<-|H]]]]; try tauto.
      + right; right; left. apply in_or_app. left; exact H.
      + right; right; left. apply in_or_app. right; left; reflexivity.
  Qed.

  Lemma fold_gconsider_cov l : forall s extra x, QC s ->
    g_cut (fold_left gconsider l s) = false ->
    Cov s (l ++ extra) x -> Cov (fold_left gconsider l s) extra x.
  Proof.
    induction l as [|n l IH]; intros s extra x HQ Hb Hc; cbn [fold_left app] in *; [exact Hc|].
    apply IH; [apply gconsider_qc; exact HQ|exact Hb|].
    apply gconsider_cov; [exact HQ|eapply fold_gconsider_cut; exact Hb|exact Hc].
  Qed.

  Lemma gafter_linv init s done p rest : QC s -> g_cut (gafter s p) = false ->
    LInv init s done (p :: rest) -> LInv init (gafter s p) (p :: done) rest.
  Proof.
    intros HQ Hb HL x Hx.
    assert (Hx' : Learned init done x \/ exists l, nodes_reply p = FVNodes l /\ In x l).
    { destruct Hx as [Hx|[r [l [[<-|Hr] [El Hx]]]]].
      - left; left; exact Hx.
      - right. exists l. auto.
      - left; right. exists r, l. auto. }
    clear Hx. revert Hb. unfold gafter.
    assert (Hold : Learned init done x ->
              Cov (mkG (g_cand s) (p :: g_queried s) (g_queued s) (g_sent s) (g_failed s) (g_cut s)) rest x).
    { intro Hx. unfold Cov; cbn [g_queried g_cand].
      destruct (HL x Hx) as [H|[H|[H|[<-|H]]]]; try tauto.
      - left; right; exact H.
      - left; left; reflexivity. }
    destruct (nodes_reply p) as [|l|] eqn:E.
    - intros _. destruct Hx' as [Hx|[l [El _]]]; [|discriminate]. apply Hold, Hx.
    - intro Hb. apply fold_gconsider_cov; [exact HQ|exact Hb|].
      destruct Hx' as [Hx|[l' [El Hx]]].
      + destruct (Hold Hx) as [H|[H|[H|H]]]; unfold Cov; try tauto.
        right; right; right. apply in_or_app. right; exact H.
      + inv El. right; right; right. apply in_or_app. left; exact Hx.
    - intros _. destruct Hx' as [Hx|[l [El _]]]; [|discriminate]. apply Hold, Hx.
  Qed.

  Lemma gprocess_linv init : forall batch s done s1, gprocess s batch = (s1, None) ->
    QC s -> g_cut s1 = false -> LInv init s done batch -> LInv init s1 (rev batch ++ done) [].
  Proof.
    induction batch as [|p0 batch IH]; intros s done s1 H HQ Hb HL.
    - inv H. exact HL.
    - rewrite gprocess_cons in H.
      assert (H' : gprocess (gafter s p0) batch = (s1, None)).
      { destruct (held ss p0 key) as [v0|]; [|exact H].
        destruct (is_fail (nodes_reply p0)); [exact H|discriminate]. }
      clear H. cbn [rev]. rewrite <- app_assoc. cbn [app].
      apply (IH _ _ _ H'); [apply gafter_qc, HQ|exact Hb|].
      apply gafter_linv; [exact HQ| |exact HL].
      apply gprocess_cut with (batch := batch). rewrite H'. exact Hb.
  Qed.

  (* ---------- gloop ---------- *)
  Lemma gloop_found : forall fuel s s1 v p, gloop fuel s = (s1, Some (v, p)) ->
    held ss p key = Some v /\ In p (g_sent s1) /\ nodes_reply p <> FVFail.
  Proof.
    induction fuel as [|f IH]; intros s s1 v p H; cbn [Model.Store.gloop] in H; [discriminate|].
    destruct (g_cand s) as [|c0 cl] eqn:Ec; [discriminate|]. rewrite <- Ec in H.
    destruct (gpop (g_queried s) (g_cand s) (g_queued s) []) as [[c' q'] batch] eqn:Ep.
    destruct batch as [|b0 bl]; [discriminate|].
    match type of H with context [Model.Store.gprocess _ _ _ _ ?s0 ?b] =>
      destruct (gprocess s0 b) as [s2 [r|]] eqn:Eg; [|apply IH in H; exact H];
      pose proof (gprocess_sent b s0) as Hs end.
    inv H. rewrite Eg in Hs. cbn [fst g_sent] in Hs.
    apply gprocess_found in Eg. destruct Eg as [H1 [H2 H3]]. split; [exact H1|]. split; [|exact H3].
    rewrite Hs. apply in_or_app. left. apply in_rev in H2. exact H2.
  Qed.

  Lemma gloop_sent_len : forall fuel s,
    (length (g_sent (fst (gloop fuel s))) <= length (g_sent s) + fuel * N.to_nat GET_ALPHA)%nat.
  Proof.
    induction fuel as [|f IH]; intro s; cbn [Model.Store.gloop].
    - cbn [fst g_sent]. lia.
    - destruct (g_cand s) as [|c0 cl] eqn:Ec; [cbn [fst]; lia|]. rewrite <- Ec.
      destruct (gpop (g_queried s) (g_cand s) (g_queued s) []) as [[c' q'] batch] eqn:Ep.
      pose proof (gpop_len _ _ _ _ _ _ _ Ep) as Hl. cbn [length] in Hl.
      destruct batch as [|b0 bl]; [cbn [fst g_sent app rev]; lia|].
      match goal with |- context [Model.Store.gprocess _ _ _ _ ?s0 ?b] =>
        pose proof (gprocess_sent b s0) as Hs; destruct (gprocess s0 b) as [s2 [r|]] end;
        cbn [fst g_sent] in Hs.
      + cbn [fst]. rewrite Hs, app_length, rev_length. lia.
      + eapply Nat.le_trans; [apply IH|]. rewrite Hs, app_length, rev_length. lia.
  Qed.

  Lemma gloop_cut : forall fuel s, g_cut (fst (gloop fuel s)) = false -> g_cut s = false.
  Proof.
    induction fuel as [|f IH]; intro s; cbn [Model.Store.gloop].
    - cbn [fst g_cut]. intro H. apply orb_false_iff in H. tauto.
    - destruct (g_cand s) as [|c0 cl] eqn:Ec; [auto|]. rewrite <- Ec.
      destruct (gpop (g_queried s) (g_cand s) (g_queued s) []) as [[c' q'] batch].
      destruct batch as [|b0 bl]; [cbn [fst g_cut]; auto|].
      match goal with |- context [Model.Store.gprocess _ _ _ _ ?s0 ?b] =>
        pose proof (gprocess_cut b s0) as Hc; destruct (gprocess s0 b) as [s2 [r|]] end;
        cbn [fst g_cut] in Hc.
      + cbn [fst]. exact Hc.
      + intro H. apply IH in H. apply Hc, H.
  Qed.

  (* between rounds: the queried set is exactly the local marks plus the requests sent,
     nobody that was sent a request and answered held the key, the failure counter is exact *)
  Record GInv (s : gst) : Prop := mkGInv {
    gi_qc : QC s;
    gi_queried : g_queried s = g_sent s ++ selfs_marked;
    gi_none : forall p, In p (g_sent s) -> nodes_reply p = FVFail \/ held ss p key = None;
    gi_failed : g_failed s = N.of_nat (length (filter (fun p => is_fail (nodes_reply p)) (g_sent s))) }.

  Lemma filter_rev_length {A} (f : A -> bool) l : length (filter f (rev l)) = length (filter f l).
  Proof.
    induction l as [|a l IH]; [reflexivity|]. cbn [rev filter]. rewrite filter_app, app_length, IH.
    cbn [filter]. destruct (f a); cbn [length]; lia.
  Qed.

  Lemma gloop_none init : forall fuel s s1, gloop fuel s = (s1, None) -> GInv s ->
    GInv s1 /\
    (g_cut s1 = false -> LInv init s (g_sent s) [] -> LInv init s1 (g_sent s1) [] /\ g_cand s1 = []).
  Proof.
    induction fuel as [|f IH]; intros s s1 H HI; cbn [Model.Store.gloop] in H.
    - inv H. split; [destruct HI; constructor; assumption|]. cbn [g_cut g_cand g_sent]. intros Hb HL.
      split; [exact HL|]. destruct (g_cand s); [reflexivity|]. rewrite orb_true_r in Hb. discriminate.
    - destruct (g_cand s) as [|c0 cl] eqn:Ec; [inv H; auto|]. rewrite <- Ec in H.
      destruct (gpop (g_queried s) (g_cand s) (g_queued s) []) as [[c' q'] batch] eqn:Ep.
      pose proof (gpop_spec _ _ _ _ _ _ _ Ep) as [pre [E1 [E2 E3]]]. cbn [app] in E3.
      destruct HI as [I1 I2 I3 I4].
      assert (HQ0 : incl q' c').
      { intros y Hy. apply E2 in Hy. destruct Hy as [Hy Hn]. apply I1 in Hy. rewrite E1 in Hy.
        apply in_app_or in Hy. destruct Hy; [contradiction|assumption]. }
      assert (HL0 : LInv init s (g_sent s) [] ->
                LInv init (mkG c' (g_queried s) q' (rev batch ++ g_sent s) (g_failed s) (g_cut s)) (g_sent s) batch).
      { intros HL x Hx. unfold Cov; cbn [g_queried g_cand].
        destruct (HL x Hx) as [G|[G|[G|[]]]]; try tauto.
        rewrite E1 in G. apply in_app_or in G. destruct G as [G|G]; [|tauto].
        destruct (mem x (g_queried s)) eqn:Em; [left; apply mem_In, Em|].
        right; right; right. rewrite E3. apply filter_In. split; [exact G|]. rewrite Em. reflexivity. }
      destruct batch as [|b0 bl].
      + inv H. split.
        * constructor; cbn [g_queued g_cand g_queried g_sent g_failed rev app]; assumption.
        * cbn [g_cut g_cand g_sent rev app]. intros _ HL. split; [|eapply gpop_nil; exact Ep].
          apply HL0, HL.
      + remember (b0 :: bl) as batch eqn:Eb.
        assert (Hne : match batch with [] => False | _ => True end) by (subst batch; exact I).
        match type of H with context [Model.Store.gprocess _ _ _ _ ?st0 ?b] =>
          set (s0 := st0) in *; destruct (gprocess s0 b) as [s2 [r|]] eqn:Eg end.
        { subst batch. discriminate. }
        assert (H' : gloop f s2 = (s1, None)) by (subst batch; exact H). clear H.
        pose proof (gprocess_sent batch s0) as Hs. rewrite Eg in Hs. cbn [fst] in Hs.
        pose proof (gprocess_qc batch s0 HQ0) as Hq. rewrite Eg in Hq. cbn [fst] in Hq.
        pose proof (gprocess_none _ _ _ Eg) as [N1 [N2 N3]].
        subst s0. cbn [g_sent g_queried g_failed] in Hs, N1, N2.
        assert (HI2 : GInv s2).
        { constructor.
          - exact Hq.
          - rewrite N1, Hs, I2, app_assoc. reflexivity.
          - rewrite Hs. intros p Hp. apply in_app_or in Hp. destruct Hp as [Hp|Hp]; [|apply I3, Hp].
            apply N3. apply in_rev. exact Hp.
          - rewrite N2, Hs, I4, filter_app, app_length, filter_rev_length. lia. }
        destruct (IH _ _ H' HI2) as [J1 J2]. split; [exact J1|].
        intros Hb HL. apply J2; [exact Hb|]. rewrite Hs.
        assert (Hb2 : g_cut s2 = false).
        { apply gloop_cut with (fuel := f). rewrite H'. exact Hb. }
        eapply gprocess_linv; [exact Eg|exact HQ0|exact Hb2|]. apply HL0, HL.
  Qed.

  (* ---------- requests are distinct and never go to a local id ---------- *)
  Record QInv (s : gst) : Prop := mkQInv {
    qi_nodup : NoDup (g_cand s);
    qi_cq : incl (g_cand s) (g_queued s);
    qi_qc : incl (g_queued s) (g_cand s);
    qi_noself : forall p, In p (g_cand s) -> ~ In p selfs_all }.

  Record SInv (s : gst) : Prop := mkSInv {
    si_q : QInv s;
    si_sent_queried : incl (g_sent s) (g_queried s);
    si_sent_nodup : NoDup (g_sent s);
    si_sent_noself : forall p, In p (g_sent s) -> ~ In p selfs_all }.

  Lemma gconsider_qinv s n : QInv s -> QInv (gconsider s n).
  Proof.
    intro H. unfold Model.Store.gconsider.
    change (existsb (N.eqb n) (g_queried s)) with (mem n (g_queried s)).
    change (existsb (N.eqb n) (g_queued s)) with (mem n (g_queued s)).
    change (existsb (N.eqb n) selfs_all) with (mem n selfs_all).
    destruct (mem n (g_queried s) || mem n (g_queued s) || mem n selfs_all) eqn:E; [exact H|].
    destruct (N.to_nat LK_MAX_CANDIDATE_NODES <=? length (g_cand s))%nat;
      [destruct H; constructor; assumption|].
    apply orb_false_iff in E. destruct E as [E E3]. apply orb_false_iff in E. destruct E as [E1 E2].
    apply mem_false in E2, E3. destruct H as [H1 H2 H3 H4].
    constructor; cbn [g_cand g_queued].
    - apply NoDup_snoc; [exact H1|]. intro Hin. apply E2, H2, Hin.
    - intros y Hy. apply in_app_or in Hy. destruct Hy as [Hy|[<-|[]]]; [right; apply H2; exact Hy|left; reflexivity].
    - intros y [<-|Hy]; apply in_or_app; [right; left; reflexivity|left; apply H3; exact Hy].
    - intros y Hy. apply in_app_or in Hy. destruct Hy as [Hy|[<-|[]]]; [apply H4; exact Hy|exact E3].
  Qed.

  Lemma fold_gconsider_qinv l : forall s, QInv s -> QInv (fold_left gconsider l s).
  Proof.
    induction l as [|n l IH]; intros s H; cbn [fold_left]; [exact H|]. apply IH, gconsider_qinv, H.
  Qed.

  Lemma gafter_qinv s p : QInv s -> QInv (gafter s p).
  Proof.
    intro H. unfold gafter. destruct (nodes_reply p) as [|l|].
    - destruct H; constructor; assumption.
    - apply fold_gconsider_qinv. destruct H; constructor; assumption.
    - destruct H; constructor; assumption.
  Qed.

  Lemma gprocess_none_qinv : forall batch s s1, gprocess s batch = (s1, None) -> QInv s -> QInv s1.
  Proof.
    induction batch as [|p0 batch IH]; intros s s1 H HI.
    - inv H. exact HI.
    - rewrite gprocess_cons in H.
      assert (H' : gprocess (gafter s p0) batch = (s1, None)).
      { destruct (held ss p0 key) as [v0|]; [|exact H].
        destruct (is_fail (nodes_reply p0)); [exact H|discriminate]. }
      apply (IH _ _ H'), gafter_qinv, HI.
  Qed.

  Lemma NoDup_app_intro {A} (l1 l2 : list A) :
    NoDup l1 -> NoDup l2 -> (forall x, In x l1 -> ~ In x l2) -> NoDup (l1 ++ l2).
  Proof.
    induction l1 as [|a l1 IH]; cbn [app]; intros H1 H2 Hd; [exact H2|].
    inv H1. constructor.
    - intro Hin. apply in_app_or in Hin. destruct Hin as [Hin|Hin]; [contradiction|].
      exact (Hd a (or_introl eq_refl) Hin).
    - apply IH; [assumption|assumption|]. intros x Hx. apply Hd. right; exact Hx.
  Qed.

  Lemma gloop_sent_wf : forall fuel s, SInv s ->
    NoDup (g_sent (fst (gloop fuel s))) /\ forall p, In p (g_sent (fst (gloop fuel s))) -> ~ In p selfs_all.
  Proof.
    induction fuel as [|f IH]; intros s HI; cbn [Model.Store.gloop].
    - cbn [fst g_sent]. destruct HI; auto.
    - destruct (g_cand s) as [|c0 cl] eqn:Ec; [cbn [fst]; destruct HI; auto|]. rewrite <- Ec.
      destruct (gpop (g_queried s) (g_cand s) (g_queued s) []) as [[c' q'] batch] eqn:Ep.
      pose proof (gpop_spec _ _ _ _ _ _ _ Ep) as [pre [E1 [E2 E3]]]. cbn [app] in E3.
      destruct HI as [[Q1 Q2 Q3 Q4] S1 S2 S3]. rewrite E1 in Q1.
      assert (Hc' : incl c' (g_cand s)) by (intros y Hy; rewrite E1; apply in_or_app; right; exact Hy).
      assert (Hpre : incl pre (g_cand s)) by (intros y Hy; rewrite E1; apply in_or_app; left; exact Hy).
      assert (Hb : forall x, In x batch -> In x pre /\ ~ In x (g_queried s)).
      { intros x Hx. rewrite E3 in Hx. apply filter_In in Hx. destruct Hx as [Hx Hk].
        split; [exact Hx|]. apply negb_true_iff in Hk. apply mem_false in Hk. exact Hk. }
      assert (Hsent0 : NoDup (rev batch ++ g_sent s) /\ forall p, In p (rev batch ++ g_sent s) -> ~ In p selfs_all).
      { split.
        - apply NoDup_app_intro; [apply NoDup_rev; rewrite E3; apply NoDup_filter; eapply NoDup_app_l; exact Q1|exact S2|].
          intros x Hx Hs. apply in_rev in Hx. destruct (Hb x Hx) as [_ Hq]. apply Hq, S1, Hs.
        - intros x Hx. apply in_app_or in Hx. destruct Hx as [Hx|Hx]; [|apply S3, Hx].
          apply in_rev in Hx. apply Q4, Hpre. apply (Hb x Hx). }
      assert (HQ0 : QInv (mkG c' (g_queried s) q' (rev batch ++ g_sent s) (g_failed s) (g_cut s))).
      { constructor; cbn [g_cand g_queued].
        - eapply NoDup_app_r; exact Q1.
        - intros y Hy. apply E2. split; [apply Q2, Hc', Hy|].
          intro Hp. exact (NoDup_app_disj _ _ _ Q1 Hp Hy).
        - intros y Hy. apply E2 in Hy. destruct Hy as [Hy Hn]. apply Q3 in Hy. rewrite E1 in Hy.
          apply in_app_or in Hy. destruct Hy; [contradiction|assumption].
        - intros y Hy. apply Q4, Hc', Hy. }
      destruct batch as [|b0 bl]; [cbn [fst g_sent rev app]; auto|].
      remember (b0 :: bl) as batch eqn:Eb.
      match goal with |- context [Model.Store.gprocess _ _ _ _ ?st0 ?b] =>
        set (s0 := st0) in *; pose proof (gprocess_sent b s0) as Hs;
        destruct (gprocess s0 b) as [s2 [r|]] eqn:Eg end; cbn [fst] in Hs.
      + subst batch. cbn [fst]. rewrite Hs. exact Hsent0.
      + assert (Hgoal : NoDup (g_sent (fst (gloop f s2))) /\
                        forall p, In p (g_sent (fst (gloop f s2))) -> ~ In p selfs_all).
        { apply IH. pose proof (gprocess_none _ _ _ Eg) as [N1 _].
          constructor.
          - eapply gprocess_none_qinv; [exact Eg|exact HQ0].
          - rewrite Hs, N1. subst s0. cbn [g_sent g_queried]. intros y Hy.
            apply in_app_or in Hy. apply in_or_app. destruct Hy as [Hy|Hy]; [left; exact Hy|right; apply S1, Hy].
          - rewrite Hs. exact (proj1 Hsent0).
          - rewrite Hs. exact (proj2 Hsent0). }
        subst batch. exact Hgoal.
  Qed.

  (* ---------- get ---------- *)
  Definition ginit (init : list pid) : gst := mkG init selfs_marked init [] 0 false.

  Lemma ginit_inv init : GInv (ginit init).
  Proof.
    constructor; cbn [ginit g_queued g_cand g_queried g_sent g_failed app filter length].
    - apply incl_refl.
    - reflexivity.
    - intros p [].
    - reflexivity.
  Qed.

  Lemma get_local v init : held ss self key = Some v -> get init = (ss, GetFound v self, [], false).
  Proof. intro H. unfold Model.Store.get. rewrite H. reflexivity. Qed.

  Lemma get_request_bound init :
    (length (snd (fst (get init))) <= N.to_nat GET_MAX_ITERATIONS * N.to_nat GET_ALPHA)%nat.
  Proof.
    unfold Model.Store.get. destruct (held ss self key); [cbn; lia|].
    pose proof (gloop_sent_len (N.to_nat GET_MAX_ITERATIONS) (ginit init)) as H.
    unfold ginit in H.
    destruct (Model.Store.gloop _ _ _ _ ss _) as [s [[v p]|]]; cbn [fst snd g_sent length] in *;
      rewrite rev_length; lia.
  Qed.

  Lemma get_requests_wf init : NoDup init -> (forall p, In p init -> ~ In p selfs_all) ->
    NoDup (snd (fst (get init))) /\ forall p, In p (snd (fst (get init))) -> ~ In p selfs_all.
  Proof.
    intros Hnd Hi. unfold Model.Store.get.
    destruct (held ss self key); [cbn [fst snd]; split; [constructor|intros p []]|].
    fold (ginit init).
    assert (HS : SInv (ginit init)).
    { constructor; [constructor|..]; cbn [ginit g_cand g_queued g_sent g_queried].
      - exact Hnd.
      - apply incl_refl.
      - apply incl_refl.
      - exact Hi.
      - intros y [].
      - constructor.
      - intros y []. }
    pose proof (gloop_sent_wf (N.to_nat GET_MAX_ITERATIONS) (ginit init) HS) as [H1 H2].
    destruct (Model.Store.gloop _ _ _ _ ss (ginit init)) as [s [[v p]|]]; cbn [fst snd] in *.
    - split; [apply NoDup_rev, H1|]. intros q Hq. apply H2. apply in_rev in Hq. exact Hq.
    - split; [apply NoDup_rev, H1|]. intros q Hq. apply H2. apply in_rev in Hq. exact Hq.
  Qed.

  (* item 4: a found value was held under this very key, before the get, by the local node
     or by a peer that was sent a request and answered; the only store effect is the local
     cache-on-hit at (self, key) *)
  Lemma get_sound init ss' v p reqs cut : get init = (ss', GetFound v p, reqs, cut) ->
    held ss p key = Some v /\
    (p = self \/ (In p reqs /\ nodes_reply p <> FVFail)) /\
    (forall q k, (q <> self \/ k <> key) -> held ss' q k = held ss q k) /\
    (vlen v <= MGR_MAX_VALUE_SIZE -> held ss' self key = Some v) /\
    (held ss' self key = Some v \/ ss' = ss).
  Proof.
    unfold Model.Store.get. destruct (held ss self key) as [v0|] eqn:Eh.
    - intro H. injection H as <- <- <- <- <-. repeat split; auto.
    - fold (ginit init).
      destruct (Model.Store.gloop _ _ _ _ ss (ginit init)) as [s [[v1 p1]|]] eqn:Eg; intro H; [|discriminate].
      injection H as <- -> -> <- <-.
      apply gloop_found in Eg. destruct Eg as [H1 [H2 H3]].
      split; [exact H1|]. split; [right; split; [apply in_rev in H2; exact H2|exact H3]|].
      destruct (core_store ss self key v) as [ss1 ok] eqn:Ec. cbn [fst]. destruct ok.
      + apply core_store_true in Ec. destruct Ec as [_ Hh]. split; [|split].
        * intros q k Hqk. rewrite Hh.
          destruct (self =? q) eqn:E1; [|reflexivity]. destruct (key =? k) eqn:E2; [|reflexivity].
          apply N.eqb_eq in E1, E2. destruct Hqk; congruence.
        * intros _. rewrite Hh, !N.eqb_refl. reflexivity.
        * left. rewrite Hh, !N.eqb_refl. reflexivity.
      + apply core_store_false in Ec. destruct Ec as [-> Hl]. split; [auto|]. split; [|right; reflexivity].
        intro Hs. rewrite size_caps_equal in Hs. lia.
  Qed.

  (* item 5 *)
  Lemma get_notfound init ss' q f reqs cut : incl selfs_marked selfs_all ->
    get init = (ss', GetNotFoundR q f, reqs, cut) ->
    ss' = ss /\ held ss self key = None /\
    (forall p, In p reqs -> nodes_reply p <> FVFail -> held ss p key = None) /\
    (cut = false -> forall p,
       (In p init \/ exists r l, In r reqs /\ nodes_reply r = FVNodes l /\ In p l) ->
       In p reqs \/ In p selfs_all) /\
    q = N.of_nat (length reqs + length selfs_marked) /\
    f = N.of_nat (length (filter (fun p => is_fail (nodes_reply p)) reqs)).
  Proof.
    intro Hm. unfold Model.Store.get. destruct (held ss self key) as [v0|] eqn:Eh; [intro H; discriminate|].
    fold (ginit init).
    destruct (Model.Store.gloop _ _ _ _ ss (ginit init)) as [s [[v1 p1]|]] eqn:Eg; intro H; [discriminate|].
    injection H as <- <- <- <- <-.
    destruct (gloop_none init _ _ _ Eg (ginit_inv init)) as [[I1 I2 I3 I4] HL].
    split; [reflexivity|]. split; [reflexivity|]. split; [|split; [|split]].
    - intros p Hp Hr. apply in_rev in Hp. destruct (I3 p Hp); [contradiction|assumption].
    - intros Hcut p Hp. destruct (HL Hcut) as [HL1 Hc].
      { intros x [Hx|[r [l [[] _]]]]. right; right; left. exact Hx. }
      assert (Hl : Learned init (g_sent s) p).
      { destruct Hp as [Hp|[r [l [Hr [El Hp]]]]]; [left; exact Hp|]. right. exists r, l.
        split; [apply in_rev; exact Hr|auto]. }
      destruct (HL1 p Hl) as [G|[G|[G|[]]]].
      + rewrite I2 in G. apply in_app_or in G. destruct G as [G|G]; [left; apply in_rev in G; exact G|].
        right. apply Hm, G.
      + right; exact G.
      + rewrite Hc in G. destruct G.
    - rewrite I2, app_length, rev_length. reflexivity.
    - rewrite I4, filter_rev_length. reflexivity.
  Qed.

  Lemma get_AllP (P : N -> value -> Prop) init : AllP P ss -> AllP P (fst (fst (fst (get init)))).
  Proof.
    intro HA. unfold Model.Store.get. destruct (held ss self key) as [v0|]; [exact HA|].
    destruct (Model.Store.gloop _ _ _ _ ss _) as [s [[v1 p1]|]] eqn:Eg; cbn [fst]; [|exact HA].
    apply core_store_AllP; [|exact HA]. intros _. apply gloop_found in Eg. eapply HA. apply Eg.
  Qed.
End GetProofs.

(* ---------- size cap, one step (item 1) ---------- *)
Lemma size_small_P k v : vlen v <= MGR_MAX_VALUE_SIZE -> (fun (_ : N) (w : value) => vlen w <= MGR_MAX_VALUE_SIZE) k v.
Proof. intro H; exact H. Qed.

Lemma size_cap_step :
  (forall ss p k v, AllSmall ss -> AllSmall (fst (handle_put ss p k v))) /\
  (forall ss p k v, AllSmall ss -> AllSmall (fst (core_store ss p k v))) /\
  (forall responsive ss ts k v, AllSmall ss -> AllSmall (fst (replicate responsive ss ts k v))) /\
  (forall keyof reply responsive self selfs_marked selfs_all repl ss k v init, AllSmall ss ->
     AllSmall (fst (fst (put keyof reply responsive self selfs_marked selfs_all repl ss k v init)))) /\
  (forall nodes_reply self selfs_marked selfs_all key ss init, AllSmall ss ->
     AllSmall (fst (fst (fst (get nodes_reply self selfs_marked selfs_all key ss init))))).
Proof.
  repeat split; intros.
  - apply (handle_put_AllP (fun _ w => vlen w <= MGR_MAX_VALUE_SIZE)); auto.
  - apply (core_store_AllP (fun _ w => vlen w <= MGR_MAX_VALUE_SIZE)); [rewrite size_caps_equal; auto|assumption].
  - apply (replicate_AllP responsive (fun _ w => vlen w <= MGR_MAX_VALUE_SIZE)); auto.
  - apply (put_AllP keyof reply responsive self selfs_marked selfs_all repl (fun _ w => vlen w <= MGR_MAX_VALUE_SIZE)); auto.
  - apply (get_AllP nodes_reply self selfs_marked selfs_all key ss (fun _ w => vlen w <= MGR_MAX_VALUE_SIZE)); auto.
Qed.

(* oversized values are refused on every store path, leaving every store as it was *)
Lemma oversize_refused_everywhere : forall v, MGR_MAX_VALUE_SIZE < vlen v ->
  (forall ss p k, handle_put ss p k v = (ss, false)) /\
  (forall ss p k, core_store ss p k v = (ss, false)) /\
  (forall responsive ss ts k, fst (replicate responsive ss ts k v) = ss) /\
  (forall keyof reply responsive self selfs_marked selfs_all repl ss k init,
     put keyof reply responsive self selfs_marked selfs_all repl ss k v init = (ss, PutRefused, [])).
Proof.
  intros v Hv. split; [|split; [|split]].
  - intros. apply handle_put_big, Hv.
  - intros. apply core_store_big. rewrite <- size_caps_equal. exact Hv.
  - intros responsive ss ts k. induction ts as [|p ts IH]; cbn [replicate]; [reflexivity|].
    rewrite (handle_put_big ss p k v Hv). replace (if responsive p then (ss, false) else (ss, false)) with (ss, false)
      by (destruct (responsive p); reflexivity).
    destruct (replicate responsive ss ts k v) as [ss2 outs]. exact IH.
  - intros. apply put_refused, Hv.
Qed.

(* ---------- operation histories (items 1 and 6) ---------- *)
(* every operation carries its own network behaviour and parameters *)
Inductive op :=
| OpPut (keyof : pid -> N) (reply : pid -> option (list pid)) (responsive : pid -> bool)
        (self : pid) (selfs_marked selfs_all : list pid) (repl : nat)
        (k : N) (v : value) (init : list pid)
| OpGet (nodes_reply : pid -> fv_reply) (self : pid) (selfs_marked selfs_all : list pid)
        (key : N) (init : list pid)
| OpRemotePut (p : pid) (k : N) (v : value).

Definition step (ss : stores) (o : op) : stores :=
  match o with
  | OpPut keyof reply responsive self selfs_marked selfs_all repl k v init =>
      fst (fst (put keyof reply responsive self selfs_marked selfs_all repl ss k v init))
  | OpGet nodes_reply self selfs_marked selfs_all key init =>
      fst (fst (fst (get nodes_reply self selfs_marked selfs_all key ss init)))
  | OpRemotePut p k v => fst (handle_put ss p k v)
  end.

Definition run_from (ss : stores) (ops : list op) : stores := fold_left step ops ss.
Definition run (ops : list op) : stores := run_from [] ops.

(* the operation is a put / remote PUT of exactly (k, v) *)
Definition carries (o : op) (k : N) (v : value) : Prop :=
  match o with
  | OpPut _ _ _ _ _ _ _ k' v' _ => k' = k /\ v' = v
  | OpGet _ _ _ _ _ _ => False
  | OpRemotePut _ k' v' => k' = k /\ v' = v
  end.

Lemma step_AllP (P : N -> value -> Prop) ss o :
  (forall k v, carries o k v -> vlen v <= MGR_MAX_VALUE_SIZE -> P k v) -> AllP P ss -> AllP P (step ss o).
Proof.
  intros HP HA. destruct o; cbn [step].
  - apply put_AllP; [|exact HA]. intro Hl. apply HP; [cbn; auto|exact Hl].
  - apply get_AllP. exact HA.
  - apply handle_put_AllP; [|exact HA]. intro Hl. apply HP; [cbn; auto|exact Hl].
Qed.

Lemma run_from_snoc ss ops o : run_from ss (ops ++ [o]) = step (run_from ss ops) o.
Proof. unfold run_from. rewrite fold_left_app. reflexivity. Qed.

Lemma size_cap_history_from ss ops : AllSmall ss -> AllSmall (run_from ss ops).
Proof.
  intro H. induction ops as [|o ops IH] using rev_ind; [exact H|]. rewrite run_from_snoc.
  apply (step_AllP (fun _ w => vlen w <= MGR_MAX_VALUE_SIZE)); [auto|exact IH].
Qed.

Lemma size_cap_history ops : AllSmall (run ops).
Proof. apply size_cap_history_from. intros p k v H. discriminate. Qed.

(* item 6: stored bytes are always bytes some put / remote PUT of the history stored under that key *)
Lemma history_sound_from ss ops p k v : held (run_from ss ops) p k = Some v ->
  (exists q, held ss q k = Some v) \/
  (exists pre o post, ops = pre ++ o :: post /\ carries o k v /\ vlen v <= MGR_MAX_VALUE_SIZE).
Proof.
  revert p k v. change (AllP (fun k v => (exists q, held ss q k = Some v) \/
    (exists pre o post, ops = pre ++ o :: post /\ carries o k v /\ vlen v <= MGR_MAX_VALUE_SIZE)) (run_from ss ops)).
  induction ops as [|o ops IH] using rev_ind.
  - intros p k v H. left. exists p. exact H.
  - rewrite run_from_snoc. apply step_AllP.
    + intros k v Hc Hl. right. exists ops, o, []. auto.
    + eapply AllP_mono; [|exact IH]. intros k v [H|[pre [o' [post [E [Hc Hl]]]]]]; [left; exact H|].
      right. exists pre, o', (post ++ [o]). rewrite E, <- app_assoc. auto.
Qed.

Lemma history_sound ops p k v : held (run ops) p k = Some v ->
  exists pre o post, ops = pre ++ o :: post /\ carries o k v /\ vlen v <= MGR_MAX_VALUE_SIZE.
Proof.
  intro H. apply history_sound_from in H. destruct H as [[q H]|H]; [discriminate|exact H].
Qed.

(* in every reachable state a remote hit is cached locally (the size test of the cache write cannot fail) *)
Lemma get_caches_reachable ops nodes_reply self selfs_marked selfs_all key init ss' v p reqs cut :
  get nodes_reply self selfs_marked selfs_all key (run ops) init = (ss', GetFound v p, reqs, cut) ->
  held ss' self key = Some v.
Proof.
  intro H. pose proof (get_sound _ _ _ _ _ _ _ _ _ _ _ _ H) as [H1 [_ [_ [H4 _]]]].
  apply H4. eapply size_cap_history. exact H1.
Qed.

(* without the size invariant the cache-on-hit claim is false: a store that (unreachably)
   holds an oversized value at a peer serves it, but the local cache write is refused *)
Lemma get_cache_unconditional_refuted : exists nodes_reply self selfs_marked selfs_all key ss init ss' v p reqs cut,
  get nodes_reply self selfs_marked selfs_all key ss init = (ss', GetFound v p, reqs, cut) /\
  held ss' self key = None /\ ~ AllSmall ss.
Proof.
  exists (fun _ => FVNotFound), 1, [1], [1], 7, [(2, [(7, (9, 600))])], [2],
         [(2, [(7, (9, 600))])], (9, 600), 2, [2], false.
  split; [vm_compute; reflexivity|]. split; [vm_compute; reflexivity|].
  intro H. specialize (H 2 7 (9, 600) eq_refl). vm_compute in H. apply H. reflexivity.
Qed.

(* ---------- a concrete network: nodes 1..4; node 4 is silent, node 3 answers lookups but drops PUTs ---------- *)
Definition ex_keyof : pid -> N := assoc 0 [(1,10);(2,20);(3,30);(4,40)].
Definition ex_reply : pid -> option (list pid) := assoc None [(2, Some [3;1]); (3, Some [1;2;4])].
Definition ex_responsive (p : pid) : bool := negb (p =? 4) && negb (p =? 3).
Definition ex_fv : pid -> fv_reply := assoc FVFail [(1, FVNodes [2;4]); (2, FVNodes [1;3]); (3, FVNotFound)].

Lemma example_put_get :
  (* node 1 puts (key 7, 100 bytes) with replication 3 knowing peers 2 and 4 *)
  let '(ss1, r1, reqs1) := put ex_keyof ex_reply ex_responsive 1 [1;101] [1;101] 3 [] 7 (42, 100) [2;4] in
  r1 = PutDone 2 [(2, true); (3, false)] /\ reqs1 = [2;4;3] /\
  held ss1 1 7 = Some (42, 100) /\ held ss1 2 7 = Some (42, 100) /\ held ss1 3 7 = None /\ held ss1 4 7 = None /\
  (* node 3 (holds nothing) gets key 7 knowing peers 4 and 2: 4 fails, the replica 2 answers with the bytes *)
  let '(ss2, r2, reqs2, cut2) := get ex_fv 3 [3;103] [3;103] 7 ss1 [4;2] in
  r2 = GetFound (42, 100) 2 /\ reqs2 = [4;2] /\ cut2 = false /\ held ss2 3 7 = Some (42, 100) /\
  (* a key nobody stored: every learned peer (4, 2, then 1 named by 2) is asked, then not-found *)
  let '(ss3, r3, reqs3, cut3) := get ex_fv 3 [3;103] [3;103] 8 ss2 [4;2] in
  ss3 = ss2 /\ r3 = GetNotFoundR 5 1 /\ reqs3 = [4;2;1] /\ cut3 = false /\
  (* a 513-byte value is refused; nothing changes, nothing is sent *)
  put ex_keyof ex_reply ex_responsive 1 [1;101] [1;101] 3 ss2 7 (43, 513) [2;4] = (ss2, PutRefused, []).
Proof. vm_compute. repeat split; reflexivity. Qed.

Lemma store_example_hyps :
  NoDup [2;4] /\ (forall p, In p [2;4] -> ~ In p [1;101]) /\ incl [1;101] [1;101] /\ In 1 [1;101] /\
  incl [3;103] [3;103].
Proof.
  split; [repeat constructor; cbn; intuition discriminate|].
  split; [cbn; intuition (subst; discriminate)|]. split; [apply incl_refl|]. split; [left; reflexivity|apply incl_refl].
Qed.
