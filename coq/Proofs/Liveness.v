(* Proofs about Model/Liveness.v (C20). *)
From SV Require Import Lib.Base Gen.LookupConsts Model.Lookup Model.Store Model.Liveness.
Local Open Scope N_scope.

(* ---------------- (A) time ---------------- *)
Section TimedProofs.
  Variable keyof : pid -> N.
  Variable reply : pid -> option (list pid).
  Variable self : pid.
  Variable selfs_marked selfs_all : list pid.
  Variable target : N.
  Variable count : nat.
  Variable dur : pid -> N.
  Variable D : N.
  Hypothesis dur_le : forall p, dur p <= D.

  Lemma batch_time_le b : batch_time dur b <= D.
  Proof.
    induction b as [|p b IH]; cbn [batch_time fold_right]; [lia|].
    fold (batch_time dur b). specialize (dur_le p). lia.
  Qed.

  (* the clock does not change what the lookup does *)
  Lemma loop_t_fst f : forall s t,
    fst (loop_t keyof reply selfs_all target count dur f s t) = loop keyof reply selfs_all target count f s.
  Proof.
    induction f as [|f IH]; intros s t; [reflexivity|].
    cbn [loop_t loop]. destruct (cand s) as [|c cs]; [reflexivity|].
    destruct (pop_batch keyof target count (best s) (queried s) (c :: cs) (queued s) []) as [[c' q'] batch].
    destruct batch as [|b bs]; [reflexivity|]. apply IH.
  Qed.

  Lemma loop_t_time f : forall s t,
    snd (loop_t keyof reply selfs_all target count dur f s t) <= t + N.of_nat f * D.
  Proof.
    induction f as [|f IH]; intros s t; [cbn [loop_t snd]; lia|].
    cbn [loop_t]. destruct (cand s) as [|c cs]; [cbn [snd]; lia|].
    destruct (pop_batch keyof target count (best s) (queried s) (c :: cs) (queued s) []) as [[c' q'] batch].
    destruct batch as [|b bs]; [cbn [snd]; lia|].
    eapply N.le_trans; [apply IH|]. pose proof (batch_time_le (b :: bs)). lia.
  Qed.

  Lemma lookup_t_result init :
    fst (lookup_t keyof reply self selfs_marked selfs_all target count dur init)
    = lookup keyof reply self selfs_marked selfs_all target count init.
  Proof. unfold lookup_t, lookup. apply loop_t_fst. Qed.

  Lemma lookup_t_bound init :
    snd (lookup_t keyof reply self selfs_marked selfs_all target count dur init) <= lookup_bound D.
  Proof.
    unfold lookup_t, lookup_bound. eapply N.le_trans; [apply loop_t_time|]. lia.
  Qed.
End TimedProofs.

(* ---------------- (B) locks ---------------- *)
Lemma step_preserves_ok t : task_ok t = true -> task_ok (step_task t) = true.
Proof.
  unfold task_ok, step_task. destruct t as [h p]. cbn [held rest].
  destruct p as [|[l m|l] p']; cbn [ordered held rest]; intro H; [exact H| |];
    apply andb_true_iff in H; tauto.
Qed.

Lemma ok_finished_holds_nothing t : task_ok t = true -> finished t = true -> held t = [].
Proof.
  unfold task_ok, finished. destruct t as [h p]. cbn [held rest].
  destruct p; [|discriminate]. cbn [ordered]. destruct h; [reflexivity|discriminate].
Qed.

(* the lock a blocked task is waiting for *)
Definition awaited (t : task) : option N :=
  match rest t with Acq l _ :: _ => Some l | _ => None end.

Lemma max_exists (l : list N) : l <> [] -> exists m, In m l /\ forall x, In x l -> x <= m.
Proof.
  induction l as [|a l IH]; [congruence|]. intros _.
  destruct l as [|b l'].
  - exists a. split; [left; reflexivity|]. intros x [Hx|[]]. lia.
  - destruct IH as [m [Hin Hmax]]; [discriminate|].
    destruct (N.leb_spec a m).
    + exists m. split; [right; exact Hin|]. intros x [Hx|Hx]; [lia|apply Hmax; exact Hx].
    + exists a. split; [left; reflexivity|]. intros x [Hx|Hx]; [lia|]. specialize (Hmax x Hx). lia.
Qed.

Theorem no_deadlock ts : (forall t, In t ts -> task_ok t = true) -> deadlocked ts = false.
Proof.
  intro Hok. destruct (deadlocked ts) eqn:Hd; [|reflexivity]. exfalso.
  unfold deadlocked in Hd. apply andb_true_iff in Hd. destruct Hd as [Hex Hall].
  rewrite forallb_forall in Hall.
  (* every unfinished task is blocked on an Acq *)
  assert (Hblk : forall t, In t ts -> finished t = false ->
            exists l m p, rest t = Acq l m :: p /\ held_against ts l m = true).
  { intros t Hin Hf. specialize (Hall t Hin). rewrite Hf in Hall. cbn [orb] in Hall.
    unfold enabled in Hall. unfold finished in Hf.
    destruct (rest t) as [|[l m|l] p]; [discriminate| |discriminate].
    exists l, m, p. split; [reflexivity|]. destruct (held_against ts l m); [reflexivity|discriminate]. }
  (* the awaited locks of the unfinished tasks *)
  set (aw := flat_map (fun t => match awaited t with Some l => [l] | None => [] end) ts).
  assert (Hne : aw <> []).
  { apply existsb_exists in Hex. destruct Hex as [t [Hin Hf]]. apply negb_true_iff in Hf.
    destruct (Hblk t Hin Hf) as [l [m [p [Hr _]]]].
    intro E. assert (In l aw).
    { unfold aw. apply in_flat_map. exists t. split; [exact Hin|]. unfold awaited. rewrite Hr. left; reflexivity. }
    rewrite E in H. exact H. }
  destruct (max_exists aw Hne) as [lmax [Hin Hmax]].
  unfold aw in Hin. apply in_flat_map in Hin. destruct Hin as [t [Hint Haw]].
  unfold awaited in Haw. destruct (rest t) as [|[l m|l] p] eqn:Hr; try (destruct Haw; fail).
  destruct Haw as [E|[]]. subst l.
  assert (Hf : finished t = false) by (unfold finished; rewrite Hr; reflexivity).
  destruct (Hblk t Hint Hf) as [l' [m' [p' [Hr' Hheld]]]]. rewrite Hr in Hr'. inversion Hr'; subst l' m' p'.
  (* someone holds lmax *)
  unfold held_against in Hheld. apply existsb_exists in Hheld. destruct Hheld as [u [Hinu Hu]].
  apply existsb_exists in Hu. destruct Hu as [h [Hinh Hh]]. apply andb_true_iff in Hh. destruct Hh as [Hh _].
  apply N.eqb_eq in Hh.
  (* the holder is unfinished (a finished task holds nothing) and hence blocked on a higher lock *)
  destruct (finished u) eqn:Hfu.
  { rewrite (ok_finished_holds_nothing u (Hok u Hinu) Hfu) in Hinh. destruct Hinh. }
  destruct (Hblk u Hinu Hfu) as [l2 [m2 [p2 [Hr2 _]]]].
  pose proof (Hok u Hinu) as Hou. unfold task_ok in Hou. rewrite Hr2 in Hou. cbn [ordered] in Hou.
  apply andb_true_iff in Hou. destruct Hou as [Hlt _]. rewrite forallb_forall in Hlt.
  specialize (Hlt h Hinh). apply N.ltb_lt in Hlt.
  assert (Hl2 : l2 <= lmax).
  { apply Hmax. unfold aw. apply in_flat_map. exists u. split; [exact Hinu|]. unfold awaited. rewrite Hr2. left; reflexivity. }
  lia.
Qed.

(* the discipline is an invariant of execution: whichever task moves, everybody still obeys it *)
Lemma step_keeps_discipline ts t : (forall u, In u ts -> task_ok u = true) -> In t ts ->
  task_ok (step_task t) = true.
Proof. intros H Hin. apply step_preserves_ok, H, Hin. Qed.

(* every schedule: from a state in which all tasks obey the discipline, whatever enabled task
   moves next, no reachable state is a deadlock *)
Inductive reach : list task -> list task -> Prop :=
| reach_refl ts : reach ts ts
| reach_step pre t post ts' :
    enabled (pre ++ t :: post) t = true ->
    reach (pre ++ step_task t :: post) ts' -> reach (pre ++ t :: post) ts'.

Lemma reach_keeps_ok ts ts' : reach ts ts' ->
  (forall t, In t ts -> task_ok t = true) -> (forall t, In t ts' -> task_ok t = true).
Proof.
  induction 1 as [ts|pre t post ts' Hen Hr IH]; intro Hok; [exact Hok|].
  apply IH. intros u Hin. apply in_app_or in Hin. destruct Hin as [Hin|[Hin|Hin]].
  - apply Hok. apply in_or_app. left; exact Hin.
  - subst u. apply step_preserves_ok. apply Hok. apply in_or_app. right; left; reflexivity.
  - apply Hok. apply in_or_app. right; right; exact Hin.
Qed.

Theorem reachable_never_deadlocks ts ts' :
  (forall t, In t ts -> task_ok t = true) -> reach ts ts' -> deadlocked ts' = false.
Proof. intros Hok Hr. apply no_deadlock. eapply reach_keeps_ok; eassumption. Qed.

(* fresh task instances of a list of programs *)
Definition spawn_all (ps : list prog) : list task := map (fun p => mkTask [] p) ps.

Lemma spawn_ok ps : forallb (ordered []) ps = true -> forall t, In t (spawn_all ps) -> task_ok t = true.
Proof.
  intros H t Hin. unfold spawn_all in Hin. apply in_map_iff in Hin. destruct Hin as [p [E Hp]]. subst t.
  unfold task_ok. cbn [held rest]. rewrite forallb_forall in H. apply H; exact Hp.
Qed.
