(* Lemmas for C18 (Model/KeyStore.v). *)
From SV Require Import Lib.Base Gen.KeyStoreConsts Model.KeyStore.
Local Open Scope N_scope.

(* ------------------------------------------------------------ small facts *)
Lemma bytes_eqb_refl : forall a, bytes_eqb a a = true.
Proof. induction a as [|x a IH]; cbn; [reflexivity|]. rewrite N.eqb_refl, IH. reflexivity. Qed.

Lemma bytes_eqb_eq : forall a b, bytes_eqb a b = true -> a = b.
Proof.
  induction a as [|x a IH]; destruct b as [|y b]; cbn; intro H; try discriminate; [reflexivity|].
  apply andb_true_iff in H. destruct H as [H1 H2]. apply N.eqb_eq in H1. subst. f_equal. apply IH, H2.
Qed.

Lemma optN_eqb_eq : forall a b, optN_eqb a b = true -> a = b.
Proof. intros [x|] [y|]; cbn; intro H; try discriminate; [apply N.eqb_eq in H; subst|]; reflexivity. Qed.

Lemma optN_eqb_refl : forall a, optN_eqb a a = true.
Proof. intros [x|]; cbn; [apply N.eqb_refl|reflexivity]. Qed.

(* ------------------------------------------------------------ payload *)
Lemma pl_get_filter_other : forall id id' pl, id' <> id ->
  pl_get id' (filter (fun e => negb (fst e =? id)) pl) = pl_get id' pl.
Proof.
  intros id id' pl Hne. induction pl as [|[i s] t IH]; cbn; [reflexivity|].
  destruct (i =? id) eqn:E; cbn.
  - apply N.eqb_eq in E. subst. destruct (id =? id') eqn:E2; [apply N.eqb_eq in E2; congruence|exact IH].
  - destruct (i =? id'); [reflexivity|exact IH].
Qed.

Lemma pl_get_set_same : forall id sd pl, pl_get id (pl_set id sd pl) = Some sd.
Proof. intros. unfold pl_set. cbn. rewrite N.eqb_refl. reflexivity. Qed.

Lemma pl_get_set_other : forall id id' sd pl, id' <> id -> pl_get id' (pl_set id sd pl) = pl_get id' pl.
Proof.
  intros id id' sd pl Hne. unfold pl_set. cbn.
  destruct (id =? id') eqn:E; [apply N.eqb_eq in E; congruence|]. apply pl_get_filter_other, Hne.
Qed.

(* every cached seed is the stored one *)
Definition sub (c pl : payload) : Prop := forall id sd, pl_get id c = Some sd -> pl_get id pl = Some sd.

Lemma sub_nil : forall pl, sub [] pl.
Proof. intros pl id sd H. discriminate. Qed.

Lemma sub_set : forall c pl id sd, sub c pl -> sub (pl_set id sd c) (pl_set id sd pl).
Proof.
  intros c pl id sd H id' sd' G. destruct (N.eq_dec id' id) as [->|Hne].
  - rewrite pl_get_set_same in *. exact G.
  - rewrite pl_get_set_other in * by exact Hne. apply H, G.
Qed.

Lemma sub_set_present : forall c pl id sd, sub c pl -> pl_get id pl = Some sd -> sub (pl_set id sd c) pl.
Proof.
  intros c pl id sd H Hp id' sd' G. destruct (N.eq_dec id' id) as [->|Hne].
  - rewrite pl_get_set_same in G. congruence.
  - rewrite pl_get_set_other in G by exact Hne. apply H, G.
Qed.

Ltac absurd_nonempty := let X := fresh in intro X; exfalso; apply X; reflexivity.

Lemma pl_get_nonempty : forall id c sd, pl_get id c = Some sd -> c <> [].
Proof. intros id c sd H E. subst. discriminate. Qed.

(* ------------------------------------------------------------ the machine refines the reference machine *)
Section Refinement.
  Variable key : Type.
  Variable kdf : N -> N -> bytes -> key.
  Variable enc : key -> bytes -> payload -> bytes.
  Variable dec : key -> bytes -> bytes -> option payload.
  Variable vf : N -> N.
  Variable pw_ok : N -> bool.
  Hypothesis Hkdf : ideal_kdf kdf.
  Hypothesis Haead : ideal_aead enc dec.
  Hypothesis Hvf : ideal_vf vf.

  Notation load_file := (load_file key kdf dec).
  Notation load := (load key kdf dec).
  Notation seal := (seal key kdf enc).
  Notation remember := (remember vf true).
  Notation from_file := (from_file key kdf dec vf true).
  Notation step_at := (step_at key kdf enc dec vf pw_ok true).
  Notation step := (step key kdf enc dec vf pw_ok true).
  Notation run := (run key kdf enc dec vf pw_ok true).
  Notation astep_at := (astep_at pw_ok true).
  Notation astep := (astep pw_ok true).
  Notation arun := (arun pw_ok true).

  (* a file sealed under (L, P) with contents pl *)
  Definition sealed (f : file) (P L : N) (pl : payload) : Prop :=
    f_version f = KS_FORMAT_VERSION /\ f_ct f = enc (kdf L P (f_salt f)) (f_nonce f) pl.

  Lemma load_right : forall f P L pl, sealed f P L pl -> load_file L f P = Some pl.
  Proof.
    intros f P L pl [Hv Hc]. unfold KeyStore.load_file. rewrite Hv, N.eqb_refl, Hc.
    destruct Haead as [H1 _]. apply H1.
  Qed.

  Lemma load_only : forall f P L pl lvl p pl', sealed f P L pl ->
    load_file lvl f p = Some pl' -> lvl = L /\ p = P /\ pl' = pl.
  Proof.
    intros f P L pl lvl p pl' [Hv Hc] H. unfold KeyStore.load_file in H. rewrite Hv, N.eqb_refl, Hc in H.
    destruct Haead as [_ [H2 H3]]. apply H2 in H. apply H3 in H. destruct H as [Hk [_ Hm]].
    apply Hkdf in Hk. destruct Hk as [? [? _]]. subst. auto.
  Qed.

  Lemma seal_sealed : forall lvl p salt nonce ts pl, sealed (seal lvl p salt nonce ts pl) p lvl pl.
  Proof. intros. split; reflexivity. Qed.

  Definition sim (s : state) (a : astate) : Prop :=
    m_level s = a_level a /\
    match a_file a with
    | None => d_main s = None /\ m_cache s = []
    | Some (P, L, pl) =>
        exists f, d_main s = Some f /\ sealed f P L pl /\ sub (m_cache s) pl /\
                  (m_cache s <> [] -> m_ver s = Some (vf P) /\ m_level s = L)
    end.

  Lemma sim_init : forall lvl, sim (st_init lvl) (a_init lvl).
  Proof. intro lvl. split; [reflexivity|]. cbn. auto. Qed.

  (* forgetting the cache and touching the tmp file keep the relation *)
  Lemma sim_forget : forall s a t, sim s a -> sim (mkSt (d_main s) t (m_level s) [] None) a.
  Proof.
    intros s a t [Hl H]. split; [exact Hl|]. destruct (a_file a) as [[[P L] pl]|]; cbn.
    - destruct H as [f [Hm [Hs _]]]. exists f. split; [exact Hm|]. split; [exact Hs|]. split; [apply sub_nil|absurd_nonempty].
    - destruct H as [Hm _]. auto.
  Qed.

  Lemma sim_wipe : forall s a, sim s a -> sim (wipe s) a.
  Proof. intros s a H. apply (sim_forget s a (d_tmp s)), H. Qed.

  Lemma sim_tmp : forall s a t, sim s a -> sim (mkSt (d_main s) t (m_level s) (m_cache s) (m_ver s)) a.
  Proof. intros s a t [Hl H]. split; [exact Hl|]. destruct (a_file a) as [[[P L] pl]|]; exact H. Qed.

  (* load = the reference machine's [opens] *)
  Lemma load_opens : forall s a p, sim s a -> load s p = opens true a p.
  Proof.
    intros s a p [Hl H]. unfold KeyStore.load, opens. destruct (a_file a) as [[[P L] pl]|].
    - destruct H as [f [Hm [Hs _]]]. rewrite Hm. cbn [negb orb].
      destruct ((p =? P) && (a_level a =? L)) eqn:E.
      + apply andb_true_iff in E. destruct E as [E1 E2]. apply N.eqb_eq in E1, E2. subst.
        rewrite Hl. apply load_right, Hs.
      + destruct (load_file (m_level s) f p) as [pl'|] eqn:G; [|reflexivity].
        destruct (load_only _ _ _ _ _ _ _ Hs G) as [? [? ?]]. subst.
        rewrite <- Hl, !N.eqb_refl in E. discriminate.
    - destruct H as [Hm _]. rewrite Hm. reflexivity.
  Qed.

  Lemma opens_some : forall a p pl, opens true a p = Some pl ->
    exists L, a_file a = Some (p, L, pl) /\ a_level a = L.
  Proof.
    intros a p pl H. unfold opens in H. destruct (a_file a) as [[[P L] pl0]|]; [|discriminate].
    cbn [negb orb] in H. destruct ((p =? P) && (a_level a =? L)) eqn:E; [|discriminate].
    apply andb_true_iff in E. destruct E as [E1 E2]. apply N.eqb_eq in E1, E2. inversion H. subst.
    exists (a_level a). auto.
  Qed.

  (* cache insert after the password opened the file, seed = the stored one *)
  Lemma sim_remember : forall s P L pl f id sd,
    m_level s = L -> d_main s = Some f -> sealed f P L pl ->
    sub (pl_set id sd (m_cache s)) pl -> sub (pl_set id sd []) pl ->
    sim (remember s P id sd) (mkA (Some (P, L, pl)) L).
  Proof.
    intros s P L pl f id sd Hl Hm Hs Hsub1 Hsub2. unfold KeyStore.remember. split; [exact Hl|]. cbn.
    exists f. split; [exact Hm|]. split; [exact Hs|].
    split; [destruct (optN_eqb (m_ver s) (Some (vf P))); assumption|]. intros _. split; [reflexivity|exact Hl].
  Qed.

  Lemma from_file_sim : forall s a id p, sim s a ->
    snd (from_file s id p) = snd (astep a (Retrieve id p)) /\ sim (fst (from_file s id p)) a.
  Proof.
    intros s a id p Hsim. unfold KeyStore.from_file, KeyStore.astep. cbn [KeyStore.astep_at].
    rewrite (load_opens s a p Hsim). destruct (opens true a p) as [pl|] eqn:E; [|auto].
    destruct (pl_get id pl) as [sd|] eqn:G; [|auto]. cbn [fst snd]. split; [reflexivity|].
    destruct (opens_some _ _ _ E) as [L [Hf HL]]. destruct Hsim as [Hl H]. rewrite Hf in H.
    destruct H as [f [Hm [Hs [Hsub _]]]].
    replace a with (mkA (Some (p, L, pl)) L) by (destruct a; cbn in *; subst; reflexivity).
    eapply sim_remember; eauto; try congruence; apply sub_set_present; auto using sub_nil.
  Qed.

  (* the relation after one call whose file update is cut at [pt]: for a complete
     call, same verdict and related states; for a cut one (the process is gone,
     memory with it), related after the wipe *)
  Lemma step_at_sim : forall o pt s a, sim s a ->
    (cp_done pt = true -> snd (step_at pt s o) = snd (astep_at true a o)) /\
    sim (if cp_done pt then fst (step_at pt s o) else wipe (fst (step_at pt s o)))
        (fst (astep_at (cp_done pt) a o)).
  Proof.
    induction o as [p salt nonce ts|id sd p nonce ts|id p|old new salt nonce ts| |lvl|pt' o' IH]; intros pt s a Hsim.
    - (* Init *)
      cbn [KeyStore.step_at KeyStore.astep_at]. destruct (pw_ok p).
      + split; [reflexivity|]. cbn [fst snd]. destruct Hsim as [Hl H].
        destruct pt; cbn [cp_done disk_write]; try (apply sim_wipe; try apply sim_wipe; first [exact (conj Hl H) | apply (sim_tmp s a _ (conj Hl H))]).
        split; [exact Hl|]. cbn. eexists. split; [reflexivity|]. rewrite Hl.
        split; [apply seal_sealed|]. split; [apply sub_nil|absurd_nonempty].
      + split; [reflexivity|]. cbn [fst]. destruct (cp_done pt); [exact Hsim|apply sim_wipe, Hsim].
    - (* Store *)
      cbn [KeyStore.step_at KeyStore.astep_at]. rewrite (load_opens s a p Hsim).
      destruct (opens true a p) as [pl|] eqn:E.
      + destruct (opens_some _ _ _ E) as [L [Hf HL]]. pose proof Hsim as [Hl H]. rewrite Hf in H.
        destruct H as [f [Hm [Hs [Hsub Hc]]]]. rewrite Hm. split; [reflexivity|]. cbn [fst snd].
        destruct pt; cbn [cp_done disk_write].
        * exact (sim_forget s a _ Hsim).
        * exact (sim_forget s a _ Hsim).
        * exact (sim_forget s a _ Hsim).
        * rewrite <- Hl. eapply sim_remember; cbn; try reflexivity.
          -- apply seal_sealed.
          -- apply sub_set. exact Hsub.
          -- apply sub_set. apply sub_nil.
      + destruct (d_main s); split; try reflexivity; cbn [fst]; (destruct (cp_done pt); [exact Hsim|apply sim_wipe, Hsim]).
    - (* Retrieve *)
      cbn [KeyStore.step_at]. assert (Hff := from_file_sim s a id p Hsim).
      assert (Hres : forall d, astep_at d a (Retrieve id p) = astep a (Retrieve id p)) by reflexivity.
      rewrite !Hres.
      assert (Hnot : forall x : state * res, snd x = snd (astep a (Retrieve id p)) /\ sim (fst x) a ->
                (cp_done pt = true -> snd x = snd (astep a (Retrieve id p))) /\
                sim (if cp_done pt then fst x else wipe (fst x)) (fst (astep a (Retrieve id p)))).
      { intros x [X1 X2]. split; [auto|].
        assert (fst (astep a (Retrieve id p)) = a) as ->.
        { unfold KeyStore.astep. cbn [KeyStore.astep_at]. destruct (opens true a p); [destruct (pl_get id p0)|]; reflexivity. }
        destruct (cp_done pt); [exact X2|apply sim_wipe, X2]. }
      destruct (pl_get id (m_cache s)) as [sd|] eqn:G; [|apply Hnot, Hff].
      destruct (optN_eqb (m_ver s) (Some (vf p))) eqn:Ev; [|apply Hnot, Hff].
      apply Hnot. cbn [fst snd]. split; [|exact Hsim].
      apply optN_eqb_eq in Ev. pose proof Hsim as [Hl H].
      unfold KeyStore.astep. cbn [KeyStore.astep_at]. unfold opens.
      destruct (a_file a) as [[[P L] pl]|].
      * destruct H as [f [Hm [Hs [Hsub Hc]]]]. destruct (Hc (pl_get_nonempty _ _ _ G)) as [Hv HL].
        rewrite Hv in Ev. inversion Ev as [Ev']. apply Hvf in Ev'. subst P.
        rewrite <- Hl, HL, !N.eqb_refl. cbn. rewrite (Hsub _ _ G). reflexivity.
      * destruct H as [_ Hc]. rewrite Hc in G. discriminate.
    - (* Change *)
      cbn [KeyStore.step_at KeyStore.astep_at]. destruct (pw_ok new).
      + rewrite (load_opens s a old Hsim). destruct (opens true a old) as [pl|] eqn:E.
        * split; [reflexivity|]. cbn [fst snd]. destruct (opens_some _ _ _ E) as [L [Hf HL]].
          pose proof Hsim as [Hl H].
          destruct pt; cbn [cp_done disk_write]; try (apply sim_wipe; apply sim_wipe; first [exact Hsim | apply (sim_tmp s a _ Hsim)]).
          split; [exact Hl|]. cbn. eexists. split; [reflexivity|]. rewrite Hl.
          split; [apply seal_sealed|]. split; [apply sub_nil|absurd_nonempty].
        * split; [reflexivity|]. cbn [fst]. destruct (cp_done pt); [exact Hsim|apply sim_wipe, Hsim].
      + split; [reflexivity|]. cbn [fst]. destruct (cp_done pt); [exact Hsim|apply sim_wipe, Hsim].
    - (* Clear *)
      cbn [KeyStore.step_at KeyStore.astep_at fst snd]. split; [reflexivity|].
      destruct (cp_done pt); [|apply sim_wipe]; apply sim_wipe, Hsim.
    - (* Reopen *)
      cbn [KeyStore.step_at KeyStore.astep_at fst snd]. split; [reflexivity|].
      assert (X : sim (mkSt (d_main s) (d_tmp s) lvl [] None) (mkA (a_file a) lvl)).
      { destruct Hsim as [Hl H]. split; [reflexivity|]. cbn. destruct (a_file a) as [[[P L] pl]|].
        - destruct H as [f [Hm [Hs _]]]. exists f. split; [exact Hm|]. split; [exact Hs|]. split; [apply sub_nil|absurd_nonempty].
        - destruct H as [Hm _]. auto. }
      destruct (cp_done pt); [exact X|apply sim_wipe in X; exact X].
    - (* Crash *)
      cbn [KeyStore.step_at KeyStore.astep_at fst snd]. split; [reflexivity|].
      destruct (IH pt' s a Hsim) as [_ H].
      assert (X : sim (wipe (fst (step_at pt' s o'))) (fst (astep_at (cp_done pt') a o'))).
      { destruct (cp_done pt'); [apply sim_wipe, H|exact H]. }
      destruct (cp_done pt); [exact X|apply sim_wipe, X].
  Qed.

  Lemma step_sim : forall s a o, sim s a ->
    snd (step s o) = snd (astep a o) /\ sim (fst (step s o)) (fst (astep a o)).
  Proof.
    intros s a o H. destruct (step_at_sim o CDone s a H) as [H1 H2]. split; [apply H1; reflexivity|exact H2].
  Qed.

  Lemma run_sim : forall ops s a, sim s a ->
    snd (run s ops) = snd (arun a ops) /\ sim (fst (run s ops)) (fst (arun a ops)).
  Proof.
    induction ops as [|o tl IH]; intros s a H; cbn [KeyStore.run KeyStore.arun]; [split; [reflexivity|exact H]|].
    destruct (step_sim s a o H) as [H1 H2].
    destruct (step s o) as [s1 r] eqn:E1. destruct (astep a o) as [a1 r'] eqn:E2. cbn [fst snd] in *.
    destruct (IH s1 a1 H2) as [H3 H4].
    destruct (run s1 tl) as [s2 rs]. destruct (arun a1 tl) as [a2 rs']. cbn [fst snd] in *.
    subst. split; [reflexivity|exact H4].
  Qed.

  Theorem refines_spec : forall lvl0 ops,
    snd (run (st_init lvl0) ops) = snd (arun (a_init lvl0) ops).
  Proof. intros. apply run_sim, sim_init. Qed.
End Refinement.
