(* Lemmas for C18 (Model/KeyStore.v). *)
From SV Require Import Lib.Base Gen.KeyStoreConsts Model.KeyStore.
Local Open Scope N_scope.

(* ------------------------------------------------------------ small facts *)
Lemma bytes_eqb_refl : forall a, bytes_eqb a a = true.
Proof. induction a as [|x a IH]; cbn; [reflexivity|]. rewrite N.eqb_refl, IH. reflexivity. Qed.

Lemma bytes_eqb_eq : forall a b, bytes_eqb a b = true -> a = b.
Proof.
  induction a as [|x a IH]; destruct b as [|y b]; cbn; intro H; try discriminate; [reflexivity|].
  apply andb_true_iff in H. destruct H as [H1 H2]. apply N.eqb_eq in H1. subst. f_equal. apply IH, H2.
Qed.

Lemma optN_eqb_eq : forall a b, optN_eqb a b = true -> a = b.
Proof. intros [x|] [y|]; cbn; intro H; try discriminate; [apply N.eqb_eq in H; subst|]; reflexivity. Qed.

Lemma optN_eqb_refl : forall a, optN_eqb a a = true.
Proof. intros [x|]; cbn; [apply N.eqb_refl|reflexivity]. Qed.

(* ------------------------------------------------------------ payload *)
Lemma pl_get_filter_other : forall id id' pl, id' <> id ->
  pl_get id' (filter (fun e => negb (fst e =? id)) pl) = pl_get id' pl.
Proof.
  intros id id' pl Hne. induction pl as [|[i s] t IH]; cbn; [reflexivity|].
  destruct (i =? id) eqn:E; cbn.
  - apply N.eqb_eq in E. subst. destruct (id =? id') eqn:E2; [apply N.eqb_eq in E2; congruence|exact IH].
  - destruct (i =? id'); [reflexivity|exact IH].
Qed.

Lemma pl_get_set_same : forall id sd pl, pl_get id (pl_set id sd pl) = Some sd.
Proof. intros. unfold pl_set. cbn. rewrite N.eqb_refl. reflexivity. Qed.

Lemma pl_get_set_other : forall id id' sd pl, id' <> id -> pl_get id' (pl_set id sd pl) = pl_get id' pl.
Proof.
  intros id id' sd pl Hne. unfold pl_set. cbn.
  destruct (id =? id') eqn:E; [apply N.eqb_eq in E; congruence|]. apply pl_get_filter_other, Hne.
Qed.

(* every cached seed is the stored one *)
Definition sub (c pl : payload) : Prop := forall id sd, pl_get id c = Some sd -> pl_get id pl = Some sd.

Lemma sub_nil : forall pl, sub [] pl.
Proof. intros pl id sd H. discriminate. Qed.

Lemma sub_set : forall c pl id sd, sub c pl -> sub (pl_set id sd c) (pl_set id sd pl).
Proof.
  intros c pl id sd H id' sd' G. destruct (N.eq_dec id' id) as [->|Hne].
  - rewrite pl_get_set_same in *. exact G.
  - rewrite pl_get_set_other in * by exact Hne. apply H, G.
Qed.

Lemma sub_set_present : forall c pl id sd, sub c pl -> pl_get id pl = Some sd -> sub (pl_set id sd c) pl.
Proof.
  intros c pl id sd H Hp id' sd' G. destruct (N.eq_dec id' id) as [->|Hne].
  - rewrite pl_get_set_same in G. congruence.
  - rewrite pl_get_set_other in G by exact Hne. apply H, G.
Qed.

Ltac absurd_nonempty := let X := fresh in intro X; exfalso; apply X; reflexivity.

Lemma pl_get_nonempty : forall id c sd, pl_get id c = Some sd -> c <> [].
Proof. intros id c sd H E. subst. discriminate. Qed.

(* ------------------------------------------------------------ the machine refines the reference machine *)
Section Refinement.
  Variable key : Type.
  Variable kdf : N -> N -> bytes -> key.
  Variable enc : key -> bytes -> payload -> bytes.
  Variable dec : key -> bytes -> bytes -> option payload.
  Variable vf : N -> N.
  Variable pw_ok : N -> bool.
  Hypothesis Hkdf : ideal_kdf kdf.
  Hypothesis Haead : ideal_aead enc dec.
  Hypothesis Hvf : ideal_vf vf.

  Notation load_file := (load_file key kdf dec).
  Notation load := (load key kdf dec).
  Notation seal := (seal key kdf enc).
  Notation remember := (remember vf true).
  Notation from_file := (from_file key kdf dec vf true).
  Notation step_at := (step_at key kdf enc dec vf pw_ok true).
  Notation step := (step key kdf enc dec vf pw_ok true).
  Notation run := (run key kdf enc dec vf pw_ok true).
  Notation astep_at := (astep_at pw_ok true).
  Notation astep := (astep pw_ok true).
  Notation arun := (arun pw_ok true).

  (* a file sealed under (L, P) with contents pl *)
  Definition sealed (f : file) (P L : N) (pl : payload) : Prop :=
    f_version f = KS_FORMAT_VERSION /\ f_ct f = enc (kdf L P (f_salt f)) (f_nonce f) pl.

  Lemma load_right : forall f P L pl, sealed f P L pl -> load_file L f P = Some pl.
  Proof.
    intros f P L pl [Hv Hc]. unfold KeyStore.load_file. rewrite Hv, N.eqb_refl, Hc.
    destruct Haead as [H1 _]. apply H1.
  Qed.

  Lemma load_only : forall f P L pl lvl p pl', sealed f P L pl ->
    load_file lvl f p = Some pl' -> lvl = L /\ p = P /\ pl' = pl.
  Proof.
    intros f P L pl lvl p pl' [Hv Hc] H. unfold KeyStore.load_file in H. rewrite Hv, N.eqb_refl, Hc in H.
    destruct Haead as [_ [H2 H3]]. apply H2 in H. apply H3 in H. destruct H as [Hk [_ Hm]].
    apply Hkdf in Hk. destruct Hk as [? [? _]]. subst. auto.
  Qed.

  Lemma seal_sealed : forall lvl p salt nonce ts pl, sealed (seal lvl p salt nonce ts pl) p lvl pl.
  Proof. intros. split; reflexivity. Qed.

  Definition sim (s : state) (a : astate) : Prop :=
    m_level s = a_level a /\
    match a_file a with
    | None => d_main s = None /\ m_cache s = []
    | Some (P, L, pl) =>
        exists f, d_main s = Some f /\ sealed f P L pl /\ sub (m_cache s) pl /\
                  (m_cache s <> [] -> m_ver s = Some (vf P) /\ m_level s = L)
    end.

  Lemma sim_init : forall lvl, sim (st_init lvl) (a_init lvl).
  Proof. intro lvl. split; [reflexivity|]. cbn. auto. Qed.

  (* forgetting the cache and touching the tmp file keep the relation *)
  Lemma sim_forget : forall s a t, sim s a -> sim (mkSt (d_main s) t (m_level s) [] None) a.
  Proof.
    intros s a t [Hl H]. split; [exact Hl|]. destruct (a_file a) as [[[P L] pl]|]; cbn.
    - destruct H as [f [Hm [Hs _]]]. exists f. split; [exact Hm|]. split; [exact Hs|]. split; [apply sub_nil|absurd_nonempty].
    - destruct H as [Hm _]. auto.
  Qed.

  Lemma sim_wipe : forall s a, sim s a -> sim (wipe s) a.
  Proof. intros s a H. apply (sim_forget s a (d_tmp s)), H. Qed.

  Lemma sim_tmp : forall s a t, sim s a -> sim (mkSt (d_main s) t (m_level s) (m_cache s) (m_ver s)) a.
  Proof. intros s a t [Hl H]. split; [exact Hl|]. destruct (a_file a) as [[[P L] pl]|]; exact H. Qed.

  (* load = the reference machine's [opens] *)
  Lemma load_opens : forall s a p, sim s a -> load s p = opens true a p.
  Proof.
    intros s a p [Hl H]. unfold KeyStore.load, opens. destruct (a_file a) as [[[P L] pl]|].
    - destruct H as [f [Hm [Hs _]]]. rewrite Hm. cbn [negb orb].
      destruct ((p =? P) && (a_level a =? L)) eqn:E.
      + apply andb_true_iff in E. destruct E as [E1 E2]. apply N.eqb_eq in E1, E2. subst.
        rewrite Hl. apply load_right, Hs.
      + destruct (load_file (m_level s) f p) as [pl'|] eqn:G; [|reflexivity].
        destruct (load_only _ _ _ _ _ _ _ Hs G) as [? [? ?]]. subst.
        rewrite <- Hl, !N.eqb_refl in E. discriminate.
    - destruct H as [Hm _]. rewrite Hm. reflexivity.
  Qed.

  Lemma opens_some : forall a p pl, opens true a p = Some pl ->
    exists L, a_file a = Some (p, L, pl) /\ a_level a = L.
  Proof.
    intros a p pl H. unfold opens in H. destruct (a_file a) as [[[P L] pl0]|]; [|discriminate].
    cbn [negb orb] in H. destruct ((p =? P) && (a_level a =? L)) eqn:E; [|discriminate].
    apply andb_true_iff in E. destruct E as [E1 E2]. apply N.eqb_eq in E1, E2. inversion H. subst.
    exists (a_level a). auto.
  Qed.

  (* cache insert after the password opened the file, seed = the stored one *)
  Lemma sim_remember : forall s P L pl f id sd,
    m_level s = L -> d_main s = Some f -> sealed f P L pl ->
    sub (pl_set id sd (m_cache s)) pl -> sub (pl_set id sd []) pl ->
    sim (remember s P id sd) (mkA (Some (P, L, pl)) L).
  Proof.
    intros s P L pl f id sd Hl Hm Hs Hsub1 Hsub2. unfold KeyStore.remember. split; [exact Hl|]. cbn.
    exists f. split; [exact Hm|]. split; [exact Hs|].
    split; [destruct (optN_eqb (m_ver s) (Some (vf P))); assumption|]. intros _. split; [reflexivity|exact Hl].
  Qed.

  Lemma from_file_sim : forall s a id p, sim s a ->
    snd (from_file s id p) = snd (astep a (Retrieve id p)) /\ sim (fst (from_file s id p)) a.
  Proof.
    intros s a id p Hsim. unfold KeyStore.from_file, KeyStore.astep. cbn [KeyStore.astep_at].
    rewrite (load_opens s a p Hsim). destruct (opens true a p) as [pl|] eqn:E; [|auto].
    destruct (pl_get id pl) as [sd|] eqn:G; [|auto]. cbn [fst snd]. split; [reflexivity|].
    destruct (opens_some _ _ _ E) as [L [Hf HL]]. destruct Hsim as [Hl H]. rewrite Hf in H.
    destruct H as [f [Hm [Hs [Hsub _]]]].
    replace a with (mkA (Some (p, L, pl)) L) by (destruct a; cbn in *; subst; reflexivity).
    eapply sim_remember; eauto; try congruence; apply sub_set_present; auto using sub_nil.
  Qed.

  (* the relation after one call whose file update is cut at [pt]: for a complete
     call, same verdict and related states; for a cut one (the process is gone,
     memory with it), related after the wipe *)
  Lemma step_at_sim : forall o pt s a, sim s a ->
    (cp_done pt = true -> snd (step_at pt s o) = snd (astep_at true a o)) /\
    sim (if cp_done pt then fst (step_at pt s o) else wipe (fst (step_at pt s o)))
        (fst (astep_at (cp_done pt) a o)).
  Proof.
    induction o as [p salt nonce ts|id sd p nonce ts|id p|old new salt nonce ts| |lvl|pt' o' IH]; intros pt s a Hsim.
    - (* Init *)
      cbn [KeyStore.step_at KeyStore.astep_at]. destruct (pw_ok p).
      + split; [reflexivity|]. cbn [fst snd]. destruct Hsim as [Hl H].
        destruct pt; cbn [cp_done disk_write]; try (apply sim_wipe; try apply sim_wipe; first [exact (conj Hl H) | apply (sim_tmp s a _ (conj Hl H))]).
        split; [exact Hl|]. cbn. eexists. split; [reflexivity|]. rewrite Hl.
        split; [apply seal_sealed|]. split; [apply sub_nil|absurd_nonempty].
      + split; [reflexivity|]. cbn [fst]. destruct (cp_done pt); [exact Hsim|apply sim_wipe, Hsim].
    - (* Store *)
      cbn [KeyStore.step_at KeyStore.astep_at]. rewrite (load_opens s a p Hsim).
      destruct (opens true a p) as [pl|] eqn:E.
      + destruct (opens_some _ _ _ E) as [L [Hf HL]]. pose proof Hsim as [Hl H]. rewrite Hf in H.
        destruct H as [f [Hm [Hs [Hsub Hc]]]]. rewrite Hm. split; [reflexivity|]. cbn [fst snd].
        destruct pt; cbn [cp_done disk_write].
        * exact (sim_forget s a _ Hsim).
        * exact (sim_forget s a _ Hsim).
        * exact (sim_forget s a _ Hsim).
        * rewrite <- Hl. eapply sim_remember; cbn; try reflexivity.
          -- apply seal_sealed.
          -- apply sub_set. exact Hsub.
          -- apply sub_set. apply sub_nil.
      + destruct (d_main s); split; try reflexivity; cbn [fst]; (destruct (cp_done pt); [exact Hsim|apply sim_wipe, Hsim]).
    - (* Retrieve *)
      cbn [KeyStore.step_at]. assert (Hff := from_file_sim s a id p Hsim).
      assert (Hres : forall d, astep_at d a (Retrieve id p) = astep a (Retrieve id p)) by reflexivity.
      rewrite !Hres.
      assert (Hnot : forall x : state * res, snd x = snd (astep a (Retrieve id p)) /\ sim (fst x) a ->
                (cp_done pt = true -> snd x = snd (astep a (Retrieve id p))) /\
                sim (if cp_done pt then fst x else wipe (fst x)) (fst (astep a (Retrieve id p)))).
      { intros x [X1 X2]. split; [auto|].
        assert (fst (astep a (Retrieve id p)) = a) as ->.
        { unfold KeyStore.astep. cbn [KeyStore.astep_at]. destruct (opens true a p); [destruct (pl_get id p0)|]; reflexivity. }
        destruct (cp_done pt); [exact X2|apply sim_wipe, X2]. }
      destruct (pl_get id (m_cache s)) as [sd|] eqn:G; [|apply Hnot, Hff].
      destruct (optN_eqb (m_ver s) (Some (vf p))) eqn:Ev; [|apply Hnot, Hff].
      apply Hnot. cbn [fst snd]. split; [|exact Hsim].
      apply optN_eqb_eq in Ev. pose proof Hsim as [Hl H].
      unfold KeyStore.astep. cbn [KeyStore.astep_at]. unfold opens.
      destruct (a_file a) as [[[P L] pl]|].
      * destruct H as [f [Hm [Hs [Hsub Hc]]]]. destruct (Hc (pl_get_nonempty _ _ _ G)) as [Hv HL].
        rewrite Hv in Ev. inversion Ev as [Ev']. apply Hvf in Ev'. subst P.
        rewrite <- Hl, HL, !N.eqb_refl. cbn. rewrite (Hsub _ _ G). reflexivity.
      * destruct H as [_ Hc]. rewrite Hc in G. discriminate.
    - (* Change *)
      cbn [KeyStore.step_at KeyStore.astep_at]. destruct (pw_ok new).
      + rewrite (load_opens s a old Hsim). destruct (opens true a old) as [pl|] eqn:E.
        * split; [reflexivity|]. cbn [fst snd]. destruct (opens_some _ _ _ E) as [L [Hf HL]].
          pose proof Hsim as [Hl H].
          destruct pt; cbn [cp_done disk_write]; try (apply sim_wipe; apply sim_wipe; first [exact Hsim | apply (sim_tmp s a _ Hsim)]).
          split; [exact Hl|]. cbn. eexists. split; [reflexivity|]. rewrite Hl.
          split; [apply seal_sealed|]. split; [apply sub_nil|absurd_nonempty].
        * split; [reflexivity|]. cbn [fst]. destruct (cp_done pt); [exact Hsim|apply sim_wipe, Hsim].
      + split; [reflexivity|]. cbn [fst]. destruct (cp_done pt); [exact Hsim|apply sim_wipe, Hsim].
    - (* Clear *)
      cbn [KeyStore.step_at KeyStore.astep_at fst snd]. split; [reflexivity|].
      destruct (cp_done pt); [|apply sim_wipe]; apply sim_wipe, Hsim.
    - (* Reopen *)
      cbn [KeyStore.step_at KeyStore.astep_at fst snd]. split; [reflexivity|].
      assert (X : sim (mkSt (d_main s) (d_tmp s) lvl [] None) (mkA (a_file a) lvl)).
      { destruct Hsim as [Hl H]. split; [reflexivity|]. cbn. destruct (a_file a) as [[[P L] pl]|].
        - destruct H as [f [Hm [Hs _]]]. exists f. split; [exact Hm|]. split; [exact Hs|]. split; [apply sub_nil|absurd_nonempty].
        - destruct H as [Hm _]. auto. }
      destruct (cp_done pt); [exact X|apply sim_wipe in X; exact X].
    - (* Crash *)
      cbn [KeyStore.step_at KeyStore.astep_at fst snd]. split; [reflexivity|].
      destruct (IH pt' s a Hsim) as [_ H].
      assert (X : sim (wipe (fst (step_at pt' s o'))) (fst (astep_at (cp_done pt') a o'))).
      { destruct (cp_done pt'); [apply sim_wipe, H|exact H]. }
      destruct (cp_done pt); [exact X|apply sim_wipe, X].
  Qed.

  Lemma step_sim : forall s a o, sim s a ->
    snd (step s o) = snd (astep a o) /\ sim (fst (step s o)) (fst (astep a o)).
  Proof.
    intros s a o H. destruct (step_at_sim o CDone s a H) as [H1 H2]. split; [apply H1; reflexivity|exact H2].
  Qed.

  Lemma run_sim : forall ops s a, sim s a ->
    snd (run s ops) = snd (arun a ops) /\ sim (fst (run s ops)) (fst (arun a ops)).
  Proof.
    induction ops as [|o tl IH]; intros s a H; cbn [KeyStore.run KeyStore.arun]; [split; [reflexivity|exact H]|].
    destruct (step_sim s a o H) as [H1 H2].
    destruct (step s o) as [s1 r] eqn:E1. destruct (astep a o) as [a1 r'] eqn:E2. cbn [fst snd] in *.
    destruct (IH s1 a1 H2) as [H3 H4].
    destruct (run s1 tl) as [s2 rs]. destruct (arun a1 tl) as [a2 rs']. cbn [fst snd] in *.
    subst. split; [reflexivity|exact H4].
  Qed.

  Theorem refines_spec : forall lvl0 ops,
    snd (run (st_init lvl0) ops) = snd (arun (a_init lvl0) ops).
  Proof. intros. apply run_sim, sim_init. Qed.

  (* ---- consequences stated on the machine itself *)
  Lemma astep_at_cases : forall o d a,
    fst (astep_at d a o) = a \/ fst (astep_at d a o) = fst (astep_at true a o).
  Proof.
    destruct o; intros d a; destruct d; auto; cbn [KeyStore.astep_at];
      repeat match goal with
             | |- context [if ?b then _ else _] => destruct b
             | |- context [match opens ?s ?x ?y with _ => _ end] => destruct (opens s x y)
             | |- context [match pl_get ?x ?y with _ => _ end] => destruct (pl_get x y)
             end; auto.
  Qed.

  (* a crash inside any call, at any point, then a restart: every later verdict is
     the one obtained by restarting without the call, or by completing the call
     and restarting *)
  Lemma crash_atomic : forall s a pt o rest, sim s a ->
    snd (run (fst (step s (Crash pt o))) rest) = snd (run (wipe s) rest) \/
    snd (run (fst (step s (Crash pt o))) rest) = snd (run (wipe (fst (step s o))) rest).
  Proof.
    intros s a pt o rest Hsim.
    assert (Ec : fst (step s (Crash pt o)) = wipe (fst (step_at pt s o))) by reflexivity. rewrite Ec.
    destruct (step_at_sim o pt s a Hsim) as [_ H].
    assert (X : sim (wipe (fst (step_at pt s o))) (fst (astep_at (cp_done pt) a o))).
    { destruct (cp_done pt); [apply sim_wipe, H|exact H]. }
    destruct (astep_at_cases o (cp_done pt) a) as [E|E]; rewrite E in X.
    - left. rewrite (proj1 (run_sim rest _ _ X)). symmetry. apply run_sim, sim_wipe, Hsim.
    - right. rewrite (proj1 (run_sim rest _ _ X)). symmetry. apply run_sim, sim_wipe.
      apply (step_sim s a o Hsim).
  Qed.

  (* ... and which of the two: the new content exactly when the rename happened *)
  Lemma crash_done_new : forall s a o rest, sim s a ->
    snd (run (fst (step s (Crash CDone o))) rest) = snd (run (wipe (fst (step s o))) rest).
  Proof.
    intros s a o rest Hsim.
    assert (Ec : fst (step s (Crash CDone o)) = wipe (fst (step_at CDone s o))) by reflexivity. rewrite Ec.
    assert (X : sim (wipe (fst (step_at CDone s o))) (fst (astep a o))) by apply sim_wipe, (step_sim s a o Hsim).
    rewrite (proj1 (run_sim rest _ _ X)). symmetry. apply run_sim, X.
  Qed.

  Definition writes (o : op) : bool :=
    match o with Init _ _ _ _ | Store _ _ _ _ _ | Change _ _ _ _ _ => true | _ => false end.

  Lemma crash_early_old : forall s a pt o rest, sim s a -> cp_done pt = false -> writes o = true ->
    snd (run (fst (step s (Crash pt o))) rest) = snd (run (wipe s) rest).
  Proof.
    intros s a pt o rest Hsim Hpt Hw.
    assert (Ec : fst (step s (Crash pt o)) = wipe (fst (step_at pt s o))) by reflexivity. rewrite Ec.
    destruct (step_at_sim o pt s a Hsim) as [_ H]. rewrite Hpt in H.
    assert (E : fst (astep_at false a o) = a).
    { destruct o; try discriminate; cbn [KeyStore.astep_at];
        repeat match goal with
               | |- context [if ?b then _ else _] => destruct b
               | |- context [match opens ?s ?x ?y with _ => _ end] => destruct (opens s x y)
               end; reflexivity. }
    rewrite E in H. rewrite (proj1 (run_sim rest _ _ H)). symmetry. apply run_sim, sim_wipe, Hsim.
  Qed.

  (* right after a successful store, in the same process and after a restart:
     the seed for the password used, refusal for every other password *)
  Lemma after_store : forall s a id sd p nonce ts, sim s a ->
    snd (step s (Store id sd p nonce ts)) = ROk ->
    let s1 := fst (step s (Store id sd p nonce ts)) in
    forall q, snd (step s1 (Retrieve id q)) = (if q =? p then RSeed sd else RErr) /\
              snd (step (wipe s1) (Retrieve id q)) = (if q =? p then RSeed sd else RErr).
  Proof.
    intros s a id sd p nonce ts Hsim Hok s1 q.
    destruct (step_sim s a (Store id sd p nonce ts) Hsim) as [H1 H2]. fold s1 in H2. rewrite Hok in H1.
    unfold KeyStore.astep in H1, H2. cbn [KeyStore.astep_at] in H1, H2.
    destruct (opens true a p) as [pl|] eqn:E; [|discriminate]. cbn [fst snd] in H2.
    assert (G : forall s', sim s' (mkA (Some (p, a_level a, pl_set id sd pl)) (a_level a)) ->
                snd (step s' (Retrieve id q)) = if q =? p then RSeed sd else RErr).
    { intros s' Hs'. rewrite (proj1 (step_sim s' _ (Retrieve id q) Hs')).
      unfold KeyStore.astep. cbn [KeyStore.astep_at]. unfold opens. cbn [a_file a_level negb orb].
      rewrite N.eqb_refl, andb_true_r. destruct (q =? p); [|reflexivity].
      rewrite pl_get_set_same. reflexivity. }
    split; apply G; [exact H2|apply sim_wipe, H2].
  Qed.

  (* right after a successful password change: the previous password is refused,
     in the same process (nothing cached answers it) and after a restart *)
  Lemma after_change : forall s a old new salt nonce ts, sim s a ->
    snd (step s (Change old new salt nonce ts)) = ROk -> old <> new ->
    let s1 := fst (step s (Change old new salt nonce ts)) in
    forall id, snd (step s1 (Retrieve id old)) = RErr /\ snd (step (wipe s1) (Retrieve id old)) = RErr.
  Proof.
    intros s a old new salt nonce ts Hsim Hok Hne s1 id.
    destruct (step_sim s a (Change old new salt nonce ts) Hsim) as [H1 H2]. fold s1 in H2. rewrite Hok in H1.
    unfold KeyStore.astep in H1, H2. cbn [KeyStore.astep_at] in H1, H2.
    destruct (pw_ok new); [|discriminate].
    destruct (opens true a old) as [pl|] eqn:E; [|discriminate]. cbn [fst snd] in H2.
    assert (G : forall s', sim s' (mkA (Some (new, a_level a, pl)) (a_level a)) ->
                snd (step s' (Retrieve id old)) = RErr).
    { intros s' Hs'. rewrite (proj1 (step_sim s' _ (Retrieve id old) Hs')).
      unfold KeyStore.astep. cbn [KeyStore.astep_at]. unfold opens. cbn [a_file a_level negb orb].
      destruct (old =? new) eqn:E2; [apply N.eqb_eq in E2; congruence|reflexivity]. }
    split; apply G; [exact H2|apply sim_wipe, H2].
  Qed.

  Lemma reachable_sim : forall lvl0 ops,
    sim (fst (run (st_init lvl0) ops)) (fst (arun (a_init lvl0) ops)).
  Proof. intros. apply run_sim, sim_init. Qed.

  Lemma right_password : forall lvl0 ops P L pl id sd,
    let a := fst (arun (a_init lvl0) ops) in
    a_file a = Some (P, L, pl) -> a_level a = L -> pl_get id pl = Some sd ->
    snd (step (fst (run (st_init lvl0) ops)) (Retrieve id P)) = RSeed sd.
  Proof.
    intros lvl0 ops P L pl id sd a Hf HL Hg.
    rewrite (proj1 (step_sim _ _ (Retrieve id P) (reachable_sim lvl0 ops))). fold a.
    unfold KeyStore.astep. cbn [KeyStore.astep_at]. unfold opens. rewrite Hf, HL, !N.eqb_refl. cbn.
    rewrite Hg. reflexivity.
  Qed.

  Lemma wrong_password : forall lvl0 ops id p,
    let a := fst (arun (a_init lvl0) ops) in
    (forall L pl, a_file a <> Some (p, L, pl)) ->
    snd (step (fst (run (st_init lvl0) ops)) (Retrieve id p)) = RErr.
  Proof.
    intros lvl0 ops id p a Hn.
    rewrite (proj1 (step_sim _ _ (Retrieve id p) (reachable_sim lvl0 ops))). fold a.
    unfold KeyStore.astep. cbn [KeyStore.astep_at].
    destruct (opens true a p) as [pl|] eqn:E; [|reflexivity].
    destruct (opens_some _ _ _ E) as [L [Hf _]]. exfalso. exact (Hn _ _ Hf).
  Qed.
End Refinement.

(* no hypothesis needed: a completed update leaves no temporary file *)
Lemma no_stale_tmp : forall key kdf enc dec vf pw_ok fixed s o,
  writes o = true -> snd (step key kdf enc dec vf pw_ok fixed s o) = ROk ->
  d_tmp (fst (step key kdf enc dec vf pw_ok fixed s o)) = None.
Proof.
  intros key kdf enc dec vf pw_ok fixed s o Hw. destruct o; try discriminate; unfold step; cbn [step_at].
  - destruct (pw_ok p); [|discriminate]. destruct fixed; reflexivity.
  - destruct (load key kdf dec s p); [|discriminate]. destruct (d_main s); [|discriminate].
    unfold remember. destruct fixed; reflexivity.
  - destruct (pw_ok new); [|discriminate]. destruct (load key kdf dec s old); [|discriminate]. reflexivity.
Qed.

(* ------------------------------------------------------------ level-insensitive reference machine *)
Section Levels.
  Variable pw_ok : N -> bool.
  Variable l : N.

  Definition alevel_ok (a : astate) : Prop :=
    a_level a = l /\ match a_file a with Some (_, L, _) => L = l | None => True end.

  Lemma opens_level : forall a p, alevel_ok a -> opens true a p = opens false a p.
  Proof.
    intros a p [H1 H2]. unfold opens. destruct (a_file a) as [[[P L] pl]|]; [|reflexivity].
    rewrite H1, H2, N.eqb_refl. reflexivity.
  Qed.

  Lemma astep_at_level : forall o d a, alevel_ok a -> op_level_ok l o ->
    astep_at pw_ok true d a o = astep_at pw_ok false d a o /\ alevel_ok (fst (astep_at pw_ok true d a o)).
  Proof.
    induction o as [p salt nonce ts|id sd p nonce ts|id p|old new salt nonce ts| |lvl|pt' o' IH]; intros d a Ha Ho;
      cbn [astep_at]; try rewrite (opens_level a _ Ha).
    - destruct (pw_ok p); cbn [fst]; (split; [reflexivity|]); [|exact Ha].
      destruct d; [|exact Ha]. destruct Ha as [H1 _]. split; cbn; assumption.
    - destruct (opens false a p); cbn [fst]; (split; [reflexivity|]); [|exact Ha].
      destruct d; [|exact Ha]. destruct Ha as [H1 _]. split; cbn; assumption.
    - destruct (opens false a p); [destruct (pl_get id p0)|]; split; try reflexivity; exact Ha.
    - destruct (pw_ok new); [|split; [reflexivity|exact Ha]].
      destruct (opens false a old); cbn [fst]; (split; [reflexivity|]); [|exact Ha].
      destruct d; [|exact Ha]. destruct Ha as [H1 _]. split; cbn; assumption.
    - split; [reflexivity|exact Ha].
    - cbn in Ho. subst lvl. split; [reflexivity|]. destruct Ha as [H1 H2]. split; [reflexivity|exact H2].
    - cbn in Ho. destruct (IH (cp_done pt') a Ha Ho) as [E H]. rewrite <- E. split; [reflexivity|exact H].
  Qed.

  Lemma arun_level : forall ops a, alevel_ok a -> same_level l ops ->
    snd (arun pw_ok true a ops) = snd (arun pw_ok false a ops).
  Proof.
    induction ops as [|o tl IH]; intros a Ha Hs; cbn [arun]; [reflexivity|].
    inversion Hs as [|? ? Ho Htl]; subst. unfold astep.
    destruct (astep_at_level o true a Ha Ho) as [E H]. rewrite <- E.
    destruct (astep_at pw_ok true true a o) as [a1 r]. cbn [fst] in H.
    specialize (IH a1 H Htl).
    destruct (arun pw_ok true a1 tl) as [a2 rs]. destruct (arun pw_ok false a1 tl) as [a2' rs'].
    cbn [snd] in *. subst. reflexivity.
  Qed.
End Levels.

Lemma arun_same_level : forall pw_ok lvl0 ops, same_level lvl0 ops ->
  snd (arun pw_ok true (a_init lvl0) ops) = snd (arun pw_ok false (a_init lvl0) ops).
Proof. intros. apply (arun_level pw_ok lvl0); [split; cbn; auto|assumption]. Qed.

(* ------------------------------------------------------------ the file as bytes *)
Fixpoint cap (fuel : nat) (lastmax : N) : N :=
  match fuel with
  | O => 0
  | S f => match f with O => lastmax + 1 | S _ => 128 * cap f lastmax end
  end.

Lemma take_var_S : forall f lastmax b t,
  take_var (S f) lastmax (b :: t) =
  if b <? 128 then match f with O => if lastmax <? b then None else Some (b, t) | S _ => Some (b, t) end
  else match take_var f lastmax t with Some (v, r) => Some (b - 128 + 128 * v, r) | None => None end.
Proof. reflexivity. Qed.

Lemma varint_S : forall f n,
  varint (S f) n = if n <? 128 then [n] else (128 + n mod 128) :: varint f (n / 128).
Proof. reflexivity. Qed.

Lemma take_var_varint : forall lastmax, lastmax < 128 -> forall fuel n r,
  n < cap fuel lastmax -> take_var fuel lastmax (varint fuel n ++ r) = Some (n, r).
Proof.
  intros lastmax Hl. induction fuel as [|f IH]; intros n r Hn; [cbn in Hn; lia|].
  rewrite varint_S. destruct (n <? 128) eqn:E.
  - cbn [app]. rewrite take_var_S, E. destruct f as [|f']; [|reflexivity].
    cbn in Hn. assert (E2 : lastmax <? n = false) by (apply N.ltb_ge; lia). rewrite E2. reflexivity.
  - apply N.ltb_ge in E. destruct f as [|f']; [cbn in Hn; lia|].
    change (cap (S (S f')) lastmax) with (128 * cap (S f') lastmax) in Hn.
    cbn [app]. rewrite take_var_S.
    assert (E2 : 128 + n mod 128 <? 128 = false) by (apply N.ltb_ge; lia). rewrite E2.
    assert (Hd : n / 128 < cap (S f') lastmax) by (apply N.div_lt_upper_bound; lia).
    rewrite (IH _ r Hd). f_equal. f_equal. pose proof (N.div_mod n 128). lia.
Qed.

Lemma take_u32_put : forall n r, n < 2 ^ 32 -> take_u32 (put_u32 n ++ r) = Some (n, r).
Proof. intros n r H. apply take_var_varint; [lia|]. exact H. Qed.

Lemma take_u64_put : forall n r, n < 2 ^ 64 -> take_u64 (put_u64 n ++ r) = Some (n, r).
Proof. intros n r H. apply take_var_varint; [lia|]. exact H. Qed.

Lemma firstn_len_app {A} : forall (a b : list A), firstn (length a) (a ++ b) = a.
Proof. induction a as [|x a IH]; intro b; cbn; [reflexivity|]. f_equal. apply IH. Qed.

Lemma skipn_len_app {A} : forall (a b : list A), skipn (length a) (a ++ b) = b.
Proof. induction a as [|x a IH]; intro b; cbn; [reflexivity|]. apply IH. Qed.

Lemma take_n_app : forall a r, take_n (len a) (a ++ r) = Some (a, r).
Proof.
  intros a r. unfold take_n, len. rewrite app_length, Nat2N.id.
  assert (E : N.of_nat (length a) <=? N.of_nat (length a + length r) = true) by (apply N.leb_le; lia).
  rewrite E, firstn_len_app, skipn_len_app. reflexivity.
Qed.

Theorem parse_encode : forall f extra, shape f -> parse_file (encode_file f ++ extra) = Some f.
Proof.
  intros [v cfg salt nonce cr up sz tag ct] extra
         [Hv [[c1 [c2 [c3 [c4 [Hc [H1 [H2 [H3 H4]]]]]]]] [Hs [Hn [Hcr [Hup [Hsz [Ht Hct]]]]]]]].
  cbn [f_version f_cfg f_salt f_nonce f_created f_updated f_size f_tag f_ct] in *. subst cfg. unfold encode_file, parse_file. cbn [f_version f_cfg f_salt f_nonce f_created f_updated f_size f_tag f_ct map concat].
  rewrite <- !app_assoc. cbn [app].
  rewrite take_u32_put by exact Hv. cbn [bind].
  rewrite take_u32_put by exact H1. cbn [bind].
  rewrite take_u32_put by exact H2. cbn [bind].
  rewrite take_u32_put by exact H3. cbn [bind].
  rewrite take_u32_put by exact H4. cbn [bind].
  rewrite <- Hs, take_n_app. cbn [bind].
  rewrite <- Hn, take_n_app. cbn [bind].
  rewrite take_u64_put by exact Hcr. cbn [bind].
  rewrite take_u64_put by exact Hup. cbn [bind].
  rewrite take_u64_put by exact Hsz. cbn [bind].
  rewrite <- Ht, take_n_app. cbn [bind].
  rewrite take_u64_put by exact Hct. cbn [bind].
  rewrite take_n_app. cbn [bind]. reflexivity.
Qed.

Section Tamper.
  Variable key : Type.
  Variable kdf : N -> N -> bytes -> key.
  Variable enc : key -> bytes -> payload -> bytes.
  Variable dec : key -> bytes -> bytes -> option payload.
  Hypothesis Hkdf : ideal_kdf kdf.
  Hypothesis Haead : ideal_aead enc dec.

  Notation load_bytes := (load_bytes key kdf dec).
  Notation load_file := (load_file key kdf dec).

  (* whatever bytes open, under whatever password: they parse, carry the right
     version, and their ciphertext is the genuine encryption of exactly what is
     returned, under exactly the presented password and the file's salt and nonce *)
  Lemma opens_only_genuine : forall lvl bs p pl',
    load_bytes lvl bs p = Some pl' ->
    exists f', parse_file bs = Some f' /\ f_version f' = KS_FORMAT_VERSION /\
               f_ct f' = enc (kdf lvl p (f_salt f')) (f_nonce f') pl'.
  Proof.
    intros lvl bs p pl' H. unfold KeyStore.load_bytes in H.
    destruct (parse_file bs) as [f'|]; [|discriminate]. exists f'. split; [reflexivity|].
    unfold KeyStore.load_file in H. destruct (f_version f' =? KS_FORMAT_VERSION) eqn:E; [|discriminate].
    apply N.eqb_eq in E. split; [exact E|]. destruct Haead as [_ [H2 _]]. apply H2, H.
  Qed.

  (* the current file [f] holds [pl] under (P, L).  Any bytes whose ciphertext
     field is either the original one or not a genuine encryption at all (what an
     attacker without the key can produce): refusal, or exactly [pl], and then the
     password is the right one and salt, nonce and ciphertext are the original ones *)
  Lemma tamper_detected : forall f P L pl lvl bs p,
    f_ct f = enc (kdf L P (f_salt f)) (f_nonce f) pl ->
    (forall f', parse_file bs = Some f' -> f_ct f' = f_ct f \/ forall k n m, f_ct f' <> enc k n m) ->
    load_bytes lvl bs p = None \/
    (load_bytes lvl bs p = Some pl /\ p = P /\ lvl = L /\
     exists f', parse_file bs = Some f' /\ f_salt f' = f_salt f /\ f_nonce f' = f_nonce f /\ f_ct f' = f_ct f).
  Proof.
    intros f P L pl lvl bs p Hc Hun. destruct (load_bytes lvl bs p) as [pl'|] eqn:E; [right|left; reflexivity].
    destruct (opens_only_genuine _ _ _ _ E) as [f' [Hp [Hv Hc']]].
    destruct (Hun f' Hp) as [Hsame|Hno]; [|exfalso; exact (Hno _ _ _ Hc')].
    rewrite Hc' , Hc in Hsame. destruct Haead as [_ [_ H3]]. apply H3 in Hsame.
    destruct Hsame as [Hk [Hn Hm]]. apply Hkdf in Hk. destruct Hk as [? [? Hs]]. subst.
    repeat split. exists f'. repeat split; try assumption. rewrite Hc', Hc, Hs, Hn. reflexivity.
  Qed.

  (* header fields the AEAD does not cover (argon2_config, timestamps,
     encrypted_size, the auth_tag field) and trailing bytes: changing them changes
     nothing -- the original content is returned, never other material *)
  Lemma unauthenticated_fields : forall lvl f f' p,
    f_version f' = f_version f -> f_salt f' = f_salt f -> f_nonce f' = f_nonce f -> f_ct f' = f_ct f ->
    load_file lvl f' p = load_file lvl f p.
  Proof. intros lvl f f' p H1 H2 H3 H4. unfold KeyStore.load_file. rewrite H1, H2, H3, H4. reflexivity. Qed.

  (* the undamaged file (even followed by garbage) opens with the right password *)
  Lemma honest_bytes : forall f P L pl extra, shape f ->
    f_version f = KS_FORMAT_VERSION -> f_ct f = enc (kdf L P (f_salt f)) (f_nonce f) pl ->
    load_bytes L (encode_file f ++ extra) P = Some pl.
  Proof.
    intros f P L pl extra Hs Hv Hc. unfold KeyStore.load_bytes. rewrite parse_encode by exact Hs.
    unfold KeyStore.load_file. rewrite Hv, N.eqb_refl, Hc. destruct Haead as [H1 _]. apply H1.
  Qed.
End Tamper.

(* ------------------------------------------------------------ the toy primitives are ideal *)
Lemma toy_kdf_ideal : ideal_kdf toy_kdf.
Proof. intros l p s l' p' s' H. inversion H. auto. Qed.

Lemma toy_vf_ideal : ideal_vf toy_vf.
Proof. intros p q H. exact H. Qed.

Lemma unflat_flat : forall m fuel, (length (flat m) < fuel)%nat -> unflat fuel (flat m) = Some m.
Proof.
  induction m as [|[a b] t IH]; intros fuel H; destruct fuel as [|f]; try (cbn in H; lia); [reflexivity|].
  cbn [flat unflat]. cbn in H. rewrite IH by lia. reflexivity.
Qed.

Lemma unflat_inv : forall fuel bs m, unflat fuel bs = Some m -> bs = flat m.
Proof.
  induction fuel as [|f IH]; intros bs m H; [discriminate|].
  destruct bs as [|a [|b t]]; cbn in H; try discriminate.
  - inversion H. reflexivity.
  - destruct (unflat f t) as [pl|] eqn:E; [|discriminate]. inversion H. subst. cbn. rewrite (IH _ _ E). reflexivity.
Qed.

Lemma flat_inj : forall m m', flat m = flat m' -> m = m'.
Proof.
  induction m as [|[a b] t IH]; destruct m' as [|[a' b'] t']; cbn; intro H; try discriminate; [reflexivity|].
  inversion H. subst. f_equal. apply IH. assumption.
Qed.

Lemma app_inj_len {A} : forall (a a' b b' : list A), length a = length a' -> a ++ b = a' ++ b' -> a = a' /\ b = b'.
Proof.
  induction a as [|x a IH]; destruct a' as [|x' a']; cbn; intros b b' Hl H; try discriminate; [auto|].
  inversion H. subst. destruct (IH a' b b') as [? ?]; [lia|assumption|]. subst. auto.
Qed.

Lemma toy_aead_ideal : ideal_aead toy_enc toy_dec.
Proof.
  split; [|split].
  - intros k n m. unfold toy_dec, toy_enc. rewrite firstn_len_app, bytes_eqb_refl, skipn_len_app.
    apply unflat_flat. rewrite app_length. lia.
  - intros k n c m H. unfold toy_dec in H.
    destruct (bytes_eqb (firstn (length (toy_pre k n)) c) (toy_pre k n)) eqn:E; [|discriminate].
    apply bytes_eqb_eq in E. apply unflat_inv in H. unfold toy_enc. rewrite <- E, <- H. symmetry. apply firstn_skipn.
  - intros k n m k' n' m' H. unfold toy_enc, toy_pre in H. cbn [app] in H. inversion H as [[Hl H']].
    unfold len in Hl. apply Nat2N.inj in Hl. rewrite <- !app_assoc in H'.
    destruct (app_inj_len _ _ _ _ Hl H') as [Hk H2]. cbn [app] in H2. inversion H2 as [[Hl2 H3]].
    unfold len in Hl2. apply Nat2N.inj in Hl2. destruct (app_inj_len _ _ _ _ Hl2 H3) as [Hn Hm].
    apply flat_inj in Hm. auto.
Qed.
