(* C17, the "favours heavier candidates" clause: real-analysis lemma for the
   Efraimidis-Spirakis key u^(1/w) and the swap-dominance (coupling) theorem for [topk],
   the selection function used by Model/Placement.v, instantiated with real keys.
   Uses Coq's classical real numbers (axioms listed in runner/props/c17.py). *)
From Coq Require Import Reals Lra Permutation Sorted.
From SV Require Import Lib.Base Model.Placement Proofs.Placement.

(* ---------------------------------------------------------------- top-k = "fewer than k greater keys" *)
Section TopKChar.
  Context {K I : Type} (gt : K -> K -> bool).
  Hypothesis gt_irrefl : forall x, gt x x = false.
  Hypothesis gt_trans : forall x y z, gt x y = true -> gt y z = true -> gt x z = true.
  Hypothesis gt_total : forall x y, x <> y -> gt x y = true \/ gt y x = true.

  Let gtp (p q : K * I) : bool := gt (fst p) (fst q).
  Let R (p q : K * I) : Prop := gtp p q = true.

  Lemma gt_asym x y : gt x y = true -> gt y x = false.
  Proof.
    intros H. destruct (gt y x) eqn:E; [|reflexivity].
    rewrite <- (gt_irrefl x). symmetry. eapply gt_trans; eauto.
  Qed.

  Lemma insert_sorted x s :
    StronglySorted R s -> (forall y, In y s -> fst y <> fst x) -> StronglySorted R (insert_desc gtp x s).
  Proof.
    induction s as [|y t IH]; intros Hs Hd; cbn [insert_desc].
    - repeat constructor.
    - inversion Hs as [|? ? Hst Hy]; subst.
      destruct (gtp y x) eqn:E.
      + constructor.
        * apply IH; [exact Hst|]. intros z Hz. apply Hd. right; exact Hz.
        * rewrite Forall_forall. intros z Hz.
          eapply Permutation_in in Hz; [|apply insert_desc_perm].
          destruct Hz as [<-|Hz]; [exact E|]. rewrite Forall_forall in Hy. apply Hy; exact Hz.
      + assert (Hxy : R x y).
        { unfold R, gtp. destruct (gt_total (fst x) (fst y)) as [H|H]; [|exact H|].
          - intro Heq. apply (Hd y (or_introl eq_refl)). symmetry; exact Heq.
          - unfold gtp in E. rewrite E in H. discriminate. }
        constructor; [exact Hs|]. constructor; [exact Hxy|].
        rewrite Forall_forall in *. intros z Hz. unfold R, gtp in *. eapply gt_trans; [exact Hxy|apply Hy; exact Hz].
  Qed.

  Lemma sort_sorted l : NoDup (map fst l) -> StronglySorted R (sort_desc gtp l).
  Proof.
    induction l as [|x l IH]; intros Hnd; cbn [sort_desc fold_right]; [constructor|].
    fold (sort_desc gtp l). inversion Hnd as [|? ? Hx Hl]; subst.
    apply insert_sorted; [apply IH; exact Hl|].
    intros y Hy Heq. eapply Permutation_in in Hy; [|apply sort_desc_perm].
    apply Hx. rewrite <- Heq. apply in_map. exact Hy.
  Qed.

  Definition cnt (kx : K) (l : list (K * I)) : nat := length (filter (fun p => gt (fst p) kx) l).

  Lemma cnt_perm kx l l' : Permutation l l' -> cnt kx l = cnt kx l'.
  Proof.
    unfold cnt. induction 1 as [| a l l' _ IH | a b l | l l' l'' _ IH1 _ IH2]; cbn [filter].
    - reflexivity.
    - destruct (gt (fst a) kx); cbn [length]; rewrite IH; reflexivity.
    - destruct (gt (fst a) kx), (gt (fst b) kx); reflexivity.
    - rewrite IH1. exact IH2.
  Qed.

  Lemma cnt_zero kx l : (forall p, In p l -> gt (fst p) kx = false) -> cnt kx l = 0%nat.
  Proof.
    unfold cnt. induction l as [|a l IH]; intros H; cbn [filter]; [reflexivity|].
    rewrite (H a (or_introl eq_refl)). apply IH. intros p Hp. apply H. right; exact Hp.
  Qed.

  Lemma firstn_char s : StronglySorted R s -> NoDup (map fst s) ->
    forall k p, In p s -> (In p (firstn k s) <-> (cnt (fst p) s < k)%nat).
  Proof.
    induction s as [|h t IH]; intros Hs Hnd k p Hp; [contradiction|].
    inversion Hs as [|? ? Hst Hh]; subst. inversion Hnd as [|? ? Hnh Hnt]; subst.
    rewrite Forall_forall in Hh.
    destruct k as [|k]; [cbn [firstn]; split; [intros []|lia]|].
    cbn [firstn].
    destruct Hp as [<-|Hp].
    - unfold cnt. cbn [filter]. rewrite gt_irrefl. fold (cnt (fst h) t).
      rewrite cnt_zero; [split; [lia|left; reflexivity]|].
      intros q Hq. apply gt_asym. apply Hh. exact Hq.
    - assert (Hne : h <> p) by (intros ->; apply Hnh; apply in_map; exact Hp).
      pose proof (Hh p Hp) as Hgp. unfold R, gtp in Hgp.
      unfold cnt. cbn [filter]. rewrite Hgp. cbn [length]. fold (cnt (fst p) t).
      rewrite <- Nat.succ_lt_mono. rewrite <- (IH Hst Hnt k p Hp).
      split; [intros [E|H]; [contradiction|exact H]|intros H; right; exact H].
  Qed.

  (* an entry is among the k selected iff fewer than k entries carry a greater key *)
  Lemma topk_char keys (ids : list I) k kx x :
    NoDup keys -> NoDup ids -> length keys = length ids ->
    In (kx, x) (combine keys ids) ->
    (In x (topk gt keys ids k) <-> (cnt kx (combine keys ids) < k)%nat).
  Proof.
    intros Hk Hi Hl Hin. unfold topk. fold gtp. set (l := combine keys ids) in *.
    assert (Hfst : map fst l = keys) by (subst l; clear -Hl; revert ids Hl;
      induction keys as [|a ks IH]; intros [|b ids] Hl; cbn in *; try discriminate; [reflexivity|f_equal; apply IH; lia]).
    assert (Hsnd : map snd l = ids) by (apply combine_snd_eq; exact Hl).
    assert (Hndl : NoDup (map fst l)) by (rewrite Hfst; exact Hk).
    pose proof (sort_sorted l Hndl) as Hs.
    pose proof (sort_desc_perm gtp l) as Hp.
    assert (Hnds : NoDup (map fst (sort_desc gtp l))).
    { eapply Permutation_NoDup; [apply Permutation_map; symmetry; exact Hp|exact Hndl]. }
    assert (Hins : In (kx, x) (sort_desc gtp l)) by (eapply Permutation_in; [symmetry; exact Hp|exact Hin]).
    rewrite (cnt_perm kx l (sort_desc gtp l)) by (symmetry; exact Hp).
    rewrite <- (firstn_char _ Hs Hnds k (kx, x) Hins).
    split.
    - intros H. apply in_map_iff in H as [[ky y] [E Hy]]. cbn in E; subst y.
      assert (Hyl : In (ky, x) l) by (eapply Permutation_in; [exact Hp|eapply firstn_incl; exact Hy]).
      (* ids are distinct: the pair with id x is unique *)
      assert (ky = kx).
      { clear -Hi Hsnd Hyl Hin. rewrite <- Hsnd in Hi. clear Hsnd. induction l as [|q l IH]; [contradiction|].
        cbn in Hi. inversion Hi as [|? ? Hq Hl']; subst.
        destruct Hyl as [->|Hyl], Hin as [E|Hin].
        - inversion E; reflexivity.
        - exfalso. apply Hq. cbn. change x with (snd (kx, x)). apply in_map; exact Hin.
        - subst q. exfalso. apply Hq. cbn. change x with (snd (ky, x)). apply in_map; exact Hyl.
        - apply IH; assumption. }
      subst ky. exact Hy.
    - intros H. apply in_map_iff. exists (kx, x). split; [reflexivity|exact H].
  Qed.
End TopKChar.

(* ---------------------------------------------------------------- real keys *)
Local Open Scope R_scope.

Definition Rgtb (x y : R) : bool := if Rlt_dec y x then true else false.
Lemma Rgtb_true x y : Rgtb x y = true <-> y < x.
Proof. unfold Rgtb. destruct (Rlt_dec y x); split; intros; try lra; discriminate. Qed.
Lemma Rgtb_false x y : Rgtb x y = false <-> x <= y.
Proof. unfold Rgtb. destruct (Rlt_dec y x); split; intros; try lra; try discriminate; reflexivity. Qed.
Lemma Rgtb_irrefl x : Rgtb x x = false. Proof. apply Rgtb_false; lra. Qed.
Lemma Rgtb_trans x y z : Rgtb x y = true -> Rgtb y z = true -> Rgtb x z = true.
Proof. rewrite !Rgtb_true. lra. Qed.
Lemma Rgtb_total x y : x <> y -> Rgtb x y = true \/ Rgtb y x = true.
Proof. rewrite !Rgtb_true. intros H. destruct (Rtotal_order x y) as [|[|]]; [right|contradiction|left]; assumption. Qed.

(* the sampling key  u^(1/w) *)
Definition rkey (u w : R) : R := Rpower u (/ w).

Lemma rkey_monotone u w1 w2 : 0 < u < 1 -> 0 < w1 <= w2 -> rkey u w1 <= rkey u w2.
Proof.
  intros [Hu0 Hu1] [Hw1 Hw12]. unfold rkey, Rpower.
  assert (Hln : ln u < 0) by (rewrite <- ln_1; apply ln_increasing; lra).
  assert (Hinv : / w2 <= / w1) by (apply Rinv_le_contravar; lra).
  assert (Hle : / w1 * ln u <= / w2 * ln u) by nra.
  destruct Hle as [Hlt|Heq]; [left; apply exp_increasing; exact Hlt|right; rewrite Heq; reflexivity].
Qed.

(* ---------------------------------------------------------------- swap dominance *)
Definition entry := (N * (R * R))%type.         (* id, (weight, draw) *)
Definition e_id (e : entry) : N := fst e.
Definition e_w (e : entry) : R := fst (snd e).
Definition e_u (e : entry) : R := snd (snd e).
Definition e_key (e : entry) : R := rkey (e_u e) (e_w e).

(* WeightedSampler::sample_nodes over the reals: same [topk], keys u^(1/w) *)
Definition rsample (es : list entry) (k : nat) : list N := topk Rgtb (map e_key es) (map e_id es) k.

(* candidate a receives b's draw and b receives a's *)
Definition swap_draws (a b : N) (ua ub : R) (es : list entry) : list entry :=
  map (fun e => if (e_id e =? a)%N then (e_id e, (e_w e, ub))
                else if (e_id e =? b)%N then (e_id e, (e_w e, ua)) else e) es.

Definition cntP (P : entry -> bool) (l : list entry) : nat := length (filter P l).

Lemma cntP_le P Q l : (forall e, In e l -> P e = true -> Q e = true) -> (cntP P l <= cntP Q l)%nat.
Proof.
  unfold cntP. induction l as [|e l IH]; intros H; cbn [filter]; [lia|].
  assert (IH' := IH (fun e' He' => H e' (or_intror He'))).
  destruct (P e) eqn:EP.
  - rewrite (H e (or_introl eq_refl) EP). cbn [length]. lia.
  - destruct (Q e); cbn [length]; lia.
Qed.

Definition not_id (a : N) (e : entry) : bool := negb (e_id e =? a)%N.

Lemma filter_not_id_absent a l : ~ In a (map e_id l) -> filter (not_id a) l = l.
Proof.
  induction l as [|e l IH]; intros H; cbn [filter]; [reflexivity|].
  unfold not_id at 1. destruct (e_id e =? a)%N eqn:E.
  - apply N.eqb_eq in E. exfalso. apply H. left; exact E.
  - cbn [negb]. f_equal. apply IH. intros Hin. apply H. right; exact Hin.
Qed.

Lemma cntP_split P l e : NoDup (map e_id l) -> In e l ->
  cntP P l = (cntP P (filter (not_id (e_id e)) l) + (if P e then 1 else 0))%nat.
Proof.
  induction l as [|x l IH]; intros Hnd Hin; [contradiction|].
  cbn [map] in Hnd. inversion Hnd as [|? ? Hx Hl]; subst.
  destruct Hin as [->|Hin].
  - cbn [filter]. unfold not_id at 1. rewrite N.eqb_refl. cbn [negb].
    rewrite filter_not_id_absent by exact Hx. unfold cntP. cbn [filter].
    destruct (P e); cbn [length]; lia.
  - assert (Hne : e_id x <> e_id e) by (intros E; apply Hx; rewrite E; apply in_map; exact Hin).
    cbn [filter]. unfold not_id at 1. apply N.eqb_neq in Hne. rewrite Hne. cbn [negb].
    unfold cntP in *. cbn [filter]. specialize (IH Hl Hin).
    destruct (P x); cbn [length]; lia.
Qed.

Lemma map_id_filter_NoDup f (l : list entry) : NoDup (map e_id l) -> NoDup (map e_id (filter f l)).
Proof.
  induction l as [|x l IH]; intros H; cbn [filter map]; [constructor|].
  cbn [map] in H. inversion H as [|? ? Hx Hl]; subst.
  destruct (f x); [|apply IH; exact Hl]. cbn [map]. constructor; [|apply IH; exact Hl].
  intros Hin. apply Hx. apply in_map_iff in Hin as [y [E Hy]]. apply filter_In in Hy as [Hy _].
  rewrite <- E. apply in_map; exact Hy.
Qed.

Definition others (a b : N) (l : list entry) : list entry := filter (not_id b) (filter (not_id a) l).

Lemma cntP_split2 P l ea eb : NoDup (map e_id l) -> In ea l -> In eb l -> e_id ea <> e_id eb ->
  cntP P l = (cntP P (others (e_id ea) (e_id eb) l) + (if P ea then 1 else 0) + (if P eb then 1 else 0))%nat.
Proof.
  intros Hnd Ha Hb Hab. rewrite (cntP_split P l ea Hnd Ha).
  rewrite (cntP_split P (filter (not_id (e_id ea)) l) eb).
  - unfold others. lia.
  - apply map_id_filter_NoDup; exact Hnd.
  - apply filter_In. split; [exact Hb|]. unfold not_id. apply negb_true_iff, N.eqb_neq. congruence.
Qed.

Lemma swap_ids a b ua ub es : map e_id (swap_draws a b ua ub es) = map e_id es.
Proof.
  unfold swap_draws. rewrite map_map. apply map_ext. intros e.
  destruct (e_id e =? a)%N; [reflexivity|]. destruct (e_id e =? b)%N; reflexivity.
Qed.

Lemma others_swap a b ua ub es : others a b (swap_draws a b ua ub es) = others a b es.
Proof.
  unfold others, swap_draws. set (f := fun e : entry => _).
  induction es as [|e es IH]; [reflexivity|]. cbn [map].
  assert (Hone : filter (not_id b) (filter (not_id a) [f e]) = filter (not_id b) (filter (not_id a) [e])).
  { subst f. destruct e as [i [w u]]. unfold not_id, e_id, e_w. cbn [fst snd filter].
    destruct (i =? a)%N eqn:Ea; destruct (i =? b)%N eqn:Eb;
      cbn [fst snd negb filter]; rewrite ?Ea, ?Eb; cbn [fst snd negb filter]; rewrite ?Ea, ?Eb; cbn [negb]; reflexivity. }
  change (f e :: map f es) with ([f e] ++ map f es). change (e :: es) with ([e] ++ es).
  rewrite !filter_app. f_equal; [exact Hone|exact IH].
Qed.

Lemma others_in a b l e : In e (others a b l) -> In e l /\ e_id e <> a /\ e_id e <> b.
Proof.
  unfold others. intros H. apply filter_In in H as [H Hb]. apply filter_In in H as [H Ha].
  unfold not_id in *. apply negb_true_iff, N.eqb_neq in Ha, Hb. auto.
Qed.

(* membership in the sample = fewer than k entries with a greater key *)
Lemma rsample_char es k e :
  NoDup (map e_key es) -> NoDup (map e_id es) -> In e es ->
  (In (e_id e) (rsample es k) <-> (cntP (fun x => Rgtb (e_key x) (e_key e)) es < k)%nat).
Proof.
  intros Hk Hi He. unfold rsample.
  assert (Hc : combine (map e_key es) (map e_id es) = map (fun x => (e_key x, e_id x)) es).
  { clear. induction es as [|x es IH]; [reflexivity|]. cbn. f_equal. exact IH. }
  rewrite (topk_char Rgtb Rgtb_irrefl Rgtb_trans Rgtb_total (map e_key es) (map e_id es) k (e_key e) (e_id e) Hk Hi).
  - rewrite Hc. unfold cnt, cntP. rewrite <- (map_length (fun x => (e_key x, e_id x)) (filter _ es)).
    replace (map (fun x => (e_key x, e_id x)) (filter (fun x => Rgtb (e_key x) (e_key e)) es))
      with (filter (fun p : R * N => Rgtb (fst p) (e_key e)) (map (fun x => (e_key x, e_id x)) es)); [reflexivity|].
    clear. induction es as [|x es IH]; [reflexivity|]. cbn [map filter fst].
    destruct (Rgtb (e_key x) (e_key e)); cbn [map]; rewrite IH; reflexivity.
  - rewrite !map_length. reflexivity.
  - rewrite Hc. apply in_map_iff. exists e. auto.
Qed.

Theorem swap_dominance es k a b wa wb ua ub :
  NoDup (map e_id es) ->
  In (a, (wa, ua)) es -> In (b, (wb, ub)) es -> a <> b ->
  0 < wb <= wa -> 0 < ua < 1 -> 0 < ub < 1 ->
  let es' := swap_draws a b ua ub es in
  NoDup (map e_key es) -> NoDup (map e_key es') ->
  In b (rsample es k) -> ~ In a (rsample es k) ->
  In a (rsample es' k) /\ ~ In b (rsample es' k).
Proof.
  intros Hnd Ha Hb Hab Hw Hua Hub es' Hk Hk' Hbin Haout.
  set (ea := (a, (wa, ua)) : entry) in *. set (eb := (b, (wb, ub)) : entry) in *.
  set (ea' := (a, (wa, ub)) : entry). set (eb' := (b, (wb, ua)) : entry).
  assert (Hnd' : NoDup (map e_id es')) by (unfold es'; rewrite swap_ids; exact Hnd).
  assert (Ha' : In ea' es').
  { unfold es', swap_draws. apply in_map_iff. exists ea. split; [|exact Ha].
    cbn [ea e_id fst e_w snd]. rewrite N.eqb_refl. reflexivity. }
  assert (Hb' : In eb' es').
  { unfold es', swap_draws. apply in_map_iff. exists eb. split; [|exact Hb].
    cbn [eb e_id fst e_w snd]. apply not_eq_sym in Hab. apply N.eqb_neq in Hab. rewrite Hab, N.eqb_refl. reflexivity. }
  (* the four keys *)
  set (Ka := e_key ea). set (Kb := e_key eb). set (Ka' := e_key ea'). set (Kb' := e_key eb').
  assert (M1 : Kb <= Ka') by (apply rkey_monotone; [exact Hub|exact Hw]).
  assert (M2 : Kb' <= Ka) by (apply rkey_monotone; [exact Hua|exact Hw]).
  assert (Hb1 : (cntP (fun x => Rgtb (e_key x) Kb) es < k)%nat)
    by (apply (proj1 (rsample_char es k eb Hk Hnd Hb)); exact Hbin).
  assert (Ha1 : (k <= cntP (fun x => Rgtb (e_key x) Ka) es)%nat).
  { apply Nat.nlt_ge. intros Hc. apply Haout. apply (proj2 (rsample_char es k ea Hk Hnd Ha)). exact Hc. }
  clear Hbin Haout. rename Hb1 into Hbin. rename Ha1 into Haout.
  rewrite (cntP_split2 _ es ea eb Hnd Ha Hb Hab) in Hbin.
  rewrite (cntP_split2 _ es ea eb Hnd Ha Hb Hab) in Haout.
  change (e_id ea) with a in *. change (e_id eb) with b in *. fold Ka Kb in Hbin, Haout.
  rewrite Rgtb_irrefl in Hbin, Haout.
  (* b ranks before a in the original run *)
  assert (Hlt : Ka < Kb).
  { destruct (Rgtb Kb Ka) eqn:E; [apply Rgtb_true; exact E|]. exfalso.
    apply Rgtb_false in E.
    assert (Hle : (cntP (fun x => Rgtb (e_key x) Ka) (others a b es) <= cntP (fun x => Rgtb (e_key x) Kb) (others a b es))%nat).
    { apply cntP_le. intros e _. rewrite !Rgtb_true. lra. }
    destruct (Rgtb Ka Kb); lia. }
  assert (E1 : Rgtb Kb Ka = true) by (apply Rgtb_true; exact Hlt).
  assert (E2 : Rgtb Ka Kb = false) by (apply Rgtb_false; lra).
  rewrite E1 in Haout. rewrite E2 in Hbin.
  split.
  - apply (proj2 (rsample_char es' k ea' Hk' Hnd' Ha')).
    fold Ka'. rewrite (cntP_split2 _ es' ea' eb' Hnd' Ha' Hb' Hab).
    change (e_id ea') with a. change (e_id eb') with b. unfold es'. rewrite others_swap. fold Ka' Kb'.
    rewrite Rgtb_irrefl. replace (Rgtb Kb' Ka') with false by (symmetry; apply Rgtb_false; lra).
    assert (Hle : (cntP (fun x => Rgtb (e_key x) Ka') (others a b es) <= cntP (fun x => Rgtb (e_key x) Kb) (others a b es))%nat).
    { apply cntP_le. intros e _. rewrite !Rgtb_true. lra. }
    lia.
  - intros Hc. apply (proj1 (rsample_char es' k eb' Hk' Hnd' Hb')) in Hc. revert Hc. apply Nat.le_ngt.
    fold Kb'. rewrite (cntP_split2 _ es' ea' eb' Hnd' Ha' Hb' Hab).
    change (e_id ea') with a. change (e_id eb') with b. unfold es'. rewrite others_swap. fold Ka' Kb'.
    rewrite Rgtb_irrefl. replace (Rgtb Ka' Kb') with true by (symmetry; apply Rgtb_true; lra).
    assert (Hle : (cntP (fun x => Rgtb (e_key x) Ka) (others a b es) <= cntP (fun x => Rgtb (e_key x) Kb') (others a b es))%nat).
    { apply cntP_le. intros e _. rewrite !Rgtb_true. lra. }
    lia.
Qed.
