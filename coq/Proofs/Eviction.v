(* Lemmas about Model/Eviction.v: the incremental state of the manager is, for every history,
   the policy read off the history. *)
From SV Require Import Lib.Base Model.Eviction.
Local Open Scope N_scope.

Section EvP.
  Context {T : Type}.
  Variable ltb : T -> T -> bool.
  Notation ev := (@ev T).
  Notation st := (@st T).
  Notation cfg := (@cfg T).

  Lemma run_snoc : forall (h : list ev) e, run (h ++ [e]) = step (run h) e.
  Proof. intros. unfold run, run_from. rewrite fold_left_app. reflexivity. Qed.

  Lemma untracked_zero : forall p (rh : list ev), tracked p rh = false -> fails_since p rh = 0.
  Proof.
    induction rh as [|e tl IH]; intro H; [reflexivity|].
    destruct e; cbn [tracked fails_since] in *; try (destruct (p0 =? p); [try discriminate; try reflexivity|]); auto.
  Qed.

  Definition spec_pstate (p : N) (rh : list ev) : pstate :=
    mkP (if tracked p rh then Some (fails_since p rh) else None) (last_trust p rh) (last_mark p rh).

  Lemma run_spec : forall (h : list ev) p, s_of (run h) p = spec_pstate p (rev h).
  Proof.
    induction h as [|e h IH] using rev_ind; intro p; [reflexivity|].
    rewrite run_snoc, rev_app_distr. cbn [rev app].
    destruct e as [q|q|q t|q r|q]; cbn [step upd s_of]; rewrite (N.eqb_sym p q);
      unfold spec_pstate; cbn [tracked fails_since last_trust last_mark];
      destruct (q =? p) eqn:E; try (rewrite IH; reflexivity);
      apply N.eqb_eq in E; subst q; rewrite ?IH; unfold spec_pstate; cbn [p_fails p_trust p_mark]; try reflexivity.
    - (* Failure *)
      destruct (tracked p (rev h)) eqn:Tr.
      + f_equal. f_equal. lia.
      + rewrite (untracked_zero _ _ Tr). reflexivity.
  Qed.

  Lemma fails_since_le_length : forall p (rh : list ev), fails_since p rh <= N.of_nat (length rh).
  Proof.
    induction rh as [|e tl IH]; [cbn; lia|].
    destruct e; cbn [fails_since length]; try (destruct (p0 =? p)); lia.
  Qed.

  (* ---------- reason = policy ---------- *)
  Lemma reason_spec : forall (c : cfg) (h : list ev) p,
    reason_of ltb c (s_of (run h) p) = policy_reason ltb c p (rev h).
  Proof.
    intros c h p. rewrite run_spec. unfold reason_of, policy_reason, spec_pstate, fails_evict, trust_evict, fails_of.
    cbn [p_mark p_fails p_trust].
    destruct (last_mark p (rev h)); [reflexivity|].
    destruct (tracked p (rev h)) eqn:Tr; cbn [andb].
    - destruct (max_fail c <=? fails_since p (rev h)); [reflexivity|].
      destruct (last_trust p (rev h)) as [t|]; [destruct (ltb t (min_trust c))|]; reflexivity.
    - destruct (last_trust p (rev h)) as [t|]; [destruct (ltb t (min_trust c))|]; reflexivity.
  Qed.

  Lemma candidate_iff : forall (c : cfg) (h : list ev) p,
    let rh := rev h in
    is_candidate ltb c (s_of (run h) p) = true <->
    (tracked p rh = true /\ max_fail c <= fails_since p rh) \/
    (exists t, last_trust p rh = Some t /\ ltb t (min_trust c) = true) \/
    (exists r, last_mark p rh = Some r).
  Proof.
    intros c h p rh. unfold is_candidate. rewrite reason_spec. fold rh. unfold policy_reason.
    destruct (last_mark p rh) as [r|].
    - split; [intros _; right; right; exists r; reflexivity|reflexivity].
    - destruct (tracked p rh) eqn:Tr; cbn [andb].
      + destruct (N.leb_spec (max_fail c) (fails_since p rh)) as [L|L].
        * split; [intros _; left; split; [reflexivity|exact L]|reflexivity].
        * destruct (last_trust p rh) as [t|].
          -- destruct (ltb t (min_trust c)) eqn:Lt.
             ++ split; [intros _; right; left; exists t; split; [reflexivity|exact Lt]|reflexivity].
             ++ split; [discriminate|]. intros [[_ H]|[[t' [H1 H2]]|[r H]]]; [lia| |discriminate].
                injection H1 as <-. congruence.
          -- split; [discriminate|]. intros [[_ H]|[[t' [H1 H2]]|[r H]]]; [lia|discriminate|discriminate].
      + destruct (last_trust p rh) as [t|].
        * destruct (ltb t (min_trust c)) eqn:Lt.
          -- split; [intros _; right; left; exists t; split; [reflexivity|exact Lt]|reflexivity].
          -- split; [discriminate|]. intros [[H _]|[[t' [H1 H2]]|[r H]]]; [discriminate| |discriminate].
             injection H1 as <-. congruence.
        * split; [discriminate|]. intros [[H _]|[[t' [H1 H2]]|[r H]]]; discriminate.
  Qed.

  (* with a positive failure limit "tracked" is implied by the count *)
  Lemma candidate_iff_pos : forall (c : cfg) (h : list ev) p, 0 < max_fail c ->
    let rh := rev h in
    is_candidate ltb c (s_of (run h) p) = true <->
    max_fail c <= fails_since p rh \/
    (exists t, last_trust p rh = Some t /\ ltb t (min_trust c) = true) \/
    (exists r, last_mark p rh = Some r).
  Proof.
    intros c h p Hpos rh. rewrite candidate_iff. fold rh. split.
    - intros [[_ H]|H]; [left; exact H|right; exact H].
    - intros [H|H]; [|right; exact H]. left. split; [|exact H].
      destruct (tracked p rh) eqn:Tr; [reflexivity|]. rewrite (untracked_zero _ _ Tr) in H. lia.
  Qed.

  (* ---------- one success clears failure-based candidacy ---------- *)
  Lemma success_clears : forall (c : cfg) (h : list ev) p, 0 < max_fail c ->
    let s := run (h ++ [Success p]) in
    fails_of (s_of s p) = 0 /\
    fails_evict c (s_of s p) = false /\
    (is_candidate ltb c (s_of s p) = true <->
     (exists t, last_trust p (rev h) = Some t /\ ltb t (min_trust c) = true) \/
     (exists r, last_mark p (rev h) = Some r)).
  Proof.
    intros c h p Hpos s. subst s.
    assert (R : rev (h ++ [Success p]) = Success p :: rev h) by (rewrite rev_app_distr; reflexivity).
    split; [|split].
    - rewrite run_spec, R. unfold spec_pstate, fails_of. cbn [tracked fails_since p_fails]. rewrite N.eqb_refl. reflexivity.
    - rewrite run_spec, R. unfold spec_pstate, fails_evict. cbn [tracked fails_since p_fails]. rewrite N.eqb_refl.
      apply N.leb_gt. exact Hpos.
    - rewrite candidate_iff_pos by exact Hpos. rewrite R. cbn [fails_since last_trust last_mark]. rewrite N.eqb_refl.
      split; [intros [H|H]; [lia|exact H]|intro H; right; exact H].
  Qed.

  (* after a success the peer needs max_fail further failures of its own *)
  Lemma fails_since_after_success : forall p (h1 h2 : list ev),
    fails_since p (rev (h1 ++ Success p :: h2)) <= N.of_nat (length h2).
  Proof.
    intros p h1 h2. rewrite rev_app_distr. cbn [rev]. rewrite <- app_assoc. cbn [app].
    induction (rev h2) as [|e tl IH] eqn:E in h2 |- *.
    - cbn [app fails_since]. rewrite N.eqb_refl. lia.
    - assert (L : length h2 = S (length tl)) by (rewrite <- (rev_length h2), E; reflexivity).
      specialize (IH (rev tl) (rev_involutive tl)). rewrite rev_length in IH.
      rewrite L. destruct e; cbn [app fails_since]; try (destruct (p0 =? p)); lia.
  Qed.

  Lemma no_failure_candidacy_soon_after_success : forall (c : cfg) (h1 h2 : list ev) p,
    N.of_nat (length h2) < max_fail c ->
    fails_evict c (s_of (run (h1 ++ Success p :: h2)) p) = false.
  Proof.
    intros c h1 h2 p H. rewrite run_spec. unfold spec_pstate, fails_evict. cbn [p_fails].
    destruct (tracked p (rev (h1 ++ Success p :: h2))); [|reflexivity].
    apply N.leb_gt. pose proof (fails_since_after_success p h1 h2). lia.
  Qed.

  (* ---------- the candidate list ---------- *)
  Definition SeenInv (s : st) : Prop := forall p, ~ In p (s_seen s) -> s_of s p = p0.

  Lemma seen_run : forall (h : list ev), SeenInv (run h).
  Proof.
    induction h as [|e h IH] using rev_ind; [intros p _; reflexivity|].
    rewrite run_snoc. intros p Hp.
    destruct e as [q|q|q t|q r|q]; cbn [step upd s_of s_seen] in *;
      (destruct (p =? q) eqn:E; [apply N.eqb_eq in E; subst; exfalso; apply Hp; left; reflexivity|
                                 apply IH; intro; apply Hp; right; assumption]).
  Qed.

  Lemma dedupN_in : forall l x, In x (dedupN l) <-> In x l.
  Proof.
    induction l as [|y l IH]; intro x; cbn [dedupN]; [tauto|].
    cbn [In]. rewrite filter_In, IH. destruct (N.eqb_spec x y); cbn [negb]; intuition congruence.
  Qed.
  Lemma dedupN_nodup : forall l, NoDup (dedupN l).
  Proof.
    induction l as [|y l IH]; cbn [dedupN]; constructor.
    - rewrite filter_In. intros [_ H]. rewrite N.eqb_refl in H. discriminate.
    - apply NoDup_filter. exact IH.
  Qed.

  Lemma candidates_in_gen : forall (c : cfg) (s : st) l p r,
    In (p, r) (flat_map (fun p => match reason_of ltb c (s_of s p) with Some r => [(p, r)] | None => [] end) l) <->
    In p l /\ reason_of ltb c (s_of s p) = Some r.
  Proof.
    intros c s l p r. rewrite in_flat_map. split.
    - intros [q [Hq H]]. destruct (reason_of ltb c (s_of s q)) as [r'|] eqn:E; [|destruct H].
      destruct H as [H|[]]. injection H as <- <-. split; assumption.
    - intros [Hp H]. exists p. split; [exact Hp|]. rewrite H. left. reflexivity.
  Qed.

  Lemma reason_p0 : forall (c : cfg), reason_of ltb c p0 = None.
  Proof. reflexivity. Qed.

  Lemma candidates_in : forall (c : cfg) (h : list ev) p r,
    In (p, r) (candidates ltb c (run h)) <-> reason_of ltb c (s_of (run h) p) = Some r.
  Proof.
    intros c h p r. unfold candidates. rewrite candidates_in_gen, dedupN_in. split; [tauto|].
    intro H. split; [|exact H].
    destruct (in_dec N.eq_dec p (s_seen (run h))) as [I|I]; [exact I|].
    rewrite (seen_run h p I), reason_p0 in H. discriminate.
  Qed.

  Lemma candidates_nodup : forall (c : cfg) (s : st), NoDup (map fst (candidates ltb c s)).
  Proof.
    intros c s. unfold candidates. generalize (dedupN_nodup (s_seen s)).
    induction (dedupN (s_seen s)) as [|q l IH]; intro ND; cbn [flat_map]; [constructor|].
    inversion ND as [|? ? Hq ND']; subst. rewrite map_app. 
    destruct (reason_of ltb c (s_of s q)) as [r|]; cbn [map app fst]; [|apply IH, ND'].
    constructor; [|apply IH, ND'].
    rewrite in_map_iff. intros [[p r'] [E H]]. cbn [fst] in E. subst p.
    apply candidates_in_gen in H. tauto.
  Qed.
End EvP.
