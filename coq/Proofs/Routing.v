(* Lemmas and invariants for Model/Routing.v (C02; reused by C01/C13/C16). *)
From Coq Require Import Sorting.Mergesort Sorting.Sorted Permutation RelationClasses.
From SV Require Import Lib.Base Lib.Xor Gen.RoutingConsts Model.Routing.
Local Open Scope N_scope.

(* ------------------------------------------------------------------ *)
(* constants the proofs rely on (regenerated from the source)          *)
Lemma bucket_count_256 : RT_BUCKET_COUNT = 256.
Proof. reflexivity. Qed.
Lemma expansion_factor_pos : 1 <= RT_CANDIDATE_EXPANSION_FACTOR.
Proof. unfold RT_CANDIDATE_EXPANSION_FACTOR. lia. Qed.

(* ------------------------------------------------------------------ *)
(* small list facts                                                     *)
Lemma takeN_firstn : forall l n, takeN n l = firstn (N.to_nat n) l.
Proof.
  induction l as [|x tl IH]; intros n; cbn [takeN].
  - rewrite firstn_nil. reflexivity.
  - destruct (N.eqb_spec n 0) as [E|E].
    + subst. reflexivity.
    + replace (N.to_nat n) with (S (N.to_nat (n - 1))) by lia. cbn [firstn]. rewrite IH. reflexivity.
Qed.

Lemma takeN_length : forall l n, N.of_nat (length (takeN n l)) <= n.
Proof. intros. rewrite takeN_firstn. pose proof (firstn_le_length (N.to_nat n) l). rewrite firstn_length. lia. Qed.

Lemma nodup_app : forall (l1 l2 : list N), NoDup l1 -> NoDup l2 -> (forall x, In x l1 -> In x l2 -> False) -> NoDup (l1 ++ l2).
Proof.
  induction l1 as [|a l1 IH]; intros l2 H1 H2 D; cbn [app]; [exact H2|].
  inversion H1; subst. constructor.
  - rewrite in_app_iff. intros [I|I]; [contradiction|]. apply (D a); [left; reflexivity|exact I].
  - apply IH; try assumption. intros x I1 I2. apply (D x); [right; exact I1|exact I2].
Qed.

Lemma filter_length_le : forall (f : node -> bool) l, (length (filter f l) <= length l)%nat.
Proof. induction l as [|a l IH]; cbn [filter length]; [lia|]. destruct (f a); cbn [length]; lia. Qed.

Lemma ids_app : forall a b, ids (a ++ b) = ids a ++ ids b.
Proof. intros. unfold ids. apply map_app. Qed.

Lemma in_ids : forall x l, In x l -> In (n_id x) (ids l).
Proof. intros. unfold ids. apply in_map. assumption. Qed.

Lemma in_ids_inv : forall i l, In i (ids l) -> exists x, In x l /\ n_id x = i.
Proof. unfold ids. intros i l H. apply in_map_iff in H. destruct H as [x [E I]]. exists x. auto. Qed.

Lemma nodup_ids_filter : forall f l, NoDup (ids l) -> NoDup (ids (filter f l)).
Proof.
  induction l as [|x l IH]; intros H; cbn [filter]; [constructor|].
  inversion H; subst. destruct (f x).
  - cbn [ids map]. constructor; [|apply IH; assumption].
    intro I. apply in_ids_inv in I. destruct I as [y [Iy Ey]]. apply filter_In in Iy. destruct Iy as [Iy _].
    apply H2. rewrite <- Ey. apply in_ids. exact Iy.
  - apply IH. assumption.
Qed.

Lemma nodup_ids_nodup : forall l, NoDup (ids l) -> NoDup l.
Proof. unfold ids. intros l. apply NoDup_map_inv. Qed.

Lemma nodup_ids_inj : forall l x y, NoDup (ids l) -> In x l -> In y l -> n_id x = n_id y -> x = y.
Proof.
  induction l as [|a l IH]; intros x y H Ix Iy E; [contradiction|].
  inversion H; subst. destruct Ix as [Ix|Ix], Iy as [Iy|Iy]; subst.
  - reflexivity.
  - exfalso. apply H2. rewrite E. apply in_ids. exact Iy.
  - exfalso. apply H2. rewrite <- E. apply in_ids. exact Ix.
  - apply IH; assumption.
Qed.

Definition node_eq_dec : forall a b : node, {a = b} + {a <> b}.
Proof. decide equality; apply N.eq_dec. Defined.

Lemma node_eqb_eq : forall a b, node_eqb a b = true <-> a = b.
Proof.
  intros [i p] [j q]. unfold node_eqb. cbn [n_id n_pl]. rewrite andb_true_iff, !N.eqb_eq.
  split; [intros [-> ->]; reflexivity|intros E; inversion E; auto].
Qed.

(* ------------------------------------------------------------------ *)
(* sorted lists are unique                                              *)
Definition dlt (key : N) (a b : node) : Prop := dist key (n_id a) < dist key (n_id b).
Definition dle (key : N) (a b : node) : Prop := dist key (n_id a) <= dist key (n_id b).

Lemma sorted_unique : forall key l1 l2,
  StronglySorted (dlt key) l1 -> StronglySorted (dlt key) l2 ->
  (forall x, In x l1 <-> In x l2) -> l1 = l2.
Proof.
  intros key. induction l1 as [|a l1 IH]; intros l2 S1 S2 E.
  - destruct l2 as [|b l2]; [reflexivity|]. exfalso. apply (proj2 (E b)). left. reflexivity.
  - destruct l2 as [|b l2]; [exfalso; apply (proj1 (E a)); left; reflexivity|].
    inversion S1 as [|? ? S1' F1]; subst. inversion S2 as [|? ? S2' F2]; subst.
    rewrite Forall_forall in F1, F2.
    assert (a = b).
    { destruct (proj1 (E a) (or_introl eq_refl)) as [Hab|Hab]; [auto|].
      destruct (proj2 (E b) (or_introl eq_refl)) as [Hba|Hba]; [auto|].
      specialize (F1 _ Hba). specialize (F2 _ Hab). unfold dlt in *. lia. }
    subst b. f_equal. apply IH; try assumption.
    intros x. split; intros I.
    + destruct (proj1 (E x) (or_intror I)) as [Hx|Hx]; [|exact Hx].
      subst x. specialize (F1 _ I). unfold dlt in F1. lia.
    + destruct (proj2 (E x) (or_intror I)) as [Hx|Hx]; [|exact Hx].
      subst x. specialize (F2 _ I). unfold dlt in F2. lia.
Qed.

Lemma ss_app : forall (R : node -> node -> Prop) l1 l2,
  StronglySorted R l1 -> StronglySorted R l2 -> (forall a b, In a l1 -> In b l2 -> R a b) ->
  StronglySorted R (l1 ++ l2).
Proof.
  induction l1 as [|a l1 IH]; intros l2 S1 S2 C; cbn [app]; [exact S2|].
  inversion S1; subst. constructor.
  - apply IH; try assumption. intros. apply C; [right|]; assumption.
  - apply Forall_app. split; [assumption|]. apply Forall_forall. intros b Ib. apply C; [left; reflexivity|exact Ib].
Qed.

Lemma ss_app_inv : forall (R : node -> node -> Prop) l1 l2,
  StronglySorted R (l1 ++ l2) -> forall a b, In a l1 -> In b l2 -> R a b.
Proof.
  induction l1 as [|x l1 IH]; intros l2 S a b Ia Ib; [contradiction|].
  cbn [app] in S. inversion S as [|? ? S' F]; subst. destruct Ia as [Ia|Ia].
  - subst. rewrite Forall_forall in F. apply F. apply in_app_iff. right. exact Ib.
  - apply (IH l2); assumption.
Qed.

Lemma ss_firstn : forall (R : node -> node -> Prop) n l, StronglySorted R l -> StronglySorted R (firstn n l).
Proof.
  induction n as [|n IH]; intros l S; [constructor|]. destruct l as [|a l]; [constructor|].
  inversion S; subst. cbn [firstn]. constructor; [apply IH; assumption|].
  rewrite Forall_forall in *. intros x I. apply H2. revert I. clear. revert l. induction n; intros l I; [contradiction|].
  destruct l; [contradiction|]. cbn [firstn] in I. destruct I; [left; assumption|right; auto].
Qed.

(* ------------------------------------------------------------------ *)
(* sort_by_dist                                                          *)
Lemma map_snd_with_dist : forall key l, map snd (map (with_dist key) l) = l.
Proof. intros. rewrite map_map. cbn [with_dist snd]. apply map_id. Qed.

Lemma sort_perm : forall key l, Permutation l (sort_by_dist key l).
Proof.
  intros key l. unfold sort_by_dist.
  rewrite <- (map_snd_with_dist key l) at 1.
  apply Permutation_map. apply DistSort.Permuted_sort.
Qed.

Lemma sort_in : forall key l x, In x (sort_by_dist key l) <-> In x l.
Proof. intros. split; apply Permutation_in; [apply Permutation_sym|]; apply sort_perm. Qed.

Lemma sort_length : forall key l, length (sort_by_dist key l) = length l.
Proof. intros. symmetry. apply Permutation_length, sort_perm. Qed.

Lemma sort_ids_nodup : forall key l, NoDup (ids l) -> NoDup (ids (sort_by_dist key l)).
Proof. intros key l H. unfold ids. eapply Permutation_NoDup; [|exact H]. apply Permutation_map, sort_perm. Qed.

Local Instance leb_trans : Transitive (fun x y : N * node => is_true (DistOrder.leb x y)).
Proof. intros a b c. unfold is_true, DistOrder.leb. rewrite !N.leb_le. lia. Qed.

Lemma sort_sorted_le : forall key l, StronglySorted (dle key) (sort_by_dist key l).
Proof.
  intros key l. unfold sort_by_dist.
  pose proof (DistSort.StronglySorted_sort (map (with_dist key) l) leb_trans) as S.
  assert (W : forall p, In p (DistSort.sort (map (with_dist key) l)) -> fst p = dist key (n_id (snd p))).
  { intros p I. apply (Permutation_in _ (Permutation_sym (DistSort.Permuted_sort _))) in I.
    apply in_map_iff in I. destruct I as [x [E _]]. subst p. reflexivity. }
  induction S as [|p s S IH F]; cbn [map]; [constructor|].
  constructor.
  - apply IH. intros q I. apply W. right. exact I.
  - rewrite Forall_forall in F. apply Forall_forall. intros y Iy. apply in_map_iff in Iy.
    destruct Iy as [q [E Iq]]. subst y. unfold dle.
    rewrite <- (W p (or_introl eq_refl)), <- (W q (or_intror Iq)).
    specialize (F q Iq). unfold is_true, DistOrder.leb in F. apply N.leb_le in F. exact F.
Qed.

Lemma ss_le_lt : forall key l, NoDup (ids l) -> StronglySorted (dle key) l -> StronglySorted (dlt key) l.
Proof.
  intros key. induction l as [|a l IH]; intros ND S; [constructor|].
  inversion S as [|? ? S' F]; subst. cbn [ids map] in ND. inversion ND as [|? ? NI ND']; subst.
  constructor; [apply IH; assumption|].
  rewrite Forall_forall in *. intros y Iy. specialize (F y Iy). unfold dle, dlt in *.
  assert (dist key (n_id a) <> dist key (n_id y)).
  { intro E. apply dist_inj in E. apply NI. rewrite E. apply in_ids. exact Iy. }
  lia.
Qed.

Lemma sort_sorted : forall key l, NoDup (ids l) -> StronglySorted (dlt key) (sort_by_dist key l).
Proof. intros. apply ss_le_lt; [apply sort_ids_nodup; assumption|apply sort_sorted_le]. Qed.

(* the sorted list is determined by its members: any correct sort, any traversal order *)
Lemma sort_unique : forall key l s, NoDup (ids l) ->
  StronglySorted (dlt key) s -> (forall x, In x s <-> In x l) -> s = sort_by_dist key l.
Proof.
  intros key l s ND S E. apply (sorted_unique key); [exact S|apply sort_sorted; exact ND|].
  intros x. rewrite sort_in. apply E.
Qed.

(* ------------------------------------------------------------------ *)
(* table invariant                                                      *)
Definition Inv (t : table) : Prop :=
  key_ok (t_local t) /\
  (forall i x, In x (t_buckets t i) ->
     key_ok (n_id x) /\ n_id x <> t_local t /\ bucket_index (t_local t) (n_id x) = i) /\
  (forall i, NoDup (ids (t_buckets t i))) /\
  (forall i, N.of_nat (length (t_buckets t i)) <= t_cap t).

Lemma inv_empty : forall l cap, key_ok l -> Inv (empty_table l cap).
Proof.
  intros l cap H. unfold Inv, empty_table. cbn. repeat split; try contradiction; try constructor; try assumption. lia.
Qed.

Lemma without_id_in : forall id b x, In x (without_id id b) <-> In x b /\ n_id x <> id.
Proof.
  intros. unfold without_id. rewrite filter_In, negb_true_iff, N.eqb_neq. reflexivity.
Qed.

Lemma without_id_length : forall id b, (length (without_id id b) <= length b)%nat.
Proof. intros. unfold without_id. apply filter_length_le. Qed.

Lemma without_id_length_lt : forall id b x, In x b -> n_id x = id -> (length (without_id id b) < length b)%nat.
Proof.
  intros id. induction b as [|a b IH]; intros x I E; [contradiction|].
  unfold without_id in *. cbn [filter length]. destruct I as [I|I].
  - subst a. rewrite E, N.eqb_refl. cbn [negb]. pose proof (filter_length_le (fun y => negb (n_id y =? id)) b). lia.
  - specialize (IH x I E). destruct (negb (n_id a =? id)); cbn [length]; lia.
Qed.

Lemma bucket_add_spec : forall cap b x b',
  NoDup (ids b) -> N.of_nat (length b) <= cap -> bucket_add cap b x = Some b' ->
  NoDup (ids b') /\ N.of_nat (length b') <= cap /\ (forall y, In y b' -> In y b \/ y = x).
Proof.
  intros cap b x b' ND L H. unfold bucket_add in H.
  destruct (find (fun y => n_id y =? n_id x) b) as [old|] eqn:F.
  - apply find_some in F. destruct F as [Io Eo]. apply N.eqb_eq in Eo.
    injection H as <-. repeat split.
    + rewrite ids_app. apply nodup_app.
      * apply nodup_ids_filter. exact ND.
      * cbn. constructor; [intros []|constructor].
      * intros i I1 I2. cbn in I2. destruct I2 as [I2|[]]. subst i.
        apply in_ids_inv in I1. destruct I1 as [y [Iy Ey]]. apply without_id_in in Iy. destruct Iy as [_ Ny]. congruence.
    + rewrite app_length. cbn [length]. pose proof (without_id_length_lt (n_id x) b old Io Eo). lia.
    + intros y Iy. apply in_app_iff in Iy. destruct Iy as [Iy|[Iy|[]]].
      * apply without_id_in in Iy. left. tauto.
      * subst. left. exact Io.
  - destruct (N.ltb_spec (N.of_nat (length b)) cap) as [Lt|Ge]; [|discriminate].
    injection H as <-. repeat split.
    + rewrite ids_app. apply nodup_app; [exact ND|cbn; constructor; [intros []|constructor]|].
      intros i I1 I2. cbn in I2. destruct I2 as [I2|[]]. subst i.
      apply in_ids_inv in I1. destruct I1 as [y [Iy Ey]].
      pose proof (find_none _ _ F y Iy) as Hn. cbn in Hn. apply N.eqb_neq in Hn. congruence.
    + rewrite app_length. cbn [length]. lia.
    + intros y Iy. apply in_app_iff in Iy. destruct Iy as [Iy|[Iy|[]]]; [left|right]; auto.
Qed.

Lemma inv_set_bucket : forall t i b,
  Inv t ->
  (forall x, In x b -> key_ok (n_id x) /\ n_id x <> t_local t /\ bucket_index (t_local t) (n_id x) = i) ->
  NoDup (ids b) -> N.of_nat (length b) <= t_cap t ->
  Inv (set_bucket t i b).
Proof.
  intros t i b [Hl [Hp [Hn Hc]]] Pb Nb Cb. unfold Inv, set_bucket. cbn [t_local t_cap t_buckets].
  split; [exact Hl|]. split; [|split].
  - intros j x I. destruct (N.eqb_spec j i) as [-> |Ne]; [apply Pb; exact I|apply Hp; exact I].
  - intros j. destruct (N.eqb_spec j i); [exact Nb|apply Hn].
  - intros j. destruct (N.eqb_spec j i); [exact Cb|apply Hc].
Qed.

Lemma inv_table_add : forall t x, Inv t -> key_ok (n_id x) -> Inv (fst (table_add t x)).
Proof.
  intros t x I Kx. unfold table_add.
  destruct (N.eqb_spec (n_id x) (t_local t)) as [E|Ne]; [exact I|].
  destruct (bucket_add (t_cap t) (t_buckets t (bucket_index (t_local t) (n_id x))) x) as [b'|] eqn:B; [|exact I].
  cbn [fst]. pose proof I as [Hl [Hp [Hn Hc]]].
  destruct (bucket_add_spec _ _ _ _ (Hn _) (Hc _) B) as [N' [C' M']].
  apply inv_set_bucket; try assumption.
  intros y Iy. destruct (M' y Iy) as [Iy'| ->]; [apply Hp; exact Iy'|]. repeat split; auto.
Qed.

Lemma inv_table_remove : forall t id, Inv t -> Inv (table_remove t id).
Proof.
  intros t id I. unfold table_remove. pose proof I as [Hl [Hp [Hn Hc]]].
  apply inv_set_bucket; try assumption.
  - intros x Ix. apply without_id_in in Ix. apply Hp. tauto.
  - apply nodup_ids_filter. apply Hn.
  - pose proof (without_id_length id (t_buckets t (bucket_index (t_local t) id))). specialize (Hc (bucket_index (t_local t) id)). lia.
Qed.

Lemma inv_table_join : forall l t, Inv t -> Forall (fun x => key_ok (n_id x)) l -> Inv (fst (table_join t l)).
Proof.
  induction l as [|x l IH]; intros t I F; cbn [table_join]; [exact I|].
  inversion F; subst. pose proof (inv_table_add t x I H1) as I1.
  destruct (table_add t x) as [t1 ok]. cbn [fst] in I1. destruct ok; [apply IH; assumption|exact I1].
Qed.

Lemma inv_engine_add : forall t x g, Inv t -> key_ok (n_id x) -> Inv (fst (engine_add t x g)).
Proof.
  intros t x g I K. unfold engine_add.
  destruct ((n_id x =? t_local t) || table_contains t (n_id x)); [apply inv_table_add; assumption|].
  destruct g; [apply inv_table_add; assumption|exact I].
Qed.

Definition op_ok (o : op) : Prop := op_okb o = true.

Lemma key_okb_ok : forall a, key_okb a = true <-> key_ok a.
Proof. intros. unfold key_okb, key_ok. apply N.ltb_lt. Qed.

Lemma inv_step : forall t o, Inv t -> op_ok o -> Inv (fst (step t o)).
Proof.
  intros t o I K. unfold op_ok in K. destruct o; cbn [step op_okb] in *.
  - pose proof (inv_table_join l t I) as J. destruct (table_join t l) as [t1 ok]. cbn [fst] in *.
    apply J. apply Forall_forall. intros y Iy. rewrite forallb_forall in K. apply key_okb_ok, K, Iy.
  - pose proof (inv_engine_add t x gate I) as J. destruct (engine_add t x gate) as [t1 ok]. cbn [fst] in *.
    apply J. apply key_okb_ok. exact K.
  - apply inv_table_remove. exact I.
  - apply inv_table_remove. exact I.
  - exact I.
  - exact I.
  - exact I.
Qed.

Lemma inv_run : forall ops t, Inv t -> Forall op_ok ops -> Inv (fst (run t ops)).
Proof.
  induction ops as [|o ops IH]; intros t I F; cbn [run]; [exact I|].
  inversion F; subst. pose proof (inv_step t o I H1) as I1.
  destruct (step t o) as [t1 r]. cbn [fst] in I1.
  specialize (IH t1 I1 H2). destruct (run t1 ops) as [t2 rs]. exact IH.
Qed.

Lemma run_cap : forall ops t, t_cap (fst (run t ops)) = t_cap t /\ t_local (fst (run t ops)) = t_local t.
Proof.
  assert (A : forall t x, t_cap (fst (table_add t x)) = t_cap t /\ t_local (fst (table_add t x)) = t_local t).
  { intros. unfold table_add. destruct (_ =? _); [auto|]. destruct (bucket_add _ _ _); auto. }
  assert (J : forall l t, t_cap (fst (table_join t l)) = t_cap t /\ t_local (fst (table_join t l)) = t_local t).
  { induction l as [|x l IH]; intros t; cbn [table_join]; [auto|].
    pose proof (A t x) as [A1 A2]. destruct (table_add t x) as [t1 ok]. cbn [fst] in *.
    destruct ok; [|auto]. destruct (IH t1) as [B1 B2]. split; congruence. }
  assert (S : forall t o, t_cap (fst (step t o)) = t_cap t /\ t_local (fst (step t o)) = t_local t).
  { intros t o. destruct o; cbn [step]; auto.
    - pose proof (J l t). destruct (table_join t l). exact H.
    - unfold engine_add. destruct (_ || _).
      + pose proof (A t x). destruct (table_add t x). exact H.
      + destruct gate; [pose proof (A t x); destruct (table_add t x); exact H|auto]. }
  induction ops as [|o ops IH]; intros t; cbn [run]; [auto|].
  pose proof (S t o) as [S1 S2]. destruct (step t o) as [t1 r]. cbn [fst] in *.
  destruct (IH t1) as [B1 B2]. destruct (run t1 ops) as [t2 rs]. cbn [fst] in *. split; congruence.
Qed.

(* ---- consequences of the invariant for the flattened table ---- *)
Lemma in_bucket_indices : forall i, In i bucket_indices <-> i <= 255.
Proof.
  intros i. unfold bucket_indices. rewrite in_map_iff. split.
  - intros [n [E I]]. apply in_seq in I. lia.
  - intros H. exists (N.to_nat i). split; [lia|]. apply in_seq. lia.
Qed.

Lemma in_all_nodes : forall t x, Inv t -> (In x (all_nodes t) <-> exists i, In x (t_buckets t i)).
Proof.
  intros t x [Hl [Hp _]]. unfold all_nodes. rewrite in_flat_map. split.
  - intros [i [_ I]]. exists i. exact I.
  - intros [i I]. exists i. split; [|exact I]. apply in_bucket_indices.
    destruct (Hp i x I) as [_ [_ E]]. rewrite <- E. apply bucket_index_le.
Qed.

Lemma in_all_nodes_bucket : forall t x, Inv t -> In x (all_nodes t) -> In x (t_buckets t (bucket_index (t_local t) (n_id x))).
Proof.
  intros t x I H. apply (in_all_nodes t x I) in H. destruct H as [i Hi].
  destruct I as [_ [Hp _]]. destruct (Hp i x Hi) as [_ [_ E]]. rewrite E. exact Hi.
Qed.

Lemma nodup_flat_buckets : forall t idx, Inv t -> NoDup idx -> NoDup (ids (flat_map (t_buckets t) idx)).
Proof.
  intros t idx [Hl [Hp [Hn _]]]. induction idx as [|i idx IH]; intros ND; cbn [flat_map]; [constructor|].
  inversion ND; subst. rewrite ids_app. apply nodup_app; [apply Hn|apply IH; assumption|].
  intros a I1 I2. apply in_ids_inv in I1. apply in_ids_inv in I2.
  destruct I1 as [x [Ix Ex]]. destruct I2 as [y [Iy Ey]].
  apply in_flat_map in Iy. destruct Iy as [j [Ij Iy]].
  destruct (Hp i x Ix) as [_ [_ Bx]]. destruct (Hp j y Iy) as [_ [_ By]].
  assert (Eij : i = j) by congruence.
  match goal with H : ~ In i idx |- _ => apply H end. rewrite Eij. exact Ij.
Qed.

Lemma nodup_bucket_indices : NoDup bucket_indices.
Proof.
  unfold bucket_indices. apply FinFun.Injective_map_NoDup; [|apply seq_NoDup].
  intros a b E. lia.
Qed.

Lemma inv_all_nodup : forall t, Inv t -> NoDup (ids (all_nodes t)).
Proof. intros. apply nodup_flat_buckets; [assumption|apply nodup_bucket_indices]. Qed.

Lemma inv_local_absent : forall t, Inv t -> ~ In (t_local t) (ids (all_nodes t)).
Proof.
  intros t I H. apply in_ids_inv in H. destruct H as [x [Ix Ex]].
  apply (in_all_nodes t x I) in Ix. destruct Ix as [i Ii].
  destruct I as [_ [Hp _]]. destruct (Hp i x Ii) as [_ [Ne _]]. contradiction.
Qed.

(* ------------------------------------------------------------------ *)
(* the bucket walk                                                      *)
Section Walk.
  Variable t : table.
  Variable key need : N.
  Hypothesis HI : Inv t.
  Hypothesis Hkey : key_ok key.
  Let l := t_local t.
  Let target := bucket_index l key.
  Let B := t_buckets t.

  (* buckets visited once offsets 0 .. o-1 are done *)
  Definition vis (o j : N) : Prop :=
    j <= 255 /\ ((target <= j /\ j < target + o) \/ (j < target /\ target < j + o)).

  Definition WI (o : N) (acc : list node) : Prop :=
    NoDup (ids acc) /\ forall x, In x acc <-> exists j, vis o j /\ In x (B j).

  Lemma target_le : target <= 255.
  Proof. apply bucket_index_le. Qed.

  Lemma append_bucket : forall (P : N -> Prop) acc a,
    NoDup (ids acc) -> (forall x, In x acc <-> exists j, P j /\ In x (B j)) -> ~ P a ->
    NoDup (ids (acc ++ B a)) /\ (forall x, In x (acc ++ B a) <-> exists j, (P j \/ j = a) /\ In x (B j)).
  Proof.
    intros P acc a ND M NP. destruct HI as [Hl [Hp [Hn _]]]. split.
    - rewrite ids_app. apply nodup_app; [exact ND|apply Hn|].
      intros i I1 I2. apply in_ids_inv in I1. apply in_ids_inv in I2.
      destruct I1 as [x [Ix Ex]]. destruct I2 as [y [Iy Ey]].
      apply M in Ix. destruct Ix as [j [Pj Ij]].
      destruct (Hp j x Ij) as [_ [_ Bx]]. destruct (Hp a y Iy) as [_ [_ By]].
      assert (Eja : j = a) by congruence. apply NP. rewrite <- Eja. exact Pj.
    - intros x. rewrite in_app_iff, M. split.
      + intros [[j [Pj Ij]]|Ia]; [exists j; tauto|exists a; tauto].
      + intros [j [[Pj| ->] Ij]]; [left; exists j; tauto|right; exact Ij].
  Qed.

  Lemma walk_step_inv : forall o acc, o <= 255 -> WI o acc ->
    let acc1 := if target + o <? RT_BUCKET_COUNT then acc ++ B (target + o) else acc in
    let acc2 := if (0 <? o) && (o <=? target) then acc1 ++ B (target - o) else acc1 in
    WI (o + 1) acc2.
  Proof.
    intros o acc Ho [ND M]. cbn zeta. rewrite bucket_count_256.
    pose proof target_le as Ht.
    (* first append *)
    assert (S1 : let acc1 := if target + o <? 256 then acc ++ B (target + o) else acc in
                 NoDup (ids acc1) /\ forall x, In x acc1 <-> exists j, (vis o j \/ (target + o <= 255 /\ j = target + o)) /\ In x (B j)).
    { cbn zeta. destruct (N.ltb_spec (target + o) 256) as [Lt|Ge].
      - destruct (append_bucket (vis o) acc (target + o) ND M) as [N1 M1].
        { unfold vis. lia. }
        split; [exact N1|]. intros x. rewrite M1. split; intros [j [Pj Ij]]; exists j; (split; [|exact Ij]); unfold vis in *; lia.
      - split; [exact ND|]. intros x. rewrite M. split; intros [j [Pj Ij]]; exists j; (split; [|exact Ij]); unfold vis in *; lia. }
    cbn zeta in S1. destruct S1 as [N1 M1].
    set (acc1 := if target + o <? 256 then acc ++ B (target + o) else acc) in *.
    destruct ((0 <? o) && (o <=? target)) eqn:C.
    - apply andb_true_iff in C. destruct C as [C1 C2]. apply N.ltb_lt in C1. apply N.leb_le in C2.
      destruct (append_bucket _ acc1 (target - o) N1 M1) as [N2 M2].
      { unfold vis. lia. }
      split; [exact N2|]. intros x. rewrite M2.
      split; intros [j [Pj Ij]]; exists j; (split; [|exact Ij]); unfold vis in *; lia.
    - split; [exact N1|]. intros x. rewrite M1.
      apply andb_false_iff in C. rewrite N.ltb_ge, N.leb_gt in C.
      split; intros [j [Pj Ij]]; exists j; (split; [|exact Ij]); unfold vis in *; lia.
  Qed.

  (* what the walk returns: distinct table entries, and either everything or
     at least [need] entries all nearer than every entry left out *)
  Definition walk_post (W : list node) : Prop :=
    NoDup (ids W) /\
    (forall x, In x W -> In x (all_nodes t)) /\
    (forall x, In x (all_nodes t) -> ~ In x W ->
       need <= N.of_nat (length W) /\ forall w, In w W -> dlt key w x).

  Lemma wi_sub_all : forall o acc, WI o acc -> forall x, In x acc -> In x (all_nodes t).
  Proof.
    intros o acc [_ M] x I. apply M in I. destruct I as [j [_ Ij]].
    apply (in_all_nodes t x HI). exists j. exact Ij.
  Qed.

  Lemma walk_inv : forall len s acc, (s + len = 256)%nat -> WI (N.of_nat s) acc ->
    walk_post (walk t target need (map N.of_nat (seq s len)) acc).
  Proof.
    induction len as [|len IH]; intros s acc Hs W.
    - cbn [seq map walk]. destruct W as [ND M]. split; [exact ND|]. split; [apply (wi_sub_all _ _ (conj ND M))|].
      intros x Ix Nx. exfalso. apply Nx. apply M.
      pose proof (in_all_nodes_bucket t x HI Ix) as Ib.
      exists (bucket_index (t_local t) (n_id x)). split; [|exact Ib].
      unfold vis. pose proof (bucket_index_le (t_local t) (n_id x)). pose proof target_le. lia.
    - cbn [seq map walk]. set (o := N.of_nat s) in *.
      assert (Ho : o <= 255) by (unfold o; lia).
      pose proof (walk_step_inv o acc Ho W) as W2. cbn zeta in W2.
      set (acc2 := if (0 <? o) && (o <=? target)
                   then (if target + o <? RT_BUCKET_COUNT then acc ++ t_buckets t (target + o) else acc) ++ t_buckets t (target - o)
                   else (if target + o <? RT_BUCKET_COUNT then acc ++ t_buckets t (target + o) else acc)) in *.
      destruct ((need <=? N.of_nat (length acc2)) && ((o =? 0) || (RT_BUCKET_COUNT - 1 <=? target + o))) eqn:X.
      + (* early exit *)
        apply andb_true_iff in X. destruct X as [X1 X2]. apply N.leb_le in X1.
        destruct W2 as [ND M]. split; [exact ND|]. split; [apply (wi_sub_all _ _ (conj ND M))|].
        intros x Ix Nx. split; [exact X1|]. intros w Iw.
        pose proof (in_all_nodes_bucket t x HI Ix) as Ibx.
        apply M in Iw. destruct Iw as [i [Vi Iw]].
        destruct HI as [Hl [Hp _]].
        destruct (Hp _ _ Ibx) as [Kx [Nlx _]]. destruct (Hp _ _ Iw) as [Kw [Nlw Bw]].
        assert (NV : ~ vis (o + 1) (bucket_index (t_local t) (n_id x))).
        { intro V. apply Nx. apply M. eexists. split; [exact V|exact Ibx]. }
        pose proof (bucket_index_le (t_local t) (n_id x)) as Lx. pose proof target_le as Ht.
        unfold dlt. rewrite bucket_count_256 in X2. apply orb_true_iff in X2. destruct X2 as [X2|X2].
        * apply N.eqb_eq in X2. rewrite X2 in *.
          apply (target_bucket_closest (t_local t) key Hl Hkey); try assumption.
          -- rewrite Bw. unfold vis, target, l in *. lia.
          -- unfold vis, target, l in *. lia.
        * apply N.leb_le in X2.
          apply (lower_bucket_farther (t_local t) key Hl Hkey); try assumption.
          -- unfold vis, target, l in *. lia.
          -- rewrite Bw. unfold vis, target, l in *. lia.
      + apply (IH (S s) acc2); [lia|]. replace (N.of_nat (S s)) with (o + 1) by (unfold o; lia). exact W2.
  Qed.

  Lemma walk_spec : walk_post (walk t target need bucket_indices []).
  Proof.
    unfold bucket_indices. apply walk_inv; [reflexivity|].
    split; [constructor|]. intros x. split; [intros []|]. intros [j [V _]]. unfold vis in V. cbn in V. lia.
  Qed.
End Walk.

(* ------------------------------------------------------------------ *)
(* refinement: the walk returns the first n of the whole table sorted   *)
Lemma closest_exact : forall t key count, Inv t -> key_ok key ->
  closest t key count = closest_spec t key count.
Proof.
  intros t key count I K. unfold closest, closest_spec, candidates.
  set (need := count * RT_CANDIDATE_EXPANSION_FACTOR).
  pose proof (walk_spec t key need I K) as [ND [Sub Far]].
  set (W := walk t (bucket_index (t_local t) key) need bucket_indices []) in *.
  set (all := all_nodes t) in *.
  pose proof (inv_all_nodup t I) as NA. fold all in NA.
  set (R := filter (fun x => if in_dec node_eq_dec x W then false else true) all).
  assert (IR : forall x, In x R <-> In x all /\ ~ In x W).
  { intros x. unfold R. rewrite filter_In. destruct (in_dec node_eq_dec x W); split; intros [A B]; try discriminate; tauto. }
  assert (NR : NoDup (ids R)) by (apply nodup_ids_filter; exact NA).
  assert (E : sort_by_dist key all = sort_by_dist key W ++ sort_by_dist key R).
  { symmetry. apply sort_unique; [exact NA| |].
    - apply ss_app; [apply sort_sorted; exact ND|apply sort_sorted; exact NR|].
      intros a b Ia Ib. apply sort_in in Ia. apply sort_in in Ib. apply IR in Ib. destruct Ib as [Ib Nb].
      apply (proj2 (Far b Ib Nb)). exact Ia.
    - intros x. rewrite in_app_iff, !sort_in, IR. split.
      + intros [H|[H _]]; [apply Sub|]; exact H.
      + intros H. destruct (in_dec node_eq_dec x W); [left|right]; tauto. }
  rewrite takeN_firstn, E.
  destruct R as [|r R'] eqn:ER.
  - replace (sort_by_dist key []) with (@nil node) by reflexivity. rewrite app_nil_r. reflexivity.
  - assert (Ir : In r (r :: R')) by (left; reflexivity). apply IR in Ir. destruct Ir as [Ia Nw].
    destruct (Far r Ia Nw) as [Hn _].
    rewrite firstn_app.
    replace (N.to_nat count - length (sort_by_dist key W))%nat with 0%nat.
    + cbn [firstn]. rewrite app_nil_r. reflexivity.
    + rewrite sort_length. pose proof expansion_factor_pos. unfold need in Hn. nia.
Qed.

(* ---- what "the first n of the sorted table" means ---- *)
Lemma spec_length : forall t key count,
  N.of_nat (length (closest_spec t key count)) = N.min count (size t).
Proof. intros. unfold closest_spec, size. rewrite firstn_length, sort_length. lia. Qed.

Lemma spec_sorted : forall t key count, Inv t -> StronglySorted (dlt key) (closest_spec t key count).
Proof. intros. unfold closest_spec. apply ss_firstn. apply sort_sorted. apply inv_all_nodup. assumption. Qed.

Lemma firstn_incl : forall (n : nat) (l : list node) x, In x (firstn n l) -> In x l.
Proof. intros n l x H. rewrite <- (firstn_skipn n l). apply in_app_iff. left. exact H. Qed.

Lemma spec_sub : forall t key count x, In x (closest_spec t key count) -> In x (all_nodes t).
Proof. intros t key count x H. unfold closest_spec in H. apply firstn_incl in H. apply sort_in in H. exact H. Qed.

Lemma nodup_ids_firstn : forall n l, NoDup (ids l) -> NoDup (ids (firstn n l)).
Proof.
  induction n as [|n IH]; intros l H; [constructor|]. destruct l as [|a l]; [constructor|].
  cbn [firstn ids map] in *. inversion H; subst. constructor; [|apply IH; assumption].
  intro I. apply in_ids_inv in I. destruct I as [y [Iy Ey]]. apply firstn_incl in Iy.
  match goal with G : ~ In (n_id a) _ |- _ => apply G end. rewrite <- Ey. apply in_ids. exact Iy.
Qed.

Lemma spec_nodup : forall t key count, Inv t -> NoDup (ids (closest_spec t key count)).
Proof. intros. unfold closest_spec. apply nodup_ids_firstn, sort_ids_nodup, inv_all_nodup. assumption. Qed.

(* nothing nearer is left out *)
Lemma spec_complete : forall t key count x y, Inv t ->
  In x (closest_spec t key count) -> In y (all_nodes t) -> ~ In y (closest_spec t key count) -> dlt key x y.
Proof.
  intros t key count x y I Hx Hy Ny. unfold closest_spec in *.
  pose proof (sort_sorted key (all_nodes t) (inv_all_nodup t I)) as S.
  rewrite <- (firstn_skipn (N.to_nat count) (sort_by_dist key (all_nodes t))) in S.
  apply (ss_app_inv _ _ _ S); [exact Hx|].
  apply (sort_in key) in Hy. rewrite <- (firstn_skipn (N.to_nat count)) in Hy. apply in_app_iff in Hy. tauto.
Qed.

(* an answer with those four properties is THE answer (so the statement does not
   depend on the sorting algorithm or on the order in which buckets are visited) *)
Lemma spec_characterised : forall t key count res, Inv t ->
  StronglySorted (dlt key) res ->
  (forall x, In x res -> In x (all_nodes t)) ->
  N.of_nat (length res) = N.min count (size t) ->
  (forall x y, In x res -> In y (all_nodes t) -> ~ In y res -> dlt key x y) ->
  res = closest_spec t key count.
Proof.
  intros t key count res I S Sub Len Far.
  apply (sorted_unique key); [exact S|apply spec_sorted; exact I|].
  set (sp := closest_spec t key count).
  assert (Lsp : N.of_nat (length sp) = N.min count (size t)) by apply spec_length.
  assert (NDr : NoDup res).
  { clear - S. induction S as [|a l S IH F]; constructor; [|exact IH]. intro H. rewrite Forall_forall in F. specialize (F a H). unfold dlt in F. lia. }
  assert (NDs : NoDup sp) by (apply nodup_ids_nodup, spec_nodup; exact I).
  (* if some x of res is not in sp, every element of sp is nearer than x, and sp, being
     no longer than res, misses... use counting: incl + equal length + NoDup *)
  assert (Inc : incl res sp).
  { intros x Ix. destruct (in_dec node_eq_dec x sp) as [H|H]; [exact H|exfalso].
    (* every y in sp is in res: otherwise dlt x y (Far) and dlt y x (spec_complete) *)
    assert (Inc2 : incl sp res).
    { intros y Iy. destruct (in_dec node_eq_dec y res) as [G|G]; [exact G|exfalso].
      pose proof (Far x y Ix (spec_sub _ _ _ _ Iy) G) as D1.
      pose proof (spec_complete t key count y x I Iy (Sub x Ix) H) as D2. unfold dlt in *. lia. }
    (* then x :: sp is a NoDup list included in res, longer than res *)
    assert (L : (length (x :: sp) <= length res)%nat).
    { apply NoDup_incl_length; [constructor; assumption|]. intros z [-> |Iz]; [exact Ix|apply Inc2; exact Iz]. }
    cbn [length] in L. lia. }
  intros x. split; [apply Inc|].
  apply (NoDup_length_incl NDr); [lia|exact Inc].
Qed.

(* ------------------------------------------------------------------ *)
(* request handlers                                                     *)
Lemma closest_length_le : forall t key count, N.of_nat (length (closest t key count)) <= count.
Proof. intros. unfold closest. apply takeN_length. Qed.

Lemma find_node_capped : forall t key count,
  N.of_nat (length (handle_find_node t key count)) <= N.min count RT_MAX_FIND_NODE_COUNT.
Proof. intros. unfold handle_find_node. apply closest_length_le. Qed.

Lemma find_value_capped : forall t key, N.of_nat (length (handle_find_value t key)) <= RT_FIND_VALUE_COUNT.
Proof. intros. unfold handle_find_value. apply closest_length_le. Qed.

(* ------------------------------------------------------------------ *)
(* manager-level reply rule                                             *)
Lemma dedupe_ids_nodup : forall l, NoDup (ids (dedupe_ids l)).
Proof.
  induction l as [|x l IH]; cbn [dedupe_ids ids map]; [constructor|].
  constructor.
  - intro H. apply in_ids_inv in H. destruct H as [y [Iy Ey]]. apply without_id_in in Iy. tauto.
  - apply nodup_ids_filter. exact IH.
Qed.

Lemma dedupe_ids_sub : forall l x, In x (dedupe_ids l) -> In x l.
Proof.
  induction l as [|a l IH]; intros x H; cbn [dedupe_ids] in H; [contradiction|].
  destruct H as [-> |H]; [left; reflexivity|]. apply without_id_in in H. right. apply IH. tauto.
Qed.

(* every key that occurs is represented, and by its FIRST occurrence *)
Lemma dedupe_ids_first : forall l x, In x l -> exists y, In y (dedupe_ids l) /\ n_id y = n_id x.
Proof.
  induction l as [|a l IH]; intros x H; [contradiction|]. cbn [dedupe_ids].
  destruct (N.eq_dec (n_id a) (n_id x)) as [E|Ne].
  - exists a. split; [left; reflexivity|exact E].
  - destruct H as [-> |H]; [congruence|]. destruct (IH x H) as [y [Iy Ey]].
    exists y. split; [|exact Ey]. right. apply without_id_in. split; [exact Iy|congruence].
Qed.

Lemma dedupe_ids_head : forall l1 l2 x, In x l1 -> NoDup (ids l1) -> In x (dedupe_ids (l1 ++ l2)).
Proof.
  induction l1 as [|a l1 IH]; intros l2 x H ND; [contradiction|]. cbn [app dedupe_ids].
  cbn [ids map] in ND. inversion ND; subst.
  destruct H as [-> |H]; [left; reflexivity|]. right. apply without_id_in. split; [apply IH; assumption|].
  intro E. match goal with G : ~ In (n_id a) _ |- _ => apply G end. rewrite <- E. apply in_ids. exact H.
Qed.

Lemma ss_filter : forall (R : node -> node -> Prop) f l, StronglySorted R l -> StronglySorted R (filter f l).
Proof.
  intros R f l S. induction S as [|x l S IH F]; cbn [filter]; [constructor|].
  destruct (f x); [|exact IH]. constructor; [exact IH|].
  apply Forall_forall. intros y Hy. apply filter_In in Hy. rewrite Forall_forall in F. apply F. tauto.
Qed.

(* dropping one id from a list without repeated ids removes at most one entry, and none if the id is absent *)
Lemma filter_one_id_length : forall r l, NoDup (ids l) ->
  (length l <= S (length (filter (fun x => negb (N.eqb (n_id x) r)) l)))%nat.
Proof.
  intros r l. induction l as [|a l IH]; intros ND; cbn [filter length]; [lia|].
  cbn [ids map] in ND. inversion ND as [|? ? Na ND']; subst.
  destruct (N.eqb_spec (n_id a) r) as [E|Ne]; cbn [negb length].
  - assert (filter (fun x => negb (n_id x =? r)) l = l) as ->; [|lia].
    clear IH ND ND'. induction l as [|b l IHl]; [reflexivity|]. cbn [filter].
    destruct (N.eqb_spec (n_id b) r) as [Eb|Nb]; cbn [negb].
    + exfalso. apply Na. cbn [ids map]. left. congruence.
    + f_equal. apply IHl. intro H. apply Na. cbn [ids map]. right. exact H.
  - specialize (IH ND'). lia.
Qed.

Lemma filter_absent_id : forall r l, ~ In r (ids l) -> filter (fun x => negb (n_id x =? r)) l = l.
Proof.
  intros r l. induction l as [|a l IH]; intros H; [reflexivity|]. cbn [filter].
  destruct (N.eqb_spec (n_id a) r) as [E|Ne]; cbn [negb].
  - exfalso. apply H. cbn [ids map]. left. exact E.
  - f_equal. apply IH. intro G. apply H. cbn [ids map]. right. exact G.
Qed.

Section Reply.
  Variable is_self : node -> bool.
  Variables requester key cap : N.
  Variables connected from_table : list node.
  Let known := dedupe_ids (connected ++ from_table).
  Let others := known_others is_self connected from_table.
  Let top := local_closest is_self key cap connected from_table.
  Let elig := filter (eligible is_self requester) known.
  Let res := reply_nodes is_self requester key cap connected from_table.

  Lemma top_eq : top = firstn (N.to_nat cap) (sort_by_dist key others).
  Proof. unfold top, local_closest. rewrite takeN_firstn. reflexivity. Qed.

  Lemma reply_eq : res = filter (fun x => negb (n_id x =? requester)) top.
  Proof. reflexivity. Qed.

  Lemma others_nodup : NoDup (ids others).
  Proof. apply nodup_ids_filter, dedupe_ids_nodup. Qed.

  Lemma top_nodup : NoDup (ids top).
  Proof. rewrite top_eq. apply nodup_ids_firstn, sort_ids_nodup, others_nodup. Qed.

  Lemma top_length : N.of_nat (length top) = N.min cap (N.of_nat (length others)).
  Proof. rewrite top_eq, firstn_length, sort_length. lia. Qed.

  Lemma reply_length_le : N.of_nat (length res) <= cap.
  Proof.
    rewrite reply_eq. pose proof (filter_length_le (fun x => negb (n_id x =? requester)) top) as L.
    pose proof top_length. lia.
  Qed.

  (* at most one slot is lost to the requester, and none when it is not among the nearest cap *)
  Lemma reply_length_ge : N.min cap (N.of_nat (length others)) <= N.of_nat (length res) + 1.
  Proof.
    rewrite <- top_length, reply_eq. pose proof (filter_one_id_length requester top top_nodup). lia.
  Qed.

  Lemma reply_length_exact : ~ In requester (ids top) ->
    res = top /\ N.of_nat (length res) = N.min cap (N.of_nat (length others)).
  Proof.
    intros H. rewrite reply_eq, (filter_absent_id requester top H). split; [reflexivity|apply top_length].
  Qed.

  Lemma reply_sorted : StronglySorted (dlt key) res.
  Proof. rewrite reply_eq. apply ss_filter. rewrite top_eq. apply ss_firstn, sort_sorted, others_nodup. Qed.

  Lemma reply_nodup : NoDup (ids res).
  Proof. rewrite reply_eq. apply nodup_ids_filter, top_nodup. Qed.

  Lemma reply_members : forall x, In x res ->
    In x (connected ++ from_table) /\ is_self x = false /\ n_id x <> requester.
  Proof.
    intros x H. rewrite reply_eq in H. apply filter_In in H. destruct H as [H R].
    rewrite top_eq in H. apply firstn_incl in H. apply sort_in in H.
    unfold others, known_others in H. apply filter_In in H. destruct H as [H E]. apply dedupe_ids_sub in H.
    rewrite negb_true_iff in E, R. rewrite N.eqb_neq in R. tauto.
  Qed.

  Lemma reply_complete : forall x y, In x res -> In y elig -> ~ In y res -> dlt key x y.
  Proof.
    intros x y Hx Hy Ny. rewrite reply_eq in Hx, Ny.
    apply filter_In in Hx. destruct Hx as [Hx _].
    unfold elig in Hy. apply filter_In in Hy. destruct Hy as [Hy E].
    unfold eligible in E. apply andb_true_iff in E. destruct E as [E1 E2].
    assert (In y others) as Ho by (unfold others, known_others; apply filter_In; split; assumption).
    assert (~ In y top) as Nt by (intro G; apply Ny; apply filter_In; split; assumption).
    rewrite top_eq in Hx, Nt.
    pose proof (sort_sorted key others others_nodup) as S.
    rewrite <- (firstn_skipn (N.to_nat cap) (sort_by_dist key others)) in S.
    apply (ss_app_inv _ _ _ S); [exact Hx|].
    apply (sort_in key) in Ho. rewrite <- (firstn_skipn (N.to_nat cap)) in Ho. apply in_app_iff in Ho. tauto.
  Qed.

End Reply.

(* the evaluated check of a wire reply means what it says *)
Lemma nodes_eqb_eq : forall a b, nodes_eqb a b = true -> a = b.
Proof.
  induction a as [|x a IH]; intros [|y b] H; cbn [nodes_eqb] in H; try discriminate; [reflexivity|].
  apply andb_true_iff in H. destruct H as [H1 H2]. apply node_eqb_eq in H1. f_equal; [exact H1|apply IH; exact H2].
Qed.

Lemma check_rcase_sound : forall selfks req key cap before after reply,
  check_rcase (selfks, req, key, cap, before, after, reply) = true ->
  (forall x, In x reply -> In x after) /\
  exists k, (k = reply ++ before \/ (k = req :: reply ++ before /\ In req after)) /\
            reply = reply_nodes (is_self_in selfks) (n_id req) key cap k [].
Proof.
  intros selfks req key cap before after reply H. unfold check_rcase in H.
  apply andb_true_iff in H. destruct H as [Hs H]. split.
  - intros x Hx. unfold subset_nodes in Hs. rewrite forallb_forall in Hs. specialize (Hs x Hx).
    apply existsb_exists in Hs. destruct Hs as [y [Hy E]]. apply node_eqb_eq in E. subst. exact Hy.
  - apply orb_true_iff in H. destruct H as [H|H].
    + exists (reply ++ before). split; [left; reflexivity|]. apply nodes_eqb_eq. exact H.
    + apply andb_true_iff in H. destruct H as [Hr H]. exists (req :: reply ++ before). split.
      * right. split; [reflexivity|]. apply existsb_exists in Hr. destruct Hr as [y [Hy E]].
        apply node_eqb_eq in E. subst. exact Hy.
      * apply nodes_eqb_eq. exact H.
Qed.


(* ------------------------------------------------------------------ *)
(* statements about every table reachable from the empty one            *)
Lemma reach_inv : forall local ops, key_ok local -> Forall op_ok ops -> Inv (fst (run (start local) ops)).
Proof. intros. apply inv_run; [apply inv_empty; assumption|assumption]. Qed.

Lemma reach_table : forall local ops, key_ok local -> Forall op_ok ops ->
  let t := fst (run (start local) ops) in
  t_local t = local /\
  NoDup (ids (all_nodes t)) /\
  ~ In local (ids (all_nodes t)) /\
  (forall i x, In x (t_buckets t i) -> In x (all_nodes t) /\ bucket_index local (n_id x) = i /\ key_ok (n_id x)) /\
  (forall i, N.of_nat (length (t_buckets t i)) <= RT_BUCKET_K).
Proof.
  intros local ops Kl F. cbn zeta. pose proof (reach_inv local ops Kl F) as I.
  destruct (run_cap ops (start local)) as [Ec El]. cbn [start empty_table t_cap t_local] in Ec, El.
  split; [exact El|]. split; [apply inv_all_nodup; exact I|]. split; [rewrite <- El at 1; apply inv_local_absent; exact I|].
  pose proof I as [_ [Hp [_ Hc]]]. split.
  - intros i x Ix. split; [apply (in_all_nodes _ x I); exists i; exact Ix|].
    destruct (Hp i x Ix) as [K [_ B]]. rewrite El in B. tauto.
  - intros i. rewrite <- Ec. apply Hc.
Qed.

Lemma closest_meaning : forall t key count, Inv t -> key_ok key ->
  let res := closest t key count in
  N.of_nat (length res) = N.min count (size t) /\
  StronglySorted (dlt key) res /\
  NoDup (ids res) /\
  ~ In (t_local t) (ids res) /\
  (forall x, In x res -> In x (all_nodes t)) /\
  (forall x y, In x res -> In y (all_nodes t) -> ~ In y res -> dlt key x y).
Proof.
  intros t key count I K. cbn zeta. rewrite (closest_exact t key count I K).
  split; [apply spec_length|]. split; [apply spec_sorted; exact I|]. split; [apply spec_nodup; exact I|].
  split.
  - intro H. apply in_ids_inv in H. destruct H as [x [Ix Ex]]. apply spec_sub in Ix.
    apply (inv_local_absent t I). rewrite <- Ex. apply in_ids. exact Ix.
  - split; [intros x; apply spec_sub|]. intros x y. apply spec_complete. exact I.
Qed.

Lemma closest_unique : forall t key count res, Inv t -> key_ok key ->
  StronglySorted (dlt key) res ->
  (forall x, In x res -> In x (all_nodes t)) ->
  N.of_nat (length res) = N.min count (size t) ->
  (forall x y, In x res -> In y (all_nodes t) -> ~ In y res -> dlt key x y) ->
  res = closest t key count.
Proof. intros. rewrite closest_exact by assumption. apply spec_characterised; assumption. Qed.

Lemma requests_exact : forall t key count, Inv t -> key_ok key ->
  handle_find_node t key count = closest_spec t key (N.min count RT_MAX_FIND_NODE_COUNT) /\
  handle_find_value t key = closest_spec t key RT_FIND_VALUE_COUNT.
Proof. intros. unfold handle_find_node, handle_find_value. split; apply closest_exact; assumption. Qed.

Lemma requests_capped : forall t key count,
  N.of_nat (length (handle_find_node t key count)) <= 20 /\
  N.of_nat (length (handle_find_value t key)) <= 8.
Proof.
  intros. pose proof (find_node_capped t key count). pose proof (find_value_capped t key).
  unfold RT_MAX_FIND_NODE_COUNT, RT_FIND_VALUE_COUNT in *. lia.
Qed.

Lemma reply_rule : forall is_self requester key cap connected from_table,
  let known := dedupe_ids (connected ++ from_table) in
  let others := filter (fun x => negb (is_self x)) known in
  let top := firstn (N.to_nat cap) (sort_by_dist key others) in
  let elig := filter (eligible is_self requester) known in
  let res := reply_nodes is_self requester key cap connected from_table in
  (* one entry per DHT key, the first (connected, dialable) one *)
  NoDup (ids known) /\
  (forall x, In x (connected ++ from_table) -> exists y, In y known /\ n_id y = n_id x) /\
  (forall x, In x connected -> NoDup (ids connected) -> In x known) /\
  (* the answer: the nearest [cap] of everything known but the node itself, minus the requester *)
  res = filter (fun x => negb (n_id x =? requester)) top /\
  N.of_nat (length res) <= cap /\
  N.min cap (N.of_nat (length others)) <= N.of_nat (length res) + 1 /\
  (~ In requester (ids top) -> res = top /\ N.of_nat (length res) = N.min cap (N.of_nat (length others))) /\
  StronglySorted (dlt key) res /\
  NoDup (ids res) /\
  (forall x, In x res -> In x (connected ++ from_table) /\ is_self x = false /\ n_id x <> requester) /\
  (forall x y, In x res -> In y elig -> ~ In y res -> dlt key x y).
Proof.
  intros is_self requester key cap connected from_table. cbn zeta.
  pose proof (top_eq is_self key cap connected from_table) as T. cbn zeta in T. unfold known_others in T.
  split; [apply dedupe_ids_nodup|]. split; [apply dedupe_ids_first|].
  split; [intros x Ix ND; apply dedupe_ids_head; assumption|].
  split; [rewrite <- T; apply reply_eq|]. split; [apply reply_length_le|].
  split; [apply (reply_length_ge is_self requester key cap connected from_table)|].
  split; [rewrite <- T; apply (reply_length_exact is_self requester key cap connected from_table)|].
  split; [apply reply_sorted|]. split; [apply reply_nodup|].
  split; [apply reply_members|apply reply_complete].
Qed.

Lemma nodup_N_spec : forall l, nodup_N l = true <-> NoDup l.
Proof.
  induction l as [|a l IH]; cbn [nodup_N]; [split; [constructor|reflexivity]|].
  rewrite andb_true_iff, negb_true_iff, IH. split.
  - intros [H1 H2]. constructor; [|exact H2]. intro I.
    assert (existsb (N.eqb a) l = true) by (apply existsb_exists; exists a; split; [exact I|apply N.eqb_refl]). congruence.
  - intros H. inversion H; subst. split; [|assumption].
    destruct (existsb (N.eqb a) l) eqn:E; [|reflexivity]. apply existsb_exists in E. destruct E as [b [Ib Eb]].
    apply N.eqb_eq in Eb. subst. contradiction.
Qed.
