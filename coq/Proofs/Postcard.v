(* Lemmas about the generic postcard codec (Model/Postcard.v). *)
From SV Require Import Lib.Base Model.Postcard.
Local Open Scope N_scope.

(* ---------- induction principle for the nested type [ty] ---------- *)
Section ty_ind2.
  Variable P : ty -> Prop.
  Hypothesis HU8 : P U8.
  Hypothesis HVarU : forall b, P (VarU b).
  Hypothesis HVarI : forall b, P (VarI b).
  Hypothesis HBool : P Bool.
  Hypothesis HF64 : P F64.
  Hypothesis HStr : P Str.
  Hypothesis HBytes : P Bytes.
  Hypothesis HBytesN : forall n, P (BytesN n).
  Hypothesis HDur : P Dur.
  Hypothesis HSysTime : P SysTime.
  Hypothesis HSeq : forall t, P t -> P (Seq t).
  Hypothesis HOpt : forall t, P t -> P (Opt t).
  Hypothesis HTup : forall ts, Forall P ts -> P (Tup ts).
  Hypothesis HEnum : forall ts, Forall P ts -> P (Enum ts).
  Hypothesis HArr : forall n t, P t -> P (Arr n t).

  Fixpoint ty_ind2 (t : ty) : P t :=
    let fix go (ts : list ty) : Forall P ts :=
        match ts with
        | [] => Forall_nil P
        | t :: ts' => Forall_cons t (ty_ind2 t) (go ts')
        end in
    match t with
    | U8 => HU8 | VarU b => HVarU b | VarI b => HVarI b | Bool => HBool | F64 => HF64
    | Str => HStr | Bytes => HBytes | BytesN n => HBytesN n | Dur => HDur | SysTime => HSysTime
    | Seq t' => HSeq t' (ty_ind2 t')
    | Opt t' => HOpt t' (ty_ind2 t')
    | Tup ts => HTup ts (go ts)
    | Enum ts => HEnum ts (go ts)
    | Arr n t' => HArr n t' (ty_ind2 t')
    end.
End ty_ind2.

(* ---------- varints ---------- *)
Lemma varint_rt : forall m n e r,
  n < 128 ^ N.of_nat m * 2 ^ e -> e <= 7 ->
  dec_varint (S m) (2 ^ e - 1) (enc_varint (S m) n ++ r) = Some (n, r).
Proof.
  induction m as [|m IH]; intros n e r Hn He.
  - cbn [N.of_nat] in Hn. rewrite N.pow_0_r, N.mul_1_l in Hn.
    assert (H128 : 2 ^ e <= 128) by (change 128 with (2 ^ 7); apply N.pow_le_mono_r; lia).
    cbn [enc_varint dec_varint].
    assert (E : (n <? 128) = true) by (apply N.ltb_lt; lia).
    rewrite E. cbn [app]. rewrite E. cbn [Nat.eqb andb].
    assert (E2 : (2 ^ e - 1 <? n) = false) by (apply N.ltb_ge; lia).
    rewrite E2. reflexivity.
  - assert (Hstep : n / 128 < 128 ^ N.of_nat m * 2 ^ e).
    { apply N.div_lt_upper_bound; [lia|].
      replace (N.of_nat (S m)) with (N.succ (N.of_nat m)) in Hn by lia.
      rewrite N.pow_succ_r' in Hn. lia. }
    remember (S m) as k eqn:Ek.
    cbn [enc_varint].
    destruct (n <? 128) eqn:E.
    + cbn [app dec_varint]. rewrite E. subst k. cbn [Nat.eqb andb]. reflexivity.
    + cbn [app dec_varint].
      assert (E3 : (n mod 128 + 128 <? 128) = false) by (apply N.ltb_ge; lia).
      rewrite E3. subst k. rewrite (IH _ _ _ Hstep He).
      f_equal. f_equal.
      assert (Hm : n mod 128 < 128) by (apply N.mod_lt; lia).
      rewrite N.add_mod by lia. rewrite N.mod_same by lia. rewrite N.add_0_r.
      rewrite N.mod_mod by lia. rewrite N.mod_mod by lia.
      pose proof (N.div_mod n 128). lia.
Qed.

Lemma bits_ok_cases : forall bits, bits_ok bits = true -> bits = 16 \/ bits = 32 \/ bits = 64 \/ bits = 128.
Proof. unfold bits_ok. intros bits H. lia. Qed.

Lemma dec_enc_u : forall bits n r, bits_ok bits = true -> n < 2 ^ bits ->
  dec_u bits (enc_u bits n ++ r) = Some (n, r).
Proof.
  intros bits n r Hb Hn. unfold dec_u, enc_u.
  destruct (bits_ok_cases _ Hb) as [-> | [-> | [-> | ->]]].
  - change (vmax 16) with 3%nat. change (vlast 16) with (2 ^ 2 - 1). apply varint_rt; [|lia].
    change (128 ^ N.of_nat 2 * 2 ^ 2) with (2 ^ 16). exact Hn.
  - change (vmax 32) with 5%nat. change (vlast 32) with (2 ^ 4 - 1). apply varint_rt; [|lia].
    change (128 ^ N.of_nat 4 * 2 ^ 4) with (2 ^ 32). exact Hn.
  - change (vmax 64) with 10%nat. change (vlast 64) with (2 ^ 1 - 1). apply varint_rt; [|lia].
    change (128 ^ N.of_nat 9 * 2 ^ 1) with (2 ^ 64). exact Hn.
  - change (vmax 128) with 19%nat. change (vlast 128) with (2 ^ 2 - 1). apply varint_rt; [|lia].
    change (128 ^ N.of_nat 18 * 2 ^ 2) with (2 ^ 128). exact Hn.
Qed.

Lemma enc_varint_nonempty : forall k n, (1 <= length (enc_varint (S k) n))%nat.
Proof. intros. cbn [enc_varint]. destruct (n <? 128); cbn [length]; lia. Qed.

Lemma enc_u_nonempty : forall bits n, bits_ok bits = true -> (1 <= length (enc_u bits n))%nat.
Proof.
  intros bits n Hb. unfold enc_u.
  destruct (bits_ok_cases _ Hb) as [-> | [-> | [-> | ->]]].
  - change (vmax 16) with 3%nat. apply enc_varint_nonempty.
  - change (vmax 32) with 5%nat. apply enc_varint_nonempty.
  - change (vmax 64) with 10%nat. apply enc_varint_nonempty.
  - change (vmax 128) with 19%nat. apply enc_varint_nonempty.
Qed.

(* a decoded varint consumed at least one byte *)
Lemma dec_varint_len : forall m lm inp n r,
  dec_varint m lm inp = Some (n, r) -> (length r + 1 <= length inp)%nat.
Proof.
  induction m as [|m IH]; intros lm inp n r H; [discriminate|].
  cbn [dec_varint] in H. destruct inp as [|b inp']; [discriminate|].
  destruct (b <? 128).
  - destruct (Nat.eqb m 0 && (lm <? b)); inv H. cbn [length]. lia.
  - destruct (dec_varint m lm inp') as [[v r']|] eqn:E; inv H.
    apply IH in E. cbn [length]. lia.
Qed.

(* value range of a decoded varint: below 128^maxb, and at most 2^bits-1 through the last-byte rule *)
Lemma dec_varint_bound : forall m e inp n r,
  e <= 7 -> dec_varint (S m) (2 ^ e - 1) inp = Some (n, r) -> n < 128 ^ N.of_nat m * 2 ^ e.
Proof.
  induction m as [|m IH]; intros e inp n r He H.
  - cbn [dec_varint] in H. destruct inp as [|b inp']; [discriminate|].
    destruct (b <? 128) eqn:Eb.
    + cbn [Nat.eqb andb] in H. destruct (2 ^ e - 1 <? b) eqn:E2; inv H.
      cbn [N.of_nat]. rewrite N.pow_0_r, N.mul_1_l.
      assert (0 < 2 ^ e) by (apply N.neq_0_lt_0; apply N.pow_nonzero; lia). lia.
    + discriminate.
  - remember (S m) as k. cbn [dec_varint] in H. destruct inp as [|b inp']; [discriminate|].
    assert (Hpos : 0 < 128 ^ N.of_nat m * 2 ^ e).
    { apply N.mul_pos_pos; apply N.neq_0_lt_0; apply N.pow_nonzero; lia. }
    assert (Hk : 128 ^ N.of_nat k = 128 * 128 ^ N.of_nat m).
    { subst k. replace (N.of_nat (S m)) with (N.succ (N.of_nat m)) by lia. apply N.pow_succ_r'. }
    rewrite Hk. subst k.
    destruct (b <? 128) eqn:Eb.
    + cbn [Nat.eqb andb] in H. inv H. apply N.ltb_lt in Eb. nia.
    + destruct (dec_varint (S m) (2 ^ e - 1) inp') as [[v r']|] eqn:E; inv H.
      apply IH in E; [|exact He].
      assert (b mod 128 < 128) by (apply N.mod_lt; lia). nia.
Qed.

Lemma dec_u_bound : forall bits inp n r, bits_ok bits = true -> dec_u bits inp = Some (n, r) -> n < 2 ^ bits.
Proof.
  intros bits inp n r Hb H. unfold dec_u in H.
  destruct (bits_ok_cases _ Hb) as [-> | [-> | [-> | ->]]].
  - change (vmax 16) with 3%nat in H. change (vlast 16) with (2 ^ 2 - 1) in H.
    apply dec_varint_bound in H; [|lia]. exact H.
  - change (vmax 32) with 5%nat in H. change (vlast 32) with (2 ^ 4 - 1) in H.
    apply dec_varint_bound in H; [|lia]. exact H.
  - change (vmax 64) with 10%nat in H. change (vlast 64) with (2 ^ 1 - 1) in H.
    apply dec_varint_bound in H; [|lia]. exact H.
  - change (vmax 128) with 19%nat in H. change (vlast 128) with (2 ^ 2 - 1) in H.
    apply dec_varint_bound in H; [|lia]. exact H.
Qed.

(* ---------- zig-zag ---------- *)
Lemma unzz_zz : forall bits z, unzz (zz bits z) = z.
Proof.
  intros bits z. unfold zz, unzz.
  destruct (0 <=? z)%Z eqn:E.
  - assert (Hev : N.even (Z.to_N (2 * z)) = true).
    { replace (Z.to_N (2 * z)) with (2 * Z.to_N z) by lia. rewrite N.even_mul. reflexivity. }
    rewrite Hev. lia.
  - assert (Hev : N.even (Z.to_N (-2 * z - 1)) = false).
    { replace (Z.to_N (-2 * z - 1)) with (2 * Z.to_N (- z - 1) + 1) by lia.
      rewrite N.even_add, N.even_mul. reflexivity. }
    rewrite Hev. lia.
Qed.

Lemma zz_bound : forall bits z, 0 < bits ->
  (- 2 ^ (Z.of_N bits - 1) <= z < 2 ^ (Z.of_N bits - 1))%Z -> zz bits z < 2 ^ bits.
Proof.
  intros bits z Hb Hz. unfold zz.
  assert (Hp : (2 ^ Z.of_N bits = 2 * 2 ^ (Z.of_N bits - 1))%Z).
  { replace (Z.of_N bits) with (Z.succ (Z.of_N bits - 1)) at 1 by lia. rewrite Z.pow_succ_r; lia. }
  assert (Hq : Z.of_N (2 ^ bits) = (2 ^ Z.of_N bits)%Z) by (rewrite N2Z.inj_pow; reflexivity).
  destruct (0 <=? z)%Z eqn:E; lia.
Qed.

(* ---------- take_n and length-prefixed byte strings ---------- *)
Lemma take_n_app : forall bs r, take_n (N.of_nat (length bs)) (bs ++ r) = Some (bs, r).
Proof.
  intros bs r. unfold take_n. rewrite app_length.
  assert (E : (N.of_nat (length bs + length r) <? N.of_nat (length bs)) = false) by (apply N.ltb_ge; lia).
  rewrite E. rewrite Nat2N.id. rewrite firstn_app, skipn_app.
  rewrite Nat.sub_diag. cbn [firstn skipn]. rewrite firstn_all, skipn_all, app_nil_r. reflexivity.
Qed.

Lemma take_n_len : forall n inp bs r, take_n n inp = Some (bs, r) ->
  length inp = (length bs + length r)%nat /\ N.of_nat (length bs) = n.
Proof.
  intros n inp bs r H. unfold take_n in H.
  destruct (N.of_nat (length inp) <? n) eqn:E; inv H.
  rewrite firstn_length, skipn_length. lia.
Qed.

Lemma dec_lenbytes_rt : forall bs r, N.of_nat (length bs) <= U64MAX ->
  dec_lenbytes (enc_u 64 (N.of_nat (length bs)) ++ bs ++ r) = Some (bs, r).
Proof.
  intros bs r H. unfold dec_lenbytes. rewrite dec_enc_u; [|reflexivity|unfold U64MAX in H; change (2 ^ 64) with 18446744073709551616; lia].
  apply take_n_app.
Qed.

Lemma dec_lenbytes_len : forall inp bs r, dec_lenbytes inp = Some (bs, r) ->
  (length r + length bs + 1 <= length inp)%nat.
Proof.
  intros inp bs r H. unfold dec_lenbytes in H.
  destruct (dec_u 64 inp) as [[len r0]|] eqn:E; [|discriminate].
  apply dec_varint_len in E. apply take_n_len in H. lia.
Qed.

(* ---------- repetition / sequencing combinators ---------- *)
Lemma dec_rep_rt : forall (d : decoder) (e : value -> list N) vs r,
  Forall (fun v => forall r', d (e v ++ r') = Some (v, r')) vs ->
  dec_rep d (length vs) (concat (map e vs) ++ r) = Some (vs, r).
Proof.
  intros d e vs r H. induction H as [|v vs Hv _ IH]; [reflexivity|].
  cbn [length map concat dec_rep]. rewrite <- app_assoc. rewrite Hv, IH. reflexivity.
Qed.

Lemma dec_all_rt : forall ts vs r,
  Forall (fun t => forall v r', wfb t v = true -> decode t (encode t v ++ r') = Some (v, r')) ts ->
  all2 (map wfb ts) vs = true ->
  dec_all (map decode ts) (enc_all (map encode ts) vs ++ r) = Some (vs, r).
Proof.
  intros ts vs r H. revert vs. induction H as [|t ts Ht _ IH]; intros vs Hw.
  - destruct vs; [reflexivity|discriminate].
  - destruct vs as [|v vs]; [discriminate|].
    cbn [map all2] in Hw. apply andb_true_iff in Hw as [Hw1 Hw2].
    cbn [map enc_all dec_all]. rewrite <- app_assoc. rewrite (Ht _ _ Hw1), (IH _ Hw2). reflexivity.
Qed.

Lemma forallb_Forall : forall {A} (f : A -> bool) l, forallb f l = true -> Forall (fun x => f x = true) l.
Proof. intros A f l H. apply Forall_forall. apply forallb_forall. exact H. Qed.

(* ---------- encodings of values of non-zero-sized types are non-empty ---------- *)
Lemma encode_nonempty : forall t, ty_ok t = true -> nz t = true ->
  forall v, wfb t v = true -> (1 <= length (encode t v))%nat.
Proof.
  induction t using ty_ind2; intros Hok Hnz v Hw; destruct v; try discriminate Hw; cbn [encode].
  - cbn [length]; lia.
  - apply enc_u_nonempty. exact Hok.
  - apply enc_u_nonempty. exact Hok.
  - cbn [length]; lia.
  - cbn [wfb] in Hw. apply Nat.eqb_eq in Hw. lia.
  - rewrite app_length. pose proof (enc_u_nonempty 64 (N.of_nat (length bs)) eq_refl). lia.
  - rewrite app_length. pose proof (enc_u_nonempty 64 (N.of_nat (length bs)) eq_refl). lia.
  - rewrite app_length. pose proof (enc_u_nonempty 64 (N.of_nat (length bs)) eq_refl). lia.
  - rewrite app_length. pose proof (enc_u_nonempty 64 secs eq_refl). lia.
  - rewrite app_length. pose proof (enc_u_nonempty 64 secs eq_refl). lia.
  - rewrite app_length. pose proof (enc_u_nonempty 64 (N.of_nat (length vs)) eq_refl). lia.
  - cbn [length]; lia.
  - cbn [length]; lia.
  - (* Tup *)
    cbn [ty_ok] in Hok. cbn [nz] in Hnz. cbn [wfb] in Hw.
    revert vs Hok Hnz Hw. induction H as [|t ts Ht _ IH]; intros vs Hok Hnz Hw; [discriminate|].
    destruct vs as [|v vs]; [discriminate|].
    cbn [map all2] in Hw. apply andb_true_iff in Hw as [Hw1 Hw2].
    cbn [forallb] in Hok. apply andb_true_iff in Hok as [Hok1 Hok2].
    cbn [map enc_all]. rewrite app_length.
    cbn [existsb] in Hnz. apply orb_true_iff in Hnz as [Hnz|Hnz].
    + specialize (Ht Hok1 Hnz v Hw1). lia.
    + specialize (IH vs Hok2 Hnz Hw2). lia.
  - (* Enum *)
    cbn [wfb] in Hw. apply andb_true_iff in Hw as [Hi Hw]. rewrite Hi.
    destruct (nth_error (map wfb ts) (N.to_nat idx)) as [w|] eqn:E; [|discriminate].
    destruct (nth_error (map encode ts) (N.to_nat idx)) as [e|] eqn:E2.
    + rewrite app_length. pose proof (enc_u_nonempty 32 idx eq_refl). lia.
    + apply nth_error_None in E2. rewrite map_length in E2.
      assert (nth_error (map wfb ts) (N.to_nat idx) <> None) by congruence.
      apply nth_error_Some in H0. rewrite map_length in H0. lia.
  - (* Arr *)
    cbn [ty_ok] in Hok. cbn [nz] in Hnz. apply andb_true_iff in Hnz as [Hn Hnz].
    cbn [wfb] in Hw. apply andb_true_iff in Hw as [Hl Hw]. apply Nat.eqb_eq in Hl.
    destruct vs as [|v vs]; [subst n; discriminate|].
    cbn [forallb] in Hw. apply andb_true_iff in Hw as [Hw1 _].
    cbn [map concat]. rewrite app_length. specialize (IHt Hok Hnz v Hw1). lia.
Qed.

Lemma concat_length_ge : forall (e : value -> list N) vs,
  Forall (fun v => (1 <= length (e v))%nat) vs -> (length vs <= length (concat (map e vs)))%nat.
Proof.
  intros e vs H. induction H as [|v vs Hv _ IH]; [cbn; lia|].
  cbn [map concat length]. rewrite app_length. lia.
Qed.

(* ---------- the round trip ---------- *)
Theorem decode_encode : forall t, ty_ok t = true ->
  forall v rest, wfb t v = true -> decode t (encode t v ++ rest) = Some (v, rest).
Proof.
  induction t using ty_ind2; intros Hok v rest Hw; destruct v; try discriminate Hw; cbn [encode decode].
  - reflexivity.
  - cbn [wfb] in Hw. apply N.ltb_lt in Hw. rewrite dec_enc_u; auto.
  - cbn [wfb] in Hw. apply andb_true_iff in Hw as [H1 H2]. apply Z.leb_le in H1. apply Z.ltb_lt in H2.
    cbn [ty_ok] in Hok.
    rewrite dec_enc_u; auto.
    + rewrite unzz_zz. reflexivity.
    + apply zz_bound; [|lia]. destruct (bits_ok_cases _ Hok) as [-> | [-> | [-> | ->]]]; lia.
  - match goal with x : bool |- _ => destruct x end; reflexivity.
  - cbn [wfb] in Hw. apply Nat.eqb_eq in Hw.
    replace 8 with (N.of_nat (length bs)) by (rewrite Hw; reflexivity).
    rewrite take_n_app. reflexivity.
  - cbn [wfb] in Hw. apply andb_true_iff in Hw as [H1 H2]. apply N.leb_le in H2.
    rewrite <- app_assoc, dec_lenbytes_rt by exact H2. rewrite H1. reflexivity.
  - cbn [wfb] in Hw. apply N.leb_le in Hw.
    rewrite <- app_assoc, dec_lenbytes_rt by exact Hw. reflexivity.
  - cbn [wfb] in Hw. apply andb_true_iff in Hw as [H1 H2]. apply N.leb_le in H2.
    assert (H1' := H1). apply N.eqb_eq in H1'.
    rewrite <- app_assoc, dec_lenbytes_rt by lia. rewrite H1. reflexivity.
  - (* Dur *)
    cbn [wfb] in Hw. apply andb_true_iff in Hw as [H1 H2]. apply N.leb_le in H1. apply N.ltb_lt in H2.
    unfold dec_dur. rewrite <- app_assoc.
    rewrite dec_enc_u; [|reflexivity|unfold U64MAX in H1; change (2 ^ 64) with 18446744073709551616; lia].
    rewrite dec_enc_u; [|reflexivity|unfold NANOS in H2; change (2 ^ 32) with 4294967296; lia].
    rewrite N.div_small, N.mod_small by exact H2. rewrite N.add_0_r.
    assert (E : (U64MAX <? secs) = false) by (apply N.ltb_ge; lia). rewrite E. reflexivity.
  - (* SysTime *)
    cbn [wfb] in Hw. apply andb_true_iff in Hw as [H1 H2]. apply N.leb_le in H1. apply N.ltb_lt in H2.
    unfold dec_dur. rewrite <- app_assoc.
    rewrite dec_enc_u; [|reflexivity|unfold I64MAX in H1; change (2 ^ 64) with 18446744073709551616; lia].
    rewrite dec_enc_u; [|reflexivity|unfold NANOS in H2; change (2 ^ 32) with 4294967296; lia].
    rewrite N.div_small, N.mod_small by exact H2. rewrite N.add_0_r.
    assert (E : (I64MAX <? secs) = false) by (apply N.ltb_ge; lia). rewrite E. reflexivity.
  - (* Seq *)
    cbn [ty_ok] in Hok. apply andb_true_iff in Hok as [Hnz Hok].
    cbn [wfb] in Hw. apply andb_true_iff in Hw as [Hl Hw]. apply N.leb_le in Hl.
    rewrite <- app_assoc.
    rewrite dec_enc_u; [|reflexivity|unfold U64MAX in Hl; change (2 ^ 64) with 18446744073709551616; lia].
    assert (Hlen : (length vs <= length (concat (map (encode t) vs)))%nat).
    { apply concat_length_ge. apply forallb_Forall in Hw.
      eapply Forall_impl; [|exact Hw]. intros v Hv. apply encode_nonempty; assumption. }
    assert (E : (N.of_nat (length (concat (map (encode t) vs) ++ rest)) <? N.of_nat (length vs)) = false).
    { apply N.ltb_ge. rewrite app_length. lia. }
    rewrite E. rewrite Nat2N.id.
    rewrite (dec_rep_rt (decode t) (encode t)); [reflexivity|].
    apply forallb_Forall in Hw. eapply Forall_impl; [|exact Hw].
    intros v Hv r'. apply IHt; assumption.
  - reflexivity.
  - cbn [wfb] in Hw. cbn [ty_ok] in Hok. cbn [app]. rewrite IHt; auto.
  - (* Tup *)
    cbn [ty_ok] in Hok. cbn [wfb] in Hw.
    rewrite dec_all_rt; [reflexivity| |exact Hw].
    apply forallb_Forall in Hok. rewrite Forall_forall in *. intros t Hin v r' Hv.
    apply H; auto.
  - (* Enum *)
    cbn [ty_ok] in Hok. apply andb_true_iff in Hok as [Hn Hok]. apply N.leb_le in Hn.
    cbn [wfb] in Hw. apply andb_true_iff in Hw as [Hi Hw]. rewrite Hi.
    assert (Hi' := Hi). apply N.ltb_lt in Hi'.
    destruct (nth_error ts (N.to_nat idx)) as [t|] eqn:Et.
    2:{ apply nth_error_None in Et. lia. }
    rewrite (map_nth_error wfb _ _ Et) in Hw.
    rewrite (map_nth_error encode _ _ Et).
    rewrite <- app_assoc. rewrite dec_enc_u; [|reflexivity|change (2 ^ 32) with 4294967296; lia].
    rewrite Hi. rewrite (map_nth_error decode _ _ Et).
    apply nth_error_In in Et.
    apply forallb_Forall in Hok. rewrite Forall_forall in *.
    rewrite (H t Et (Hok t Et) v rest Hw). reflexivity.
  - (* Arr *)
    cbn [ty_ok] in Hok. cbn [wfb] in Hw. apply andb_true_iff in Hw as [Hl Hw]. apply Nat.eqb_eq in Hl.
    subst n. rewrite (dec_rep_rt (decode t) (encode t)); [reflexivity|].
    apply forallb_Forall in Hw. eapply Forall_impl; [|exact Hw].
    intros v Hv r'. apply IHt; assumption.
Qed.

(* ---------- allocation bound ---------- *)
Definition esum (vs : list value) : nat := fold_right Nat.add 0%nat (map elems vs).
Definition nzb (t : ty) : nat := if nz t then 1%nat else 0%nat.

Lemma dec_rep_len : forall (d : decoder) (b : nat) k inp vs r,
  (forall inp v r, d inp = Some (v, r) -> (length r + elems v + b <= length inp)%nat) ->
  dec_rep d k inp = Some (vs, r) ->
  length vs = k /\ (length r + esum vs + k * b <= length inp)%nat.
Proof.
  intros d b k. induction k as [|k IH]; intros inp vs r Hd H.
  - cbn [dec_rep] in H. inv H. cbn. lia.
  - cbn [dec_rep] in H. destruct (d inp) as [[v r1]|] eqn:E1; [|discriminate].
    destruct (dec_rep d k r1) as [[vs' r2]|] eqn:E2; inv H.
    apply Hd in E1. apply IH in E2; [|exact Hd]. destruct E2 as [E2 E3].
    unfold esum in *. cbn [length map fold_right]. lia.
Qed.

Lemma dec_all_len : forall ts inp vs r,
  Forall (fun t => forall inp v r, decode t inp = Some (v, r) -> (length r + elems v + nzb t <= length inp)%nat) ts ->
  dec_all (map decode ts) inp = Some (vs, r) ->
  (length r + esum vs + (if existsb nz ts then 1 else 0) <= length inp)%nat.
Proof.
  intros ts inp vs r H. revert inp vs r. induction H as [|t ts Ht _ IH]; intros inp vs r Hd.
  - cbn [map dec_all] in Hd. inv Hd. cbn. lia.
  - cbn [map dec_all] in Hd. destruct (decode t inp) as [[v r1]|] eqn:E1; [|discriminate].
    destruct (dec_all (map decode ts) r1) as [[vs' r2]|] eqn:E2; inv Hd.
    apply Ht in E1. apply IH in E2. unfold esum, nzb in *. cbn [map fold_right existsb].
    destruct (nz t); destruct (existsb nz ts); cbn [orb]; lia.
Qed.

Lemma nth_error_map_inv : forall {A B} (f : A -> B) l n y,
  nth_error (map f l) n = Some y -> exists x, nth_error l n = Some x /\ y = f x.
Proof.
  intros A B f l. induction l as [|a l IH]; intros [|n] y H; cbn in H; try discriminate.
  - inv H. exists a. split; reflexivity.
  - apply IH in H. exact H.
Qed.

Theorem decode_elems : forall t, ty_ok t = true ->
  forall inp v r, decode t inp = Some (v, r) -> (length r + elems v + nzb t <= length inp)%nat.
Proof.
  unfold nzb.
  induction t using ty_ind2; intros Hok inp v r Hd; cbn [decode] in Hd; cbn [nz].
  - destruct inp; inv Hd. cbn. lia.
  - destruct (dec_u b inp) as [[n r0]|] eqn:E; inv Hd. apply dec_varint_len in E. cbn [elems]. lia.
  - destruct (dec_u b inp) as [[n r0]|] eqn:E; inv Hd. apply dec_varint_len in E. cbn [elems]. lia.
  - destruct inp as [|[|[p|p|]] inp']; inv Hd; cbn; lia.
  - destruct (take_n 8 inp) as [[bs r0]|] eqn:E; inv Hd. apply take_n_len in E. cbn [elems]. lia.
  - destruct (dec_lenbytes inp) as [[bs r0]|] eqn:E; [|discriminate].
    destruct (utf8_valid bs); inv Hd. apply dec_lenbytes_len in E. cbn [elems]. lia.
  - destruct (dec_lenbytes inp) as [[bs r0]|] eqn:E; inv Hd. apply dec_lenbytes_len in E. cbn [elems]. lia.
  - destruct (dec_lenbytes inp) as [[bs r0]|] eqn:E; [|discriminate].
    destruct (N.of_nat (length bs) =? n); inv Hd. apply dec_lenbytes_len in E. cbn [elems]. lia.
  - unfold dec_dur in Hd. destruct (dec_u 64 inp) as [[s r0]|] eqn:E; [|discriminate].
    destruct (dec_u 32 r0) as [[n r1]|] eqn:E2; [|discriminate].
    destruct (U64MAX <? s + n / NANOS); inv Hd.
    apply dec_varint_len in E. apply dec_varint_len in E2. cbn [elems]. lia.
  - unfold dec_dur in Hd. destruct (dec_u 64 inp) as [[s r0]|] eqn:E; [|discriminate].
    destruct (dec_u 32 r0) as [[n r1]|] eqn:E2; [|discriminate].
    destruct (I64MAX <? s + n / NANOS); inv Hd.
    apply dec_varint_len in E. apply dec_varint_len in E2. cbn [elems]. lia.
  - (* Seq *)
    cbn [ty_ok] in Hok. apply andb_true_iff in Hok as [Hnz Hok].
    destruct (dec_u 64 inp) as [[len r0]|] eqn:E; [|discriminate].
    destruct (N.of_nat (length r0) <? len); [discriminate|].
    destruct (dec_rep (decode t) (N.to_nat len) r0) as [[vs r1]|] eqn:E2; inv Hd.
    apply dec_varint_len in E.
    apply (dec_rep_len (decode t) 1) in E2.
    + destruct E2 as [E2 E3]. cbn [elems]. fold (esum vs). lia.
    + intros inp' v' r' H'. specialize (IHt Hok inp' v' r' H'). rewrite Hnz in IHt. exact IHt.
  - (* Opt *)
    cbn [ty_ok] in Hok.
    destruct inp as [|[|[p|p|]] inp']; try discriminate.
    + inv Hd. cbn. lia.
    + destruct (decode t inp') as [[v' r']|] eqn:E; inv Hd. apply IHt in E; [|exact Hok]. cbn [elems length]. lia.
  - (* Tup *)
    cbn [ty_ok] in Hok.
    destruct (dec_all (map decode ts) inp) as [[vs r0]|] eqn:E; inv Hd.
    apply dec_all_len in E; [cbn [elems]; fold (esum vs); exact E|].
    apply forallb_Forall in Hok. rewrite Forall_forall in *. intros t Hin. apply H; auto.
  - (* Enum *)
    cbn [ty_ok] in Hok. apply andb_true_iff in Hok as [_ Hok].
    destruct (dec_u 32 inp) as [[idx r0]|] eqn:E; [|discriminate].
    destruct (idx <? N.of_nat (length ts)); [|discriminate].
    destruct (nth_error (map decode ts) (N.to_nat idx)) as [d|] eqn:E2; [|discriminate].
    destruct (d r0) as [[v' r']|] eqn:E3; inv Hd.
    apply nth_error_map_inv in E2. destruct E2 as [t [Et ->]].
    apply nth_error_In in Et. apply forallb_Forall in Hok. rewrite Forall_forall in *.
    apply (H t Et (Hok t Et)) in E3. apply dec_varint_len in E. cbn [elems]. lia.
  - (* Arr *)
    cbn [ty_ok] in Hok.
    destruct (dec_rep (decode t) n inp) as [[vs r0]|] eqn:E; inv Hd.
    apply (dec_rep_len (decode t) (if nz t then 1 else 0)%nat) in E; [|intros; apply IHt; assumption].
    destruct E as [E1 E2]. cbn [elems]. fold (esum vs).
    destruct n; cbn [Nat.eqb negb andb]; [lia|]. destruct (nz t); lia.
Qed.

Corollary decode_elems_le : forall t, ty_ok t = true ->
  forall inp v r, decode t inp = Some (v, r) ->
  (length r <= length inp)%nat /\ (elems v <= length inp - length r)%nat.
Proof. intros t Hok inp v r H. apply decode_elems in H; [|exact Hok]. lia. Qed.

(* ---------- decoded values are well typed; re-encoding is canonical ---------- *)
Lemma unzz_range : forall bits n, bits_ok bits = true -> n < 2 ^ bits ->
  (- 2 ^ (Z.of_N bits - 1) <= unzz n < 2 ^ (Z.of_N bits - 1))%Z.
Proof.
  intros bits n Hb Hn. unfold unzz.
  destruct (bits_ok_cases _ Hb) as [-> | [-> | [-> | ->]]].
  - change (2 ^ 16) with 65536 in Hn. change (2 ^ (Z.of_N 16 - 1))%Z with 32768%Z. destruct (N.even n); lia.
  - change (2 ^ 32) with 4294967296 in Hn. change (2 ^ (Z.of_N 32 - 1))%Z with 2147483648%Z. destruct (N.even n); lia.
  - change (2 ^ 64) with 18446744073709551616 in Hn.
    change (2 ^ (Z.of_N 64 - 1))%Z with 9223372036854775808%Z. destruct (N.even n); lia.
  - change (2 ^ 128) with 340282366920938463463374607431768211456 in Hn.
    change (2 ^ (Z.of_N 128 - 1))%Z with 170141183460469231731687303715884105728%Z. destruct (N.even n); lia.
Qed.

Lemma dec_lenbytes_bound : forall inp bs r, dec_lenbytes inp = Some (bs, r) -> N.of_nat (length bs) <= U64MAX.
Proof.
  intros inp bs r H. unfold dec_lenbytes in H.
  destruct (dec_u 64 inp) as [[len r0]|] eqn:E; [|discriminate].
  apply dec_u_bound in E; [|reflexivity]. apply take_n_len in H. destruct H as [_ H].
  change (2 ^ 64) with 18446744073709551616 in E. unfold U64MAX. lia.
Qed.

Lemma dec_rep_forallb : forall (d : decoder) (w : value -> bool) k inp vs r,
  (forall inp v r, d inp = Some (v, r) -> w v = true) -> dec_rep d k inp = Some (vs, r) ->
  forallb w vs = true /\ length vs = k.
Proof.
  intros d w k. induction k as [|k IH]; intros inp vs r Hd H; cbn [dec_rep] in H.
  - inv H. split; reflexivity.
  - destruct (d inp) as [[v r1]|] eqn:E1; [|discriminate].
    destruct (dec_rep d k r1) as [[vs' r2]|] eqn:E2; inv H.
    apply Hd in E1. apply IH in E2; [|exact Hd]. destruct E2 as [E2 E3].
    cbn [forallb length]. rewrite E1, E2, E3. split; reflexivity.
Qed.

Lemma dec_all_wf : forall ts inp vs r,
  Forall (fun t => forall inp v r, decode t inp = Some (v, r) -> wfb t v = true) ts ->
  dec_all (map decode ts) inp = Some (vs, r) -> all2 (map wfb ts) vs = true.
Proof.
  intros ts inp vs r H. revert inp vs r. induction H as [|t ts Ht _ IH]; intros inp vs r Hd; cbn [map dec_all] in Hd.
  - inv Hd. reflexivity.
  - destruct (decode t inp) as [[v r1]|] eqn:E1; [|discriminate].
    destruct (dec_all (map decode ts) r1) as [[vs' r2]|] eqn:E2; inv Hd.
    cbn [map all2]. rewrite (Ht _ _ _ E1), (IH _ _ _ E2). reflexivity.
Qed.

Theorem decode_wf : forall t, ty_ok t = true ->
  forall inp v r, decode t inp = Some (v, r) -> wfb t v = true.
Proof.
  induction t using ty_ind2; intros Hok inp v r Hd; cbn [decode] in Hd.
  - destruct inp; inv Hd. reflexivity.
  - destruct (dec_u b inp) as [[n r0]|] eqn:E; inv Hd. cbn [wfb]. apply N.ltb_lt. eapply dec_u_bound; eauto.
  - destruct (dec_u b inp) as [[n r0]|] eqn:E; inv Hd. cbn [wfb].
    apply dec_u_bound in E; [|exact Hok]. pose proof (unzz_range b n Hok E). lia.
  - destruct inp as [|[|[p|p|]] inp']; inv Hd; reflexivity.
  - destruct (take_n 8 inp) as [[bs r0]|] eqn:E; inv Hd. apply take_n_len in E. cbn [wfb]. apply Nat.eqb_eq. lia.
  - destruct (dec_lenbytes inp) as [[bs r0]|] eqn:E; [|discriminate].
    destruct (utf8_valid bs) eqn:Eu; inv Hd. apply dec_lenbytes_bound in E. cbn [wfb]. rewrite Eu. cbn [andb]. lia.
  - destruct (dec_lenbytes inp) as [[bs r0]|] eqn:E; inv Hd. apply dec_lenbytes_bound in E. cbn [wfb]. lia.
  - destruct (dec_lenbytes inp) as [[bs r0]|] eqn:E; [|discriminate].
    destruct (N.of_nat (length bs) =? n) eqn:En; inv Hd. apply dec_lenbytes_bound in E. cbn [wfb]. lia.
  - unfold dec_dur in Hd. destruct (dec_u 64 inp) as [[s r0]|]; [|discriminate].
    destruct (dec_u 32 r0) as [[n r1]|]; [|discriminate].
    destruct (U64MAX <? s + n / NANOS) eqn:El; inv Hd. cbn [wfb].
    assert (n mod NANOS < NANOS) by (apply N.mod_lt; unfold NANOS; lia). lia.
  - unfold dec_dur in Hd. destruct (dec_u 64 inp) as [[s r0]|]; [|discriminate].
    destruct (dec_u 32 r0) as [[n r1]|]; [|discriminate].
    destruct (I64MAX <? s + n / NANOS) eqn:El; inv Hd. cbn [wfb].
    assert (n mod NANOS < NANOS) by (apply N.mod_lt; unfold NANOS; lia). lia.
  - (* Seq *)
    cbn [ty_ok] in Hok. apply andb_true_iff in Hok as [_ Hok].
    destruct (dec_u 64 inp) as [[len r0]|] eqn:E; [|discriminate].
    destruct (N.of_nat (length r0) <? len); [discriminate|].
    destruct (dec_rep (decode t) (N.to_nat len) r0) as [[vs r1]|] eqn:E2; inv Hd.
    apply (dec_rep_forallb (decode t) (wfb t)) in E2; [|intros; eapply IHt; eauto].
    destruct E2 as [E2 E3]. apply dec_u_bound in E; [|reflexivity].
    change (2 ^ 64) with 18446744073709551616 in E. cbn [wfb]. rewrite E2. unfold U64MAX. lia.
  - cbn [ty_ok] in Hok. destruct inp as [|[|[p|p|]] inp']; try discriminate.
    + inv Hd. reflexivity.
    + destruct (decode t inp') as [[v' r']|] eqn:E; inv Hd. cbn [wfb]. eapply IHt; eauto.
  - (* Tup *)
    cbn [ty_ok] in Hok.
    destruct (dec_all (map decode ts) inp) as [[vs r0]|] eqn:E; inv Hd. cbn [wfb].
    eapply dec_all_wf; [|exact E].
    apply forallb_Forall in Hok. rewrite Forall_forall in *. intros t Hin. apply H; auto.
  - (* Enum *)
    cbn [ty_ok] in Hok. apply andb_true_iff in Hok as [_ Hok].
    destruct (dec_u 32 inp) as [[idx r0]|] eqn:E; [|discriminate].
    destruct (idx <? N.of_nat (length ts)) eqn:Ei; [|discriminate].
    destruct (nth_error (map decode ts) (N.to_nat idx)) as [d|] eqn:E2; [|discriminate].
    destruct (d r0) as [[v' r']|] eqn:E3; inv Hd.
    apply nth_error_map_inv in E2. destruct E2 as [t [Et ->]].
    cbn [wfb]. rewrite Ei. rewrite (map_nth_error wfb _ _ Et). cbn [andb].
    apply nth_error_In in Et. apply forallb_Forall in Hok. rewrite Forall_forall in *.
    eapply (H t Et (Hok t Et)); eauto.
  - (* Arr *)
    cbn [ty_ok] in Hok.
    destruct (dec_rep (decode t) n inp) as [[vs r0]|] eqn:E; inv Hd.
    apply (dec_rep_forallb (decode t) (wfb t)) in E; [|intros; eapply IHt; eauto].
    destruct E as [E1 E2]. cbn [wfb]. rewrite E1, E2, Nat.eqb_refl. reflexivity.
Qed.

(* decode is not injective (overlong varints, unnormalised durations), but the value it
   returns re-encodes to a byte string that decodes to the same value: comparing canonical
   re-encodings is comparing decoded values *)
Corollary decode_canonical : forall t, ty_ok t = true ->
  forall inp v r, decode t inp = Some (v, r) ->
  forall r', decode t (encode t v ++ r') = Some (v, r').
Proof. intros t Hok inp v r H r'. apply decode_encode; [exact Hok|]. eapply decode_wf; eauto. Qed.

(* ---------- the UTF-8 validator accepts the encoding of every Unicode scalar value ---------- *)
Lemma utf8_enc_valid : forall c l, scalar c = true -> utf8_valid (utf8_enc c ++ l) = utf8_valid l.
Proof.
  intros c l Hs. unfold scalar in Hs. unfold utf8_enc.
  destruct (c <? 128) eqn:E1.
  - cbn [app utf8_valid]. rewrite E1. reflexivity.
  - destruct (c <? 2048) eqn:E2.
    + cbn [app utf8_valid]. unfold inr, cont.
      replace (192 + c / 64 <? 128) with false by lia.
      replace ((194 <=? 192 + c / 64) && (192 + c / 64 <=? 223)) with true by lia.
      unfold inr. replace ((128 <=? 128 + c mod 64) && (128 + c mod 64 <=? 191)) with true by lia.
      reflexivity.
    + destruct (c <? 65536) eqn:E3.
      * cbn [app utf8_valid]. unfold inr, cont, inr.
        replace (224 + c / 4096 <? 128) with false by lia.
        replace ((194 <=? 224 + c / 4096) && (224 + c / 4096 <=? 223)) with false by lia.
        replace ((224 <=? 224 + c / 4096) && (224 + c / 4096 <=? 239)) with true by lia.
        replace ((128 <=? 128 + c mod 64) && (128 + c mod 64 <=? 191)) with true by lia.
        destruct (224 + c / 4096 =? 224) eqn:E4.
        { replace ((160 <=? 128 + c / 64 mod 64) && (128 + c / 64 mod 64 <=? 191)) with true by lia. reflexivity. }
        destruct (224 + c / 4096 =? 237) eqn:E5.
        { replace ((128 <=? 128 + c / 64 mod 64) && (128 + c / 64 mod 64 <=? 159)) with true by lia. reflexivity. }
        replace ((128 <=? 128 + c / 64 mod 64) && (128 + c / 64 mod 64 <=? 191)) with true by lia. reflexivity.
      * cbn [app utf8_valid]. unfold inr, cont, inr.
        replace (240 + c / 262144 <? 128) with false by lia.
        replace ((194 <=? 240 + c / 262144) && (240 + c / 262144 <=? 223)) with false by lia.
        replace ((224 <=? 240 + c / 262144) && (240 + c / 262144 <=? 239)) with false by lia.
        replace ((240 <=? 240 + c / 262144) && (240 + c / 262144 <=? 244)) with true by lia.
        replace ((128 <=? 128 + c mod 64) && (128 + c mod 64 <=? 191)) with true by lia.
        replace ((128 <=? 128 + c / 64 mod 64) && (128 + c / 64 mod 64 <=? 191)) with true by lia.
        destruct (240 + c / 262144 =? 240) eqn:E4.
        { replace ((144 <=? 128 + c / 4096 mod 64) && (128 + c / 4096 mod 64 <=? 191)) with true by lia. reflexivity. }
        destruct (240 + c / 262144 =? 244) eqn:E5.
        { replace ((128 <=? 128 + c / 4096 mod 64) && (128 + c / 4096 mod 64 <=? 143)) with true by lia. reflexivity. }
        replace ((128 <=? 128 + c / 4096 mod 64) && (128 + c / 4096 mod 64 <=? 191)) with true by lia. reflexivity.
Qed.

Lemma utf8_string_valid : forall cs, forallb scalar cs = true -> utf8_valid (flat_map utf8_enc cs) = true.
Proof.
  induction cs as [|c cs IH]; intros H; [reflexivity|].
  cbn [forallb] in H. apply andb_true_iff in H as [H1 H2].
  cbn [flat_map]. rewrite utf8_enc_valid by exact H1. apply IH. exact H2.
Qed.
