(* Proofs about Model/PeerRecord.v (C09). *)
From SV Require Import Lib.Base Gen.PeerRecordConsts Model.PeerRecord.
Local Open Scope N_scope.

(* ================================================================ bytes *)
Lemma bytes_eqb_eq a : forall b, bytes_eqb a b = true <-> a = b.
Proof.
  induction a as [|x a IH]; intros [|y b]; cbn [bytes_eqb]; try (split; [discriminate|congruence]).
  - tauto.
  - rewrite andb_true_iff, IH, N.eqb_eq. split; [intros [-> ->]; reflexivity|intro E; inv E; auto].
Qed.

Lemma bytes_eqb_refl a : bytes_eqb a a = true.
Proof. apply bytes_eqb_eq. reflexivity. Qed.

Lemma take_n_app (a r : bytes) w : length a = w -> take_n w (a ++ r) = Some (a, r).
Proof.
  intro E. unfold take_n. subst w. rewrite app_length.
  replace (length a <=? length a + length r)%nat with true by (symmetry; apply Nat.leb_le; lia).
  rewrite firstn_app, Nat.sub_diag, firstn_all, skipn_app, Nat.sub_diag, skipn_all. cbn.
  rewrite app_nil_r. reflexivity.
Qed.

Lemma len_to_nat {A} (l : list A) : N.to_nat (len l) = length l.
Proof. unfold len. lia. Qed.

(* ================================================================ fixed width *)
Lemma le_length w : forall n, length (le w n) = w.
Proof. induction w as [|k IH]; intro n; cbn [le length]; [reflexivity|rewrite IH; reflexivity]. Qed.

Lemma be_length w n : length (be w n) = w.
Proof. unfold be. rewrite rev_length. apply le_length. Qed.

Lemma of_le_le w : forall n, n < 256 ^ N.of_nat w -> of_le (le w n) = n.
Proof.
  induction w as [|k IH]; intros n Hn.
  - cbn in *. lia.
  - cbn [le of_le]. rewrite Nat2N.inj_succ, N.pow_succ_r' in Hn.
    remember (256 ^ N.of_nat k) as P eqn:EP.
    rewrite IH; [clear Hn IH; pose proof (N.div_mod' n 256); lia|].
    subst P. apply N.div_lt_upper_bound; [lia|exact Hn].
Qed.

Lemma dec_be_be w n r : n < 256 ^ N.of_nat w -> dec_be w (be w n ++ r) = Some (n, r).
Proof.
  intro Hn. unfold dec_be. rewrite take_n_app by apply be_length. cbn [bind].
  unfold of_be, be. rewrite rev_involutive, of_le_le by exact Hn. reflexivity.
Qed.

Lemma pow256_4 : 256 ^ N.of_nat 4 = U32. Proof. reflexivity. Qed.
Lemma pow256_8 : 256 ^ N.of_nat 8 = U64. Proof. reflexivity. Qed.

(* ================================================================ varint *)
Lemma unvarint_varint fuel : forall n r,
  (0 < fuel)%nat -> n < 128 ^ N.of_nat fuel -> unvarint fuel (varint fuel n ++ r) = Some (n, r).
Proof.
  induction fuel as [|f IH]; intros n r Hf Hn; [lia|].
  cbn [varint unvarint]. destruct (n <? 128) eqn:E.
  - cbn [app]. rewrite E. reflexivity.
  - cbn [app]. replace (128 + n mod 128 <? 128) with false by (symmetry; apply N.ltb_ge; lia).
    apply N.ltb_ge in E.
    rewrite Nat2N.inj_succ, N.pow_succ_r' in Hn.
    destruct f as [|f']; [cbn in Hn; lia|].
    rewrite IH; [| lia | apply N.div_lt_upper_bound; [lia|exact Hn]].
    f_equal. f_equal. clear Hn IH. pose proof (N.div_mod' n 128). lia.
Qed.

Lemma U64_lt_fuel : U64 <= 128 ^ N.of_nat VFUEL.
Proof. vm_compute. discriminate. Qed.

Lemma unvint_vint n r : n < U64 -> unvint (vint n ++ r) = Some (n, r).
Proof.
  intro Hn. apply unvarint_varint; [unfold VFUEL; lia|]. pose proof U64_lt_fuel. lia.
Qed.

(* ================================================================ postcard pieces *)
Lemma dec_bytes_enc b r : shape_bytes b -> dec_bytes (enc_bytes b ++ r) = Some (b, r).
Proof.
  intro Hs. unfold dec_bytes, enc_bytes. rewrite <- app_assoc, unvint_vint by exact Hs.
  cbn [bind]. apply take_n_app. symmetry. apply len_to_nat.
Qed.

Lemma dec_opt_enc o r : shape_opt o -> dec_opt (enc_opt o ++ r) = Some (o, r).
Proof.
  destruct o as [b|]; intro Hs; cbn [enc_opt app dec_opt].
  - rewrite dec_bytes_enc by exact Hs. reflexivity.
  - reflexivity.
Qed.

Lemma dec_many_enc {A} (d : bytes -> option (A * bytes)) (e : A -> bytes) (P : A -> Prop) :
  (forall a r, P a -> d (e a ++ r) = Some (a, r)) ->
  forall l r, Forall P l -> dec_many d (length l) (concat (map e l) ++ r) = Some (l, r).
Proof.
  intros Hd l. induction l as [|a l IH]; intros r HF; cbn [length dec_many map concat app].
  - reflexivity.
  - inv HF. rewrite <- app_assoc, Hd by assumption. cbn [bind]. rewrite IH by assumption. reflexivity.
Qed.

Lemma dec_strs_enc l r :
  len l < U64 -> Forall shape_bytes l -> dec_strs (enc_strs l ++ r) = Some (l, r).
Proof.
  intros Hl HF. unfold dec_strs, enc_strs. rewrite <- app_assoc, unvint_vint by exact Hl.
  cbn [bind]. rewrite len_to_nat.
  apply (dec_many_enc dec_bytes enc_bytes shape_bytes); [|exact HF].
  intros; apply dec_bytes_enc; assumption.
Qed.

Lemma dec_addr_enc a r :
  shape_addr a -> canon_addr a -> dec_addr (enc_addr a ++ r) = Some (a, r).
Proof.
  destruct a as [ip p|ip p fl sc]; cbn [shape_addr canon_addr enc_addr app dec_addr]; intros [Hl Hp] Hc.
  - rewrite <- app_assoc, take_n_app by exact Hl. cbn [bind].
    rewrite unvint_vint by (unfold U16, U64 in *; lia). reflexivity.
  - destruct Hc as [-> ->]. rewrite <- app_assoc, take_n_app by exact Hl. cbn [bind].
    rewrite unvint_vint by (unfold U16, U64 in *; lia). reflexivity.
Qed.

Definition good_ep (e : endpoint) : Prop := shape_ep e /\ canon_addr (ep_addr e).

Lemma dec_ep_enc e r : good_ep e -> dec_ep (enc_ep e ++ r) = Some (e, r).
Proof.
  intros [(H1 & H2 & H3 & H4 & H5 & H6 & H7 & H8) Hc]. unfold dec_ep, enc_ep.
  repeat rewrite <- app_assoc.
  rewrite dec_bytes_enc by exact H1. cbn [bind].
  rewrite dec_addr_enc by assumption. cbn [bind].
  rewrite dec_opt_enc by exact H3. cbn [bind].
  rewrite unvint_vint by exact H4. cbn [bind].
  rewrite dec_strs_enc by assumption. cbn [bind].
  rewrite dec_opt_enc by exact H7. cbn [bind].
  rewrite unvint_vint by exact H8. cbn [bind].
  destruct e; reflexivity.
Qed.

Lemma dec_eps_enc l r :
  len l < U64 -> Forall good_ep l -> dec_eps (enc_eps l ++ r) = Some (l, r).
Proof.
  intros Hl HF. unfold dec_eps, enc_eps. rewrite <- app_assoc, unvint_vint by exact Hl.
  cbn [bind]. rewrite len_to_nat.
  apply (dec_many_enc dec_ep enc_ep good_ep); [|exact HF].
  intros; apply dec_ep_enc; assumption.
Qed.

(* ================================================================ the record *)
Lemma good_eps r pkw : shape_rec pkw r -> canon_rec r -> Forall good_ep (r_eps r).
Proof.
  intros (_ & _ & _ & _ & _ & HF & _) Hc. unfold canon_rec in Hc.
  rewrite Forall_forall in *. intros e He. split; [apply HF|apply Hc]; exact He.
Qed.

Lemma name_empty_false r : name_empty r = false -> r_name r <> Some [].
Proof. unfold name_empty. destruct (r_name r) as [[|]|]; congruence. Qed.

Local Opaque be vint.

Lemma parse_signable_ok pkw r rest :
  shape_rec pkw r -> canon_rec r -> name_empty r = false ->
  parse_signable pkw (signable r ++ rest) = Some (fields_of r, rest).
Proof.
  intros Hs Hc Hn. pose proof (good_eps r pkw Hs Hc) as Hg.
  destruct Hs as (Hu & Hp & Hseq & Hname & Hle & _ & Hel & Hts & Httl).
  apply name_empty_false in Hn.
  unfold signable, parse_signable, fields_of. cbn [app].
  repeat rewrite <- app_assoc.
  rewrite take_n_app by exact Hu. cbn [bind].
  rewrite take_n_app by exact Hp. cbn [bind].
  rewrite dec_be_be by (rewrite pow256_8; exact Hseq). cbn [bind].
  assert (Htail : forall tl,
    (do (el, r6) <- dec_be 4 (be 4 (len (enc_eps (r_eps r))) ++ enc_eps (r_eps r) ++ be 8 (r_ts r) ++ be 4 (r_ttl r) ++ tl);
     do (ed, r7) <- take_n (N.to_nat el) r6;
     do (eps, rest0) <- dec_eps ed;
     match rest0 with
     | [] => do (ts, r8) <- dec_be 8 r7; do (ttl, r9) <- dec_be 4 r8; Some (eps, ts, ttl, r9)
     | _ => None
     end) = Some (r_eps r, r_ts r, r_ttl r, tl)).
  { intro tl.
    rewrite dec_be_be by (rewrite pow256_4; exact Hel). cbn [bind].
    rewrite take_n_app by (symmetry; apply len_to_nat). cbn [bind].
    rewrite <- (app_nil_r (enc_eps (r_eps r))), dec_eps_enc by assumption. cbn [bind].
    rewrite dec_be_be by (rewrite pow256_8; exact Hts). cbn [bind].
    rewrite dec_be_be by (rewrite pow256_4; exact Httl). cbn [bind]. reflexivity. }
  specialize (Htail rest).
  unfold enc_name. destruct (r_name r) as [nm|].
  - repeat rewrite <- app_assoc.
    rewrite dec_be_be by (rewrite pow256_4; exact Hname). cbn [bind].
    rewrite take_n_app by (symmetry; apply len_to_nat). cbn [bind].
    destruct (dec_be 4 _) as [[el r6]|]; cbn [bind] in *; [|discriminate].
    destruct (take_n (N.to_nat el) r6) as [[ed r7]|]; cbn [bind] in *; [|discriminate].
    destruct (dec_eps ed) as [[eps [|x rest0]]|]; cbn [bind] in *; try discriminate.
    destruct (dec_be 8 r7) as [[ts r8]|]; cbn [bind] in *; [|discriminate].
    destruct (dec_be 4 r8) as [[ttl r9]|]; cbn [bind] in *; [|discriminate].
    injection Htail as -> -> -> ->.
    replace (len nm =? 0) with false; [reflexivity|].
    symmetry. apply N.eqb_neq. unfold len. destruct nm; [exfalso; apply Hn; reflexivity|cbn [length]; lia].
  - rewrite dec_be_be by (rewrite pow256_4; unfold U32; lia). cbn [bind].
    change (N.to_nat 0) with O. unfold take_n at 1. cbn [Nat.leb firstn skipn bind].
    destruct (dec_be 4 _) as [[el r6]|]; cbn [bind] in *; [|discriminate].
    destruct (take_n (N.to_nat el) r6) as [[ed r7]|]; cbn [bind] in *; [|discriminate].
    destruct (dec_eps ed) as [[eps [|x rest0]]|]; cbn [bind] in *; try discriminate.
    destruct (dec_be 8 r7) as [[ts r8]|]; cbn [bind] in *; [|discriminate].
    destruct (dec_be 4 r8) as [[ttl r9]|]; cbn [bind] in *; [|discriminate].
    injection Htail as -> -> -> ->. reflexivity.
Qed.

Local Transparent be vint.

Lemma signable_opt_some r m : signable_opt r = Some m -> name_empty r = false /\ m = signable r.
Proof. unfold signable_opt. destruct (name_empty r); [discriminate|]. intro E; inv E; auto. Qed.

(* Equal signed bytes => equal covered fields. *)
Lemma signable_injective pkw r1 r2 m :
  shape_rec pkw r1 -> shape_rec pkw r2 -> canon_rec r1 -> canon_rec r2 ->
  signable_opt r1 = Some m -> signable_opt r2 = Some m ->
  fields_of r1 = fields_of r2.
Proof.
  intros S1 S2 C1 C2 E1 E2.
  apply signable_opt_some in E1. apply signable_opt_some in E2.
  destruct E1 as [N1 ->]. destruct E2 as [N2 E].
  pose proof (parse_signable_ok pkw r1 [] S1 C1 N1) as P1.
  pose proof (parse_signable_ok pkw r2 [] S2 C2 N2) as P2.
  rewrite app_nil_r in P1, P2. rewrite E in P1. congruence.
Qed.

(* and no signed message is a proper prefix of another *)
Lemma signable_prefix_free pkw r1 r2 t1 t2 :
  shape_rec pkw r1 -> shape_rec pkw r2 -> canon_rec r1 -> canon_rec r2 ->
  name_empty r1 = false -> name_empty r2 = false ->
  signable r1 ++ t1 = signable r2 ++ t2 -> fields_of r1 = fields_of r2 /\ t1 = t2.
Proof.
  intros S1 S2 C1 C2 N1 N2 E.
  pose proof (parse_signable_ok pkw r1 t1 S1 C1 N1) as P1.
  pose proof (parse_signable_ok pkw r2 t2 S2 C2 N2) as P2.
  rewrite E in P1. rewrite P1 in P2. split; congruence.
Qed.

(* the two classes left out above really are not injective *)
Lemma enc_addr_scope_blind ip p f s f' s' : enc_addr (V6 ip p f s) = enc_addr (V6 ip p f' s').
Proof. reflexivity. Qed.

Lemma enc_name_empty_ambiguous : enc_name (Some []) = enc_name None.
Proof. reflexivity. Qed.

(* ================================================================ verification *)
Section Verify.
  Variable H : bytes -> bytes.
  Variable vs : bytes -> bytes -> bytes -> bool.

  Lemma verify_true r :
    verify H vs r = true ->
    name_empty r = false /\ r_uid r = H (r_pk r) /\ vs (r_pk r) (signable r) (r_sig r) = true.
  Proof.
    unfold verify, signable_opt. destruct (name_empty r); [discriminate|].
    rewrite andb_true_iff, bytes_eqb_eq. tauto.
  Qed.

  Lemma verify_iff r :
    verify H vs r = true <->
    name_empty r = false /\ r_uid r = H (r_pk r) /\ vs (r_pk r) (signable r) (r_sig r) = true.
  Proof.
    split; [apply verify_true|].
    intros (Hn & Hu & Hv). unfold verify, signable_opt. rewrite Hn, Hu, bytes_eqb_refl, Hv. reflexivity.
  Qed.

  Lemma app_inj_head {A} (a b c d : list A) : length a = length c -> a ++ b = c ++ d -> a = c /\ b = d.
  Proof.
    revert c. induction a as [|x a IH]; intros [|y c] Hl E; cbn in *; try discriminate; auto.
    inv E. destruct (IH c) as [-> ->]; auto.
  Qed.

  Lemma app_inj_len {A} (a b c d : list A) : length b = length d -> a ++ b = c ++ d -> a = c /\ b = d.
  Proof.
    intros Hl E. apply app_inj_head; [|exact E].
    apply (f_equal (@length A)) in E. rewrite !app_length in E. lia.
  Qed.

  (* the verdict is a function of the bytes that make up the cache key *)
  Lemma verify_det_by_key pkw sigw r1 r2 :
    widths pkw sigw r1 -> widths pkw sigw r2 ->
    key_bytes r1 = key_bytes r2 -> verify H vs r1 = verify H vs r2.
  Proof.
    intros (U1 & P1 & S1) (U2 & P2 & S2) E. unfold key_bytes in E.
    apply app_inj_len in E; [|congruence]. destruct E as [Em Es].
    unfold verify. unfold signable_opt in *.
    destruct (name_empty r1), (name_empty r2); try reflexivity; try discriminate.
    rewrite Es. rewrite Em.
    unfold signable in Em. inv Em.
    match goal with HE : _ ++ _ = _ ++ _ |- _ => apply app_inj_head in HE; [|congruence]; destruct HE as [Eu HE] end.
    match goal with HE : _ ++ _ = _ ++ _ |- _ => apply app_inj_head in HE; [|congruence]; destruct HE as [Ep HE] end.
    rewrite Eu, Ep. reflexivity.
  Qed.
End Verify.

(* ================================================================ cache *)
Section CacheProofs.
  Context {A : Type} (keyf : A -> bytes) (ver : A -> bool).

  Lemma lookup_in k c b : lookup k c = Some b -> In (k, b) c.
  Proof.
    induction c as [|[k' b'] c IH]; cbn [lookup]; [discriminate|].
    destruct (bytes_eqb k k') eqn:E.
    - apply bytes_eqb_eq in E. subst. intro X; inv X. left; reflexivity.
    - intro X. right. apply IH. exact X.
  Qed.

  Lemma remove_nth_incl n : forall c x, In x (remove_nth n c) -> In x c.
  Proof.
    induction n as [|n IH]; intros [|y c] x; cbn [remove_nth]; auto.
    - intro; right; assumption.
    - intros [->|Hin]; [left; reflexivity|right; apply IH; exact Hin].
  Qed.

  Lemma evict_incl cap v c x : In x (evict cap v c) -> In x c.
  Proof. unfold evict. destruct (cap <=? length c)%nat; [apply remove_nth_incl|auto]. Qed.

  Lemma remove_nth_length n : forall c, (n < length c)%nat -> length (remove_nth n c) = (length c - 1)%nat.
  Proof.
    induction n as [|n IH]; intros [|y c] Hn; cbn [remove_nth length] in *; try lia.
    rewrite IH by lia. lia.
  Qed.

  (* every stored verdict is the right verdict for every item (of the universe
     U in play) that maps to its key *)
  Definition Sound (U : A -> Prop) (c : cache) : Prop :=
    forall k b, In (k, b) c -> forall a, U a -> keyf a = k -> ver a = b.

  Lemma step_sound (U : A -> Prop) cap v c a :
    (forall x y, U x -> U y -> keyf x = keyf y -> ver x = ver y) ->
    U a -> Sound U c ->
    Sound U (fst (step keyf ver cap v c a)) /\ snd (step keyf ver cap v c a) = ver a.
  Proof.
    intros Hk Ha Hs. unfold step. destruct (lookup (keyf a) c) as [b|] eqn:E; cbn [fst snd].
    - split; [exact Hs|]. apply lookup_in in E. symmetry. apply (Hs _ _ E a Ha). reflexivity.
    - split; [|reflexivity]. intros k b [X|X] x Hx Hkx.
      + injection X as Ek Eb. subst b. apply Hk; [assumption|assumption|congruence].
      + apply evict_incl in X. apply (Hs _ _ X x Hx Hkx).
  Qed.

  Lemma run_transparent (U : A -> Prop) cap ev :
    (forall x y, U x -> U y -> keyf x = keyf y -> ver x = ver y) ->
    forall l i c, Forall U l -> Sound U c -> run keyf ver cap ev i c l = map ver l.
  Proof.
    intros Hk l. induction l as [|a l IH]; intros i c HF Hs; cbn [run map]; [reflexivity|].
    inv HF. destruct (step_sound U cap (ev i c) c a Hk) as [Hs' Hb]; [assumption..|].
    destruct (step keyf ver cap (ev i c) c a) as [c' b]. cbn [fst snd] in *.
    subst b. f_equal. apply IH; assumption.
  Qed.

  Lemma remove_nth_nil n : remove_nth n [] = [].
  Proof. destruct n; reflexivity. Qed.

  (* the map never holds more than max(cap,1) entries *)
  Lemma step_size cap v c a :
    (length c <= Nat.max cap 1)%nat -> (length (fst (step keyf ver cap v c a)) <= Nat.max cap 1)%nat.
  Proof.
    intro Hc. unfold step. destruct (lookup (keyf a) c); cbn [fst]; [exact Hc|].
    cbn [length]. unfold evict. destruct (cap <=? length c)%nat eqn:E.
    - destruct c as [|x c]; [rewrite remove_nth_nil; cbn [length]; lia|].
      rewrite remove_nth_length by (apply Nat.mod_upper_bound; cbn; lia). cbn [length] in *. lia.
    - apply Nat.leb_gt in E. lia.
  Qed.

  Lemma final_size cap ev : forall l i c,
    (length c <= Nat.max cap 1)%nat -> (length (final keyf ver cap ev i c l) <= Nat.max cap 1)%nat.
  Proof.
    induction l as [|a l IH]; intros i c Hc; cbn [final]; [exact Hc|].
    apply IH, step_size, Hc.
  Qed.
End CacheProofs.

(* ================================================================ bounds *)
Lemma validate_len_iff name neps ttl :
  validate_len name neps ttl = true <->
  (match name with Some l => 1 <= l <= 255 | None => True end) /\
  1 <= neps <= 16 /\ 1 <= ttl <= 86400.
Proof.
  unfold validate_len, PR_MAX_NAME_BYTES, PR_MAX_ENDPOINTS, PR_MAX_TTL_SECONDS.
  destruct name as [l|]; rewrite !andb_true_iff, !negb_true_iff, ?N.ltb_ge, ?N.eqb_neq; lia.
Qed.

(* ================================================================ the property lemmas *)
Section Spec.
  Variable H : bytes -> bytes.
  Variable vs : bytes -> bytes -> bytes -> bool.
  Variable signed : bytes -> bytes -> Prop.

  Lemma verify_binds : ideal_sig vs signed -> forall r,
    verify H vs r = true ->
    r_uid r = H (r_pk r) /\ signed (r_pk r) (signable r) /\ r_name r <> Some [].
  Proof.
    intros Hid r Hv. apply (verify_true H vs) in Hv. destruct Hv as (Hn & Hu & Hs).
    repeat split; [exact Hu|exact (Hid _ _ _ Hs)|exact (name_empty_false r Hn)].
  Qed.

  Lemma only_exact : ideal_sig vs signed -> forall pkw (G : list prec) r,
    (forall m, signed (r_pk r) m -> exists g, In g G /\ signable_opt g = Some m) ->
    (forall g, In g G -> shape_rec pkw g /\ canon_rec g) ->
    shape_rec pkw r -> canon_rec r ->
    verify H vs r = true ->
    r_uid r = H (r_pk r) /\ exists g, In g G /\ fields_of g = fields_of r.
  Proof.
    intros Hid pkw G r Hown HG Hs Hc Hv.
    apply (verify_true H vs) in Hv. destruct Hv as (Hn & Hu & Hsig).
    split; [exact Hu|].
    destruct (Hown _ (Hid _ _ _ Hsig)) as (g & Hin & Hg).
    exists g. split; [exact Hin|].
    destruct (HG g Hin) as [Sg Cg].
    apply (signable_injective pkw g r (signable r)); try assumption.
    unfold signable_opt. rewrite Hn. reflexivity.
  Qed.

  Lemma altered_rejected : ideal_sig vs signed -> forall pkw (G : list prec) r,
    (forall m, signed (r_pk r) m -> exists g, In g G /\ signable_opt g = Some m) ->
    (forall g, In g G -> shape_rec pkw g /\ canon_rec g) ->
    shape_rec pkw r -> canon_rec r ->
    (r_uid r <> H (r_pk r) \/ forall g, In g G -> fields_of g <> fields_of r) ->
    verify H vs r = false.
  Proof.
    intros Hid pkw G r Hown HG Hs Hc Hbad.
    destruct (verify H vs r) eqn:Hv; [|reflexivity]. exfalso.
    destruct (only_exact Hid pkw G r Hown HG Hs Hc Hv) as [Hu (g & Hin & Hf)].
    destruct Hbad as [Hb|Hb]; [exact (Hb Hu)|exact (Hb g Hin Hf)].
  Qed.

  Lemma cache_transparent : forall pkw sigw cap ev rs,
    Forall (widths pkw sigw) rs -> collision_free H rs ->
    run (fun r => H (key_bytes r)) (verify H vs) cap ev 0 [] rs = map (verify H vs) rs.
  Proof.
    intros pkw sigw cap ev rs Hw Hcf.
    apply (run_transparent _ _ (fun r => In r rs /\ widths pkw sigw r)).
    - intros x y [Hx Wx] [Hy Wy] E. apply (verify_det_by_key H vs pkw sigw); auto.
    - rewrite Forall_forall in *. auto.
    - intros k b [].
  Qed.

  Lemma cache_bounded : forall cap ev rs,
    (length (final (fun r => H (key_bytes r)) (verify H vs) cap ev 0 [] rs) <= Nat.max cap 1)%nat.
  Proof. intros. apply final_size. cbn. lia. Qed.
End Spec.

Lemma signable_not_injective_outside :
  (exists r1 r2, r_name r1 <> r_name r2 /\ signable r1 = signable r2) /\
  (exists r1 r2, r_eps r1 <> r_eps r2 /\ signable r1 = signable r2 /\ signable_opt r1 <> None).
Proof.
  split.
  - exists (mkRec 1 [] [] 0 None [] 0 0 []), (mkRec 1 [] [] 0 (Some []) [] 0 0 []).
    split; [discriminate|reflexivity].
  - exists (mkRec 1 [] [] 0 None [mkEp [] (V6 [] 0 0 1) None 0 [] None 0] 0 0 []),
           (mkRec 1 [] [] 0 None [mkEp [] (V6 [] 0 0 2) None 0 [] None 0] 0 0 []).
    split; [discriminate|split; [reflexivity|discriminate]].
Qed.

Lemma old_key_not_transparent :
  exists (H : bytes -> bytes) (vs : bytes -> bytes -> bytes -> bool) cap ev rs,
    (forall x y, H x = H y -> x = y) /\
    (forall pk m s, vs pk m s = true -> s = toy_sign pk m) /\
    run (fun r => H (old_key_bytes r)) (verify H vs) cap ev 0 [] rs <> map (verify H vs) rs.
Proof.
  exists toy_H, toy_vs, 4%nat, (fun _ _ => O), [toy_genuine; toy_forged].
  split; [intros x y E; exact E|]. split.
  - intros pk m s E. apply bytes_eqb_eq in E. exact E.
  - vm_compute. discriminate.
Qed.

Lemma validate_iff name eps ttl :
  validate name eps ttl = true <->
  (match name with Some nm => 1 <= len nm <= 255 | None => True end) /\
  1 <= len eps <= 16 /\ 1 <= ttl <= 86400.
Proof.
  unfold validate. rewrite validate_len_iff. destruct name; cbn [option_map]; tauto.
Qed.

