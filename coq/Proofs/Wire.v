(* Lemmas about the inbound-path model (Model/Wire.v). *)
From SV Require Import Lib.Base Model.Postcard Proofs.Postcard Gen.Schemas Gen.WireConsts Model.Wire.
Local Open Scope N_scope.

(* the generated schemas satisfy the side conditions of the codec theorems *)
Lemma schemas_ok : forallb ty_ok all_schemas = true.
Proof. vm_compute. reflexivity. Qed.

Lemma schema_ok : forall t, In t all_schemas -> ty_ok t = true.
Proof. intros t H. exact (proj1 (forallb_forall ty_ok all_schemas) schemas_ok t H). Qed.

Lemma roots_in_all : forall t, In t root_schemas -> In t all_schemas.
Proof.
  intros t H. unfold root_schemas in H. unfold all_schemas. cbn [In] in *.
  repeat (destruct H as [H|H]; [subst t; tauto|]). contradiction.
Qed.

(* ---------- parse_protocol_message ---------- *)
Lemma ppm_spec : forall now src bytes ev,
  parse_protocol_message now src bytes = Some ev <->
  exists m rest p d ts,
    decode S_WireMessage bytes = Some (m, rest) /\ wire_fields m = Some (p, d, ts) /\
    now - W_MAX_MESSAGE_AGE_SECS <= ts /\ ts <= now + W_MAX_FUTURE_SECS /\ ev = mkEv p src d.
Proof.
  intros now src bytes ev. unfold parse_protocol_message. split.
  - destruct (decode S_WireMessage bytes) as [[m rest]|] eqn:Ed; [|discriminate].
    destruct (wire_fields m) as [[[p d] ts]|] eqn:Ef; [|discriminate].
    destruct (ts <? now - W_MAX_MESSAGE_AGE_SECS) eqn:E1; [discriminate|].
    destruct (now + W_MAX_FUTURE_SECS <? ts) eqn:E2; [discriminate|].
    intro H. inv H. exists m, rest, p, d, ts. repeat split; auto; lia.
  - intros [m [rest [p [d [ts [Hd [Hf [H1 [H2 ->]]]]]]]]]. rewrite Hd, Hf.
    assert (E1 : (ts <? now - W_MAX_MESSAGE_AGE_SECS) = false) by lia.
    assert (E2 : (now + W_MAX_FUTURE_SECS <? ts) = false) by lia.
    rewrite E1, E2. reflexivity.
Qed.

Lemma ppm_source : forall now src bytes ev,
  parse_protocol_message now src bytes = Some ev -> ev_source ev = src.
Proof.
  intros now src bytes ev H. apply ppm_spec in H.
  destruct H as [m [rest [p [d [ts [_ [_ [_ [_ ->]]]]]]]]]. reflexivity.
Qed.

(* the verdict and everything surfaced depend only on protocol, data and timestamp:
   two well-typed messages that differ in [from] (or in trailing bytes) are treated alike *)
Lemma ppm_ignores_from : forall now src m1 m2 r1 r2,
  wfb S_WireMessage m1 = true -> wfb S_WireMessage m2 = true ->
  wire_fields m1 = wire_fields m2 ->
  parse_protocol_message now src (encode S_WireMessage m1 ++ r1) =
  parse_protocol_message now src (encode S_WireMessage m2 ++ r2).
Proof.
  intros now src m1 m2 r1 r2 H1 H2 Hf. unfold parse_protocol_message.
  assert (Hok : ty_ok S_WireMessage = true) by reflexivity.
  rewrite (decode_encode _ Hok m1 r1 H1), (decode_encode _ Hok m2 r2 H2), Hf. reflexivity.
Qed.

(* ---------- dispatcher ---------- *)
Lemma bytes_eqb_eq : forall a b, bytes_eqb a b = true -> a = b.
Proof.
  induction a as [|x xs IH]; intros [|y ys] H; cbn [bytes_eqb] in H; try discriminate; [reflexivity|].
  apply andb_true_iff in H as [E1 E2]. apply N.eqb_eq in E1. subst. f_equal. apply IH. exact E2.
Qed.

Lemma dispatch_spec : forall pend now src bytes pend' out,
  dispatch pend now src bytes = (pend', out) ->
  match out with
  | DDelivered id payload => p_lookup id pend = Some src /\ pend' = p_remove id pend
  | DEvent e => pend' = pend /\ parse_protocol_message now src bytes = Some e
  | _ => pend' = pend
  end.
Proof.
  intros pend now src bytes pend' out H. unfold dispatch in H.
  destruct (bytes_eqb bytes KEEPALIVE); [inv H; reflexivity|].
  destruct (parse_protocol_message now src bytes) as [ev|] eqn:E; [|inv H; reflexivity].
  destruct (starts_with RR_PREFIX (ev_topic ev)).
  - destruct (parse_request_envelope (ev_data ev)) as [[[id isr] payload]|]; [|inv H; auto].
    destruct isr; [|inv H; auto].
    destruct (p_lookup id pend) as [expected|] eqn:El; [|inv H; reflexivity].
    destruct (bytes_eqb expected src) eqn:Eb; inv H; [|reflexivity].
    split; [|reflexivity]. rewrite El. f_equal. apply bytes_eqb_eq. exact Eb.
  - inv H. auto.
Qed.

(* ---------- DHT manager front end ---------- *)
Lemma dht_size_gate : forall dec st len data,
  W_DHT_MAX_MESSAGE_SIZE < len -> dht_handle_with dec st len data = (st, DRejSize).
Proof.
  intros dec st len data H. unfold dht_handle_with.
  assert (E : (W_DHT_MAX_MESSAGE_SIZE <? len) = true) by lia. rewrite E. reflexivity.
Qed.

Lemma store_ok_put : forall lim k v s, store_ok lim s = true -> blen v <= lim -> store_ok lim (s_put k v s) = true.
Proof.
  intros lim k v s Hs Hv. unfold s_put, store_ok in *. cbn [forallb].
  apply andb_true_iff. split; [lia|].
  apply forallb_forall. intros [k' v'] Hin. apply filter_In in Hin as [Hin _].
  exact (proj1 (forallb_forall _ _) Hs _ Hin).
Qed.

Lemma store_ok_get : forall lim k s v, store_ok lim s = true -> s_get k s = Some v -> blen v <= lim.
Proof.
  intros lim k s. induction s as [|[k' v'] s IH]; intros v Hs Hg; cbn [s_get] in Hg; [discriminate|].
  unfold store_ok in Hs. cbn [forallb] in Hs. apply andb_true_iff in Hs as [H1 H2].
  destruct (bytes_eqb k' k); [inv Hg; lia|]. apply IH; assumption.
Qed.

Definition dres_ok (r : dres) : Prop :=
  match r with DReply _ (Some v) => blen v <= W_CORE_MAX_DHT_VALUE_SIZE | _ => True end.

Lemma dht_request_inv : forall st op args st' r,
  store_ok W_CORE_MAX_DHT_VALUE_SIZE st = true -> dht_request st op args = (st', r) ->
  store_ok W_CORE_MAX_DHT_VALUE_SIZE st' = true /\ dres_ok r /\
  (st' = st \/ r = DReply V_DhtNetworkResult_PutSuccess None).
Proof.
  intros st op args st' r Hs H. unfold dht_request in H.
  repeat match type of H with
  | (if ?c then _ else _) = _ => destruct c eqn:?
  | (match ?x with _ => _ end) = _ => destruct x eqn:?
  | (_, _) = (_, _) => inv H
  end; cbn [dres_ok]; auto;
  try (split; [|split; [|auto]]; auto; try (eapply store_ok_get; eassumption)).
  all: apply store_ok_put; [assumption|lia].
Qed.

Lemma dht_handle_inv : forall st data st' r,
  store_ok W_CORE_MAX_DHT_VALUE_SIZE st = true -> dht_handle st data = (st', r) ->
  store_ok W_CORE_MAX_DHT_VALUE_SIZE st' = true /\ dres_ok r /\
  (st' = st \/ r = DReply V_DhtNetworkResult_PutSuccess None).
Proof.
  intros st data st' r Hs H. unfold dht_handle, dht_handle_with in H.
  destruct (W_DHT_MAX_MESSAGE_SIZE <? blen data); [inv H; cbn; auto|].
  destruct (decode S_DhtNetworkMessage data) as [[m rest]|]; [|inv H; cbn; auto].
  destruct (fld F_DhtNetworkMessage_message_type m) as [[]|]; try (inv H; cbn; auto; fail).
  destruct (fld F_DhtNetworkMessage_payload m) as [[]|]; try (inv H; cbn; auto; fail).
  destruct (idx =? V_DhtMessageType_Request); [|inv H; cbn; auto].
  eapply dht_request_inv; eassumption.
Qed.

Lemma dht_run_inv : forall frames st,
  store_ok W_CORE_MAX_DHT_VALUE_SIZE st = true ->
  store_ok W_CORE_MAX_DHT_VALUE_SIZE (fst (dht_run st frames)) = true /\
  Forall dres_ok (snd (dht_run st frames)).
Proof.
  induction frames as [|f fs IH]; intros st Hs; cbn [dht_run]; [split; [exact Hs|constructor]|].
  destruct (dht_handle st f) as [st1 r] eqn:E1.
  destruct (dht_run st1 fs) as [st2 rs] eqn:E2.
  apply dht_handle_inv in E1; [|exact Hs]. destruct E1 as [H1 [H2 _]].
  specialize (IH st1 H1). rewrite E2 in IH. cbn [fst snd] in *. destruct IH as [IH1 IH2].
  split; [exact IH1|constructor; assumption].
Qed.

(* a PUT is acknowledged only if the value fits both caps *)
Lemma dht_put_ack : forall st args st' ,
  dht_request st V_DhtNetworkOperation_Put args = (st', DReply V_DhtNetworkResult_PutSuccess None) ->
  exists k v, fld F_DhtNetworkOperation_Put_value args = Some (VBytes v) /\
              blen v <= W_DHT_MAX_VALUE_SIZE /\ blen v <= W_CORE_MAX_DHT_VALUE_SIZE /\ st' = s_put k v st.
Proof.
  intros st args st' H. unfold dht_request in H. rewrite N.eqb_refl in H.
  destruct (op_key args F_DhtNetworkOperation_Put_key) as [k|]; [|discriminate].
  destruct (fld F_DhtNetworkOperation_Put_value args) as [[]|]; try discriminate.
  destruct (W_DHT_MAX_VALUE_SIZE <? blen bs) eqn:E1; [discriminate|].
  destruct (W_CORE_MAX_DHT_VALUE_SIZE <? blen bs) eqn:E2; [discriminate|].
  inv H. exists k, bs. repeat split; lia.
Qed.

(* ---------- core engine ---------- *)
Definition cres_ok (r : cres) : Prop :=
  match r with
  | CFindNode n => n <= W_CORE_MAX_FIND_NODE_COUNT
  | CRetrieve (Some v) | CFindValue (Some v) _ => blen v <= W_CORE_MAX_DHT_VALUE_SIZE
  | _ => True end.

Lemma core_request_inv : forall avail st op args st' r,
  store_ok W_CORE_MAX_DHT_VALUE_SIZE st = true -> core_request avail st op args = (st', r) ->
  store_ok W_CORE_MAX_DHT_VALUE_SIZE st' = true /\ cres_ok r /\ (st' = st \/ r = CStoreAck).
Proof.
  intros avail st op args st' r Hs H. unfold core_request in H.
  repeat match type of H with
  | (if ?c then _ else _) = _ => destruct c eqn:?
  | (match ?x with _ => _ end) = _ => destruct x eqn:?
  | (_, _) = (_, _) => inv H
  end; cbn [cres_ok]; auto;
  try (split; [|split; [|auto]]; auto; try (eapply store_ok_get; eassumption)).
  all: try (apply store_ok_put; [assumption|lia]).
  all: try lia.
  all: match goal with |- match s_get ?k ?s with _ => _ end =>
         destruct (s_get k s) eqn:Eg; [eapply store_ok_get; eassumption|exact I] end.
Qed.

Lemma core_handle_inv : forall avail st data st' r,
  store_ok W_CORE_MAX_DHT_VALUE_SIZE st = true -> core_handle avail st data = (st', r) ->
  store_ok W_CORE_MAX_DHT_VALUE_SIZE st' = true /\ cres_ok r /\ (st' = st \/ r = CStoreAck).
Proof.
  intros avail st data st' r Hs H. unfold core_handle in H.
  destruct (decode S_DhtRequestWrapper data) as [[m rest]|]; [|inv H; cbn; auto].
  destruct (fld F_DhtRequestWrapper_message m) as [[]|]; try (inv H; cbn; auto; fail).
  eapply core_request_inv; eassumption.
Qed.

Lemma core_run_inv : forall avail frames st,
  store_ok W_CORE_MAX_DHT_VALUE_SIZE st = true ->
  store_ok W_CORE_MAX_DHT_VALUE_SIZE (fst (core_run avail st frames)) = true /\
  Forall cres_ok (snd (core_run avail st frames)).
Proof.
  intros avail. induction frames as [|f fs IH]; intros st Hs; cbn [core_run]; [split; [exact Hs|constructor]|].
  destruct (core_handle avail st f) as [st1 r] eqn:E1.
  destruct (core_run avail st1 fs) as [st2 rs] eqn:E2.
  apply core_handle_inv in E1; [|exact Hs]. destruct E1 as [H1 [H2 _]].
  specialize (IH st1 H1). rewrite E2 in IH. cbn [fst snd] in *. destruct IH as [IH1 IH2].
  split; [exact IH1|constructor; assumption].
Qed.

(* ---------- records ---------- *)
Lemma record_deserialize_ok : forall data b, record_deserialize data = ROk b -> blen data <= W_MAX_RECORD_SIZE.
Proof.
  intros data b H. unfold record_deserialize in H.
  destruct (W_MAX_RECORD_SIZE <? blen data) eqn:E; [discriminate|]. lia.
Qed.

Lemma record_serialize_ok : forall v b, record_serialize v = ROk b ->
  b = encode S_DhtRecord v /\ blen b <= W_MAX_RECORD_SIZE.
Proof.
  intros v b H. unfold record_serialize in H.
  destruct (W_MAX_RECORD_SIZE <? blen (encode S_DhtRecord v)) eqn:E; [discriminate|].
  assert (Hb : b = encode S_DhtRecord v) by congruence. subst b. split; [reflexivity|lia].
Qed.

(* a record that serialises is read back unchanged *)
Lemma record_roundtrip : forall v b, wfb S_DhtRecord v = true -> record_serialize v = ROk b ->
  record_deserialize b = ROk b.
Proof.
  intros v b Hw H. apply record_serialize_ok in H. destruct H as [-> Hl].
  unfold record_deserialize.
  assert (E : (W_MAX_RECORD_SIZE <? blen (encode S_DhtRecord v)) = false) by lia. rewrite E.
  assert (Hok : ty_ok S_DhtRecord = true) by reflexivity.
  pose proof (decode_encode _ Hok v [] Hw) as Hd. rewrite app_nil_r in Hd. rewrite Hd. reflexivity.
Qed.
