(* Proofs about Model/Pending.v (C04). *)
From SV Require Import Lib.Base Gen.PendingConsts Model.Pending.
Local Open Scope N_scope.

(* ---------- association-list facts ---------- *)
Definition keys (t : table) : list N := map fst t.

Lemma lookup_remove_same t id : lookup (remove t id) id = None.
Proof.
  induction t as [|[k e] t IH]; cbn [remove lookup]; [reflexivity|].
  destruct (k =? id) eqn:E; [exact IH|]. cbn [lookup]. rewrite E. exact IH.
Qed.

Lemma lookup_remove_other t id j : j <> id -> lookup (remove t id) j = lookup t j.
Proof.
  intro H. induction t as [|[k e] t IH]; cbn [remove lookup]; [reflexivity|].
  destruct (k =? id) eqn:E.
  - apply N.eqb_eq in E. subst k. destruct (id =? j) eqn:E2; [apply N.eqb_eq in E2; congruence|exact IH].
  - cbn [lookup]. destruct (k =? j); [reflexivity|exact IH].
Qed.

Lemma lookup_insert_same t id e : lookup (insert t id e) id = Some e.
Proof. unfold insert. cbn [lookup]. rewrite N.eqb_refl. reflexivity. Qed.

Lemma lookup_insert_other t id e j : j <> id -> lookup (insert t id e) j = lookup t j.
Proof.
  intro H. unfold insert. cbn [lookup].
  destruct (id =? j) eqn:E; [apply N.eqb_eq in E; congruence|]. apply lookup_remove_other; exact H.
Qed.

Lemma keys_remove_subset t id x : In x (keys (remove t id)) -> In x (keys t) /\ x <> id.
Proof.
  induction t as [|[k e] t IH]; cbn [remove keys map]; [tauto|].
  destruct (k =? id) eqn:E.
  - intro H. apply IH in H. cbn [In fst]. tauto.
  - cbn [map In fst]. apply N.eqb_neq in E. intros [H|H]; [subst; tauto|]. apply IH in H. tauto.
Qed.

Lemma nodup_remove t id : NoDup (keys t) -> NoDup (keys (remove t id)).
Proof.
  induction t as [|[k e] t IH]; cbn [remove keys map]; intro H; [constructor|].
  inversion H as [|? ? Hn Hd]; subst. destruct (k =? id); [apply IH; exact Hd|].
  cbn [map fst]. constructor; [|apply IH; exact Hd].
  intro Hin. apply keys_remove_subset in Hin. tauto.
Qed.

Lemma nodup_insert t id e : NoDup (keys t) -> NoDup (keys (insert t id e)).
Proof.
  intro H. unfold insert. cbn [keys map fst]. constructor.
  - intro Hin. apply keys_remove_subset in Hin. tauto.
  - apply nodup_remove; exact H.
Qed.

Lemma nodup_sweep now t : NoDup (keys t) -> NoDup (keys (sweep now t)).
Proof.
  unfold sweep. induction t as [|[k e] t IH]; cbn [filter keys map]; intro H; [constructor|].
  inversion H as [|? ? Hn Hd]; subst.
  destruct (negb (expired now (snd (k, e)))); [|apply IH; exact Hd].
  cbn [map fst]. constructor; [|apply IH; exact Hd].
  intro Hin. apply Hn. unfold keys in *. apply in_map_iff in Hin. destruct Hin as [[k' e'] [Hk Hf]].
  apply filter_In in Hf. apply in_map_iff. exists (k', e'). tauto.
Qed.

Lemma lookup_not_in t j : ~ In j (keys t) -> lookup t j = None.
Proof.
  induction t as [|[k e] t IH]; cbn [keys map fst In lookup]; intro H; [reflexivity|].
  destruct (k =? j) eqn:E; [apply N.eqb_eq in E; tauto|]. apply IH. tauto.
Qed.

Lemma lookup_sweep now t j : NoDup (keys t) ->
  lookup (sweep now t) j =
  match lookup t j with Some e => if expired now e then None else Some e | None => None end.
Proof.
  unfold sweep. induction t as [|[k e] t IH]; cbn [filter lookup keys map fst]; intro H; [reflexivity|].
  inversion H as [|? ? Hn Hd]; subst. cbn [snd].
  destruct (k =? j) eqn:E.
  - apply N.eqb_eq in E. subst k. destruct (expired now e) eqn:Ex; cbn [negb].
    + apply lookup_not_in. intro Hin. apply Hn. unfold keys in *.
      apply in_map_iff in Hin. destruct Hin as [[k' e'] [Hk Hf]]. apply filter_In in Hf.
      apply in_map_iff. exists (k', e'). tauto.
    + cbn [lookup]. rewrite N.eqb_refl. reflexivity.
  - destruct (expired now e); cbn [negb]; [apply IH; exact Hd|].
    cbn [lookup]. rewrite E. apply IH; exact Hd.
Qed.

(* ---------- one step ---------- *)
Lemma step_nodup t e : NoDup (keys t) -> NoDup (keys (fst (step t e))).
Proof.
  intro H. destruct e as [id peer now to|id from pl|id|id]; cbn [step fst].
  - apply nodup_insert, nodup_sweep, H.
  - destruct (lookup t id) as [en|]; [|exact H].
    destruct ((e_peer en =? from) && e_tx en); [apply nodup_insert; exact H|exact H].
  - apply nodup_remove; exact H.
  - destruct (lookup t id) as [en|]; [apply nodup_insert; exact H|exact H].
Qed.

(* a reply completes a request only with that request's id, from the contacted peer, once *)
Lemma deliver_match t id from pl t' i p :
  step t (Deliver id from pl) = (t', Some (i, p)) ->
  i = id /\ p = pl /\ exists en, lookup t id = Some en /\ e_peer en = from /\ e_tx en = true /\ e_rx en = true.
Proof.
  cbn [step]. destruct (lookup t id) as [en|] eqn:L; [|discriminate].
  destruct ((e_peer en =? from) && e_tx en) eqn:C; [|discriminate].
  destruct (e_rx en) eqn:R; [|discriminate].
  intro H. inversion H; subst. apply andb_true_iff in C. destruct C as [C1 C2].
  apply N.eqb_eq in C1. repeat split. exists en. auto.
Qed.

Lemma deliver_discarded t id from pl :
  (lookup t id = None \/ exists en, lookup t id = Some en /\ (e_peer en <> from \/ e_tx en = false)) ->
  step t (Deliver id from pl) = (t, None).
Proof.
  cbn [step]. intros [H|[en [H Hc]]]; rewrite H; [reflexivity|].
  destruct (e_peer en =? from) eqn:E; cbn [andb]; [|reflexivity].
  destruct Hc as [Hc|Hc]; [apply N.eqb_eq in E; congruence|rewrite Hc; reflexivity].
Qed.

(* events about one id never touch another request's entry (Deliver, Finish, Cancel) *)
Lemma step_isolation t e j :
  match e with
  | Deliver id _ _ | Finish id | Cancel id => j <> id
  | Send _ _ _ _ => False
  end -> lookup (fst (step t e)) j = lookup t j.
Proof.
  destruct e as [id peer now to|id from pl|id|id]; cbn [step]; intro H; [tauto| | |].
  - destruct (lookup t id) as [en|]; [|reflexivity].
    destruct ((e_peer en =? from) && e_tx en); cbn [fst]; [apply lookup_insert_other; exact H|reflexivity].
  - cbn [fst]. apply lookup_remove_other; exact H.
  - destruct (lookup t id) as [en|]; cbn [fst]; [apply lookup_insert_other; exact H|reflexivity].
Qed.

(* a new request leaves every other live (non-expired) entry as it was *)
Lemma send_isolation t id peer now to j : NoDup (keys t) -> j <> id ->
  lookup (fst (step t (Send id peer now to))) j =
  match lookup t j with Some e => if expired now e then None else Some e | None => None end.
Proof.
  intros Hn H. cbn [step fst]. rewrite lookup_insert_other by exact H. apply lookup_sweep; exact Hn.
Qed.

Lemma finish_no_leak t id : lookup (fst (step t (Finish id))) id = None.
Proof. cbn [step fst]. apply lookup_remove_same. Qed.

(* whatever was left behind by dropped futures is gone at the first request issued
   after PEND_SWEEP_MULT x timeout *)
Lemma send_sweeps t id peer now to j en : NoDup (keys t) ->
  lookup (fst (step t (Send id peer now to))) j = Some en -> j = id \/ expired now en = false.
Proof.
  intros Hn H. destruct (N.eq_dec j id) as [E|E]; [left; exact E|right].
  rewrite send_isolation in H by assumption.
  destruct (lookup t j) as [e|]; [|discriminate]. destruct (expired now e) eqn:Ex; [discriminate|].
  inversion H; subst. exact Ex.
Qed.

(* ---------- at most one completion per request ---------- *)
Definition send_ids (evs : list ev) : list N :=
  flat_map (fun e => match e with Send id _ _ _ => [id] | _ => [] end) evs.

Lemma run_cons t e evs :
  run t (e :: evs) = (fst (run (fst (step t e)) evs), snd (step t e) :: snd (run (fst (step t e)) evs)).
Proof.
  cbn [run]. destruct (step t e) as [t1 o]. cbn [fst snd]. destruct (run t1 evs). reflexivity.
Qed.

Definition spent (t : table) (id : N) : Prop :=
  lookup t id = None \/ exists en, lookup t id = Some en /\ e_tx en = false.

Lemma spent_step t e id : NoDup (keys t) -> spent t id ->
  match e with Send i _ _ _ => i <> id | _ => True end ->
  spent (fst (step t e)) id /\ completions_of id [snd (step t e)] = [].
Proof.
  intros Hn Hs He. destruct e as [i peer now to|i from pl|i|i]; cbn [step].
  - cbn [fst snd completions_of flat_map app]. split; [|reflexivity].
    unfold spent. rewrite lookup_insert_other by congruence. rewrite lookup_sweep by exact Hn.
    destruct Hs as [Hs|[en [Hs Ht]]]; rewrite Hs; [left; reflexivity|].
    destruct (expired now en); [left; reflexivity|right; exists en; auto].
  - destruct (N.eq_dec i id) as [E|E].
    + subst i. destruct Hs as [Hs|[en [Hs Ht]]]; rewrite Hs.
      * cbn [fst snd completions_of flat_map app]. split; [left; exact Hs|reflexivity].
      * rewrite Ht, andb_false_r. cbn [fst snd completions_of flat_map app].
        split; [right; exists en; auto|reflexivity].
    + assert (Hl : lookup (fst (step t (Deliver i from pl))) id = lookup t id)
        by (apply step_isolation; congruence).
      cbn [step] in Hl. split.
      * unfold spent. rewrite Hl. exact Hs.
      * destruct (lookup t i) as [en|]; [|reflexivity].
        destruct ((e_peer en =? from) && e_tx en); [|reflexivity].
        destruct (e_rx en); [|reflexivity].
        cbn [snd completions_of flat_map app]. apply N.eqb_neq in E. rewrite E. reflexivity.
  - cbn [fst snd completions_of flat_map app]. split; [|reflexivity].
    unfold spent. destruct (N.eq_dec i id) as [E|E].
    + subst. left. apply lookup_remove_same.
    + rewrite lookup_remove_other by congruence. exact Hs.
  - destruct (lookup t i) as [en|] eqn:L; cbn [fst snd completions_of flat_map app]; [|split; [exact Hs|reflexivity]].
    split; [|reflexivity]. unfold spent. destruct (N.eq_dec i id) as [E|E].
    + subst i. destruct Hs as [Hs|[en' [Hs Ht]]]; [congruence|].
      rewrite Hs in L. inversion L; subst en'. right. eexists. rewrite lookup_insert_same. split; [reflexivity|exact Ht].
    + rewrite lookup_insert_other by congruence. exact Hs.
Qed.

Lemma completions_cons id o os : completions_of id (o :: os) = completions_of id [o] ++ completions_of id os.
Proof. unfold completions_of. cbn [flat_map]. rewrite app_nil_r. reflexivity. Qed.

Lemma spent_run evs : forall t id, NoDup (keys t) -> spent t id -> ~ In id (send_ids evs) ->
  completions_of id (snd (run t evs)) = [].
Proof.
  induction evs as [|e evs IH]; intros t id Hn Hs Hni; [reflexivity|].
  rewrite run_cons. cbn [snd]. rewrite completions_cons.
  assert (He : match e with Send i _ _ _ => i <> id | _ => True end).
  { destruct e; try exact I. intro; subst. apply Hni. cbn [send_ids flat_map]. left; reflexivity. }
  destruct (spent_step t e id Hn Hs He) as [Hs' Hc]. rewrite Hc. cbn [app].
  apply IH; [apply step_nodup; exact Hn|exact Hs'|].
  intro Hin. apply Hni. unfold send_ids in *. cbn [flat_map]. apply in_or_app. right. exact Hin.
Qed.

Lemma nodup_app_r {A} (l1 l2 : list A) : NoDup (l1 ++ l2) -> NoDup l2.
Proof. induction l1 as [|x l1 IH]; cbn [app]; intro H; [exact H|]. inversion H; subst. apply IH; assumption. Qed.

Lemma at_most_once_gen evs : forall t id, NoDup (keys t) -> NoDup (send_ids evs) ->
  (lookup t id <> None -> ~ In id (send_ids evs)) ->
  (length (completions_of id (snd (run t evs))) <= 1)%nat.
Proof.
  induction evs as [|e evs IH]; intros t id Hn Hd Hf; [cbn; lia|].
  rewrite run_cons. cbn [snd]. rewrite completions_cons, app_length.
  pose proof (step_nodup t e Hn) as Hn'.
  assert (Hd' : NoDup (send_ids evs)).
  { unfold send_ids in *. cbn [flat_map] in Hd. apply nodup_app_r in Hd. exact Hd. }
  destruct e as [i peer now to|i from pl|i|i].
  - (* Send *) cbn [step snd fst completions_of flat_map app length Nat.add].
    apply IH; [exact Hn'|exact Hd'|].
    intros Hl Hin. destruct (N.eq_dec i id) as [E|E].
    + subst i. unfold send_ids in Hd. cbn [flat_map app] in Hd. inversion Hd; subst. tauto.
    + cbn [step fst] in Hl. rewrite lookup_insert_other in Hl by congruence.
      rewrite lookup_sweep in Hl by exact Hn.
      apply Hf; [|unfold send_ids; cbn [flat_map]; apply in_or_app; right; exact Hin].
      destruct (lookup t id); [discriminate|exact Hl].
  - (* Deliver *)
    destruct (snd (step t (Deliver i from pl))) as [[i' p']|] eqn:Eo.
    + destruct (step t (Deliver i from pl)) as [t1 o] eqn:Es. cbn [snd] in Eo. subst o.
      destruct (deliver_match _ _ _ _ _ _ _ Es) as [Hi [Hp [en [Hl [Hpeer [Htx Hrx]]]]]]. subst i' p'.
      destruct (N.eq_dec i id) as [E|E].
      * subst i. (* this is the one completion; afterwards the entry is spent *)
        assert (Hsp : spent (fst (t1, Some (id, pl))) id).
        { cbn [fst]. cbn [step] in Es. rewrite Hl, Hpeer, N.eqb_refl, Htx, Hrx in Es. cbn [andb] in Es.
          inversion Es; subst. right. eexists. rewrite lookup_insert_same. split; reflexivity. }
        rewrite (spent_run evs (fst (t1, Some (id, pl))) id).
        -- cbn [completions_of flat_map app]. rewrite N.eqb_refl. cbn. lia.
        -- exact Hn'.
        -- exact Hsp.
        -- apply Hf. rewrite Hl. discriminate.
      * cbn [completions_of flat_map app fst]. apply N.eqb_neq in E. rewrite E. cbn [length Nat.add].
        apply IH; [exact Hn'|exact Hd'|].
        intros Hl' Hin. apply N.eqb_neq in E.
        assert (Hiso : lookup (fst (step t (Deliver i from pl))) id = lookup t id)
          by (apply step_isolation; congruence).
        rewrite Es in Hiso. cbn [fst] in Hiso, Hl'. rewrite Hiso in Hl'.
        apply Hf; [exact Hl'|exact Hin].
    + cbn [completions_of flat_map app length Nat.add].
      apply IH; [exact Hn'|exact Hd'|].
      intros Hl' Hin. apply Hf; [|exact Hin].
      destruct (N.eq_dec i id) as [E|E].
      * subst i. intro Hnone. apply Hl'. cbn [step]. rewrite Hnone. cbn [fst]. exact Hnone.
      * rewrite step_isolation in Hl' by congruence. exact Hl'.
  - (* Finish *) cbn [step snd fst completions_of flat_map app length Nat.add].
    apply IH; [exact Hn'|exact Hd'|].
    intros Hl' Hin. apply Hf; [|exact Hin].
    cbn [step fst] in Hl'. destruct (N.eq_dec i id) as [E|E].
    + subst. rewrite lookup_remove_same in Hl'. congruence.
    + rewrite lookup_remove_other in Hl' by congruence. exact Hl'.
  - (* Cancel *)
    assert (Ho : snd (step t (Cancel i)) = None) by (cbn [step]; destruct (lookup t i); reflexivity).
    rewrite Ho. cbn [completions_of flat_map app length Nat.add].
    apply IH; [exact Hn'|exact Hd'|].
    intros Hl' Hin. apply Hf; [|exact Hin].
    destruct (N.eq_dec i id) as [E|E].
    + subst i. intro Hnone. apply Hl'. cbn [step]. rewrite Hnone. cbn [fst]. exact Hnone.
    + rewrite step_isolation in Hl' by congruence. exact Hl'.
Qed.

Lemma at_most_once evs id : NoDup (send_ids evs) ->
  (length (completions_of id (snd (run [] evs))) <= 1)%nat.
Proof.
  intro Hd. apply at_most_once_gen; [constructor|exact Hd|]. cbn [lookup]. congruence.
Qed.

(* ---------- /rr/ table ---------- *)
Lemma rremove_length t id : (length (rremove t id) <= length t)%nat.
Proof.
  induction t as [|[k p] t IH]; cbn [rremove length]; [lia|].
  destruct (k =? id); cbn [length]; lia.
Qed.

Lemma rstep_cap t e : N.of_nat (length t) <= RR_MAX_ACTIVE_REQUESTS ->
  N.of_nat (length (fst (rstep t e))) <= RR_MAX_ACTIVE_REQUESTS.
Proof.
  intro H. destruct e as [id peer|id from pl|id|id]; cbn [rstep].
  - destruct (RR_MAX_ACTIVE_REQUESTS <=? N.of_nat (length t)) eqn:E; cbn [fst]; [exact H|].
    cbn [length]. pose proof (rremove_length t id). lia.
  - destruct (rlookup t id) as [p|]; [|exact H].
    destruct (p =? from); cbn [fst]; [|exact H]. pose proof (rremove_length t id). lia.
  - cbn [fst]. pose proof (rremove_length t id). lia.
  - cbn [fst]. pose proof (rremove_length t id). lia.
Qed.

Lemma rrun_cons t e evs :
  rrun t (e :: evs) = (fst (rrun (fst (rstep t e)) evs), snd (rstep t e) :: snd (rrun (fst (rstep t e)) evs)).
Proof.
  cbn [rrun]. destruct (rstep t e) as [t1 o]. cbn [fst snd]. destruct (rrun t1 evs). reflexivity.
Qed.

Lemma rrun_cap evs : forall t, N.of_nat (length t) <= RR_MAX_ACTIVE_REQUESTS ->
  N.of_nat (length (fst (rrun t evs))) <= RR_MAX_ACTIVE_REQUESTS.
Proof.
  induction evs as [|e evs IH]; intros t H; [exact H|].
  rewrite rrun_cons. cbn [fst]. apply IH, rstep_cap, H.
Qed.

Lemma rlookup_rremove_same t id : rlookup (rremove t id) id = None.
Proof.
  induction t as [|[k p] t IH]; cbn [rremove rlookup]; [reflexivity|].
  destruct (k =? id) eqn:E; [exact IH|]. cbn [rlookup]. rewrite E. exact IH.
Qed.

Lemma rlookup_rremove_other t id j : j <> id -> rlookup (rremove t id) j = rlookup t j.
Proof.
  intro H. induction t as [|[k p] t IH]; cbn [rremove rlookup]; [reflexivity|].
  destruct (k =? id) eqn:E.
  - apply N.eqb_eq in E. subst k. destruct (id =? j) eqn:E2; [apply N.eqb_eq in E2; congruence|exact IH].
  - cbn [rlookup]. destruct (k =? j); [reflexivity|exact IH].
Qed.

Lemma rdeliver_match t id from pl t' i p :
  rstep t (RDeliver id from pl) = (t', RComplete i p) ->
  i = id /\ p = pl /\ rlookup t id = Some from /\ rlookup t' id = None.
Proof.
  cbn [rstep]. destruct (rlookup t id) as [q|] eqn:L; [|discriminate].
  destruct (q =? from) eqn:E; [|discriminate]. intro H. inversion H; subst.
  apply N.eqb_eq in E. subst. repeat split. apply rlookup_rremove_same.
Qed.

Lemma rstep_isolation t e j :
  match e with RDeliver id _ _ | RFinish id | RCancel id => j <> id | RSend id _ => j <> id end ->
  rlookup (fst (rstep t e)) j = rlookup t j.
Proof.
  destruct e as [id peer|id from pl|id|id]; cbn [rstep]; intro H.
  - destruct (RR_MAX_ACTIVE_REQUESTS <=? N.of_nat (length t)); cbn [fst]; [reflexivity|].
    cbn [rlookup]. destruct (id =? j) eqn:E; [apply N.eqb_eq in E; congruence|].
    apply rlookup_rremove_other; exact H.
  - destruct (rlookup t id) as [p|]; [|reflexivity].
    destruct (p =? from); cbn [fst]; [apply rlookup_rremove_other; exact H|reflexivity].
  - cbn [fst]. apply rlookup_rremove_other; exact H.
  - cbn [fst]. apply rlookup_rremove_other; exact H.
Qed.

Lemma rfinish_no_leak t id :
  rlookup (fst (rstep t (RFinish id))) id = None /\ rlookup (fst (rstep t (RCancel id))) id = None.
Proof. cbn [rstep fst]. split; apply rlookup_rremove_same. Qed.
