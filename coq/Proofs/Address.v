(* Lemmas for C19 (Model/Address.v). *)
From SV Require Import Lib.Base Gen.AddressDict Gen.AddressGlue Gen.AddressConsts Model.Address.
Local Open Scope N_scope.

(* ================================================================== ranges for exhaustive sweeps *)
Fixpoint nrange_from (start : N) (k : nat) : list N :=
  match k with O => [] | S k' => start :: nrange_from (start + 1) k' end.
Definition nrange (n : N) : list N := nrange_from 0 (N.to_nat n).
Lemma In_nrange_from k : forall start x, start <= x -> x < start + N.of_nat k -> In x (nrange_from start k).
Proof.
  induction k as [|k IH]; intros start x H1 H2; [lia|].
  cbn [nrange_from In]. destruct (N.eq_dec start x) as [->|Hne]; [left; reflexivity|].
  right. apply IH; lia.
Qed.
Lemma In_nrange x n : x < n -> In x (nrange n).
Proof. intro H. unfold nrange. apply In_nrange_from; lia. Qed.
Lemma sweep (f : N -> bool) n : forallb f (nrange n) = true -> forall x, x < n -> f x = true.
Proof. intros H x Hx. rewrite forallb_forall in H. apply H, In_nrange, Hx. Qed.

(* ================================================================== the word codec: pure arithmetic *)
Lemma base_is_4096 : CRATE_BASE = 4096. Proof. reflexivity. Qed.
Lemma nwords_is_4 : nwords = 4%nat. Proof. reflexivity. Qed.

Lemma pack_lt a : wf4 a -> pack a < 281474976710656.
Proof. destruct a as [o1 o2 o3 o4 p]. unfold wf4, pack; cbn. lia. Qed.

Lemma unpack_pack a : wf4 a -> unpack (pack a) = a.
Proof.
  destruct a as [o1 o2 o3 o4 p]. unfold wf4, pack, unpack; cbn [a1 a2 a3 a4 aport]. intros (H1 & H2 & H3 & H4 & H5).
  f_equal; lia.
Qed.

Lemma of_to_digits4 n : n < 281474976710656 -> of_digits (to_digits 4 n) = n.
Proof.
  intro H. cbn [to_digits of_digits]. rewrite base_is_4096. lia.
Qed.

Lemma to_digits4_range n : Forall (fun d => d < 4096) (to_digits 4 n).
Proof.
  cbn [to_digits]. rewrite base_is_4096.
  repeat constructor; apply N.mod_lt; discriminate.
Qed.

Lemma words_roundtrip a : wf4 a -> unpack (of_digits (to_digits nwords (pack a))) = a.
Proof.
  intro H. rewrite nwords_is_4, of_to_digits4 by (apply pack_lt, H). apply unpack_pack, H.
Qed.

Lemma unpack_wf n : wf4 (unpack n).
Proof. unfold wf4, unpack; cbn [a1 a2 a3 a4 aport]. repeat split; apply N.mod_lt; discriminate. Qed.

(* two addresses with the same digits are the same address *)
Lemma digits_injective a b : wf4 a -> wf4 b ->
  to_digits nwords (pack a) = to_digits nwords (pack b) -> a = b.
Proof.
  intros Ha Hb E. rewrite <- (words_roundtrip a Ha), <- (words_roundtrip b Hb), E. reflexivity.
Qed.

(* ================================================================== the digit loop *)
Definition stops (rest : str) : bool := match rest with [] => true | c :: _ => negb (is_digit c) end.
Definition val_from (acc : N) (ds : str) : N := fold_left (fun a c => a * 10 + (c - 48)) ds acc.

Lemma len_cons {A} (x : A) l : len (x :: l) = 1 + len l.
Proof. unfold len. cbn [length]. lia. Qed.
Lemma len_nil {A} : len (@nil A) = 0. Proof. reflexivity. Qed.
Lemma len_app {A} (l1 l2 : list A) : len (l1 ++ l2) = len l1 + len l2.
Proof. unfold len. rewrite app_length. lia. Qed.
Lemma len_zero {A} (l : list A) : len l = 0 -> l = [].
Proof. destruct l; [reflexivity|]. rewrite len_cons. lia. Qed.

Lemma val_from_ge ds : forall acc, acc <= val_from acc ds.
Proof.
  induction ds as [|c ds IH]; intro acc; cbn [val_from fold_left]; [lia|].
  specialize (IH (acc * 10 + (c - 48))). unfold val_from in IH. lia.
Qed.

Lemma loop_stops rest v c limit maxd : stops rest = true -> read_num_loop rest v c limit maxd = Some (v, c, rest).
Proof.
  destruct rest as [|x r]; cbn [stops read_num_loop]; [reflexivity|].
  intro H. apply negb_true_iff in H. rewrite H. reflexivity.
Qed.

Lemma loop_fwd ds : forall rest acc cnt limit maxd,
  forallb is_digit ds = true -> stops rest = true -> val_from acc ds <= limit ->
  (maxd = 0 \/ cnt + len ds <= maxd) ->
  read_num_loop (ds ++ rest) acc cnt limit maxd = Some (val_from acc ds, cnt + len ds, rest).
Proof.
  induction ds as [|c ds IH]; intros rest acc cnt limit maxd Hd Hs Hv Hm.
  - cbn [app val_from fold_left]. rewrite len_nil, N.add_0_r. apply loop_stops, Hs.
  - cbn [forallb] in Hd. apply andb_true_iff in Hd as [Hc Hd].
    cbn [app read_num_loop]. rewrite Hc. cbn [val_from fold_left] in Hv |- *.
    pose proof (val_from_ge ds (acc * 10 + (c - 48))) as Hge. unfold val_from in Hge, Hv.
    rewrite len_cons in Hm |- *.
    replace (limit <? acc * 10 + (c - 48)) with false by (symmetry; apply N.ltb_ge; lia).
    replace ((0 <? maxd) && (maxd <? cnt + 1)) with false
      by (symmetry; destruct Hm as [->|Hm]; [reflexivity|]; apply andb_false_iff; right; apply N.ltb_ge; lia).
    rewrite (IH rest _ (cnt + 1) limit maxd Hd Hs Hv) by lia.
    f_equal. f_equal. f_equal. lia.
Qed.

Lemma loop_inv s : forall acc cnt limit maxd v c rest,
  read_num_loop s acc cnt limit maxd = Some (v, c, rest) ->
  exists ds, s = ds ++ rest /\ forallb is_digit ds = true /\ v = val_from acc ds /\ c = cnt + len ds
             /\ stops rest = true /\ (ds <> [] -> v <= limit) /\ (0 < maxd -> ds <> [] -> c <= maxd).
Proof.
  induction s as [|x s IH]; intros acc cnt limit maxd v c rest H; cbn [read_num_loop] in H.
  - inv H. exists []. cbn [app forallb val_from fold_left stops]. rewrite len_nil. repeat split; try lia; congruence.
  - destruct (is_digit x) eqn:Hx.
    + destruct (limit <? acc * 10 + (x - 48)) eqn:Hl; [discriminate|].
      destruct ((0 <? maxd) && (maxd <? cnt + 1)) eqn:Hm; [discriminate|].
      apply IH in H as (ds & -> & Hd & -> & -> & Hs & Hlim & Hmax).
      exists (x :: ds). cbn [app forallb val_from fold_left]. rewrite Hx, Hd, len_cons.
      repeat split; try reflexivity; try lia; try assumption.
      * intros _. destruct ds as [|y ds'].
        -- cbn [val_from fold_left]. apply N.ltb_ge in Hl. exact Hl.
        -- apply Hlim. discriminate.
      * intros Hpos _. destruct ds as [|y ds'].
        -- rewrite len_nil. apply andb_false_iff in Hm as [Hm|Hm]; [apply N.ltb_ge in Hm; lia|apply N.ltb_ge in Hm; lia].
        -- specialize (Hmax Hpos). rewrite len_cons in *. assert (y :: ds' <> []) by discriminate. lia.
    + inv H. exists []. cbn [app forallb val_from fold_left stops]. rewrite Hx, len_nil.
      repeat split; try reflexivity; try lia; congruence.
Qed.

(* a decimal numeral: digits only, non-empty, at most maxlen digits when maxlen > 0, no redundant
   leading zero when strict, denoting v <= limit *)
Definition numeralb (maxlen : N) (strict : bool) (limit : N) (ds : str) (v : N) : bool :=
  forallb is_digit ds && negb (is_nil ds) && ((maxlen =? 0) || (len ds <=? maxlen))
  && (negb strict || negb (lead0 ds) || (len ds =? 1)) && (val_from 0 ds =? v) && (v <=? limit).

Lemma lead0_app ds rest : ds <> [] -> lead0 (ds ++ rest) = lead0 ds.
Proof. destruct ds; [congruence|reflexivity]. Qed.

Lemma read_number_iff s limit maxd allow v rest :
  read_number s limit maxd allow = Some (v, rest) <->
  exists ds, s = ds ++ rest /\ stops rest = true /\ numeralb maxd (negb allow) limit ds v = true.
Proof.
  unfold read_number, numeralb. split.
  - destruct (read_num_loop s 0 0 limit maxd) as [[[v' c] rest']|] eqn:E; [|discriminate].
    apply loop_inv in E as (ds & -> & Hd & -> & -> & Hs & Hlim & Hmax).
    rewrite N.add_0_l.
    destruct (len ds =? 0) eqn:Hz; [discriminate|]. apply N.eqb_neq in Hz.
    assert (Hne : ds <> []) by (intros ->; apply Hz; reflexivity).
    rewrite (lead0_app ds rest' Hne).
    destruct (negb allow && lead0 ds && (1 <? len ds)) eqn:Hz2; [discriminate|].
    intro H; inv H. exists ds. split; [reflexivity|]. split; [exact Hs|].
    repeat (apply andb_true_iff; split).
    + exact Hd.
    + destruct ds; [congruence|reflexivity].
    + destruct (maxd =? 0) eqn:Hm0; [reflexivity|]. apply N.eqb_neq in Hm0. cbn [orb].
      apply N.leb_le. rewrite N.add_0_l in Hmax. apply Hmax; [lia|exact Hne].
    + destruct allow; cbn [negb orb andb] in *; [reflexivity|].
      destruct (lead0 ds); cbn [negb orb andb] in *; [|reflexivity].
      apply N.ltb_ge in Hz2. apply N.eqb_eq. lia.
    + apply N.eqb_refl.
    + apply N.leb_le, Hlim, Hne.
  - intros (ds & -> & Hs & H).
    repeat (apply andb_true_iff in H as [H ?]).
    rename H into Hd. apply N.leb_le in H0. apply N.eqb_eq in H1. subst v.
    destruct ds as [|d0 ds']; [discriminate|].
    rewrite (loop_fwd (d0 :: ds') rest 0 0 limit maxd Hd Hs H0).
    2:{ apply orb_true_iff in H3 as [H3|H3]; [left; apply N.eqb_eq, H3|right; apply N.leb_le in H3; lia]. }
    rewrite N.add_0_l. rewrite len_cons.
    replace (1 + len ds' =? 0) with false by (symmetry; apply N.eqb_neq; lia).
    rewrite (lead0_app (d0 :: ds') rest) by discriminate.
    replace (negb allow && lead0 (d0 :: ds') && (1 <? 1 + len ds')) with false; [reflexivity|].
    symmetry. rewrite len_cons in H2. destruct allow; cbn [negb orb andb] in *; [reflexivity|].
    destruct (lead0 (d0 :: ds')); cbn [negb orb andb] in *; [|reflexivity].
    apply N.eqb_eq in H2. apply N.ltb_ge. lia.
Qed.

Lemma read_char_iff c s r : read_char c s = Some r <-> s = c :: r.
Proof.
  unfold read_char. destruct s as [|x s']; [split; discriminate|].
  destruct (x =? c) eqn:E.
  - apply N.eqb_eq in E. subst. split; intro H; inv H; reflexivity.
  - apply N.eqb_neq in E. split; intro H; inv H. congruence.
Qed.

(* s is a textual IPv4 socket address denoting a *)
Definition Rendering (s : str) (a : addr4) : Prop :=
  exists d1 d2 d3 d4 d5,
    s = d1 ++ 46 :: d2 ++ 46 :: d3 ++ 46 :: d4 ++ 58 :: d5
    /\ numeralb 3 true 255 d1 (a1 a) = true /\ numeralb 3 true 255 d2 (a2 a) = true
    /\ numeralb 3 true 255 d3 (a3 a) = true /\ numeralb 3 true 255 d4 (a4 a) = true
    /\ numeralb 0 false 65535 d5 (aport a) = true.
Definition RenderingIp (s : str) (o : N * N * N * N) : Prop :=
  exists d1 d2 d3 d4,
    s = d1 ++ 46 :: d2 ++ 46 :: d3 ++ 46 :: d4
    /\ numeralb 3 true 255 d1 (fst (fst (fst o))) = true /\ numeralb 3 true 255 d2 (snd (fst (fst o))) = true
    /\ numeralb 3 true 255 d3 (snd (fst o)) = true /\ numeralb 3 true 255 d4 (snd o) = true.

Lemma read_ip4_iff s o1 o2 o3 o4 rest :
  read_ip4 s = Some (o1, o2, o3, o4, rest) <->
  exists d1 d2 d3 d4, s = d1 ++ 46 :: d2 ++ 46 :: d3 ++ 46 :: d4 ++ rest /\ stops rest = true
    /\ numeralb 3 true 255 d1 o1 = true /\ numeralb 3 true 255 d2 o2 = true
    /\ numeralb 3 true 255 d3 o3 = true /\ numeralb 3 true 255 d4 o4 = true.
Proof.
  unfold read_ip4, read_octet. split.
  - destruct (read_number s 255 3 false) as [[x1 s1]|] eqn:E1; [|discriminate].
    destruct (read_char 46 s1) as [s1'|] eqn:C1; [|discriminate].
    destruct (read_number s1' 255 3 false) as [[x2 s2]|] eqn:E2; [|discriminate].
    destruct (read_char 46 s2) as [s2'|] eqn:C2; [|discriminate].
    destruct (read_number s2' 255 3 false) as [[x3 s3]|] eqn:E3; [|discriminate].
    destruct (read_char 46 s3) as [s3'|] eqn:C3; [|discriminate].
    destruct (read_number s3' 255 3 false) as [[x4 s4]|] eqn:E4; [|discriminate].
    intro H; inv H.
    apply read_number_iff in E1 as (d1 & -> & _ & N1), E2 as (d2 & -> & _ & N2),
                               E3 as (d3 & -> & _ & N3), E4 as (d4 & -> & S4 & N4).
    apply read_char_iff in C1, C2, C3. subst.
    exists d1, d2, d3, d4. cbn [negb] in *. repeat split; assumption.
  - intros (d1 & d2 & d3 & d4 & -> & Hs & N1 & N2 & N3 & N4).
    assert (R : forall d v r, numeralb 3 true 255 d v = true -> stops r = true ->
                              read_number (d ++ r) 255 3 false = Some (v, r)).
    { intros d v r Hn Hr. apply read_number_iff. exists d. auto. }
    rewrite (R d1 o1) by (assumption || reflexivity). cbn [read_char]. rewrite N.eqb_refl.
    rewrite (R d2 o2) by (assumption || reflexivity). cbn [read_char]. rewrite N.eqb_refl.
    rewrite (R d3 o3) by (assumption || reflexivity). cbn [read_char]. rewrite N.eqb_refl.
    rewrite (R d4 o4) by assumption. reflexivity.
Qed.

Lemma read_sock4_iff s a rest :
  read_sock4 s = Some (a, rest) <->
  exists d1 d2 d3 d4 d5, s = d1 ++ 46 :: d2 ++ 46 :: d3 ++ 46 :: d4 ++ 58 :: d5 ++ rest /\ stops rest = true
    /\ numeralb 3 true 255 d1 (a1 a) = true /\ numeralb 3 true 255 d2 (a2 a) = true
    /\ numeralb 3 true 255 d3 (a3 a) = true /\ numeralb 3 true 255 d4 (a4 a) = true
    /\ numeralb 0 false 65535 d5 (aport a) = true.
Proof.
  unfold read_sock4. split.
  - destruct (read_ip4 s) as [[[[[o1 o2] o3] o4] s4]|] eqn:E; [|discriminate].
    destruct (read_char 58 s4) as [s5|] eqn:C; [|discriminate].
    destruct (read_number s5 65535 0 true) as [[p r]|] eqn:P; [|discriminate].
    intro H; inv H. apply read_ip4_iff in E as (d1 & d2 & d3 & d4 & -> & _ & N1 & N2 & N3 & N4).
    apply read_char_iff in C. subst s4. apply read_number_iff in P as (d5 & -> & Hs & N5).
    exists d1, d2, d3, d4, d5. cbn [a1 a2 a3 a4 aport negb] in *. repeat split; assumption.
  - intros (d1 & d2 & d3 & d4 & d5 & -> & Hs & N1 & N2 & N3 & N4 & N5).
    destruct a as [o1 o2 o3 o4 p]. cbn [a1 a2 a3 a4 aport] in *.
    assert (E : read_ip4 (d1 ++ 46 :: d2 ++ 46 :: d3 ++ 46 :: d4 ++ 58 :: d5 ++ rest) = Some (o1, o2, o3, o4, 58 :: d5 ++ rest)).
    { apply read_ip4_iff. exists d1, d2, d3, d4. repeat split; assumption. }
    rewrite E. cbn [read_char]. rewrite N.eqb_refl.
    assert (P : read_number (d5 ++ rest) 65535 0 true = Some (p, rest)).
    { apply read_number_iff. exists d5. auto. }
    rewrite P. reflexivity.
Qed.

(* the accepted language of the socket-text parser, exactly *)
Lemma parse4_iff s a : parse4 s = Some a <-> Rendering s a.
Proof.
  unfold parse4, Rendering. split.
  - destruct (read_sock4 s) as [[a' r]|] eqn:E; [|discriminate]. destruct r; [|discriminate].
    intro H; inv H. apply read_sock4_iff in E as (d1 & d2 & d3 & d4 & d5 & -> & _ & H).
    exists d1, d2, d3, d4, d5. rewrite app_nil_r. split; [reflexivity|exact H].
  - intros (d1 & d2 & d3 & d4 & d5 & -> & H).
    assert (E : read_sock4 (d1 ++ 46 :: d2 ++ 46 :: d3 ++ 46 :: d4 ++ 58 :: d5) = Some (a, [])).
    { apply read_sock4_iff. exists d1, d2, d3, d4, d5. rewrite app_nil_r. split; [reflexivity|]. split; [reflexivity|exact H]. }
    rewrite E. reflexivity.
Qed.

Lemma parse_ip4_iff s o : parse_ip4 s = Some o <-> RenderingIp s o.
Proof.
  unfold parse_ip4, RenderingIp. destruct o as [[[o1 o2] o3] o4]. cbn [fst snd]. split.
  - destruct (read_ip4 s) as [[[[[x1 x2] x3] x4] r]|] eqn:E; [|discriminate]. destruct r; [|discriminate].
    intro H; inv H. apply read_ip4_iff in E as (d1 & d2 & d3 & d4 & -> & _ & H).
    exists d1, d2, d3, d4. rewrite app_nil_r. split; [reflexivity|exact H].
  - intros (d1 & d2 & d3 & d4 & -> & H).
    assert (E : read_ip4 (d1 ++ 46 :: d2 ++ 46 :: d3 ++ 46 :: d4) = Some (o1, o2, o3, o4, [])).
    { apply read_ip4_iff. exists d1, d2, d3, d4. rewrite app_nil_r. split; [reflexivity|]. split; [reflexivity|exact H]. }
    rewrite E. reflexivity.
Qed.

(* accepted values are well formed *)
Lemma numeralb_bound ml st lim d v : numeralb ml st lim d v = true -> v <= lim.
Proof. unfold numeralb. intro H. repeat (apply andb_true_iff in H as [H ?]). apply N.leb_le. assumption. Qed.
Lemma parse4_wf s a : parse4 s = Some a -> wf4 a.
Proof.
  intro H. apply parse4_iff in H as (d1 & d2 & d3 & d4 & d5 & _ & N1 & N2 & N3 & N4 & N5).
  apply numeralb_bound in N1, N2, N3, N4, N5. unfold wf4. lia.
Qed.

(* ================================================================== exhaustive facts about print_dec *)
Definition dec_ok (maxlen : N) (strict : bool) (limit : N) (n : N) : bool :=
  numeralb maxlen strict limit (print_dec n) n
  && match parse_u16 (print_dec n) with Some v => v =? n | None => false end.
Lemma oct_sweep : forallb (dec_ok 3 true 255) (nrange 256) = true.
Proof. vm_compute. reflexivity. Qed.
Lemma port_sweep : forallb (dec_ok 0 false 65535) (nrange 65536) = true.
Proof. vm_compute. reflexivity. Qed.

Lemma print_oct n : n < 256 -> numeralb 3 true 255 (print_dec n) n = true.
Proof. intro H. pose proof (sweep _ _ oct_sweep n H) as E. apply andb_true_iff in E. tauto. Qed.
Lemma print_port n : n < 65536 -> numeralb 0 false 65535 (print_dec n) n = true.
Proof. intro H. pose proof (sweep _ _ port_sweep n H) as E. apply andb_true_iff in E. tauto. Qed.
Lemma parse_u16_print n : n < 65536 -> parse_u16 (print_dec n) = Some n.
Proof.
  intro H. pose proof (sweep _ _ port_sweep n H) as E. apply andb_true_iff in E as [_ E].
  destruct (parse_u16 (print_dec n)); [|discriminate]. apply N.eqb_eq in E. congruence.
Qed.

Lemma print4_rendering a : wf4 a -> Rendering (print4 a) a.
Proof.
  intros (H1 & H2 & H3 & H4 & H5).
  exists (print_dec (a1 a)), (print_dec (a2 a)), (print_dec (a3 a)), (print_dec (a4 a)), (print_dec (aport a)).
  split.
  - unfold print4, print_ip. repeat (rewrite <- app_assoc; cbn [app]). reflexivity.
  - repeat split; first [apply print_oct; assumption | apply print_port; assumption].
Qed.

Lemma parse4_print4 a : wf4 a -> parse4 (print4 a) = Some a.
Proof. intro H. apply parse4_iff, print4_rendering, H. Qed.

Lemma parse_ip4_print_ip a : wf4 a -> parse_ip4 (print_ip a) = Some (a1 a, a2 a, a3 a, a4 a).
Proof.
  intros (H1 & H2 & H3 & H4 & H5). apply parse_ip4_iff.
  exists (print_dec (a1 a)), (print_dec (a2 a)), (print_dec (a3 a)), (print_dec (a4 a)).
  cbn [fst snd]. split; [reflexivity|]. repeat split; apply print_oct; assumption.
Qed.

(* text followed by anything that does not continue the port is read back with that rest *)
Lemma read_sock4_print4 a rest : wf4 a -> stops rest = true -> read_sock4 (print4 a ++ rest) = Some (a, rest).
Proof.
  intros (H1 & H2 & H3 & H4 & H5) Hs. apply read_sock4_iff.
  exists (print_dec (a1 a)), (print_dec (a2 a)), (print_dec (a3 a)), (print_dec (a4 a)), (print_dec (aport a)).
  split.
  - unfold print4, print_ip. repeat (rewrite <- app_assoc; cbn [app]). reflexivity.
  - split; [exact Hs|]. repeat split; first [apply print_oct; assumption | apply print_port; assumption].
Qed.
Lemma parse4_print4_junk a c rest : wf4 a -> is_digit c = false -> parse4 (print4 a ++ c :: rest) = None.
Proof.
  intros H Hc. unfold parse4. rewrite read_sock4_print4; [reflexivity|exact H|].
  cbn [stops]. rewrite Hc. reflexivity.
Qed.

(* ================================================================== the dictionary (regenerated from the crate) *)
Definition is_az (c : N) : bool := (97 <=? c) && (c <=? 122).
Definition is_alpha (c : N) : bool := is_az c || ((65 <=? c) && (c <=? 90)).

Lemma dict_length : length dict = 4096%nat.
Proof. vm_compute. reflexivity. Qed.
(* every entry is a non-empty lower-case a-z word, is its own lower-casing, and is found at its own index *)
Definition dict_entry_ok (i : N) : bool :=
  let w := word i in
  negb (is_nil w) && forallb is_az w && str_eqb (lower w) w
  && match get_index w with Some j => j =? i | None => false end.
Lemma dict_sweep : forallb dict_entry_ok (nrange 4096) = true.
Proof. vm_compute. reflexivity. Qed.

Lemma str_eqb_eq a : forall b, str_eqb a b = true -> a = b.
Proof.
  induction a as [|x a IH]; intros [|y b] H; cbn [str_eqb] in H; try discriminate; [reflexivity|].
  apply andb_true_iff in H as [H1 H2]. apply N.eqb_eq in H1. f_equal; auto.
Qed.
Lemma str_eqb_refl a : str_eqb a a = true.
Proof. induction a as [|x a IH]; cbn [str_eqb]; [reflexivity|]. rewrite N.eqb_refl. exact IH. Qed.

Lemma word_facts i : i < 4096 ->
  word i <> [] /\ forallb is_az (word i) = true /\ lower (word i) = word i /\ get_index (word i) = Some i.
Proof.
  intro H. pose proof (sweep _ _ dict_sweep i H) as E. unfold dict_entry_ok in E.
  repeat (apply andb_true_iff in E as [E ?]).
  repeat split.
  - intro Hn. rewrite Hn in E. discriminate.
  - assumption.
  - apply str_eqb_eq. assumption.
  - destruct (get_index (word i)); [|discriminate]. apply N.eqb_eq in H0. congruence.
Qed.

(* distinct indices name distinct words: the dictionary is a bijection between 0..4095 and its words *)
Lemma word_injective i j : i < 4096 -> j < 4096 -> word i = word j -> i = j.
Proof.
  intros Hi Hj E. pose proof (word_facts i Hi) as (_ & _ & _ & Gi). pose proof (word_facts j Hj) as (_ & _ & _ & Gj).
  rewrite E in Gi. congruence.
Qed.

(* lookup only depends on the lower-cased word *)
Lemma get_index_lower w w' : lower w = lower w' -> get_index w = get_index w'.
Proof. unfold get_index. intros ->. reflexivity. Qed.
Lemma get_index_variant w i : i < 4096 -> lower w = word i -> get_index w = Some i.
Proof.
  intros Hi E. pose proof (word_facts i Hi) as (_ & _ & L & G).
  rewrite <- G. apply get_index_lower. rewrite L. exact E.
Qed.

(* ================================================================== split / join / replace *)
Lemma forallb_impl {A} (p q : A -> bool) l : (forall x, p x = true -> q x = true) -> forallb p l = true -> forallb q l = true.
Proof. intros H Hp. rewrite forallb_forall in *. auto. Qed.

Lemma split_on_nosep p w : forallb (fun c => negb (p c)) w = true -> split_on p w = [w].
Proof.
  induction w as [|x w IH]; cbn [forallb split_on]; [reflexivity|].
  intro H. apply andb_true_iff in H as [Hx Hw]. apply negb_true_iff in Hx. rewrite Hx, (IH Hw). reflexivity.
Qed.
Lemma split_on_app p w c rest : forallb (fun c => negb (p c)) w = true -> p c = true ->
  split_on p (w ++ c :: rest) = w :: split_on p rest.
Proof.
  intros Hw Hc. induction w as [|x w IH]; cbn [app split_on].
  - rewrite Hc. reflexivity.
  - cbn [forallb] in Hw. apply andb_true_iff in Hw as [Hx Hw]. apply negb_true_iff in Hx.
    rewrite Hx, (IH Hw). reflexivity.
Qed.

Lemma replace_char_app a b s t : replace_char a b (s ++ t) = replace_char a b s ++ replace_char a b t.
Proof. apply map_app. Qed.
Lemma replace_char_cons a b x s : replace_char a b (x :: s) = (if x =? a then b else x) :: replace_char a b s.
Proof. reflexivity. Qed.
Lemma replace_char_id a b w : forallb (fun c => negb (c =? a)) w = true -> replace_char a b w = w.
Proof.
  induction w as [|x w IH]; cbn [forallb replace_char map]; [reflexivity|].
  intro H. apply andb_true_iff in H as [Hx Hw]. apply negb_true_iff in Hx. rewrite Hx.
  f_equal. apply IH, Hw.
Qed.
Lemma contains_app c s t : contains c (s ++ t) = contains c s || contains c t.
Proof. apply existsb_app. Qed.
Lemma contains_false c s : forallb (fun x => negb (c =? x)) s = true -> contains c s = false.
Proof.
  induction s as [|x s IH]; cbn [forallb contains existsb]; [reflexivity|].
  intro H. apply andb_true_iff in H as [Hx Hs]. apply negb_true_iff in Hx. rewrite Hx. apply IH, Hs.
Qed.

(* a "word-like" string: ASCII letters only, non-empty *)
Definition wordlike (w : str) : Prop := w <> [] /\ forallb is_alpha w = true.
Lemma alpha_not c x : is_alpha x = true -> is_alpha c = false -> (c =? x) = false.
Proof. intros Hx Hc. apply N.eqb_neq. intros ->. congruence. Qed.
Lemma wordlike_avoids w c : wordlike w -> is_alpha c = false ->
  forallb (fun x => negb (c =? x)) w = true /\ forallb (fun x => negb (x =? c)) w = true.
Proof.
  intros [_ H] Hc. split; eapply forallb_impl; try exact H; intros x Hx; apply negb_true_iff.
  - apply alpha_not; assumption.
  - rewrite N.eqb_sym. apply alpha_not; assumption.
Qed.
Lemma alpha_not_ws x : is_alpha x = true -> is_ws x = false.
Proof.
  unfold is_alpha, is_az, is_ws. intro H.
  repeat (apply orb_false_iff; split); try (apply andb_false_iff); lia.
Qed.
Lemma wordlike_no_ws w : wordlike w -> forallb (fun x => negb (is_ws x)) w = true.
Proof. intros [_ H]. eapply forallb_impl; [|exact H]. intros x Hx. apply negb_true_iff, alpha_not_ws, Hx. Qed.
Lemma az_alpha w : forallb is_az w = true -> forallb is_alpha w = true.
Proof. apply forallb_impl. intros x H. unfold is_alpha. rewrite H. reflexivity. Qed.
Lemma word_wordlike i : i < 4096 -> wordlike (word i).
Proof. intro H. pose proof (word_facts i H) as (Hn & Ha & _). split; [exact Hn|apply az_alpha, Ha]. Qed.

Definition four (sep : N) (w0 w1 w2 w3 : str) : str := w0 ++ sep :: w1 ++ sep :: w2 ++ sep :: w3.

Lemma nonempty4 w0 w1 w2 w3 : w0 <> [] -> w1 <> [] -> w2 <> [] -> w3 <> [] -> nonempty [w0; w1; w2; w3] = [w0; w1; w2; w3].
Proof. destruct w0, w1, w2, w3; try congruence. reflexivity. Qed.

Lemma split_four p sep w0 w1 w2 w3 : p sep = true ->
  forallb (fun c => negb (p c)) w0 = true -> forallb (fun c => negb (p c)) w1 = true ->
  forallb (fun c => negb (p c)) w2 = true -> forallb (fun c => negb (p c)) w3 = true ->
  split_on p (four sep w0 w1 w2 w3) = [w0; w1; w2; w3].
Proof.
  intros Hp H0 H1 H2 H3. unfold four.
  rewrite (split_on_app p w0 sep _ H0 Hp), (split_on_app p w1 sep _ H1 Hp), (split_on_app p w2 sep _ H2 Hp), (split_on_nosep p w3 H3).
  reflexivity.
Qed.

(* the crate decodes four space-separated word-like strings with known indices *)
Lemma crate_decode_four w0 w1 w2 w3 d0 d1 d2 d3 :
  wordlike w0 -> wordlike w1 -> wordlike w2 -> wordlike w3 ->
  get_index w0 = Some d0 -> get_index w1 = Some d1 -> get_index w2 = Some d2 -> get_index w3 = Some d3 ->
  crate_decode (four 32 w0 w1 w2 w3) =
  let a := unpack (of_digits [d0; d1; d2; d3]) in DText (if aport a =? CRATE_OMIT_PORT then print_ip a else print4 a).
Proof.
  intros W0 W1 W2 W3 G0 G1 G2 G3.
  assert (A32 : is_alpha 32 = false) by reflexivity.
  pose proof (wordlike_avoids _ 32 W0 A32) as [S0 _]. pose proof (wordlike_avoids _ 32 W1 A32) as [S1 _].
  pose proof (wordlike_avoids _ 32 W2 A32) as [S2 _]. pose proof (wordlike_avoids _ 32 W3 A32) as [S3 _].
  assert (Hsplit : split_char 32 (four 32 w0 w1 w2 w3) = [w0; w1; w2; w3]).
  { unfold split_char. apply split_four; try assumption. reflexivity. }
  assert (Hws : split_ws (four 32 w0 w1 w2 w3) = [w0; w1; w2; w3]).
  { unfold split_ws. rewrite split_four; try (apply wordlike_no_ws; assumption); [|reflexivity].
    apply nonempty4; [apply W0|apply W1|apply W2|apply W3]. }
  unfold crate_decode, crate_count.
  assert (Hc : contains 32 (four 32 w0 w1 w2 w3) = true).
  { unfold four. rewrite contains_app. cbn [contains existsb]. rewrite N.eqb_refl. apply orb_true_r. }
  rewrite Hc, Hsplit, nonempty4 by (apply W0 || apply W1 || apply W2 || apply W3).
  change (len [w0; w1; w2; w3] =? 4) with true. cbn iota.
  unfold crate_parts4. rewrite Hws. change (len [w0; w1; w2; w3] =? 4) with true. cbn iota.
  unfold indices. cbn [map all_some]. rewrite G0, G1, G2, G3. reflexivity.
Qed.

(* ================================================================== from_four_words *)
Lemma omit_is_bare : CRATE_OMIT_PORT = ADDR_BARE_IP_PORT. Proof. reflexivity. Qed.

Lemma print_ip_not_sock a : wf4 a -> parse4 (print_ip a) = None.
Proof.
  intro H. destruct (parse4 (print_ip a)) as [b|] eqn:E; [|reflexivity]. exfalso.
  unfold parse4 in E. destruct (read_sock4 (print_ip a)) as [[b' r]|] eqn:R; [|discriminate].
  unfold read_sock4 in R.
  destruct H as (H1 & H2 & H3 & H4 & H5).
  assert (I : read_ip4 (print_ip a) = Some (a1 a, a2 a, a3 a, a4 a, [])).
  { apply read_ip4_iff. exists (print_dec (a1 a)), (print_dec (a2 a)), (print_dec (a3 a)), (print_dec (a4 a)).
    rewrite app_nil_r. split; [reflexivity|]. split; [reflexivity|]. repeat split; apply print_oct; assumption. }
  rewrite I in R. cbn [read_char] in R. discriminate.
Qed.

(* decoding what the codec text says: either "ip:port", or a bare ip standing for the marker port *)
Lemma decoded_text_reads_back a : wf4 a ->
  let t := if aport a =? CRATE_OMIT_PORT then print_ip a else print4 a in
  match parse4 t with
  | Some b => R4 b
  | None => match parse_ip4 t with
            | Some (o1, o2, o3, o4) => R4 (mkA o1 o2 o3 o4 ADDR_BARE_IP_PORT)
            | None => RNone
            end
  end = R4 a.
Proof.
  intro H. cbv zeta. destruct (aport a =? CRATE_OMIT_PORT) eqn:E.
  - rewrite (print_ip_not_sock a H), (parse_ip4_print_ip a H). apply N.eqb_eq in E.
    rewrite <- omit_is_bare, <- E. destruct a; reflexivity.
  - rewrite (parse4_print4 a H). reflexivity.
Qed.

(* the general form: any single space/hyphen separators, any ASCII-case variant of the words *)
Lemma from_four_words_variants a w0 w1 w2 w3 s1 s2 s3 : wf4 a ->
  (s1 = 32 \/ s1 = 45) -> (s2 = 32 \/ s2 = 45) -> (s3 = 32 \/ s3 = 45) ->
  wordlike w0 -> wordlike w1 -> wordlike w2 -> wordlike w3 ->
  map lower [w0; w1; w2; w3] = map word (to_digits nwords (pack a)) ->
  from_four_words (w0 ++ s1 :: w1 ++ s2 :: w2 ++ s3 :: w3) = R4 a.
Proof.
  intros Ha S1 S2 S3 W0 W1 W2 W3 E.
  rewrite nwords_is_4 in E. cbn [to_digits map] in E.
  pose proof (to_digits4_range (pack a)) as R. cbn [to_digits] in R.
  inversion R as [|? ? R0 R']; subst. inversion R' as [|? ? R1 R'']; subst.
  inversion R'' as [|? ? R2 R''']; subst. inversion R''' as [|? ? R3 _]; subst.
  injection E as E0 E1 E2 E3.
  assert (A45 : is_alpha 45 = false) by reflexivity.
  assert (N : replace_char DEC_FROM DEC_TO (w0 ++ s1 :: w1 ++ s2 :: w2 ++ s3 :: w3) = four 32 w0 w1 w2 w3).
  { change DEC_FROM with 45. change DEC_TO with 32. unfold four.
    pose proof (wordlike_avoids _ 45 W0 A45) as [_ Q0]. pose proof (wordlike_avoids _ 45 W1 A45) as [_ Q1].
    pose proof (wordlike_avoids _ 45 W2 A45) as [_ Q2]. pose proof (wordlike_avoids _ 45 W3 A45) as [_ Q3].
    repeat (rewrite replace_char_app || rewrite replace_char_cons).
    rewrite !replace_char_id by assumption.
    destruct S1 as [-> | ->], S2 as [-> | ->], S3 as [-> | ->]; reflexivity. }
  unfold from_four_words. rewrite N.
  rewrite (crate_decode_four w0 w1 w2 w3 _ _ _ _ W0 W1 W2 W3
             (get_index_variant _ _ R0 E0) (get_index_variant _ _ R1 E1)
             (get_index_variant _ _ R2 E2) (get_index_variant _ _ R3 E3)).
  cbv zeta.
  replace (unpack (of_digits _)) with a.
  - apply decoded_text_reads_back, Ha.
  - symmetry. exact (words_roundtrip a Ha).
Qed.

Lemma words_of_shape a : wf4 a ->
  exists d0 d1 d2 d3, to_digits nwords (pack a) = [d0; d1; d2; d3] /\ d0 < 4096 /\ d1 < 4096 /\ d2 < 4096 /\ d3 < 4096
    /\ words_of a = four 45 (word d0) (word d1) (word d2) (word d3).
Proof.
  intro Ha. rewrite nwords_is_4.
  pose proof (to_digits4_range (pack a)) as R. cbn [to_digits] in R |- *.
  inversion R as [|? ? R0 R']; subst. inversion R' as [|? ? R1 R'']; subst.
  inversion R'' as [|? ? R2 R''']; subst. inversion R''' as [|? ? R3 _]; subst.
  eexists _, _, _, _. split; [reflexivity|]. repeat (split; [assumption|]).
  unfold words_of, encode_words. rewrite nwords_is_4. cbn [to_digits map join].
  change ENC_FROM with 32. change ENC_TO with 45. unfold four.
  assert (A32 : is_alpha 32 = false) by reflexivity.
  pose proof (wordlike_avoids _ 32 (word_wordlike _ R0) A32) as [_ Q0]. pose proof (wordlike_avoids _ 32 (word_wordlike _ R1) A32) as [_ Q1].
  pose proof (wordlike_avoids _ 32 (word_wordlike _ R2) A32) as [_ Q2]. pose proof (wordlike_avoids _ 32 (word_wordlike _ R3) A32) as [_ Q3].
  repeat (rewrite replace_char_app || rewrite replace_char_cons).
  rewrite !replace_char_id by assumption. reflexivity.
Qed.

Lemma from_four_words_roundtrip a : wf4 a -> from_four_words (words_of a) = R4 a.
Proof.
  intro Ha. destruct (words_of_shape a Ha) as (d0 & d1 & d2 & d3 & E & R0 & R1 & R2 & R3 & ->).
  unfold four. apply from_four_words_variants; auto using word_wordlike.
  rewrite E. cbn [map]. pose proof (word_facts d0 R0) as (_ & _ & L0 & _). pose proof (word_facts d1 R1) as (_ & _ & L1 & _).
  pose proof (word_facts d2 R2) as (_ & _ & L2 & _). pose proof (word_facts d3 R3) as (_ & _ & L3 & _).
  rewrite L0, L1, L2, L3. reflexivity.
Qed.

(* ================================================================== Display / FromStr / consumers *)
Lemma strip_prefix_app p t : strip_prefix p (p ++ t) = Some t.
Proof. induction p as [|x p IH]; cbn [app strip_prefix]; [reflexivity|]. rewrite N.eqb_refl. exact IH. Qed.

Lemma split_once_unfold sep s :
  split_once sep s = match strip_prefix sep s with
                     | Some t => Some ([], t)
                     | None => match s with
                               | [] => None
                               | c :: r => match split_once sep r with Some (h, t) => Some (c :: h, t) | None => None end
                               end
                     end.
Proof. destruct s; reflexivity. Qed.

Lemma strip_prefix_mismatch c sep' x s : (c =? x) = false -> strip_prefix (c :: sep') (x :: s) = None.
Proof. intro H. cbn [strip_prefix]. rewrite H. reflexivity. Qed.

Lemma split_once_found c sep' h t : contains c h = false ->
  split_once (c :: sep') (h ++ (c :: sep') ++ t) = Some (h, t).
Proof.
  induction h as [|x h IH]; intro H.
  - cbn [app]. rewrite split_once_unfold.
    change (c :: sep' ++ t) with ((c :: sep') ++ t). rewrite strip_prefix_app. reflexivity.
  - cbn [contains existsb] in H. apply orb_false_iff in H as [Hx Hh].
    change (existsb (N.eqb c) h) with (contains c h) in Hh.
    change ((x :: h) ++ (c :: sep') ++ t) with (x :: (h ++ (c :: sep') ++ t)).
    rewrite split_once_unfold, (strip_prefix_mismatch _ _ _ _ Hx), (IH Hh). reflexivity.
Qed.
Lemma split_once_none c sep' s : contains c s = false -> split_once (c :: sep') s = None.
Proof.
  induction s as [|x s IH]; intro H; [reflexivity|].
  cbn [contains existsb] in H. apply orb_false_iff in H as [Hx Hs].
  change (existsb (N.eqb c) s) with (contains c s) in Hs.
  rewrite split_once_unfold, (strip_prefix_mismatch _ _ _ _ Hx), (IH Hs). reflexivity.
Qed.

(* characters of rendered IPv4 socket text *)
Definition is_sockch (c : N) : bool := is_digit c || (c =? 46) || (c =? 58).
Lemma numeral_digits ml st lim d v : numeralb ml st lim d v = true -> forallb is_digit d = true /\ d <> [].
Proof.
  unfold numeralb. intro H. repeat (apply andb_true_iff in H as [H ?]). split; [assumption|].
  intros ->. discriminate.
Qed.
Lemma digits_sockch d : forallb is_digit d = true -> forallb is_sockch d = true.
Proof. apply forallb_impl. intros x H. unfold is_sockch. rewrite H. reflexivity. Qed.
Lemma forallb_app' {A} (p : A -> bool) l1 l2 : forallb p l1 = true -> forallb p l2 = true -> forallb p (l1 ++ l2) = true.
Proof. intros H1 H2. rewrite forallb_app, H1, H2. reflexivity. Qed.
Lemma forallb_cons' {A} (p : A -> bool) x l : p x = true -> forallb p l = true -> forallb p (x :: l) = true.
Proof. intros H1 H2. cbn [forallb]. rewrite H1, H2. reflexivity. Qed.

Lemma print_dec_sockch n : n < 65536 -> forallb is_sockch (print_dec n) = true /\ print_dec n <> [].
Proof.
  intro H. pose proof (numeral_digits _ _ _ _ _ (print_port n H)) as [Hd Hn]. split; [apply digits_sockch, Hd|exact Hn].
Qed.
Lemma print_ip_sockch a : wf4 a -> forallb is_sockch (print_ip a) = true.
Proof.
  intros (H1 & H2 & H3 & H4 & H5). unfold print_ip.
  repeat (first [apply forallb_app' | apply forallb_cons'; [reflexivity|]]); apply print_dec_sockch; lia.
Qed.
Lemma print4_sockch a : wf4 a -> forallb is_sockch (print4 a) = true.
Proof.
  intro H. unfold print4. apply forallb_app'; [apply print_ip_sockch, H|].
  apply forallb_cons'; [reflexivity|]. apply print_dec_sockch. apply H.
Qed.
Lemma sockch_avoids s c : forallb is_sockch s = true -> is_sockch c = false -> contains c s = false.
Proof.
  intros H Hc. apply contains_false. eapply forallb_impl; [|exact H].
  intros x Hx. apply negb_true_iff, N.eqb_neq. intros ->. congruence.
Qed.
Lemma print_ip_nonempty a : wf4 a -> exists c r, print_ip a = c :: r /\ is_digit c = true.
Proof.
  intros (H1 & _). pose proof (numeral_digits _ _ _ _ _ (print_oct _ H1)) as [Hd Hn].
  unfold print_ip. destruct (print_dec (a1 a)) as [|c r]; [congruence|].
  cbn [forallb] in Hd. apply andb_true_iff in Hd as [Hc _]. exists c. eexists. split; [reflexivity|exact Hc].
Qed.
Lemma parse_sock_digit c r : is_digit c = true -> parse_sock (c :: r) = match parse4 (c :: r) with Some a => R4 a | None => RNone end.
Proof.
  intro H. unfold parse_sock. destruct (N.eq_dec c 91) as [->|Hn]; [discriminate H|].
  destruct c as [|p]; [reflexivity|].
  repeat (destruct p as [p|p|]; try reflexivity). exfalso. apply Hn. reflexivity.
Qed.
Lemma parse_sock_print4 a : wf4 a -> parse_sock (print4 a) = R4 a.
Proof.
  intro H. destruct (print_ip_nonempty a H) as (c & r & E & Hc).
  pose proof (parse4_print4 a H) as P. unfold print4 in *. rewrite E in *. cbn [app] in *.
  rewrite (parse_sock_digit _ _ Hc), P. reflexivity.
Qed.
Lemma parse_sock_print4_junk a c rest : wf4 a -> is_digit c = false -> parse_sock (print4 a ++ c :: rest) = RNone.
Proof.
  intros H Hc. destruct (print_ip_nonempty a H) as (x & r & E & Hx).
  pose proof (parse4_print4_junk a c rest H Hc) as P. unfold print4 in *. rewrite E in *. cbn [app] in *.
  rewrite (parse_sock_digit _ _ Hx), P. reflexivity.
Qed.

(* ---- any address family: text printer/parser pair + rendered words (the IPv6 side is an instance
        under the three stated hypotheses; IPv4 is proved to be one) *)
Section Family.
  Variable A : Type.
  Variable prt : A -> str.
  Variable prs : str -> res.
  Variable inj : A -> res.
  Variable wrd : A -> str.
  Hypothesis prs_prt : forall a, prs (prt a) = inj a.
  Hypothesis prt_no_space : forall a, contains 32 (prt a) = false.
  Hypothesis prs_rejects_suffix : forall a r, prs (prt a ++ 32 :: r) = RNone.

  Definition display_g (a : A) : str := prt a ++ display_infix ++ wrd a ++ display_suffix.
  (* the first two alternatives of FromStr *)
  Definition from_str_head_g (s : str) : res :=
    orelse (prs s) (match split_once fromstr_sep s with
                    | Some (h, t) => if ends_with t fromstr_close then prs h else RNone
                    | None => RNone end).

  Lemma before_first_display_g a : before_first [32; 40] (display_g a) = prt a.
  Proof.
    unfold before_first, display_g. change display_infix with [32; 40].
    rewrite (split_once_found 32 [40] (prt a) _ (prt_no_space a)). reflexivity.
  Qed.

  Lemma display_fromstr_g a : inj a <> RNone -> from_str_head_g (display_g a) = inj a.
  Proof.
    intro Hne. unfold from_str_head_g, display_g. change display_infix with [32; 40]. change fromstr_sep with [32; 40].
    change ([32; 40] ++ wrd a ++ display_suffix) with (32 :: 40 :: wrd a ++ display_suffix) at 1.
    rewrite prs_rejects_suffix. cbn [orelse].
    rewrite (split_once_found 32 [40] (prt a) _ (prt_no_space a)).
    assert (E : ends_with (wrd a ++ display_suffix) fromstr_close = true).
    { unfold ends_with. change display_suffix with [41]. change fromstr_close with [41].
      rewrite rev_app_distr. reflexivity. }
    rewrite E. apply prs_prt.
  Qed.

  Lemma consumer_strip_g a : prs (before_first dnm_sep_dial (display_g a)) = inj a
                             /\ prs (before_first dnm_sep_multiaddr (display_g a)) = inj a.
  Proof.
    change dnm_sep_dial with [32; 40]. change dnm_sep_multiaddr with [32; 40].
    rewrite before_first_display_g. split; apply prs_prt.
  Qed.
End Family.

(* IPv4 is such a family *)
Definition wf_addr := { a : addr4 | wf4 a }.
Lemma v4_no_space a : wf4 a -> contains 32 (print4 a) = false.
Proof. intro H. apply sockch_avoids; [apply print4_sockch, H|reflexivity]. Qed.

Lemma display_is_g a : display a = display_g addr4 print4 words_of a.
Proof. reflexivity. Qed.

Lemma before_first_display a : wf4 a -> before_first [32; 40] (display a) = print4 a.
Proof.
  intro H. unfold before_first, display. change display_infix with [32; 40].
  rewrite (split_once_found 32 [40] (print4 a) _ (v4_no_space a H)). reflexivity.
Qed.

Lemma from_str_of_display a : wf4 a -> from_str (display a) = R4 a.
Proof.
  intro H. unfold from_str, from_str_display, display.
  change display_infix with [32; 40]. change fromstr_sep with [32; 40].
  change ([32; 40] ++ words_of a ++ display_suffix) with (32 :: 40 :: words_of a ++ display_suffix) at 1.
  rewrite (parse_sock_print4_junk a 32 _ H eq_refl). cbn [orelse].
  change (32 :: 40 :: words_of a ++ display_suffix) with ([32; 40] ++ words_of a ++ display_suffix).
  rewrite (split_once_found 32 [40] (print4 a) _ (v4_no_space a H)).
  assert (E : ends_with (words_of a ++ display_suffix) fromstr_close = true).
  { unfold ends_with. change display_suffix with [41]. change fromstr_close with [41].
    rewrite rev_app_distr. reflexivity. }
  rewrite E, (parse_sock_print4 a H). reflexivity.
Qed.

Lemma consumer_strip_display a : wf4 a ->
  consumer_strip dnm_sep_dial (display a) = R4 a /\ consumer_strip dnm_sep_multiaddr (display a) = R4 a.
Proof.
  intro H. unfold consumer_strip. change dnm_sep_dial with [32; 40]. change dnm_sep_multiaddr with [32; 40].
  rewrite (before_first_display a H), (parse_sock_print4 a H). split; reflexivity.
Qed.

Lemma add_node_ip_display a : wf4 a -> add_node_ip (display a) = Some (a1 a, a2 a, a3 a, a4 a).
Proof.
  intro H. unfold add_node_ip. change display_infix with [32; 40].
  rewrite (before_first_display a H), (parse4_print4 a H). reflexivity.
Qed.
(* ... and it reads a bare rendered IP and a plain "ip:port" the same way *)
Lemma add_node_ip_plain a : wf4 a ->
  add_node_ip (print4 a) = Some (a1 a, a2 a, a3 a, a4 a) /\ add_node_ip (print_ip a) = Some (a1 a, a2 a, a3 a, a4 a).
Proof.
  intro H. unfold add_node_ip, before_first. change display_infix with [32; 40].
  rewrite (split_once_none 32 [40] (print4 a) (v4_no_space a H)).
  rewrite (split_once_none 32 [40] (print_ip a) (sockch_avoids _ 32 (print_ip_sockch a H) eq_refl)).
  rewrite (parse4_print4 a H), (print_ip_not_sock a H), (parse_ip4_print_ip a H). split; reflexivity.
Qed.

(* the /ip4/<ip>/tcp/<port> text that multiaddr_from_address builds parses back to the address *)
Lemma parse4_nondigit c r : is_digit c = false -> parse4 (c :: r) = None.
Proof.
  intro H. unfold parse4, read_sock4, read_ip4, read_octet, read_number. cbn [read_num_loop]. rewrite H. reflexivity.
Qed.

Definition is_mach (c : N) : bool := is_sockch c || is_az c || (c =? 47) || (c =? 52).
Lemma sockch_mach s : forallb is_sockch s = true -> forallb is_mach s = true.
Proof. apply forallb_impl. intros x H. unfold is_mach. rewrite H. reflexivity. Qed.

Lemma from_str_multiaddr_text a : wf4 a -> from_str (multiaddr_text a) = R4 a.
Proof.
  intro H. pose proof H as (H1 & H2 & H3 & H4 & H5).
  pose proof (print_ip_sockch a H) as Sip. pose proof (print_dec_sockch _ H5) as [Sp Np].
  unfold from_str.
  assert (P : parse_sock (multiaddr_text a) = RNone).
  { unfold multiaddr_text, parse_sock. rewrite parse4_nondigit by reflexivity. reflexivity. }
  rewrite P. cbn [orelse].
  assert (D : from_str_display (multiaddr_text a) = RNone).
  { unfold from_str_display. change fromstr_sep with [32; 40].
    rewrite split_once_none; [reflexivity|]. unfold multiaddr_text.
    apply contains_false. cbn [app s_ip4 s_tcp].
    repeat (first [apply forallb_app' | apply forallb_cons'; [reflexivity|]]);
      (eapply forallb_impl; [|apply print_dec_sockch; lia]); intros x Hx; apply negb_true_iff, N.eqb_neq; intros <-; vm_compute in Hx; discriminate Hx. }
  rewrite D. cbn [orelse].
  assert (M : multiaddr (multiaddr_text a) = R4 a).
  { unfold multiaddr.
    assert (Pre : is_prefix (47 :: s_ip4 ++ [47]) (multiaddr_text a) = true) by reflexivity.
    rewrite Pre. cbn [orb].
    assert (Sp47 : forall s, forallb is_sockch s = true -> forallb (fun c => negb (47 =? c)) s = true).
    { intros s Hs. eapply forallb_impl; [|exact Hs]. intros x Hx. apply negb_true_iff, N.eqb_neq. intros <-. vm_compute in Hx. discriminate Hx. }
    assert (Spl : split_char 47 (multiaddr_text a) = [[]; s_ip4; print_ip a; s_tcp; print_dec (aport a)]).
    { unfold split_char, multiaddr_text.
      change (47 :: s_ip4 ++ 47 :: print_ip a ++ 47 :: s_tcp ++ 47 :: print_dec (aport a))
        with ([] ++ 47 :: s_ip4 ++ 47 :: print_ip a ++ 47 :: s_tcp ++ 47 :: print_dec (aport a)).
      rewrite (split_on_app (N.eqb 47) [] 47) by reflexivity.
      rewrite (split_on_app (N.eqb 47) s_ip4 47) by reflexivity.
      rewrite (split_on_app (N.eqb 47) (print_ip a) 47) by (try reflexivity; apply Sp47, Sip).
      rewrite (split_on_app (N.eqb 47) s_tcp 47) by reflexivity.
      rewrite (split_on_nosep (N.eqb 47) (print_dec (aport a))) by (apply Sp47; assumption).
      reflexivity. }
    rewrite Spl.
    destruct (print_ip_nonempty a H) as (c & r & E & _).
    destruct (print_dec (aport a)) as [|pc pr] eqn:Ep; [congruence|].
    rewrite E. cbn [nonempty filter is_nil negb s_ip4 s_tcp]. rewrite <- E. rewrite !str_eqb_refl. cbn [orb andb].
    rewrite <- Ep, (parse_u16_print _ H5), (parse_ip4_print_ip a H). destruct a; reflexivity. }
  rewrite M. reflexivity.
Qed.

Lemma multiaddr_from_address_display a : wf4 a ->
  multiaddr_from_address (display a) = if is_unspecified a then RNone else R4 a.
Proof.
  intro H. unfold multiaddr_from_address. destruct (consumer_strip_display a H) as [_ ->].
  destruct (is_unspecified a); [reflexivity|]. apply from_str_multiaddr_text, H.
Qed.

(* identity::WordEncoder::decode reads the same six bytes out of the rendered words *)
Lemma id_decode_words a : wf4 a -> id_decode (words_of a) = R4 a.
Proof.
  intro Ha. destruct (words_of_shape a Ha) as (d0 & d1 & d2 & d3 & E & R0 & R1 & R2 & R3 & ->).
  unfold id_decode.
  assert (A45 : is_alpha 45 = false) by reflexivity.
  pose proof (wordlike_avoids _ 45 (word_wordlike _ R0) A45) as [S0 _]. pose proof (wordlike_avoids _ 45 (word_wordlike _ R1) A45) as [S1 _].
  pose proof (wordlike_avoids _ 45 (word_wordlike _ R2) A45) as [S2 _]. pose proof (wordlike_avoids _ 45 (word_wordlike _ R3) A45) as [S3 _].
  unfold split_char. rewrite (split_four (N.eqb 45) 45) by (reflexivity || assumption).
  change (len [word d0; word d1; word d2; word d3] =? 4) with true. cbn iota.
  unfold indices. cbn [map all_some].
  pose proof (word_facts d0 R0) as (_ & _ & _ & ->). pose proof (word_facts d1 R1) as (_ & _ & _ & ->).
  pose proof (word_facts d2 R2) as (_ & _ & _ & ->). pose proof (word_facts d3 R3) as (_ & _ & _ & ->).
  rewrite <- E. rewrite (words_roundtrip a Ha). reflexivity.
Qed.

(* whatever FromStr's first two alternatives and a suffix-stripping consumer both accept is the same address *)
Lemma strip_agrees_with_fromstr s a b :
  orelse (parse_sock s) (from_str_display s) = R4 a -> consumer_strip [32; 40] s = R4 b -> a = b.
Proof.
  unfold consumer_strip, before_first, from_str_display. change fromstr_sep with [32; 40].
  destruct (split_once [32; 40] s) as [[h t]|] eqn:E.
  - intros H1 H2. destruct (parse_sock s) eqn:P; cbn [orelse] in H1.
    + destruct (ends_with t fromstr_close); congruence.
    + (* s itself is socket text: it contains no space, so split_once cannot have succeeded *)
      exfalso. inv H1. unfold parse_sock in P. destruct s as [|c r]; [discriminate|].
      assert (P4 : parse4 (c :: r) = Some a) by (destruct c as [|p]; [|repeat (destruct p as [p|p|]; try discriminate)];
        destruct (parse4 _); congruence).
      apply parse4_iff in P4 as (d1 & d2 & d3 & d4 & d5 & Es & N1 & N2 & N3 & N4 & N5).
      assert (C : contains 32 (c :: r) = false).
      { rewrite Es. apply sockch_avoids; [|reflexivity].
        repeat (first [apply forallb_app' | apply forallb_cons'; [reflexivity|]]);
          apply digits_sockch; eapply numeral_digits; eassumption. }
      rewrite (split_once_none 32 [40] _ C) in E. discriminate.
    + discriminate.
  - intros H1 H2. destruct (parse_sock s); cbn [orelse] in H1; congruence.
Qed.
