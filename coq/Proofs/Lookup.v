(* Proofs about Model/Lookup.v (C01). *)
From SV Require Import Lib.Base Lib.ListAux Gen.LookupConsts Model.Lookup.
From Coq Require Import Sorting.Sorted.
Local Open Scope N_scope.

Lemma mem_In x l : mem x l = true <-> In x l.
Proof.
  unfold mem. rewrite existsb_exists. split.
  - intros [y [H1 H2]]. apply N.eqb_eq in H2. subst; exact H1.
  - intro H. exists x. split; [exact H|apply N.eqb_refl].
Qed.

Lemma mem_false x l : mem x l = false <-> ~ In x l.
Proof. rewrite <- mem_In. destruct (mem x l); intuition congruence. Qed.

Lemma remove_pid_In x y l : In y (remove_pid x l) <-> In y l /\ y <> x.
Proof.
  unfold remove_pid. rewrite filter_In. split; intros [H1 H2]; split; try exact H1.
  - intro E. subst. rewrite N.eqb_refl in H2. discriminate.
  - apply negb_true_iff. apply N.eqb_neq. exact H2.
Qed.

Section LookupProofs.
  Variable keyof : pid -> N.
  Variable reply : pid -> option (list pid).
  Variable self : pid.
  Variable selfs_marked selfs_all : list pid.
  Variable target : N.
  Variable count : nat.

  Local Notation dist := (Model.Lookup.dist keyof target).
  Local Notation insert := (Model.Lookup.insert keyof target).
  Local Notation dominated := (Model.Lookup.dominated keyof target count).
  Local Notation pop_batch := (Model.Lookup.pop_batch keyof target count).
  Local Notation consider := (Model.Lookup.consider keyof selfs_all target count).
  Local Notation process_one := (Model.Lookup.process_one keyof reply selfs_all target count).
  Local Notation loop := (Model.Lookup.loop keyof reply selfs_all target count).
  Local Notation init_state := (Model.Lookup.init_state self selfs_marked count).
  Local Notation lookup := (Model.Lookup.lookup keyof reply self selfs_marked selfs_all target count).
  Local Notation learned := (Model.Lookup.learned reply).

  Definition le_d (a b : pid) : Prop := dist a <= dist b.
  Definition SortedD : list pid -> Prop := StronglySorted le_d.

  (* ---------- insert / firstn ---------- *)

  Lemma insert_In x p l : In x (insert p l) <-> x = p \/ In x l.
  Proof.
    induction l as [|y l IH]; cbn [Model.Lookup.insert In].
    - intuition.
    - case_if; cbn [In]; rewrite ?IH; intuition.
  Qed.

  Lemma insert_length p l : length (insert p l) = S (length l).
  Proof.
    induction l as [|y l IH]; cbn [Model.Lookup.insert length]; [reflexivity|].
    case_if; cbn [length]; rewrite ?IH; reflexivity.
  Qed.

  Lemma insert_sorted p l : SortedD l -> SortedD (insert p l).
  Proof.
    unfold SortedD. induction l as [|y l IH]; cbn [Model.Lookup.insert]; intro H.
    - constructor; constructor.
    - pose proof (StronglySorted_inv H) as [Hs Hf]. case_if.
      + constructor; [exact H|]. constructor; [unfold le_d; lia|].
        eapply Forall_impl; [|exact Hf]. unfold le_d. intros a Ha. lia.
      + constructor; [apply IH; exact Hs|].
        apply Forall_forall. intros x Hx. apply insert_In in Hx. destruct Hx as [->|Hx].
        * unfold le_d. lia.
        * rewrite Forall_forall in Hf. apply Hf; exact Hx.
  Qed.

  Lemma insert_nodup p l : NoDup l -> ~ In p l -> NoDup (insert p l).
  Proof.
    induction l as [|y l IH]; cbn [Model.Lookup.insert]; intros H Hp.
    - constructor; [intros []|constructor].
    - case_if.
      + constructor; assumption.
      + inv H. constructor.
        * rewrite insert_In. intros [->|Hin]; [apply Hp; left; reflexivity|contradiction].
        * apply IH; [assumption|]. intro Hin. apply Hp. right; exact Hin.
  Qed.

  Lemma firstn_sorted n l : SortedD l -> SortedD (firstn n l).
  Proof.
    unfold SortedD. revert n. induction l as [|a l IH]; intros [|n] H; cbn [firstn]; try constructor.
    - apply IH. apply StronglySorted_inv in H. tauto.
    - apply StronglySorted_inv in H. destruct H as [_ Hf].
      rewrite Forall_forall in *. intros x Hx. apply Hf. eapply In_firstn; exact Hx.
  Qed.

  (* an element of a sorted list survives truncation or is no closer than everything kept *)
  Lemma firstn_cov n l x : SortedD l -> In x l ->
    In x (firstn n l) \/ (length (firstn n l) = n /\ forall w, In w (firstn n l) -> dist w <= dist x).
  Proof.
    unfold SortedD. revert n. induction l as [|a l IH]; intros n Hs Hx; [destruct Hx|].
    destruct n as [|n]; cbn [firstn length In].
    - right. split; [reflexivity|intros w []].
    - apply StronglySorted_inv in Hs. destruct Hs as [Hs Hf]. destruct Hx as [->|Hx].
      + left; left; reflexivity.
      + destruct (IH n Hs Hx) as [H|[Hl Hw]]; [left; right; exact H|].
        right. split; [lia|]. intros w [<-|Hin].
        * rewrite Forall_forall in Hf. apply (Hf x Hx).
        * apply Hw; exact Hin.
  Qed.

  Lemma insert_dom p x b : (forall w, In w b -> dist w <= dist x) ->
    forall w, In w (firstn (length b) (insert p b)) -> dist w <= dist x.
  Proof.
    induction b as [|y b IH]; cbn [Model.Lookup.insert length]; intros H w Hw.
    - destruct Hw.
    - case_if_in Hw; cbn [firstn In] in Hw.
      + destruct Hw as [<-|Hw].
        * pose proof (H y (or_introl eq_refl)). lia.
        * apply H. eapply In_firstn; exact Hw.
      + destruct Hw as [<-|Hw].
        * apply H. left; reflexivity.
        * apply IH; [|exact Hw]. intros w' Hw'. apply H. right; exact Hw'.
  Qed.

  (* best is full and x is no closer than any of its members *)
  Definition dom (b : list pid) (x : pid) : Prop :=
    length b = count /\ forall w, In w b -> dist w <= dist x.
  Definition covered (b : list pid) (x : pid) : Prop := In x b \/ dom b x.

  Lemma dom_step p b x : dom b x -> dom (firstn count (insert p b)) x.
  Proof.
    intros [Hl Hw]. split.
    - rewrite firstn_length, insert_length. lia.
    - rewrite <- Hl. apply insert_dom. exact Hw.
  Qed.

  Lemma covered_step p b x : SortedD b -> covered b x -> covered (firstn count (insert p b)) x.
  Proof.
    intros Hs [Hin|Hd].
    - destruct (firstn_cov count (insert p b) x) as [H|H].
      + apply insert_sorted; exact Hs.
      + apply insert_In. right; exact Hin.
      + left; exact H.
      + right. exact H.
    - right. apply dom_step; exact Hd.
  Qed.

  Lemma covered_new p b : SortedD b -> covered (firstn count (insert p b)) p.
  Proof.
    intro Hs. destruct (firstn_cov count (insert p b) p) as [H|H].
    - apply insert_sorted; exact Hs.
    - apply insert_In. left; reflexivity.
    - left; exact H.
    - right; exact H.
  Qed.

  Lemma sorted_last b w : SortedD b -> last (map Some b) None = Some w ->
    forall y, In y b -> dist y <= dist w.
  Proof.
    unfold SortedD. induction b as [|a b IH]; intros Hs Hl y Hy; [destruct Hy|].
    apply StronglySorted_inv in Hs. destruct Hs as [Hs Hf].
    destruct b as [|c b].
    - cbn in Hl. inv Hl. destruct Hy as [->|[]]. lia.
    - change (last (map Some (c :: b)) None = Some w) in Hl.
      destruct Hy as [<-|Hy]; [|apply IH; assumption].
      rewrite Forall_forall in Hf. pose proof (Hf c (or_introl eq_refl)) as H1. unfold le_d in H1.
      pose proof (IH Hs Hl c (or_introl eq_refl)). lia.
  Qed.

  Lemma dominated_dom b x : SortedD b -> (length b <= count)%nat -> dominated b x = true -> dom b x.
  Proof.
    unfold Model.Lookup.dominated. intros Hs Hl H. apply andb_true_iff in H. destruct H as [H1 H2].
    split; [lia|].
    destruct (last (map Some b) None) as [w|] eqn:E; [|discriminate].
    intros y Hy. pose proof (sorted_last b w Hs E y Hy). lia.
  Qed.

  (* ---------- pop_batch ---------- *)
  Definition keep (b qd : list pid) (x : pid) : bool := negb (mem x qd || dominated b x).

  Lemma pop_batch_spec b qd : forall c ql batch c' ql' batch',
    pop_batch b qd c ql batch = (c', ql', batch') ->
    exists pre, c = pre ++ c' /\ (forall y, In y ql' <-> In y ql /\ ~ In y pre) /\
                batch' = batch ++ filter (keep b qd) pre.
  Proof.
    induction c as [|x c IH]; intros ql batch c' ql' batch' H; cbn [Model.Lookup.pop_batch] in H.
    - inv H. exists []. cbn. rewrite app_nil_r. intuition.
    - destruct (N.to_nat LK_ALPHA <=? length batch)%nat eqn:E.
      + inv H. exists []. cbn. rewrite app_nil_r. intuition.
      + destruct (mem x qd || dominated b x) eqn:E0;
          apply IH in H; destruct H as [pre [H1 [H2 H3]]]; exists (x :: pre); subst c.
        * split; [reflexivity|]. split.
          -- intro y. rewrite H2, remove_pid_In. cbn [In]. intuition congruence.
          -- cbn [filter]. unfold keep at 1. rewrite E0. cbn [negb]. exact H3.
        * split; [reflexivity|]. split.
          -- intro y. rewrite H2, remove_pid_In. cbn [In]. intuition congruence.
          -- cbn [filter]. unfold keep at 1. rewrite E0. cbn [negb]. rewrite H3, <- app_assoc. reflexivity.
  Qed.

  Lemma pop_batch_len b qd : forall c ql batch c' ql' batch',
    pop_batch b qd c ql batch = (c', ql', batch') ->
    (length batch' <= Nat.max (length batch) (N.to_nat LK_ALPHA))%nat.
  Proof.
    induction c as [|x c IH]; intros ql batch c' ql' batch' H; cbn [Model.Lookup.pop_batch] in H.
    - inv H. lia.
    - destruct (N.to_nat LK_ALPHA <=? length batch)%nat eqn:E.
      + inv H. lia.
      + destruct (mem x qd || dominated b x) eqn:E0; apply IH in H.
        * lia.
        * rewrite app_length in H. cbn [length] in H. lia.
  Qed.

  (* an empty batch means the queue was drained *)
  Lemma pop_batch_nil b qd : (0 < N.to_nat LK_ALPHA)%nat -> forall c ql batch c' ql',
    pop_batch b qd c ql batch = (c', ql', []) -> c' = [].
  Proof.
    intro HA. induction c as [|x c IH]; intros ql batch c' ql' H; cbn [Model.Lookup.pop_batch] in H.
    - inv H. reflexivity.
    - destruct (N.to_nat LK_ALPHA <=? length batch)%nat eqn:E.
      + inv H. cbn [length] in E. lia.
      + destruct (mem x qd || dominated b x) eqn:E0; eapply IH; exact H.
  Qed.

  (* ---------- invariants ---------- *)
  Record InvQ (c ql : list pid) : Prop := mkInvQ {
    q_nodup : NoDup c;
    q_cq : incl c ql;
    q_qc : incl ql c;
    q_noself : forall p, In p c -> ~ In p selfs_all }.

  Record InvB (b qd sn : list pid) : Prop := mkInvB {
    b_sent_nodup : NoDup sn;
    b_sent_queried : incl sn qd;
    b_queried_split : forall p, In p qd -> In p selfs_marked \/ In p sn;
    b_sent_noself : forall p, In p sn -> ~ In p selfs_all;
    b_sorted : SortedD b;
    b_len : (length b <= count)%nat;
    b_nodup : NoDup b;
    b_src : forall p, In p b -> p = self \/ (In p sn /\ reply p <> None);
    b_cov : forall p, (p = self /\ (0 < count)%nat) \/ (In p sn /\ reply p <> None) -> covered b p }.

  Definition InvS (s : st) : Prop :=
    InvQ (cand s) (queued s) /\ InvB (best s) (queried s) (sent s).

  Lemma consider_fixed s n :
    best (consider s n) = best s /\ queried (consider s n) = queried s /\ sent (consider s n) = sent s.
  Proof. unfold Model.Lookup.consider. repeat case_if; repeat split; reflexivity. Qed.

  Lemma fold_consider_fixed nodes : forall s,
    best (fold_left consider nodes s) = best s /\
    queried (fold_left consider nodes s) = queried s /\
    sent (fold_left consider nodes s) = sent s.
  Proof.
    induction nodes as [|n nodes IH]; intro s; cbn [fold_left]; [auto|].
    destruct (IH (consider s n)) as [H1 [H2 H3]]. destruct (consider_fixed s n) as [G1 [G2 G3]].
    rewrite H1, H2, H3, G1, G2, G3. auto.
  Qed.

  Lemma consider_invQ s n :
    InvQ (cand s) (queued s) -> InvQ (cand (consider s n)) (queued (consider s n)).
  Proof.
    intro H. unfold Model.Lookup.consider.
    destruct (mem n (queried s) || mem n (queued s) || mem n selfs_all) eqn:E; [exact H|].
    destruct (dominated (best s) n); [exact H|].
    destruct (N.to_nat LK_MAX_CANDIDATE_NODES <=? length (cand s))%nat; cbn [cand queued]; [exact H|].
    apply orb_false_iff in E. destruct E as [E E3]. apply orb_false_iff in E. destruct E as [E1 E2].
    apply mem_false in E2, E3. destruct H as [H1 H2 H3 H4].
    constructor.
    - apply NoDup_snoc; [exact H1|]. intro Hin. apply E2, H2, Hin.
    - intros y Hy. apply in_app_or in Hy. destruct Hy as [Hy|[<-|[]]]; [right; apply H2; exact Hy|left; reflexivity].
    - intros y [<-|Hy]; apply in_or_app; [right; left; reflexivity|left; apply H3; exact Hy].
    - intros y Hy. apply in_app_or in Hy. destruct Hy as [Hy|[<-|[]]]; [apply H4; exact Hy|exact E3].
  Qed.

  Lemma consider_inv s n : InvS s -> InvS (consider s n).
  Proof.
    intros [HQ HB]. split; [apply consider_invQ; exact HQ|].
    destruct (consider_fixed s n) as [G1 [G2 G3]]. rewrite G1, G2, G3. exact HB.
  Qed.

  Lemma fold_consider_inv nodes : forall s, InvS s -> InvS (fold_left consider nodes s).
  Proof.
    induction nodes as [|n nodes IH]; intros s H; cbn [fold_left]; [exact H|].
    apply IH, consider_inv, H.
  Qed.

  Lemma InvB_step b qd sn p : In self selfs_all -> InvB b qd sn -> ~ In p qd -> ~ In p selfs_all ->
    InvB (match reply p with Some _ => firstn count (insert p b) | None => b end) (p :: qd) (p :: sn).
  Proof.
    intros Hself [H1 H2 H3 H4 H5 H6 H7 H8 H9] Hq Hs.
    assert (Hps : ~ In p sn) by (intro Hin; apply Hq; apply H2; exact Hin).
    assert (Hpself : p <> self) by (intros ->; contradiction).
    assert (Hpb : ~ In p b).
    { intro Hin. apply H8 in Hin. destruct Hin as [->|[Hin _]]; contradiction. }
    constructor.
    - constructor; assumption.
    - intros y [->|Hy]; [left; reflexivity|right; apply H2; exact Hy].
    - intros y [<-|Hy]; [right; left; reflexivity|].
      destruct (H3 y Hy); [left|right; right]; assumption.
    - intros y [<-|Hy]; [exact Hs|apply H4; exact Hy].
    - destruct (reply p); [apply firstn_sorted, insert_sorted|]; assumption.
    - destruct (reply p); [apply firstn_le_length|assumption].
    - destruct (reply p); [apply NoDup_firstn, insert_nodup|]; assumption.
    - intros y Hy.
      assert (Hy' : (y = p /\ reply p <> None) \/ In y b).
      { destruct (reply p) eqn:E; [|right; exact Hy].
        apply In_firstn, insert_In in Hy. destruct Hy as [->|Hy]; [left; split; congruence|right; exact Hy]. }
      destruct Hy' as [[-> Hr]|Hy'].
      + right. split; [left; reflexivity|exact Hr].
      + destruct (H8 y Hy') as [?|[? ?]]; [left; assumption|right; split; [right|]; assumption].
    - intros y Hy.
      assert (Hold : ((y = self /\ (0 < count)%nat) \/ (In y sn /\ reply y <> None)) \/ (y = p /\ reply p <> None)).
      { destruct Hy as [?|[[<-|?] ?]]; auto. }
      destruct (reply p) eqn:E.
      + destruct Hold as [H|[-> _]]; [apply covered_step; auto|apply covered_new; assumption].
      + destruct Hold as [H|[-> H]]; [apply H9; exact H|congruence].
  Qed.

  Lemma fold_consider_invQ nodes : forall s,
    InvQ (cand s) (queued s) ->
    InvQ (cand (fold_left consider nodes s)) (queued (fold_left consider nodes s)).
  Proof.
    induction nodes as [|n nodes IH]; intros s H; cbn [fold_left]; [exact H|].
    apply IH, consider_invQ, H.
  Qed.

  (* ---------- process_one ---------- *)
  Lemma process_one_fixed s p :
    best (process_one s p) =
      match reply p with Some _ => firstn count (insert p (best s)) | None => best s end /\
    queried (process_one s p) = p :: queried s /\
    sent (process_one s p) = p :: sent s.
  Proof.
    unfold Model.Lookup.process_one. cbv zeta. destruct (reply p) as [nodes|]; cbn [best queried sent].
    - match goal with |- context [fold_left _ nodes ?s2] =>
        destruct (fold_consider_fixed nodes s2) as [G1 [G2 G3]] end.
      rewrite G1, G2, G3. cbn [best queried sent]. auto.
    - auto.
  Qed.

  Lemma process_one_inv s p : In self selfs_all ->
    InvS s -> ~ In p (queried s) -> ~ In p selfs_all -> InvS (process_one s p).
  Proof.
    intros Hself [HQ HB] Hq Hs. split.
    - unfold Model.Lookup.process_one. cbv zeta. destruct (reply p) as [nodes|]; cbn [cand queued]; [|exact HQ].
      apply fold_consider_invQ. cbn [cand queued]. exact HQ.
    - destruct (process_one_fixed s p) as [G1 [G2 G3]]. rewrite G1, G2, G3.
      apply InvB_step; assumption.
  Qed.

  Lemma fold_process_inv : In self selfs_all -> forall batch s, InvS s -> NoDup batch ->
    (forall x, In x batch -> ~ In x (queried s) /\ ~ In x selfs_all) ->
    InvS (fold_left process_one batch s).
  Proof.
    intro Hself. induction batch as [|p batch IH]; intros s HI Hnd Hb; cbn [fold_left]; [exact HI|].
    inv Hnd. destruct (Hb p (or_introl eq_refl)) as [Hq Hs].
    apply IH; [apply process_one_inv; assumption|assumption|].
    intros x Hx. destruct (process_one_fixed s p) as [_ [G2 _]]. rewrite G2.
    destruct (Hb x (or_intror Hx)) as [Hxq Hxs]. split; [|exact Hxs].
    intros [<-|Hin]; contradiction.
  Qed.

  Lemma fold_process_sent_len batch : forall s,
    length (sent (fold_left process_one batch s)) = (length batch + length (sent s))%nat.
  Proof.
    induction batch as [|p batch IH]; intro s; cbn [fold_left length]; [reflexivity|].
    rewrite IH. destruct (process_one_fixed s p) as [_ [_ G3]]. rewrite G3. cbn [length]. lia.
  Qed.

  (* ---------- one pop_batch, seen from the state ---------- *)
  Lemma pop_batch_inv s c' q' batch : InvS s ->
    pop_batch (best s) (queried s) (cand s) (queued s) [] = (c', q', batch) ->
    InvS (mkSt (best s) c' (queried s) q' (sent s) (budget_hit s)) /\
    NoDup batch /\
    (forall x, In x batch -> In x (cand s) /\ ~ In x (queried s) /\ ~ In x selfs_all) /\
    incl c' (cand s) /\
    (forall x, In x (cand s) ->
       In x c' \/ In x (queried s) \/ dominated (best s) x = true \/ In x batch).
  Proof.
    intros [[Q1 Q2 Q3 Q4] HB] Ep. apply pop_batch_spec in Ep. destruct Ep as [pre [E1 [E2 E3]]].
    cbn [app] in E3. rewrite E1 in Q1.
    assert (Hc' : incl c' (cand s)) by (intros y Hy; rewrite E1; apply in_or_app; right; exact Hy).
    assert (Hpre : incl pre (cand s)) by (intros y Hy; rewrite E1; apply in_or_app; left; exact Hy).
    split; [split; [cbn [cand queued]; constructor|exact HB]|].
    - eapply NoDup_app_r; exact Q1.
    - intros y Hy. apply E2. split; [apply Q2, Hc', Hy|].
      intro Hp. exact (NoDup_app_disj _ _ _ Q1 Hp Hy).
    - intros y Hy. apply E2 in Hy. destruct Hy as [Hy Hn]. apply Q3 in Hy. rewrite E1 in Hy.
      apply in_app_or in Hy. destruct Hy; [contradiction|assumption].
    - intros y Hy. apply Q4, Hc', Hy.
    - subst batch. split; [apply NoDup_filter; eapply NoDup_app_l; exact Q1|]. split; [|split; [exact Hc'|]].
      + intros x Hx. apply filter_In in Hx. destruct Hx as [Hx Hk].
        split; [apply Hpre, Hx|]. split; [|apply Q4, Hpre, Hx].
        unfold keep in Hk. apply negb_true_iff, orb_false_iff in Hk. apply mem_false. tauto.
      + intros x Hx. rewrite E1 in Hx. apply in_app_or in Hx. destruct Hx as [Hx|Hx]; [|left; exact Hx].
        destruct (keep (best s) (queried s) x) eqn:Ek.
        * right; right; right. apply filter_In. split; assumption.
        * unfold keep in Ek. apply negb_false_iff, orb_true_iff in Ek.
          destruct Ek as [Ek|Ek]; [right; left; apply mem_In; exact Ek|right; right; left; exact Ek].
  Qed.

  (* ---------- loop ---------- *)
  Lemma loop_inv : In self selfs_all -> forall fuel s, InvS s -> InvS (loop fuel s).
  Proof.
    intro Hself. induction fuel as [|f IH]; intros s HI; cbn [Model.Lookup.loop].
    - exact HI.
    - destruct (cand s) as [|c0 cl] eqn:Ec; [exact HI|]. rewrite <- Ec.
      destruct (pop_batch (best s) (queried s) (cand s) (queued s) []) as [[c' q'] batch] eqn:Ep.
      destruct (pop_batch_inv s c' q' batch HI Ep) as [HI0 [Hnd [Hb _]]].
      destruct batch as [|p batch]; [exact HI0|].
      apply IH. apply fold_process_inv; try assumption.
      cbn [queried]. intros x Hx. destruct (Hb x Hx). tauto.
  Qed.

  Lemma loop_sent_len fuel : forall s,
    (length (sent (loop fuel s)) <= length (sent s) + fuel * N.to_nat LK_ALPHA)%nat.
  Proof.
    induction fuel as [|f IH]; intro s; cbn [Model.Lookup.loop].
    - cbn [sent]. lia.
    - destruct (cand s) as [|c0 cl] eqn:Ec; [lia|]. rewrite <- Ec.
      destruct (pop_batch (best s) (queried s) (cand s) (queued s) []) as [[c' q'] batch] eqn:Ep.
      pose proof (pop_batch_len _ _ _ _ _ _ _ _ Ep) as Hl. cbn [length] in Hl.
      destruct batch as [|p batch]; [cbn [sent]; lia|].
      eapply Nat.le_trans; [apply IH|]. rewrite fold_process_sent_len. cbn [sent]. lia.
  Qed.

  (* ---------- the whole lookup: theorems 1-4 ---------- *)
  Lemma init_inv init : In self selfs_all -> NoDup init -> (forall p, In p init -> ~ In p selfs_all) ->
    InvS (init_state init).
  Proof.
    intros Hself Hnd Hi. split; cbn [Model.Lookup.init_state cand queued best queried sent].
    - constructor; [exact Hnd|apply incl_refl|apply incl_refl|exact Hi].
    - assert (Hin : forall p, In p (firstn count [self]) -> p = self).
      { intros p Hp. apply In_firstn in Hp. destruct Hp as [<-|[]]. reflexivity. }
      constructor.
      + constructor.
      + intros y [].
      + intros p Hp. left; exact Hp.
      + intros p [].
      + apply firstn_sorted. constructor; constructor.
      + apply firstn_le_length.
      + apply NoDup_firstn. constructor; [intros []|constructor].
      + intros p Hp. left. apply Hin, Hp.
      + intros p [[-> Hc]|[[] _]]. left. destruct count; [lia|]. cbn. left; reflexivity.
  Qed.

  Lemma lookup_inv init :
    NoDup init -> (forall p, In p init -> ~ In p selfs_all) ->
    incl selfs_marked selfs_all -> In self selfs_marked ->
    InvS (lookup init).
  Proof.
    intros Hnd Hi Hm Hs. unfold Model.Lookup.lookup.
    apply loop_inv; [apply Hm, Hs|]. apply init_inv; [apply Hm, Hs|assumption|assumption].
  Qed.

  Lemma lookup_request_bound init :
    (length (sent (lookup init)) <= N.to_nat LK_MAX_ITERATIONS * N.to_nat LK_ALPHA)%nat.
  Proof.
    unfold Model.Lookup.lookup. eapply Nat.le_trans; [apply loop_sent_len|].
    cbn [Model.Lookup.init_state sent length]. lia.
  Qed.

  Lemma lookup_no_self_no_dup init :
    NoDup init -> (forall p, In p init -> ~ In p selfs_all) ->
    incl selfs_marked selfs_all -> In self selfs_marked ->
    NoDup (sent (lookup init)) /\ forall p, In p (sent (lookup init)) -> ~ In p selfs_all.
  Proof.
    intros Hnd Hi Hm Hs. destruct (lookup_inv init Hnd Hi Hm Hs) as [_ HB].
    split; [apply (b_sent_nodup _ _ _ HB)|apply (b_sent_noself _ _ _ HB)].
  Qed.

  Lemma lookup_result_wf init :
    NoDup init -> (forall p, In p init -> ~ In p selfs_all) ->
    incl selfs_marked selfs_all -> In self selfs_marked ->
    let s := lookup init in
    (length (best s) <= count)%nat /\ NoDup (best s) /\
    StronglySorted (fun a b => dist a <= dist b) (best s) /\
    forall p, In p (best s) -> p = self \/ (In p (sent s) /\ reply p <> None).
  Proof.
    intros Hnd Hi Hm Hs. destruct (lookup_inv init Hnd Hi Hm Hs) as [_ HB]. cbv zeta.
    split; [apply (b_len _ _ _ HB)|]. split; [apply (b_nodup _ _ _ HB)|].
    split; [apply (b_sorted _ _ _ HB)|apply (b_src _ _ _ HB)].
  Qed.

  Lemma lookup_best_is_closest init :
    NoDup init -> (forall p, In p init -> ~ In p selfs_all) ->
    incl selfs_marked selfs_all -> In self selfs_marked ->
    let s := lookup init in
    forall p, (p = self /\ (0 < count)%nat) \/ (In p (sent s) /\ reply p <> None) ->
      In p (best s) \/
      (length (best s) = count /\ forall w, In w (best s) -> dist w <= dist p).
  Proof.
    intros Hnd Hi Hm Hs. destruct (lookup_inv init Hnd Hi Hm Hs) as [_ HB]. cbv zeta.
    exact (b_cov _ _ _ HB).
  Qed.

  (* ---------- completeness (theorem 5) ---------- *)

  (* where a peer the lookup has learned of can be: already queried, one of the local
     ids, still queued, dominated by the current best, or in the batch being processed *)
  Definition Cov (s : st) (extra : list pid) (p : pid) : Prop :=
    In p (queried s) \/ In p selfs_all \/ In p (cand s) \/ dom (best s) p \/ In p extra.

  Definition LInv (init : list pid) (s : st) (extra : list pid) : Prop :=
    forall x, In x (learned init (sent s)) -> Cov s extra x.

  Lemma consider_budget s n : budget_hit (consider s n) = false -> budget_hit s = false.
  Proof.
    unfold Model.Lookup.consider. repeat case_if; cbn [budget_hit]; intro H; try exact H; discriminate.
  Qed.

  Lemma fold_consider_budget nodes : forall s,
    budget_hit (fold_left consider nodes s) = false -> budget_hit s = false.
  Proof.
    induction nodes as [|n nodes IH]; intros s H; cbn [fold_left] in H; [exact H|].
    apply (consider_budget s n), IH, H.
  Qed.

  Lemma consider_cov s n extra x : InvS s -> budget_hit (consider s n) = false ->
    Cov s (n :: extra) x -> Cov (consider s n) extra x.
  Proof.
    intros [[Q1 Q2 Q3 Q4] HB] Hb Hc. unfold Cov in *.
    destruct (consider_fixed s n) as [G1 [G2 G3]]. rewrite G1, G2. clear G1 G2 G3.
    revert Hb. unfold Model.Lookup.consider.
    destruct (mem n (queried s) || mem n (queued s) || mem n selfs_all) eqn:E.
    - intros _. destruct Hc as [H|[H|[H|[H|[<-|H]]]]]; try tauto.
      apply orb_true_iff in E. destruct E as [E|E]; [apply orb_true_iff in E; destruct E as [E|E]|];
        apply mem_In in E.
      + left; exact E.
      + right; right; left. apply Q3, E.
      + right; left; exact E.
    - destruct (dominated (best s) n) eqn:Ed.
      + intros _. destruct Hc as [H|[H|[H|[H|[<-|H]]]]]; try tauto.
        right; right; right; left.
        apply dominated_dom; [apply (b_sorted _ _ _ HB)|apply (b_len _ _ _ HB)|exact Ed].
      + destruct (N.to_nat LK_MAX_CANDIDATE_NODES <=? length (cand s))%nat; cbn [budget_hit cand];
          [discriminate|]. intros _.
        destruct Hc as [H|[H|[H|[H|[<-|H]]]]]; try tauto.
        * right; right; left. apply in_or_app. left; exact H.
        * right; right; left. apply in_or_app. right; left; reflexivity.
  Qed.

  Lemma fold_consider_cov nodes : forall s extra x, InvS s ->
    budget_hit (fold_left consider nodes s) = false ->
    Cov s (nodes ++ extra) x -> Cov (fold_left consider nodes s) extra x.
  Proof.
    induction nodes as [|n nodes IH]; intros s extra x HI Hb Hc; cbn [fold_left app] in *; [exact Hc|].
    apply IH; [apply consider_inv; exact HI|exact Hb|].
    apply consider_cov; [exact HI|eapply fold_consider_budget; exact Hb|exact Hc].
  Qed.

  Lemma process_one_some s p nodes : reply p = Some nodes ->
    process_one s p =
    fold_left consider nodes
      (mkSt (firstn count (insert p (best s))) (cand s) (p :: queried s) (queued s) (p :: sent s) (budget_hit s)).
  Proof. intro E. unfold Model.Lookup.process_one. rewrite E. reflexivity. Qed.

  Lemma process_one_none s p : reply p = None ->
    process_one s p = mkSt (best s) (cand s) (p :: queried s) (queued s) (p :: sent s) (budget_hit s).
  Proof. intro E. unfold Model.Lookup.process_one. rewrite E. reflexivity. Qed.

  Lemma process_one_budget s p : budget_hit (process_one s p) = false -> budget_hit s = false.
  Proof.
    destruct (reply p) as [nodes|] eqn:E.
    - rewrite (process_one_some s p nodes E). intro H. apply fold_consider_budget in H. exact H.
    - rewrite (process_one_none s p E). intro H. exact H.
  Qed.

  Lemma fold_process_budget batch : forall s,
    budget_hit (fold_left process_one batch s) = false -> budget_hit s = false.
  Proof.
    induction batch as [|p batch IH]; intros s H; cbn [fold_left] in H; [exact H|].
    apply (process_one_budget s p), IH, H.
  Qed.

  Lemma learned_cons init p req x :
    In x (learned init (p :: req)) <->
    In x (learned init req) \/ exists l, reply p = Some l /\ In x l.
  Proof.
    unfold Model.Lookup.learned. cbn [flat_map]. rewrite !in_app_iff. split.
    - intros [H|[H|H]]; [left; left; exact H| |left; right; exact H].
      destruct (reply p) as [l|]; [right; exists l; split; [reflexivity|exact H]|destruct H].
    - intros [[H|H]|[l [E H]]]; [left; exact H|right; right; exact H|].
      right; left. rewrite E. exact H.
  Qed.

  Lemma process_one_linv init s p rest : In self selfs_all -> InvS s ->
    ~ In p (queried s) -> ~ In p selfs_all ->
    budget_hit (process_one s p) = false ->
    LInv init s (p :: rest) -> LInv init (process_one s p) rest.
  Proof.
    intros Hself [HQ HB] Hq Hs Hb HL x Hx.
    destruct (process_one_fixed s p) as [_ [_ G3]]. rewrite G3 in Hx. clear G3.
    apply learned_cons in Hx.
    destruct (reply p) as [nodes|] eqn:E.
    - rewrite (process_one_some s p nodes E) in *.
      apply fold_consider_cov; [|exact Hb|].
      + split; cbn [cand queued best queried sent]; [exact HQ|].
        pose proof (InvB_step _ _ _ p Hself HB Hq Hs) as H. rewrite E in H. exact H.
      + unfold Cov; cbn [cand queried best].
        destruct Hx as [Hx|[l [El Hx]]].
        * destruct (HL x Hx) as [H|[H|[H|[H|[<-|H]]]]].
          -- left; right; exact H.
          -- right; left; exact H.
          -- right; right; left; exact H.
          -- right; right; right; left. apply dom_step; exact H.
          -- left; left; reflexivity.
          -- right; right; right; right. apply in_or_app. right; exact H.
        * inv El. right; right; right; right. apply in_or_app. left; exact Hx.
    - rewrite (process_one_none s p E). unfold Cov; cbn [cand queried best].
      destruct Hx as [Hx|[l [El _]]]; [|discriminate].
      destruct (HL x Hx) as [H|[H|[H|[H|[<-|H]]]]]; try tauto.
      + left; right; exact H.
      + left; left; reflexivity.
  Qed.

  Lemma fold_process_linv init : In self selfs_all -> forall batch s, InvS s -> NoDup batch ->
    (forall x, In x batch -> ~ In x (queried s) /\ ~ In x selfs_all) ->
    budget_hit (fold_left process_one batch s) = false ->
    LInv init s batch -> LInv init (fold_left process_one batch s) [].
  Proof.
    intro Hself. induction batch as [|p batch IH]; intros s HI Hnd Hb Hbud HL; cbn [fold_left] in *; [exact HL|].
    inv Hnd. destruct (Hb p (or_introl eq_refl)) as [Hq Hs].
    apply IH; [apply process_one_inv; assumption|assumption| |exact Hbud|].
    - intros x Hx. destruct (process_one_fixed s p) as [_ [G2 _]]. rewrite G2.
      destruct (Hb x (or_intror Hx)) as [Hxq Hxs]. split; [|exact Hxs].
      intros [<-|Hin]; contradiction.
    - apply process_one_linv; try assumption. eapply fold_process_budget; exact Hbud.
  Qed.

  Lemma loop_budget fuel : forall s, budget_hit (loop fuel s) = false -> budget_hit s = false.
  Proof.
    induction fuel as [|f IH]; intro s; cbn [Model.Lookup.loop].
    - cbn [budget_hit]. intro H. apply orb_false_iff in H. tauto.
    - destruct (cand s) as [|c0 cl] eqn:Ec; [auto|]. rewrite <- Ec.
      destruct (pop_batch (best s) (queried s) (cand s) (queued s) []) as [[c' q'] batch].
      destruct batch as [|p batch]; [cbn [budget_hit]; auto|].
      intro H. apply IH, fold_process_budget in H. exact H.
  Qed.

  Lemma alpha_pos : (0 < N.to_nat LK_ALPHA)%nat.
  Proof. vm_compute. lia. Qed.

  Lemma loop_complete init : In self selfs_all -> forall fuel s, InvS s -> LInv init s [] ->
    budget_hit (loop fuel s) = false -> LInv init (loop fuel s) [] /\ cand (loop fuel s) = [].
  Proof.
    intro Hself. induction fuel as [|f IH]; intros s HI HL; cbn [Model.Lookup.loop].
    - cbn [budget_hit cand]. intro Hb. split; [exact HL|].
      destruct (cand s); [reflexivity|]. rewrite orb_true_r in Hb. discriminate.
    - destruct (cand s) as [|c0 cl] eqn:Ec; [intros _; split; [exact HL|exact Ec]|]. rewrite <- Ec.
      destruct (pop_batch (best s) (queried s) (cand s) (queued s) []) as [[c' q'] batch] eqn:Ep.
      destruct (pop_batch_inv s c' q' batch HI Ep) as [HI0 [Hnd [Hb [_ Hcov]]]].
      assert (HL0 : LInv init (mkSt (best s) c' (queried s) q' (sent s) (budget_hit s)) batch).
      { intros x Hx. cbn [sent] in Hx. unfold Cov; cbn [cand queried best].
        destruct (HL x Hx) as [H|[H|[H|[H|[]]]]]; try tauto.
        destruct (Hcov x H) as [G|[G|[G|G]]]; try tauto.
        right; right; right; left. destruct HI as [_ HB].
        apply dominated_dom; [apply (b_sorted _ _ _ HB)|apply (b_len _ _ _ HB)|exact G]. }
      destruct batch as [|p batch].
      + intros _. split; [exact HL0|]. cbn [cand]. eapply pop_batch_nil; [apply alpha_pos|exact Ep].
      + intro Hbud.
        assert (Hbq : forall x, In x (p :: batch) ->
                  ~ In x (queried (mkSt (best s) c' (queried s) q' (sent s) (budget_hit s))) /\ ~ In x selfs_all).
        { cbn [queried]. intros x Hx. destruct (Hb x Hx). tauto. }
        apply IH; [apply fold_process_inv; assumption| |exact Hbud].
        apply fold_process_linv; try assumption. eapply loop_budget; exact Hbud.
  Qed.

  Lemma lookup_complete init :
    NoDup init -> (forall p, In p init -> ~ In p selfs_all) ->
    incl selfs_marked selfs_all -> In self selfs_marked ->
    let s := lookup init in
    budget_hit s = false ->
    forall p, (In p init \/ exists q l, In q (sent s) /\ reply q = Some l /\ In p l) ->
      In p (sent s) \/ In p selfs_all \/
      (length (best s) = count /\ forall w, In w (best s) -> dist w <= dist p).
  Proof.
    intros Hnd Hi Hm Hs. cbv zeta. intros Hbud p Hp.
    pose proof (lookup_inv init Hnd Hi Hm Hs) as [_ HB].
    unfold Model.Lookup.lookup in *.
    destruct (loop_complete init (Hm _ Hs) (N.to_nat LK_MAX_ITERATIONS) (init_state init)) as [HL Hc].
    - apply init_inv; [apply Hm, Hs|assumption|assumption].
    - intros x Hx. unfold Model.Lookup.learned in Hx. cbn [Model.Lookup.init_state sent flat_map] in Hx.
      rewrite app_nil_r in Hx. right; right; left. exact Hx.
    - exact Hbud.
    - assert (Hl : In p (learned init (sent (loop (N.to_nat LK_MAX_ITERATIONS) (init_state init))))).
      { unfold Model.Lookup.learned. apply in_or_app. destruct Hp as [Hp|[q [l [Hq [El Hp]]]]]; [left; exact Hp|].
        right. apply in_flat_map. exists q. split; [exact Hq|]. rewrite El. exact Hp. }
      destruct (HL p Hl) as [H|[H|[H|[H|[]]]]].
      + destruct (b_queried_split _ _ _ HB p H) as [G|G]; [right; left; apply Hm, G|left; exact G].
      + right; left; exact H.
      + rewrite Hc in H. destruct H.
      + right; right. exact H.
  Qed.

  (* ---------- provenance: everything queued or queried lies in a reply-closed set ---------- *)
  Section Closed.
    Variable P : pid -> Prop.
    Hypothesis Pclosed : forall q l x, P q -> reply q = Some l -> In x l -> ~ In x selfs_all -> P x.

    Definition PInv (s : st) : Prop :=
      (forall p, In p (cand s) -> P p) /\ (forall p, In p (sent s) -> P p).

    Lemma consider_pinv s n : (~ In n selfs_all -> P n) -> PInv s -> PInv (consider s n).
    Proof.
      intros Hn [H1 H2]. destruct (consider_fixed s n) as [_ [_ G3]]. split; [|rewrite G3; exact H2].
      unfold Model.Lookup.consider.
      destruct (mem n (queried s) || mem n (queued s) || mem n selfs_all) eqn:E; [exact H1|].
      destruct (dominated (best s) n); [exact H1|].
      destruct (N.to_nat LK_MAX_CANDIDATE_NODES <=? length (cand s))%nat; cbn [cand]; [exact H1|].
      apply orb_false_iff in E. destruct E as [_ E]. apply mem_false in E.
      intros p Hp. apply in_app_or in Hp. destruct Hp as [Hp|[<-|[]]]; [apply H1, Hp|apply Hn, E].
    Qed.

    Lemma fold_consider_pinv nodes : forall s,
      (forall n, In n nodes -> ~ In n selfs_all -> P n) -> PInv s -> PInv (fold_left consider nodes s).
    Proof.
      induction nodes as [|n nodes IH]; intros s Hn H; cbn [fold_left]; [exact H|].
      apply IH; [intros m Hm; apply Hn; right; exact Hm|].
      apply consider_pinv; [apply Hn; left; reflexivity|exact H].
    Qed.

    Lemma process_one_pinv s p : P p -> PInv s -> PInv (process_one s p).
    Proof.
      intros Hp [H1 H2].
      assert (H2' : forall y, In y (p :: sent s) -> P y) by (intros y [<-|Hy]; auto).
      destruct (reply p) as [nodes|] eqn:E.
      - rewrite (process_one_some s p nodes E). apply fold_consider_pinv.
        + intros n Hn Hs. exact (Pclosed p nodes n Hp E Hn Hs).
        + split; cbn [cand sent]; assumption.
      - rewrite (process_one_none s p E). split; cbn [cand sent]; assumption.
    Qed.

    Lemma fold_process_pinv batch : forall s,
      (forall p, In p batch -> P p) -> PInv s -> PInv (fold_left process_one batch s).
    Proof.
      induction batch as [|p batch IH]; intros s Hb H; cbn [fold_left]; [exact H|].
      apply IH; [intros m Hm; apply Hb; right; exact Hm|].
      apply process_one_pinv; [apply Hb; left; reflexivity|exact H].
    Qed.

    Lemma loop_pinv fuel : forall s, PInv s -> PInv (loop fuel s).
    Proof.
      induction fuel as [|f IH]; intros s H; cbn [Model.Lookup.loop]; [exact H|].
      destruct (cand s) as [|c0 cl] eqn:Ec; [exact H|]. rewrite <- Ec.
      destruct (pop_batch (best s) (queried s) (cand s) (queued s) []) as [[c' q'] batch] eqn:Ep.
      apply pop_batch_spec in Ep. destruct Ep as [pre [E1 [_ E3]]]. cbn [app] in E3.
      destruct H as [H1 H2].
      assert (H0 : PInv (mkSt (best s) c' (queried s) q' (sent s) (budget_hit s))).
      { split; cbn [cand sent]; [|exact H2]. intros y Hy. apply H1. rewrite E1. apply in_or_app. right; exact Hy. }
      destruct batch as [|p batch]; [exact H0|].
      apply IH, fold_process_pinv; [|exact H0].
      intros y Hy. rewrite E3 in Hy. apply filter_In in Hy. destruct Hy as [Hy _].
      apply H1. rewrite E1. apply in_or_app. left; exact Hy.
    Qed.
  End Closed.

  (* ---------- full mesh (theorem 6) ---------- *)
  Lemma all_or_exists {A} (Q R : A -> Prop) l :
    (forall m, In m l -> Q m \/ R m) -> (forall m, In m l -> Q m) \/ exists m, In m l /\ R m.
  Proof.
    induction l as [|a l IH]; intro H; [left; intros m []|].
    destruct (H a (or_introl eq_refl)) as [Ha|Ha]; [|right; exists a; split; [left; reflexivity|exact Ha]].
    destruct IH as [IH|[m [Hm HR]]].
    - intros m Hm. apply H. right; exact Hm.
    - left. intros m [<-|Hm]; [exact Ha|apply IH, Hm].
    - right. exists m. split; [right; exact Hm|exact HR].
  Qed.

  Lemma lookup_full_mesh init U :
    NoDup init ->
    incl selfs_marked selfs_all -> In self selfs_marked ->
    (forall u, In u U -> ~ In u selfs_all) ->
    incl init U ->
    (forall u m, In u U -> ~ In u init -> In m init -> dist m <= dist u) ->
    length init = Nat.min count (length U) ->
    (forall u, In u U -> exists l, reply u = Some l /\ forall x, In x l -> In x U \/ In x selfs_all) ->
    let s := lookup init in
    budget_hit s = false ->
    (forall w, In w (best s) -> In w (self :: U)) /\
    (forall x, In x (self :: U) ->
       In x (best s) \/
       (length (best s) = count /\ forall w, In w (best s) -> dist w <= dist x)).
  Proof.
    intros Hnd Hm Hs HU Hincl Hfar Hlen Hans. cbv zeta. intro Hbud.
    assert (Hi : forall p, In p init -> ~ In p selfs_all) by (intros p Hp; apply HU, Hincl, Hp).
    pose proof (lookup_result_wf init Hnd Hi Hm Hs) as Hwf. cbv zeta in Hwf.
    destruct Hwf as [Hbl [Hbnd [_ Hsrc]]].
    pose proof (lookup_best_is_closest init Hnd Hi Hm Hs) as Hclo. cbv zeta in Hclo.
    pose proof (lookup_complete init Hnd Hi Hm Hs Hbud) as Hcomp.
    set (s := lookup init) in *.
    assert (Hanswer : forall u, In u U -> reply u <> None).
    { intros u Hu. destruct (Hans u Hu) as [l [E _]]. congruence. }
    split.
    - (* members *)
      assert (HP : PInv (fun p => In p U) s).
      { unfold s, Model.Lookup.lookup. apply loop_pinv.
        - intros q l x Hq E Hx Hns. destruct (Hans q Hq) as [l' [E' Hl']].
          rewrite E in E'. inv E'. destruct (Hl' x Hx); [assumption|contradiction].
        - split; cbn [Model.Lookup.init_state cand sent]; [exact Hincl|intros p []]. }
      intros w Hw. destruct (Hsrc w Hw) as [->|[Hin _]]; [left; reflexivity|].
      right. apply (proj2 HP), Hin.
    - (* closest *)
      assert (Hinit_cov : forall m, In m init -> In m (best s) \/ dom (best s) m).
      { intros m Hmi. destruct (Hcomp m (or_introl Hmi)) as [H|[H|H]].
        - apply Hclo. right. split; [exact H|apply Hanswer, Hincl, Hmi].
        - exfalso. exact (Hi m Hmi H).
        - right. exact H. }
      intros x [<-|Hx].
      + destruct count as [|k] eqn:Ek.
        * right. split; [lia|]. destruct (best s); [intros w []|cbn [length] in Hbl; lia].
        * apply Hclo. left. split; [reflexivity|lia].
      + destruct (in_dec N.eq_dec x init) as [Hxi|Hxi]; [apply Hinit_cov, Hxi|].
        right.
        assert (Hlc : length init = count).
        { assert (Hl : (length (x :: init) <= length U)%nat).
          { apply NoDup_incl_length; [constructor; assumption|].
            intros y [<-|Hy]; [exact Hx|apply Hincl, Hy]. }
          cbn [length] in Hl. lia. }
        destruct (all_or_exists _ _ init Hinit_cov) as [Hall|[m [Hmi [Hdl Hdw]]]].
        * assert (Hbi : incl (best s) init) by (apply NoDup_length_incl; [exact Hnd|lia|exact Hall]).
          split.
          -- pose proof (NoDup_incl_length Hnd Hall). lia.
          -- intros w Hw. apply Hfar; [exact Hx|exact Hxi|apply Hbi, Hw].
        * split; [exact Hdl|]. intros w Hw.
          pose proof (Hdw w Hw). pose proof (Hfar x m Hx Hxi Hmi). lia.
  Qed.

  (* ---------- the executable specification holds of the model's own run ---------- *)
  Lemma nodupb_NoDup l : NoDup l -> nodupb l = true.
  Proof.
    induction 1 as [|x l Hx Hl IH]; cbn [nodupb]; [reflexivity|].
    apply andb_true_iff; split; [|exact IH]. apply negb_true_iff, mem_false. exact Hx.
  Qed.

  Lemma sorted_by_dist_true l : SortedD l -> sorted_by_dist keyof target l = true.
  Proof.
    induction l as [|x l IH]; intro H; [reflexivity|].
    apply StronglySorted_inv in H. destruct H as [Hs Hf].
    destruct l as [|y l']; [reflexivity|].
    change (sorted_by_dist keyof target (x :: y :: l'))
      with ((dist x <=? dist y) && sorted_by_dist keyof target (y :: l')).
    apply andb_true_iff; split; [|apply IH, Hs].
    rewrite Forall_forall in Hf. specialize (Hf y (or_introl eq_refl)). unfold le_d in Hf. lia.
  Qed.

  Lemma last_some (b : list pid) : b <> [] -> exists w, last (map Some b) None = Some w /\ In w b.
  Proof.
    induction b as [|a b IH]; [congruence|]. intros _. destruct b as [|c b].
    - exists a. split; [reflexivity|left; reflexivity].
    - destruct IH as [w [H1 H2]]; [discriminate|]. exists w. split; [|right; exact H2].
      change (last (map Some (c :: b)) None = Some w). exact H1.
  Qed.

  Lemma dom_bool b x : (0 < count)%nat -> dom b x ->
    ((count <=? length b)%nat &&
     match last (map Some b) None with Some w => dist w <=? dist x | None => false end) = true.
  Proof.
    intros Hc [Hl Hw]. apply andb_true_iff; split; [apply Nat.leb_le; lia|].
    destruct (last_some b) as [w [E Hin]].
    - destruct b; [cbn [length] in Hl; lia|discriminate].
    - rewrite E. apply N.leb_le, Hw, Hin.
  Qed.

  Lemma lookup_spec_ok init : (0 < count)%nat ->
    NoDup init -> (forall p, In p init -> ~ In p selfs_all) ->
    incl selfs_marked selfs_all -> In self selfs_marked ->
    let s := lookup init in
    spec_ok keyof reply self selfs_all target count init (sent s) (best s) (budget_hit s) = true.
  Proof.
    intros Hc Hnd Hi Hm Hs. cbv zeta.
    pose proof (lookup_request_bound init) as T1.
    pose proof (lookup_no_self_no_dup init Hnd Hi Hm Hs) as [T2a T2b].
    pose proof (lookup_result_wf init Hnd Hi Hm Hs) as T3. cbv zeta in T3.
    destruct T3 as [T3a [T3b [T3c T3d]]].
    pose proof (lookup_best_is_closest init Hnd Hi Hm Hs) as T4. cbv zeta in T4.
    pose proof (lookup_complete init Hnd Hi Hm Hs) as T5. cbv zeta in T5.
    set (s := lookup init) in *. unfold Model.Lookup.spec_ok.
    repeat match goal with |- (_ && _) = true => apply andb_true_iff; split end.
    - apply Nat.leb_le. rewrite N2Nat.inj_mul. exact T1.
    - apply nodupb_NoDup, T2a.
    - apply forallb_forall. intros p Hp. apply negb_true_iff, mem_false, T2b, Hp.
    - apply Nat.leb_le, T3a.
    - apply nodupb_NoDup, T3b.
    - apply sorted_by_dist_true, T3c.
    - apply forallb_forall. intros p Hp. apply orb_true_iff.
      destruct (T3d p Hp) as [->|[H1 H2]]; [left; apply N.eqb_refl|right].
      apply andb_true_iff; split; [apply mem_In, H1|].
      unfold Model.Lookup.answered. destruct (reply p); [reflexivity|congruence].
    - apply forallb_forall. intros p Hp. unfold Model.Lookup.answered.
      destruct (reply p) eqn:E; [|reflexivity]. cbn [negb orb].
      destruct (T4 p) as [H|H]; [right; split; [exact Hp|congruence]| |].
      + apply mem_In in H. rewrite H. reflexivity.
      + rewrite (dom_bool _ _ Hc H). apply orb_true_r.
    - destruct (T4 self) as [H|H]; [left; split; [reflexivity|exact Hc]| |].
      + apply mem_In in H. rewrite H. apply orb_true_iff. left. apply orb_true_r.
      + rewrite (dom_bool _ _ Hc H). apply orb_true_r.
    - destruct (budget_hit s) eqn:Eb; [reflexivity|]. cbn [orb].
      apply forallb_forall. intros p Hp.
      assert (Hp' : In p init \/ exists q l, In q (sent s) /\ reply q = Some l /\ In p l).
      { unfold Model.Lookup.learned in Hp. apply in_app_or in Hp. destruct Hp as [Hp|Hp]; [left; exact Hp|].
        right. apply in_flat_map in Hp. destruct Hp as [q [Hq Hp]].
        destruct (reply q) as [l|] eqn:E; [|destruct Hp]. exists q, l. auto. }
      destruct (T5 eq_refl p Hp') as [H|[H|H]].
      + apply mem_In in H. rewrite H. reflexivity.
      + apply mem_In in H. rewrite H. apply orb_true_iff. left. apply orb_true_r.
      + rewrite (dom_bool _ _ Hc H). apply orb_true_r.
  Qed.

End LookupProofs.

(* [spec_ok] has no count = 0 escape in its "closest among the answering peers" clause *)
Lemma spec_ok_count0_refuted : exists keyof reply self selfs_marked selfs_all target init,
  NoDup init /\ (forall p, In p init -> ~ In p selfs_all) /\
  incl selfs_marked selfs_all /\ In self selfs_marked /\
  let s := lookup keyof reply self selfs_marked selfs_all target 0%nat init in
  spec_ok keyof reply self selfs_all target 0%nat init (sent s) (best s) (budget_hit s) = false.
Proof.
  exists (fun p => p), (fun _ => Some []), 0, [0], [0], 0, [1].
  split; [repeat constructor; intros []|].
  split; [intros p [<-|[]] [H|[]]; discriminate|].
  split; [apply incl_refl|]. split; [left; reflexivity|]. vm_compute. reflexivity.
Qed.

Lemma example_hyps :
  NoDup [3;4] /\ (forall p, In p [3;4] -> ~ In p [0;100]) /\ incl [0;100] [0;100] /\ In 0 [0;100].
Proof.
  split; [repeat constructor; cbn; intuition discriminate|].
  split; [cbn; intuition (subst; discriminate)|]. split; [apply incl_refl|left; reflexivity].
Qed.
